"""C19 -- a node whose clock could be off by >= the election timeout refuses to join.

Specification: spec/TimeGuard.tla (design), TimeGuardMC.tla (TLC root: grids, dump),
TimeGuard_proof.tla (TLAPS, unbounded), TimeGuardApa.tla (Apalache cross-check),
TimeGuardTrace.tla (validation of decisions recorded from the real code).
Harness: harness/timesafeguard/c19_test.go (in-package overlay).

Stages of run(ctx)
  1. TLC exhaustive on the grid (+ the vacuity configuration, which must fail).
  2. TLAPS: the soundness lemma/theorems for ALL integers; Apalache re-checks the lemma.
  3. model -> code: every finished call TLC enumerates (dump configurations) is
     replayed on the real synchronizedWithNetwork, both flag settings.
  4. code -> model: the recorded real decisions (grid + +-1 ns threshold cases +
     seeded lattice cases) are validated by TLC against TimeGuardTrace; the
     PROPERTY predicates judge, model equality is DRIFT only.
  5. bulk: 10^5 / 10^7 seeded nanosecond-resolution cases judged with exact
     arithmetic (Go math/big; every written record re-judged here).
  6. the exported entry points main() calls, against HTTPS peers with shifted
     clocks / dead peers / peers answering without a time; the two call sites in
     main() on the real binary (restart with known peers, -join) with fake peers.

Verdicts: a VIOLATION only when a property predicate (sound / names / disabled /
non-answering) is false on a decision of the real code; TimeGuard!Decision vs
code mismatches with all predicates true are DRIFT; everything else exit 2.

Defect on the pinned tree (F17, proposed_fixes/F17-timesafeguard-duration-overflow.diff):
worstCaseDrift wraps around for clocks more than ~292 years apart (time.Time.Sub
saturates, `-drift` of the minimum and `drift + roundtrip` overflow to a negative
value) and the peer counts as in sync; signatures c19/sound/duration-overflow and
c19/names/duration-overflow.  TimeGuard.tla models the intended (unbounded) arithmetic.
"""
import concurrent.futures
import json
import os
import random
import re
import threading

import vlib

LEVEL = "proof"

ET_NS = 2_000_000_000            # the property's 2 s
BASE_NS = 1767225600 * 10**9     # harness: local clock for start = 0
MAXDUR = 2**63 - 1               # largest time.Duration
GRID_UNIT = 500_000_000          # 500 ms: ET = 4 units
PKG = "./internal/timesafeguard"


# --------------------------------------------------------------------------- cases

_LOCK = threading.Lock()


def count_states(ctx, distinct, generated):
    with _LOCK:
        ctx.cov["states"] = ctx.cov.get("states", 0) + distinct
        ctx.cov["transitions"] = ctx.cov.get("transitions", 0) + generated
        ctx.cov["tlc_runs"] = ctx.cov.get("tlc_runs", 0) + 1


def jtmp(ctx):
    """Keep the JVM's temporary files (TLC unpacks modules there) inside the scratch dir."""
    return ["-Djava.io.tmpdir=" + ctx.sub("jtmp")]


def parse_dump(out):
    """C19CASE lines printed by TimeGuardMC!DumpFinished -> list of model calls."""
    res = []
    for line in out.splitlines():
        line = line.strip()
        if not line.startswith('"C19CASE '):
            continue
        rec = json.loads(json.loads(line)[len("C19CASE "):])
        res.append(rec)
    return res


def grid_cases(ctx, cfg, kind):
    r = ctx.tlc_must_pass("TimeGuardMC", cfg=cfg, workers=1, timeout=300, deadlock=False, name="tlc-" + kind, jvm=jtmp(ctx))
    count_states(ctx, r.distinct, r.generated)
    calls = parse_dump(r.out)
    if not calls:
        raise vlib.Inconclusive("no C19CASE lines in the TLC dump (%s)" % cfg)
    cases = []
    for c in calls:
        cases.append({
            "kind": kind, "flag": c["flag"], "unit_ns": GRID_UNIT, "et": 4,
            "meas": [{"zero": m["zero"], "start": m["start"], "delta": m["delta"], "d1": m["d1"], "d2": m["d2"]}
                     for m in c["meas"]],
            "model": {"verdict": c["verdict"], "named": sorted(c["named"])},
        })
    return cases


ZERO = {"zero": True, "start": 0, "delta": 0, "d1": 0, "d2": 0}


def threshold_cases():
    """+-1 ns around the decision threshold and around |delta| = 2 s (unit = 1 ns)."""
    cases = []
    et = ET_NS
    healthy = {"zero": False, "start": 5, "delta": -7, "d1": 1000, "d2": 2000}
    for sgn in (1, -1):
        for d1, d2 in ((0, 0), (1, 0), (0, 1), (1000, 2000), (50_000_000, 50_000_000), (300_000_000, 100_000_000)):
            for eps in (-2, -1, 0, 1, 2):
                a = et + eps - 2 * d1 - d2       # |d1 + delta| so that the drift is et + eps
                if a < 0:
                    continue
                delta = sgn * a - d1
                peer = {"zero": False, "start": 0, "delta": delta, "d1": d1, "d2": d2}
                for flag in (False, True):
                    cases.append({"kind": "threshold", "flag": flag, "unit_ns": 1, "et": et, "meas": [peer]})
                    cases.append({"kind": "threshold", "flag": flag, "unit_ns": 1, "et": et,
                                  "meas": [healthy, dict(ZERO) if eps % 2 else dict(ZERO, noresult=True, start=3, d1=10, d2=20), peer]})
                    cases.append({"kind": "threshold", "flag": flag, "unit_ns": 1, "et": et,
                                  "meas": [peer, healthy]})
        # true offset exactly around 2 s with the smallest possible measurement
        for eps in (-1, 0, 1):
            for d1 in (0, 1):
                peer = {"zero": False, "start": 0, "delta": sgn * (et + eps), "d1": d1, "d2": 0}
                cases.append({"kind": "threshold", "flag": False, "unit_ns": 1, "et": et, "meas": [peer]})
    return cases


def lattice_cases(rng, n_ms, n_h):
    """Seeded random calls on a 1 ms lattice (et = 2000) and on a 1 h lattice
    (et = 1: k hours < 2 s  <=>  k < 1), small enough for TLC's 32-bit integers,
    the hour lattice reaching offsets of thousands of years."""
    cases = []

    def peers(gen):
        k = rng.randint(1, 3)
        ms = []
        for _ in range(k):
            if rng.random() < 0.2:
                if rng.random() < 0.5:
                    ms.append(dict(ZERO))
                else:     # reached, but the answer carried no time: Start/End set, Result zero
                    ms.append(dict(ZERO, noresult=True, start=rng.randint(0, 50), d1=rng.randint(0, 3), d2=rng.randint(0, 3)))
            else:
                ms.append(gen())
        return ms

    def gen_ms():
        et = 2000
        d1 = rng.choice([0, 0, rng.randint(0, 50), rng.randint(0, 1500)])
        d2 = rng.choice([0, 0, rng.randint(0, 50), rng.randint(0, 3000)])
        u = rng.random()
        if u < 0.35:      # aim at the decision boundary
            d1 = rng.randint(0, et // 2)
            room = et - 2 * d1
            a = rng.randint(0, room)
            d2 = max(0, room - a + rng.randint(-2, 2))
            delta = rng.choice([1, -1]) * a - d1
        elif u < 0.6:     # true offset around 2 s
            delta = rng.choice([1, -1]) * (et + rng.randint(-3, 3))
        elif u < 0.9:
            delta = rng.randint(-3 * et, 3 * et)
        else:
            delta = rng.randint(-10**8, 10**8)          # up to ~ 28 hours
        return {"zero": False, "start": rng.randint(0, 1000), "delta": delta, "d1": d1, "d2": d2}

    two63_h = 2**63 // 3_600_000_000_000       # 2562047 h: time.Duration ends here

    def gen_h():
        d1 = rng.choice([0, 0, 0, 1, 2, 1000])
        d2 = rng.choice([0, 0, 0, 1, 3, 1000])
        u = rng.random()
        if u < 0.35:
            delta = 0
        elif u < 0.5:
            delta = rng.randint(-3, 3)
        elif u < 0.65:
            delta = rng.choice([1, -1]) * (two63_h + rng.randint(-3, 3))
        elif u < 0.8:
            delta = rng.randint(-two63_h, two63_h)
        else:
            # anything a peer can report in JSON: years 0001 .. 9999 (local clock: 2026)
            delta = rng.randint(-2025 * 8766 + 10000, 7970 * 8766 - 10000)
        return {"zero": False, "start": rng.randint(0, 100), "delta": delta, "d1": d1, "d2": d2}

    for _ in range(n_ms):
        cases.append({"kind": "lattice-ms", "flag": rng.random() < 0.3, "unit_ns": 1_000_000, "et": 2000,
                      "meas": peers(gen_ms)})
    for _ in range(n_h):
        cases.append({"kind": "lattice-h", "flag": rng.random() < 0.3, "unit_ns": 3_600_000_000_000, "et": 1,
                      "meas": peers(gen_h)})
    return cases


# --------------------------------------------------------------------------- the judge

def ns(pair):
    return pair[0] * 10**9 + pair[1]


def exact_peers_from_units(case):
    """Exact (python int, ns) view of the measurements a unit-based case stands for."""
    u = case["unit_ns"]
    res = []
    for m in case["meas"]:
        if m["zero"]:
            res.append({"zero": True})
            continue
        s = BASE_NS + m["start"] * u
        res.append({"zero": False, "S": s, "E": s + (m["d1"] + m["d2"]) * u, "R": s + (m["d1"] + m["delta"]) * u,
                    "delta": m["delta"] * u})
    return res


def exact_peers_from_raw(raw):
    res = []
    for m in raw:
        if m["zero"]:
            res.append({"zero": True})
            continue
        s = ns(m["s"])
        d = int(m["delta_ns"])
        res.append({"zero": False, "S": s, "E": s + m["d1_ns"] + m["d2_ns"], "R": s + m["d1_ns"] + d, "delta": d})
    return res


def check_echo(peers, echoed, what):
    """The harness must have given the real code exactly the measurement we think."""
    if len(peers) != len(echoed):
        raise vlib.Inconclusive("harness echo: peer count differs (%s)" % what)
    for p, e in zip(peers, echoed):
        if p["zero"] != e["zero"]:
            raise vlib.Inconclusive("harness echo: zero flag differs (%s)" % what)
        if p["zero"]:
            continue
        if (p["S"], p["E"], p["R"]) != (ns(e["s"]), ns(e["e"]), ns(e["r"])):
            raise vlib.Inconclusive("harness echo: measurement differs from the inputs (%s): %r vs %r" % (what, p, e))


def measured_drift(p):
    return abs(p["R"] - p["S"]) + (p["E"] - p["S"])


def overflowing(p):
    """The intended arithmetic leaves the range of time.Duration for this measurement."""
    return abs(p["R"] - p["S"]) > MAXDUR or measured_drift(p) > MAXDUR


def judge(peers, flag, full, ans):
    """The property predicates on one real decision.  Returns (violations, model) where
    violations is a list of (signature, text) and model the model's decision."""
    viol = []
    answering = [i for i, p in enumerate(peers) if not p["zero"]]
    true_bad = [i for i in answering if abs(peers[i]["delta"]) >= ET_NS]
    meas_bad = [i for i in answering if measured_drift(peers[i]) >= ET_NS]
    exp_named = [i + 1 for i in meas_bad]
    model = {"verdict": "refuse" if (meas_bad and not flag) else "join", "named": exp_named if meas_bad else []}
    v = full["verdict"]
    if v not in ("join", "refuse"):
        viol.append(("panic", "the time check panicked: %s" % full.get("err", "")))
        return viol, model

    def cls(idxs):
        return "duration-overflow" if idxs and all(overflowing(peers[i]) for i in idxs) else "in-range"

    if v == "join" and not flag and true_bad:
        viol.append(("sound/" + cls(true_bad),
                     "joined with the safeguard active although answering peer(s) %s have a true clock offset >= 2 s (%s ns)" % (
                         [i + 1 for i in true_bad], [peers[i]["delta"] for i in true_bad])))
    if v == "refuse":
        if flag:
            viol.append(("disabled-refuses", "refused although -disable_timesafeguard is set"))
        named = sorted(full["named"])
        if named != exp_named or not named:
            diff = sorted(set(x - 1 for x in named if x >= 1) ^ set(meas_bad))
            viol.append(("names/" + cls([i for i in diff if 0 <= i < len(peers) and not peers[i]["zero"]]),
                         "the refusal names slots %s, the peers whose measured drift is >= 2 s are %s" % (named, exp_named)))
    if ans is not None:
        if ans["verdict"] != v or (v == "refuse" and sorted(ans["named"]) != sorted(full["named"])):
            viol.append(("non-answering-changes-decision",
                         "with the non-answering slots: %s naming %s; without them: %s naming %s" % (
                             v, full["named"], ans["verdict"], ans["named"])))
        if any((x < 1 or x > len(peers) or peers[x - 1]["zero"]) for x in full["named"]):
            viol.append(("non-answering-named", "a slot that did not answer (or nobody) is named: %s" % full["named"]))
    return viol, model


# --------------------------------------------------------------------------- TLC trace

def trace_record(case, out):
    """One TimeGuardTrace record from a unit-based case and the real outcome."""
    meas = []
    for m in case["meas"]:
        if m["zero"]:
            meas.append({"zero": True, "start": 0, "end": 0, "result": 0, "delta": 0})
        else:
            meas.append({"zero": False, "start": m["start"], "end": m["start"] + m["d1"] + m["d2"],
                         "result": m["start"] + m["d1"] + m["delta"], "delta": m["delta"]})
    return {"id": case["id"], "flag": case["flag"], "et": case["et"], "meas": meas,
            "verdict": out["full"]["verdict"], "named": out["full"]["named"],
            "verdict2": out["answered"]["verdict"], "named2": out["answered"]["named"]}


def fits_tlc(rec):
    lim = 2**31 - 1
    for m in rec["meas"]:
        vals = [m["start"], m["end"], m["result"], m["delta"],
                abs(m["result"] - m["start"]) + (m["end"] - m["start"]),
                m["result"] - m["start"] - m["delta"]]
        if any(abs(x) >= lim for x in vals):
            return False
    return True


def run_trace(ctx, recs, name, expect_violations=0):
    """TLC on TimeGuardTrace.  Returns dict(consumed, total, drift_ids, violated, last_id, out)."""
    text = "".join(json.dumps(r, sort_keys=True, separators=(",", ":")) + "\n" for r in recs)
    extra = ["-continue"] if expect_violations else []
    r = ctx.tlc("TimeGuardTrace", cfg="TimeGuardTrace.cfg", workers=1, timeout=900, deadlock=False,
                files={"trace.ndjson": text}, name="trace-" + name, extra=extra, jvm=jtmp(ctx))
    count_states(ctx, r.distinct, r.generated)
    if r.timed_out or (r.error and not r.invariant_violated and "C19TRACE" not in r.out):
        raise vlib.Inconclusive("TLC failed on trace %s: rc=%s\n%s" % (name, r.rc, "\n".join(r.out.splitlines()[-30:])))
    m = re.search(r'<<"C19TRACE", (\d+), (\d+), (\d+)>>', r.out)
    res = {"consumed": int(m.group(1)) if m else 0, "total": int(m.group(2)) if m else len(recs),
           "drifts": int(m.group(3)) if m else 0,
           "drift_ids": [int(x) for x in re.findall(r'<<"C19DRIFTAT", (\d+)>>', r.out)],
           "violated": re.findall(r"Invariant (\S+) is violated", r.out),
           "states": r.distinct, "generated": r.generated, "out": r.out}
    return res


# --------------------------------------------------------------------------- proof tools

def run_tlapm(ctx):
    work = ctx.sub("tlapm")
    for f in ("TimeGuard.tla", "TimeGuard_proof.tla"):
        with open(os.path.join(vlib.SPEC, f)) as fh, open(os.path.join(work, f), "w") as out:
            out.write(fh.read())
    cmd = ["timeout", "600", "tlapm", "--cleanfp", "--threads", "4", "TimeGuard_proof.tla"]
    rc, out, to = vlib.run(cmd, cwd=work, timeout=630, env=dict(os.environ, TLAPM_CACHE_DIR=os.path.join(work, "cache"), TMPDIR=work))
    m_ok = re.search(r"All (\d+) obligations? proved", out)
    m_bad = re.search(r"(\d+)/(\d+) obligations? failed", out)
    if m_ok:
        n = int(m_ok.group(1))
        return n, n, " ".join(cmd[2:])
    if m_bad:
        raise vlib.Inconclusive("TLAPS: %s of %s obligations of TimeGuard_proof failed (design-level problem, not a verdict on the code)\n%s"
                                % (m_bad.group(1), m_bad.group(2), out[-2000:]))
    raise vlib.Inconclusive("tlapm did not finish (rc=%s timed_out=%s)\n%s" % (rc, to, out[-2000:]))


def run_apalache(ctx, inv, expect_holds):
    work = ctx.sub("apalache-" + inv)
    with open(os.path.join(vlib.SPEC, "TimeGuardApa.tla")) as fh, open(os.path.join(work, "TimeGuardApa.tla"), "w") as out:
        out.write(fh.read())
    cmd = ["timeout", "600", "apalache-mc", "check", "--length=0", "--inv=" + inv,
           "--out-dir=" + os.path.join(work, "out"), "--run-dir=" + os.path.join(work, "run"), "TimeGuardApa.tla"]
    env = dict(os.environ, TMPDIR=work, JVM_ARGS="-Djava.io.tmpdir=" + work)
    rc, out, to = vlib.run(cmd, cwd=work, timeout=630, env=env)
    holds = "The outcome is: NoError" in out
    refuted = "The outcome is: Error" in out and "invariant 0 violated" in out
    if to or not (holds or refuted):
        raise vlib.Inconclusive("apalache did not decide %s (rc=%s)\n%s" % (inv, rc, out[-2000:]))
    if holds != expect_holds:
        raise vlib.Inconclusive("apalache: %s expected to %s but it %s (design-level problem)" % (
            inv, "hold" if expect_holds else "be refuted", "holds" if holds else "is refuted"))
    return " ".join(cmd[2:])


# --------------------------------------------------------------------------- call sites

def call_site_shape(ctx):
    """Source-level shape of the two call sites in robustirc.go (behaviour of the
    functions they call is tested by TestVerifC19Net, the call sites themselves by
    TestVerifC19Main on the real binary).  Informational only."""
    path = os.path.join(vlib.REPO, "robustirc.go")
    try:
        src = open(path).read()
    except OSError as ex:
        raise vlib.Inconclusive("cannot read %s: %s" % (path, ex))
    src = re.sub(r"//[^\n]*", "", src)
    guard = r"if\s+err\s*:=\s*timesafeguard\.%s\(([^\n]*)\)\s*;\s*err\s*!=\s*nil\s*\{\s*log\.Fatal\w*\(err"
    m1 = re.search(guard % "SynchronizedWithNetwork", src)
    m2 = re.search(guard % "SynchronizedWithMasterAndNetwork", src)
    p_raft = src.find("raft.NewRaft(")
    m_join = re.search(r"\n\s*joinMaster\(\*join\)", src)
    probs = []
    if not m1:
        probs.append("no `if err := timesafeguard.SynchronizedWithNetwork(...); err != nil { log.Fatal...` found")
    elif p_raft < 0 or m1.start() > p_raft:
        probs.append("SynchronizedWithNetwork is not called before raft.NewRaft")
    elif "*peerAddr" not in m1.group(1) or "addrs" not in m1.group(1):
        probs.append("SynchronizedWithNetwork is not called with (*peerAddr, addrs, ...)")
    if not m2:
        probs.append("no `if err := timesafeguard.SynchronizedWithMasterAndNetwork(...); err != nil { log.Fatal...` found")
    elif not m_join or m2.start() > m_join.start():
        probs.append("SynchronizedWithMasterAndNetwork is not called before joinMaster(*join)")
    elif "*peerAddr" not in m2.group(1) or "*join" not in m2.group(1):
        probs.append("SynchronizedWithMasterAndNetwork is not called with (*peerAddr, *join, ...)")
    calls = re.findall(r"\bjoinMaster\(([^)]*)\)", src)
    if sorted(calls) != sorted(["addr string", "u.Host", "*join"]):   # definition, redirect recursion, main()
        probs.append("joinMaster is called from an unexpected place: %s" % calls)
    if not re.search(r"config\.ElectionTimeout\s*=\s*timesafeguard\.ElectionTimeout", src):
        probs.append("raft's ElectionTimeout is no longer set from timesafeguard.ElectionTimeout")
    if probs:
        # behaviour of the call sites is judged by the real-binary runs (judge_main); this is only a pointer for the reader
        ctx.note("robustirc.go: call sites of the time safeguard have an unrecognised shape: " + "; ".join(probs))
        ctx.cov["call_site_shape"] = "unrecognised: " + "; ".join(probs)
        return
    ctx.cov["call_site_shape"] = "recognised: SynchronizedWithNetwork before raft.NewRaft, SynchronizedWithMasterAndNetwork before joinMaster, both log.Fatal on error"


# --------------------------------------------------------------------------- reporting

class Reporter:
    """At most `per_sig` VIOLATION files per signature; everything is counted."""

    def __init__(self, ctx, per_sig=2):
        self.ctx = ctx
        self.per_sig = per_sig
        self.counts = {}

    def violation(self, sig, what, replay):
        n = self.counts.get(sig, 0)
        self.counts[sig] = n + 1
        if n < self.per_sig:
            self.ctx.violation("c19/" + sig, what, replay)


def replay_case(case):
    c = {k: case[k] for k in ("kind", "flag", "unit_ns", "et") if k in case}
    if "raw" in case:
        c["raw"] = case["raw"]
    else:
        c["meas"] = case["meas"]
    return c


# --------------------------------------------------------------------------- run

def run_harness(ctx, cases, bulk_n, keep, net):
    path = os.path.join(ctx.scratch, "c19_cases.ndjson")
    vlib.write_ndjson(path, [dict(replay_case(c), id=c["id"], meas=c.get("meas", [])) for c in cases])
    for f in ("c19_cases_out.ndjson", "c19_cases_meta.json", "c19_bulk_out.ndjson", "c19_bulk_summary.json", "c19_net_out.ndjson",
              "c19_main_out.ndjson"):
        try:
            os.unlink(os.path.join(ctx.scratch, f))
        except OSError:
            pass
    ov = ctx.harness_overlay("internal/timesafeguard", "timesafeguard")
    env = {"VERIF_C19_CASES": path, "TMPDIR": ctx.sub("gotmp")}
    if net:
        # the real binary, for the call sites in main()
        env["VERIF_C19_BIN"] = ctx.go_build(".", os.path.join(ctx.scratch, "robustirc-c19"))
    if bulk_n:
        env["VERIF_C19_N"] = bulk_n
        env["VERIF_C19_KEEP"] = keep
    if net:
        env["VERIF_C19_NET"] = "1"
    rc, out = ctx.go_test(PKG, ov, "^TestVerifC19", env=env, timeout=1500)
    for attempt in (2, 3):
        if rc == 0:
            break
        # the code under test may end the process (log.Fatalf when the join target cannot be reached); a tree
        # that leaves requests in flight can make that happen between scenarios: run the harness again
        ctx.log("C19 harness ended with rc=%s; attempt %d" % (rc, attempt))
        rc, out = ctx.go_test(PKG, ov, "^TestVerifC19", env=env, timeout=1500)
    if rc != 0:
        raise vlib.Inconclusive("C19 harness failed (rc=%s):\n%s" % (rc, out[-4000:]))
    try:
        outs = vlib.read_ndjson(os.path.join(ctx.scratch, "c19_cases_out.ndjson"))
        meta = json.load(open(os.path.join(ctx.scratch, "c19_cases_meta.json")))
    except (OSError, ValueError) as ex:
        raise vlib.Inconclusive("C19 harness wrote no usable result: %s\n%s" % (ex, out[-2000:]))
    if meta.get("cases") != len(cases) or len(outs) != len(cases):
        raise vlib.Inconclusive("C19 harness executed %s of %d cases" % (meta.get("cases"), len(cases)))
    return outs, meta


def judge_cases(ctx, rep, cases, outs):
    """Judges every explicit case; returns (clean trace records by et, suspect records by et)."""
    clean, suspect = {}, {}
    stats = {"join": 0, "refuse": 0, "conservative_refusals": 0, "model_mismatch": 0}
    drift_examples = []
    for c, o in zip(cases, outs):
        if c["id"] != o["id"]:
            raise vlib.Inconclusive("harness output out of order")
        if "raw" in c:
            peers = exact_peers_from_raw(c["raw"])
        else:
            peers = exact_peers_from_units(c)
        check_echo(peers, o["peers"], "case %d" % c["id"])
        viol, model = judge(peers, c["flag"], o["full"], o["answered"])
        v = o["full"]["verdict"]
        stats[v] = stats.get(v, 0) + 1
        if v == "refuse" and not any((not p["zero"]) and abs(p["delta"]) >= ET_NS for p in peers):
            stats["conservative_refusals"] += 1
        if "model" in c:       # model -> code: the decision TLC computed for this very call
            tm = c["model"]
            if (tm["verdict"], tm["named"]) != (model["verdict"], model["named"]):
                raise vlib.Inconclusive("the python mirror of TimeGuard!Decision disagrees with TLC on case %d" % c["id"])
        mismatch = (v != model["verdict"]) or (sorted(o["full"]["named"]) != model["named"])
        for sig, what in viol:
            rep.violation(sig, what + " [%s case]" % c["kind"], {"case": replay_case(c), "real": o["full"], "real_answered_only": o["answered"]})
        if mismatch:
            stats["model_mismatch"] += 1
            if not viol and len(drift_examples) < 3:
                drift_examples.append("real decision %s naming %s, TimeGuard!Decision says %s naming %s (case %s)" % (
                    v, o["full"]["named"], model["verdict"], model["named"], json.dumps(replay_case(c))))
        if "raw" in c or v not in ("join", "refuse"):
            continue
        rec = trace_record(c, o)
        if not fits_tlc(rec):
            stats["not_tlc_sized"] = stats.get("not_tlc_sized", 0) + 1
            continue
        (suspect if viol else clean).setdefault(c["et"], []).append(rec)
    for d in drift_examples:
        ctx.drift(d)
    return clean, suspect, stats


def validate_traces(ctx, rep, clean, suspect, by_id):
    total_ok = 0
    drift_ids = []
    for et in sorted(clean):
        recs = clean[et]
        res = run_trace(ctx, recs, "et%d" % et)
        if res["violated"]:
            # TLC's evaluation of the specification's predicate is authoritative; the python
            # judge had accepted these records, so say which record and stop
            m = None
            for m in re.finditer(r"\bl = (\d+)", res["out"]):
                pass
            idx = int(m.group(1)) - 2 if m else -1
            rec = recs[idx] if 0 <= idx < len(recs) else None
            raise vlib.Inconclusive("TLC reports %s on a recorded decision the python judge accepted (record %s): the two evaluations of the property disagree" % (
                res["violated"][0], json.dumps(rec)))
        if res["consumed"] != len(recs):
            raise vlib.Inconclusive("trace validation consumed %d of %d records (et=%d)\n%s" % (
                res["consumed"], len(recs), et, "\n".join(res["out"].splitlines()[-20:])))
        total_ok += len(recs)
        drift_ids += res["drift_ids"]
    confirmed = 0
    for et in sorted(suspect):
        recs = suspect[et][:12]
        res = run_trace(ctx, recs, "suspect-et%d" % et, expect_violations=len(recs))
        if len(res["violated"]) < len(recs):
            raise vlib.Inconclusive("the python judge found %d violating decisions but TLC's predicates flag %d of them (et=%d)" % (
                len(recs), len(res["violated"]), et))
        confirmed += len(recs)
    ctx.cov["violating_decisions_confirmed_by_tlc"] = confirmed
    return total_ok, drift_ids


def judge_bulk(ctx, rep):
    try:
        summ = json.load(open(os.path.join(ctx.scratch, "c19_bulk_summary.json")))
        recs = vlib.read_ndjson(os.path.join(ctx.scratch, "c19_bulk_out.ndjson"))
    except (OSError, ValueError) as ex:
        raise vlib.Inconclusive("bulk harness wrote no usable result: %s" % ex)
    rejudged = 0
    drift_done = 0
    for r in recs:
        peers = exact_peers_from_raw(r["in"])
        check_echo(peers, r["peers"], "bulk case %d" % r["id"])
        has_zero = any(p["zero"] for p in peers)
        viol, model = judge(peers, r["flag"], r["full"], r["answered"] if has_zero else None)
        mine = sorted(set(s.split("/")[0] for s, _ in viol))
        mine = sorted(set({"non-answering-changes-decision": "non-answering", "non-answering-named": "names",
                           "disabled-refuses": "disabled-refuses"}.get(x, x) for x in mine))
        theirs = sorted(set(w for w in r.get("why", []) if w != "model-mismatch"))
        if mine != theirs:
            raise vlib.Inconclusive("bulk case %d: the in-process judge says %s, the python judge says %s" % (r["id"], theirs, mine))
        rejudged += 1
        case = {"kind": "bulk", "flag": r["flag"], "unit_ns": 1, "et": ET_NS, "raw": r["in"]}
        for sig, what in viol:
            rep.violation(sig, what + " [bulk case, seed %d id %d]" % (ctx.seed, r["id"]),
                          {"case": case, "real": r["full"], "real_answered_only": r["answered"]})
        if not viol and "model-mismatch" in r.get("why", []) and drift_done < 2:
            drift_done += 1
            ctx.drift("bulk: real decision %s, TimeGuard!Decision says %s (%s)" % (r["full"]["verdict"], model["verdict"], json.dumps(case)))
    bad = sum(v for k, v in summ.items() if k.startswith("why_") and k != "why_model-mismatch")
    if bad and not rep.counts:
        raise vlib.Inconclusive("bulk summary reports %d property failures but none was written out" % bad)
    ctx.cov["bulk_cases"] = summ.get("n", 0)
    ctx.cov["bulk_rejudged_exactly"] = rejudged
    ctx.cov["bulk_summary"] = summ
    if recs:
        r = recs[0]
        ctx.sample({"bulk_case": {"flag": r["flag"], "in": r["in"], "verdict": r["full"]["verdict"], "named": r["full"]["named"]}})
    return summ


def judge_net(ctx, rep):
    try:
        recs = vlib.read_ndjson(os.path.join(ctx.scratch, "c19_net_out.ndjson"))
    except (OSError, ValueError) as ex:
        raise vlib.Inconclusive("network-level harness wrote no usable result: %s" % ex)
    if not recs:
        raise vlib.Inconclusive("network-level harness recorded nothing")
    for r in recs:
        alive_bad = [i for i, (off, dead) in enumerate(zip(r["offsets_ns"], r["dead"])) if not dead and abs(off) >= ET_NS]
        info = {"entry": r["entry"], "scenario": r["name"], "flag": r["flag"], "offsets": r["offsets"], "verdict": r["verdict"], "err": r.get("err", "")}
        sig = None
        if r["verdict"] == "panic":
            sig, what = "net/panic", "panicked"
        elif r["verdict"] == "exit":
            # the code under test ended the process (log.Fatalf): the node does not join, which is safe
            ctx.note("network-level call ended the process: %s/%s %s" % (r["entry"], r["name"], r.get("err", "")))
        elif r["flag"] and r["verdict"] != "join":
            sig, what = "net/disabled-refuses", "refused although -disable_timesafeguard is set"
        elif not r["flag"] and r["verdict"] == "join" and alive_bad:
            sig, what = "net/sound", "returned nil although answering peer(s) %s are %s off" % (alive_bad, [r["offsets"][i] for i in alive_bad])
        elif not r["flag"] and r["verdict"] == "refuse":
            if "0001-01-01" in r.get("err", ""):
                sig, what = "net/non-answering-named", "a peer that did not answer is named as conflicting"
            elif not alive_bad:
                if r["wall_ms"] < 900:
                    sig, what = "net/names", "refused in %d ms although every answering peer has the local clock: no measured drift can reach 2 s" % r["wall_ms"]
                else:
                    ctx.note("network-level call took %d ms and refused (conservative refusal on a slow machine): %s/%s" % (r["wall_ms"], r["entry"], r["name"]))
        if sig:
            rep.violation(sig + "/" + r["entry"], "%s(%s): %s" % (r["entry"], r["name"], what), info)
    ctx.cov["network_level_calls"] = len(recs)
    ctx.sample({"network_level_call": {k: recs[1][k] for k in ("entry", "name", "offsets", "verdict")}})


def judge_main(ctx, rep):
    """The two call sites in main(), observed on the real binary."""
    try:
        recs = vlib.read_ndjson(os.path.join(ctx.scratch, "c19_main_out.ndjson"))
    except (OSError, ValueError) as ex:
        raise vlib.Inconclusive("main() rig wrote no usable result: %s" % ex)
    if not recs:
        raise vlib.Inconclusive("main() rig recorded nothing")
    for r in recs:
        bad = [o for o, n in zip(r["offsets"], r["offsets_ns"]) if abs(n) >= ET_NS]
        info = {k: r[k] for k in ("name", "mode", "flag", "offsets", "outcome", "exit_code", "join_posts")}
        info["output_tail"] = r.get("output_tail", "")[-600:]
        what = "robustirc %s (%s)" % ("-join=<master>" if r["mode"] == "join" else "restarted with known peers", r["name"])
        if r["outcome"] not in ("refused", "proceeded"):
            raise vlib.Inconclusive("main() rig: %s ended with %s (exit %s)\n%s" % (what, r["outcome"], r["exit_code"], r.get("output_tail", "")[-1500:]))
        if r["flag"]:
            if r["outcome"] == "refused":
                rep.violation("main/disabled-refuses/" + r["mode"], what + ": refused although -disable_timesafeguard is set", info)
        elif bad:
            if r["outcome"] == "proceeded":
                rep.violation("main/sound/" + r["mode"], what + ": went on to %s although peer clocks are %s off" % (
                    "send the join request" if r["mode"] == "join" else "start raft and listen", bad), info)
            elif r["join_posts"]:
                rep.violation("main/join-sent-before-refusal", what + ": POSTed /join before refusing", info)
        elif r["outcome"] == "refused":
            ctx.note("main() rig: %s refused although every peer has the local clock (conservative; %d ms)" % (what, r["wall_ms"]))
    ctx.cov["main_call_site_runs"] = len(recs)
    ctx.cov["main_call_site_outcomes"] = {r["name"]: r["outcome"] for r in recs}
    ctx.sample({"real_binary_run": {k: recs[0][k] for k in ("name", "mode", "flag", "offsets", "outcome", "exit_code", "join_posts")}})


def binding_selftest(ctx, clean):
    """Corrupt accepted records: TLC must flag the property predicate / the drift."""
    res = {}
    pool = [r for r in clean.get(4, []) if r["verdict"] == "refuse" and not r["flag"]
            and any((not m["zero"]) and abs(m["delta"]) >= 4 for m in r["meas"])]
    pool2 = [r for r in clean.get(4, []) if r["verdict"] == "join" and not r["flag"] and len(r["meas"]) >= 2]
    if not pool or not pool2:
        return {"skipped": "no suitable records"}
    good = pool2[:3]
    # (a) a refusal of a truly bad clock recorded as "join": TSound must fail
    bad = dict(pool[0], verdict="join", named=[], verdict2="join", named2=[])
    r = run_trace(ctx, good + [bad], "selftest-a")
    res["flipped_verdict_rejected"] = "TSound" in r["violated"]
    # (b) a refusal naming one peer too few
    cand = [x for x in pool if len(x["named"]) >= 1]
    bad = dict(cand[0], named=cand[0]["named"][1:], named2=cand[0]["named"][1:])
    r = run_trace(ctx, good + [bad], "selftest-b")
    res["dropped_name_rejected"] = "TRefusalNamesOffenders" in r["violated"]
    # (c) a conservative decision the model does not predict is DRIFT, not a violation
    ok = dict(pool2[0], verdict="refuse", named=[1], verdict2="refuse", named2=[1])
    r = run_trace(ctx, good + [ok], "selftest-c")
    res["unpredicted_refusal_flagged"] = bool(r["violated"]) or r["drifts"] > 0
    # (d) a truncated file is noticed by the high-water mark: drop the et of a record
    r = run_trace(ctx, good + [dict(good[0], et=5)] + good, "selftest-d")
    res["foreign_record_stops_validation"] = r["consumed"] < 7
    if not all(res.values()):
        raise vlib.Inconclusive("binding self-test failed: %s" % res)
    return res


def run(ctx):
    ctx.cov["states"] = 0
    ctx.cov["transitions"] = 0
    rng = random.Random(ctx.seed)
    rep = Reporter(ctx)

    if getattr(ctx, "replay", None):
        return run_replay(ctx, rep)

    with concurrent.futures.ThreadPoolExecutor(max_workers=2) as pool:
        f_tlc = pool.submit(stage_exhaustive, ctx)
        f_proof = pool.submit(stage_proofs, ctx)
        try:
            stage_real_code(ctx, rep, rng)
        finally:
            # machinery problems of the background stages surface here
            f_tlc.result()
            f_proof.result()
    ctx.cov["violations_by_signature"] = dict(rep.counts)
    ctx.cov["exhaustive"] = True
    ctx.assumptions += ASSUMPTIONS


def stage_exhaustive(ctx):
    quick = ctx.quick
    # ---- 1. TLC exhaustive
    runs = [("TimeGuard.cfg", 8, 600)]
    runs.append(("TimeGuard_p3q.cfg", 4, 600))
    if not quick:
        runs.append(("TimeGuard_p3.cfg", 8, 1500))
    zero_actions = []
    for cfg, workers, to in runs:
        cov = (cfg == "TimeGuard_p3q.cfg")
        r = ctx.tlc_must_pass("TimeGuardMC", cfg=cfg, workers=workers, timeout=to, deadlock=False, coverage=cov, jvm=jtmp(ctx),
                              name="exh-" + cfg)
        count_states(ctx, r.distinct, r.generated)
        ctx.cov.setdefault("tlc_exhaustive", {})[cfg] = {"distinct": r.distinct, "generated": r.generated}
        ctx.log("TLC %s: %d distinct states" % (cfg, r.distinct))
        if cov:
            for name in ("CollectAnswer", "CollectNoAnswer", "DecideInSync", "DecideDisabled", "DecideRefuse"):
                m = re.search(r"<%s line [^>]*>: (\d+):(\d+)" % name, r.out)
                if not m or int(m.group(2)) == 0:
                    zero_actions.append(name)
    ctx.cov["actions_never_taken"] = zero_actions
    if zero_actions:
        raise vlib.Inconclusive("vacuity: actions never taken in the exhaustive run: %s" % zero_actions)
    r = ctx.tlc("TimeGuardMC", cfg="TimeGuard_vacuity.cfg", workers=1, timeout=120, deadlock=False, jvm=jtmp(ctx), name="exh-vacuity")
    count_states(ctx, 0, 0)
    if r.invariant_violated != "NeverConservative":
        raise vlib.Inconclusive("vacuity configuration did not produce the expected conservative refusal")
    ctx.cov["vacuity"] = "NeverConservative refuted as expected (conservative refusals exist in the model)"


def stage_proofs(ctx):
    quick = ctx.quick
    # ---- 2. proofs
    obligations, discharged, cmd = run_tlapm(ctx)
    ctx.cov["obligations"] = obligations
    ctx.cov["discharged"] = discharged
    ctx.cov["checker_cmd"] = cmd + "  (theorems DriftBoundsOffset, AcceptImpliesSmallOffset, MeasuredDrift, MeasurementSound, DecisionSound, DecisionDisabled, DecisionNames of spec/TimeGuard_proof.tla)"
    ctx.cov["trusted_base"] = ["tlapm (TLA+ Proof System) incl. its SMT encoding", "Z3 (SMT backend), Zenon/Isabelle where tlapm falls back to them",
                               "TLC + SANY", "Apalache + Z3 (cross-check only)", "Go toolchain, go test -overlay",
                               "harness/timesafeguard/c19_test.go and the exact-arithmetic judge in checks/c19.py"]
    ctx.log("TLAPS: %d/%d obligations" % (discharged, obligations))
    apa = [("Lemma", True), ("NoRoundTripTerm", False)]
    if not quick:
        apa += [("NoAbs", False), ("Complete", False)]
    ctx.cov["apalache"] = {}
    for inv, holds in apa:
        run_apalache(ctx, inv, holds)
        ctx.cov["apalache"][inv] = "holds for all integers" if holds else "refuted (as expected)"
    ctx.log("Apalache: %s" % ctx.cov["apalache"])


def stage_real_code(ctx, rep, rng):
    quick = ctx.quick
    # ---- 3./4./5./6. real code
    cases = grid_cases(ctx, "TimeGuard_dump1.cfg", "grid-1peer-full")
    cases += grid_cases(ctx, "TimeGuard_dump3.cfg", "grid-3peers")
    n_model = len(cases)
    cases += threshold_cases()
    cases += lattice_cases(rng, 6000 if quick else 40000, 3000 if quick else 20000)
    for i, c in enumerate(cases):
        c["id"] = i
    bulk_n = 100_000 if quick else 10_000_000
    outs, meta = run_harness(ctx, cases, bulk_n, 20000, True)
    ctx.log("harness: %d explicit cases, %d bulk cases" % (len(cases), bulk_n))
    if meta.get("election_timeout_ns") != ET_NS:
        ctx.note("timesafeguard.ElectionTimeout is %s ns; the property says 2 s, which is what is judged" % meta.get("election_timeout_ns"))
    clean, suspect, stats = judge_cases(ctx, rep, cases, outs)
    ctx.cov["model_behaviours_replayed_on_impl"] = n_model
    ctx.cov["explicit_cases"] = len(cases)
    ctx.cov["explicit_case_stats"] = stats
    ok, drift_ids = validate_traces(ctx, rep, clean, suspect, None)
    ctx.cov["traces_validated_against_impl"] = ok
    ctx.cov["trace_records_not_predicted_by_model"] = len(drift_ids)
    if drift_ids and not ctx.drifts:
        ctx.drift("TLC: %d recorded decisions are not steps of TimeGuard (first ids %s); every property predicate held on them" % (
            len(drift_ids), drift_ids[:5]))
    for k in (0, n_model - 1, n_model + 5, len(cases) - 1):
        c, o = cases[k], outs[k]
        ctx.sample({"case": replay_case(c), "real_verdict": o["full"]["verdict"], "real_named": o["full"]["named"]})
    judge_bulk(ctx, rep)
    judge_net(ctx, rep)
    judge_main(ctx, rep)
    call_site_shape(ctx)
    ctx.cov["binding_selftest"] = binding_selftest(ctx, clean)
    if getattr(ctx, "selftest", False):
        print("binding self-test: %s" % json.dumps(ctx.cov["binding_selftest"]), flush=True)


ASSUMPTIONS = [
    "a measurement is (Start, End, Result) with Result = Start + d1 + delta and End = Start + d1 + d2, d1, d2 >= 0: the peer reads its clock between the local Start and End (getServerTime), and the local clock does not step during the measurement (Go's monotonic reading covers End-Start in the real binary)",
    "the election timeout of the property is 2 s; robustirc.go sets raft's Election/Heartbeat/LeaderLease timeouts from the same constant (checked at source level only)",
    "a peer whose clock reads exactly 0001-01-01T00:00:00Z is indistinguishable from one that did not answer",
    "the call sites in main() are observed on the real binary with fake HTTPS peers (refusal = process exit with the error; going on = POST /join seen by the master, resp. the node's listener opened, which main() does after raft.NewRaft); that the restart-path check happens BEFORE raft.NewRaft rather than shortly after is read from the source only",
    "bulk cases beyond the first 20000 (and the first 200 anomalies) are judged by the exact-arithmetic oracle inside the harness only",
]


def run_replay(ctx, rep):
    """./check C19 --replay <violation file>: re-run one recorded case on the real code."""
    with open(ctx.replay) as fh:
        v = json.load(fh)
    # a replay is not a run of the check: keep the evidence of the last full run
    ev_path = os.path.join(vlib.EVIDENCE, ctx.id + ".json")
    try:
        with open(ev_path) as fh:
            keep = fh.read()
    except OSError:
        keep = None
    if keep is not None:
        import atexit

        def restore():
            with open(ev_path, "w") as out:
                out.write(keep)
        atexit.register(restore)
    body = v.get("replay", v)
    if "case" not in body:
        raise vlib.Inconclusive("this replay file is a network-level scenario; re-run the whole check")
    case = dict(body["case"], id=0)
    case.setdefault("meas", [])
    outs, _ = run_harness(ctx, [case], 0, 0, False)
    o = outs[0]
    peers = exact_peers_from_raw(case["raw"]) if "raw" in case else exact_peers_from_units(case)
    check_echo(peers, o["peers"], "replay")
    viol, model = judge(peers, case["flag"], o["full"], o["answered"])
    print("replayed: real decision %s naming %s; TimeGuard!Decision: %s naming %s" % (
        o["full"]["verdict"], o["full"]["named"], model["verdict"], model["named"]))
    for sig, what in viol:
        rep.violation(sig, what + " [replay]", {"case": replay_case(case), "real": o["full"], "real_answered_only": o["answered"]})
    ctx.cov["states"] = 1
    ctx.cov["transitions"] = 1
    ctx.cov["obligations"] = 0
    ctx.cov["replayed"] = 1
    ctx.sample({"case": replay_case(case), "real": o["full"]})


if __name__ == "__main__":
    vlib.main(run, "C19", level=LEVEL)
