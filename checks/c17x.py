"""C17X - the expiry stage of C17 (checks/c17_expiry.py) run on its own (development entry point;
checks/c17.py calls c17_expiry.report(ctx) as part of C17)."""
import json

from checks import c17_expiry

LEVEL = "model_checking"


def run(ctx):
    rp = None
    if getattr(ctx, "replay", None):
        with open(ctx.replay) as fh:
            rp = (json.load(fh).get("replay") or {}).get("scenario")
    c17_expiry.report(ctx, replay=rp)
