"""C01 — decided by the shared IRC-layer engine (checks/irc_common.py)."""
from checks import irc_common

LEVEL = "model_checking"


def run(ctx):
    irc_common.report(ctx, "C01")
