"""C04 -- exactly-once, in-order delivery when a client resumes with lastseen.

Specification: spec/GetMessages.tla (two nodes applying the same batch sequence
at independent speeds, the reader = api.getMessages split at its interaction
points with the output stream, one client that disconnects anywhere and
resumes on either node).  Binding to the real code (harness/getmessages,
injected into package api with -overlay, reader parked by the verifhook gate):

  model -> code   every transition of the exhaustive state graph of the cover
                  configuration (edge cover computed here from TLC's dot dump),
                  seeded TLC simulation behaviours of a larger configuration and
                  a few named resume scenarios are replayed on the real
                  api.getMessages over real outputstream.OutputStream values;
                  after every step the observable reader state is compared
                  with the model's (DRIFT) and at the end the property
                  predicate is evaluated on what the client really received.
  code -> model   a free-running random driver (two adders with lag, random
                  disconnects, real goroutine timing) records
                  Add/Recv/Reconnect/Disconnect events; GetMessagesTrace.tla
                  validates them and evaluates the predicates on every
                  recorded state.

Predicate judged on the real code: the concatenation of what the client
received over all its connections is a prefix of the session's messages in id
order (no gap, no duplicate), and equals it once the reader is blocked inside
GetNext on a node that has applied everything with nothing in flight.
"""
import json
import os
import random
import re
import threading
import time

import vlib

LEVEL = "model_checking"

PKG = "./internal/api"
HARNESS = "getmessages"

ACTION_CMD = {"G1": "g1", "G1w": "wake", "G2": "g2", "G3": "send", "Recv": "recv",
              "Disconnect": "disc"}


# --------------------------------------------------------------------------
# named scenarios (resume shapes the property text lists); same commands as
# the programs derived from TLC behaviours
SCENARIOS = [
    # single connection, no resume: passes on any sane tree (selftest base)
    ("single-connection", 1,
     [["add", 1, [1, 0, 1]], ["conn", 1], ["g1"], ["send"], ["recv"], ["recv"], ["recv"],
      ["g1"], ["add", 1, [0]], ["wake"], ["send"], ["recv"], ["add", 1, [1, 1]], ["g1"],
      ["send"], ["recv"], ["recv"]]),
    # resume at x.r on a node that has NOT applied x; x applied while GetNext blocks
    ("resume-lagging-node-blocked", 1,
     [["add", 1, [1, 1]], ["conn", 1], ["g1"], ["send"], ["recv"], ["disc"],
      ["conn", 2], ["g1"], ["add", 2, [1, 1]], ["wake"], ["send"], ["recv"], ["recv"]]),
    # x applied between the start of the request and the first GetNext
    ("resume-lagging-node-catchup-before-getnext", 5,
     [["add", 1, [1, 1]], ["conn", 1], ["g1"], ["send"], ["recv"], ["disc"],
      ["conn", 2], ["add", 2, [1, 1]], ["g1"]]),
    # client two batches ahead: guard + back-off, x applied during the back-off
    ("resume-catchup-during-backoff", 1,
     [["add", 1, [1]], ["add", 1, [1, 1]], ["conn", 1], ["g1"], ["send"], ["recv"], ["g1"],
      ["send"], ["recv"], ["disc"], ["conn", 2], ["g1"], ["add", 2, [1]], ["wake"],
      ["add", 2, [1, 1]], ["g2"], ["g1"]]),
    # back-off, x applied only after the back-off (GetNext blocks again)
    ("resume-catchup-after-backoff", 3,
     [["add", 1, [1]], ["add", 1, [1, 1, 1]], ["conn", 1], ["g1"], ["send"], ["recv"], ["g1"],
      ["send"], ["recv"], ["recv"], ["disc"], ["conn", 2], ["g1"], ["add", 2, [1]], ["wake"],
      ["g2"], ["g1"], ["add", 2, [1, 1, 1]], ["wake"], ["send"], ["recv"]]),
    # prefix of a batch whose middle message is for somebody else; resume on the same node
    ("resume-inside-batch-unaddressed-middle", 7,
     [["add", 1, [1, 0, 1]], ["add", 1, [1]], ["conn", 1], ["g1"], ["send"], ["recv"], ["disc"],
      ["conn", 1], ["g1"], ["send"], ["recv"], ["recv"], ["g1"], ["send"], ["recv"]]),
    # lastseen.Reply == len(batch): whole batch received, lagging node
    ("resume-after-complete-batch-lagging", 1,
     [["add", 1, [1, 1]], ["add", 1, [0, 1]], ["conn", 1], ["g1"], ["send"], ["recv"], ["recv"],
      ["disc"], ["conn", 2], ["g1"], ["add", 2, [1, 1]], ["wake"], ["add", 2, [0, 1]]]),
    # fresh session (lastseen 0.0) on a node that has nothing yet, then resume on the other
    ("fresh-session-empty-node", 4,
     [["conn", 2], ["g1"], ["add", 1, [0, 1]], ["add", 2, [0, 1]], ["wake"], ["send"], ["recv"],
      ["recv"], ["disc"], ["add", 1, [1]], ["conn", 1], ["g1"]]),
]


# --------------------------------------------------------------------------
def expected_of(batches):
    return [[k, r] for k, b in enumerate(batches, 1) for r, a in enumerate(b, 1) if a]


def judge(res):
    """Property predicate on what the client really received.
    Returns None or (signature, text)."""
    exp = expected_of(res["batches"] or [])
    got = [list(x) for x in res["delivered"]]
    for i, m in enumerate(got):
        if i < len(exp) and exp[i] == m:
            continue
        if m in got[:i]:
            return ("getmessages-resume-duplicate",
                    "message %d.%d delivered twice (position %d of %s; session's messages %s)" % (
                        m[0], m[1], i + 1, got, exp))
        if m in exp:
            return ("getmessages-resume-gap",
                    "message %s skipped: received %s, session's messages %s" % (
                        exp[i] if i < len(exp) else "?", got, exp))
        return ("getmessages-unexpected-message",
                "received %d.%d which is not one of the session's messages %s (got %s)" % (
                    m[0], m[1], exp, got))
    if res.get("drained") and got != exp:
        return ("getmessages-resume-gap",
                "reader blocked in GetNext on a node that has applied everything, nothing in "
                "flight, but the client received only %s of %s" % (got, exp))
    return None


def model_expect(post, cmd):
    """Observable reader state the model predicts after a step (None = do not compare)."""
    pc = post["pc"]
    if pc == "idle":
        return {"state": "none"}
    if pc == "G1w":
        cn = post["cn"]
        if cn and post["ap"][cn - 1] >= post["want"]:
            return None  # wake-up enabled: the real reader has already moved on
        return {"state": "blocked"}
    if pc in ("G3", "G0s"):
        return {"arrived": post["out"]}
    if pc == "G2":
        return {"state": "backoff", "ls": post["ls"]}
    if pc == "G1":
        return {"state": "getnext", "ls": post["ls"], "arrived": []}
    return None


def conformance(prog, res):
    """Compare the harness' observations with the model's post-states. Returns list of texts."""
    diffs = []
    model = prog.get("model")
    if not model:
        return diffs
    obs = res.get("obs") or []
    for i, post in enumerate(model):
        if i >= len(obs):
            diffs.append("step %d: no observation" % i)
            break
        o = obs[i]
        if o.get("note") and o["note"] != "drained":
            diffs.append("step %d %s: harness note %r" % (i, o["cmd"], o["note"]))
            break
        if o.get("wire", []) != post["wire"]:
            diffs.append("step %d %s: wire %s, model %s" % (i, o["cmd"], o.get("wire", []), post["wire"]))
            break
        if o["dl"] != post["dl"]:
            diffs.append("step %d %s: delivered %d, model %d" % (i, o["cmd"], o["dl"], post["dl"]))
            break
        exp = model_expect(post, o["cmd"])
        if exp is None:
            continue
        if "state" in exp and o["state"] != exp["state"]:
            diffs.append("step %d %s: reader %s, model pc=%s" % (i, o["cmd"], o["state"], post["pc"]))
            break
        if "arrived" in exp and o.get("arrived", []) != exp["arrived"]:
            diffs.append("step %d %s: reader hands over %s, model %s (pc=%s)" % (
                i, o["cmd"], o.get("arrived", []), exp["arrived"], post["pc"]))
            break
        if "ls" in exp and o["state"] in ("getnext", "backoff") and o["ls"] != exp["ls"]:
            diffs.append("step %d %s: lastSeen %s, model %s" % (i, o["cmd"], o["ls"], exp["ls"]))
            break
    return diffs


# --------------------------------------------------------------------------
# TLC state graph -> edge cover
def tla2py(v):
    v = v.replace("<<", "[").replace(">>", "]").replace("TRUE", "true").replace("FALSE", "false")
    return json.loads(v)


NODE_RE = re.compile(r'^(-?\d+) \[label="(.*?)"[,\]]')
EDGE_RE = re.compile(r'^(-?\d+) -> (-?\d+) \[label="([^"]*)"')


def parse_dot(path):
    states, edges, init = {}, [], None
    with open(path) as fh:
        for line in fh:
            m = EDGE_RE.match(line)
            if m:
                edges.append((m.group(1), m.group(2), m.group(3)))
                continue
            m = NODE_RE.match(line)
            if m and m.group(1) not in states:
                st = {}
                for part in m.group(2).split("\\n"):
                    part = part.replace('\\"', '"').replace("\\\\", "\\")
                    mm = re.match(r"/\\ (\w+) = (.*)$", part)
                    if mm:
                        st[mm.group(1)] = mm.group(2)
                states[m.group(1)] = st
                if "style = filled" in line and init is None:
                    init = m.group(1)
    return states, edges, init


def post_of(st):
    g = lambda k: tla2py(st[k])
    return {"pc": g("pc"), "ls": g("ls"), "out": g("out"), "wire": g("wire"),
            "dl": len(g("delivered")), "want": g("want"), "cn": g("conn"), "ap": g("applied")}


def step_of(label, dst):
    m = re.match(r"(\w+)(?:\((\d+)\))?$", label)
    if not m:
        raise vlib.Inconclusive("unknown action label in TLC dump: %r" % label)
    act, arg = m.group(1), m.group(2)
    if act == "Add":
        n = int(arg)
        ap = tla2py(dst["applied"])
        b = tla2py(dst["batches"])[ap[n - 1] - 1]
        return ["add", n, [1 if x else 0 for x in b]]
    if act == "Reconnect":
        return ["conn", int(arg)]
    if act in ACTION_CMD:
        return [ACTION_CMD[act]]
    raise vlib.Inconclusive("unknown action in TLC dump: %r" % label)


def edge_cover(states, edges, init, rng, max_len=60):
    """Paths from init covering every edge at least once (greedy)."""
    adj = {}
    for i, (u, v, _) in enumerate(edges):
        adj.setdefault(u, []).append(i)
    parent = {init: None}
    order = [init]
    for u in order:
        for ei in adj.get(u, []):
            v = edges[ei][1]
            if v not in parent:
                parent[v] = ei
                order.append(v)
    uncovered = [True] * len(edges)
    nunc = {u: len(adj.get(u, [])) for u in states}
    paths = []

    def tree_path(u):
        p = []
        while parent[u] is not None:
            p.append(parent[u])
            u = edges[parent[u]][0]
        p.reverse()
        return p

    def take(ei):
        if uncovered[ei]:
            uncovered[ei] = False
            nunc[edges[ei][0]] -= 1

    def jump(cur, limit=400):
        """shortest forward path from cur to a state with an uncovered out-edge"""
        seen = {cur: None}
        q = [cur]
        for x in q:
            if nunc.get(x, 0) > 0 and x != cur:
                p = []
                while seen[x] is not None:
                    p.append(seen[x])
                    x = edges[seen[x]][0]
                p.reverse()
                return p
            if len(q) > limit:
                continue
            for ei in adj.get(x, []):
                v = edges[ei][1]
                if v not in seen:
                    seen[v] = ei
                    q.append(v)
        return None

    # deepest sources first: their tree paths cover many shallow edges on the way;
    # a path is extended along uncovered edges, hopping forward over covered
    # ones, until nothing uncovered is reachable nearby
    for u in reversed(order):
        while nunc.get(u, 0) > 0:
            p = tree_path(u)
            for ei in p:
                take(ei)
            cur = u
            while len(p) < max_len:
                if nunc.get(cur, 0) > 0:
                    cand = [ei for ei in adj[cur] if uncovered[ei]]
                    ei = cand[rng.randrange(len(cand))]
                    take(ei)
                    p.append(ei)
                    cur = edges[ei][1]
                    continue
                j = jump(cur)
                if not j or len(p) + len(j) >= max_len:
                    break
                p.extend(j)
                cur = edges[j[-1]][1]
            paths.append(p)
    return paths


# --------------------------------------------------------------------------
class Engine:
    def __init__(self, ctx):
        self.ctx = ctx
        self.rng = random.Random(ctx.seed)
        self.bin = None
        self.nrun = 0
        self.fixed_tree = None

    def build(self):
        ctx = self.ctx
        src = os.path.join(vlib.REPO, "internal/api/getmessages.go")
        if not os.path.exists(src):
            raise vlib.Inconclusive("anchor file missing: " + src)
        txt = open(src).read()
        for pt in ("getmessages.getnext", "getmessages.backoff"):
            if pt not in txt:
                raise vlib.Inconclusive("hook point %s missing in %s" % (pt, src))
        ov = ctx.harness_overlay("internal/api", HARNESS)
        self.bin = os.path.join(ctx.sub("bin"), "api.test")
        t = time.time()
        ctx.go_build_test(PKG, ov, self.bin)
        ctx.log("harness built in %.1fs" % (time.time() - t))

    def run_harness(self, test, env, timeout):
        ctx = self.ctx
        self.nrun += 1
        out = os.path.join(ctx.sub("runs"), "out-%d.ndjson" % self.nrun)
        e = {"VERIF_C04_OUT": out, "VERIF_WORKERS": "24", "VERIF_C04_MAXFAIL": "300"}
        e.update(env)
        rc, txt = ctx.run_bin([self.bin, "-test.run", "^%s$" % test, "-test.timeout", "%ds" % timeout],
                              env=e, timeout=timeout + 30)
        if rc != 0 or not os.path.exists(out):
            raise vlib.Inconclusive("harness %s failed rc=%s:\n%s" % (test, rc, txt[-3000:]))
        return vlib.read_ndjson(out)

    def replay(self, progs, timeout=900):
        if not progs:
            return []
        ctx = self.ctx
        self.nrun += 1
        pf = os.path.join(ctx.sub("runs"), "progs-%d.ndjson" % self.nrun)
        with open(pf, "w") as fh:
            for p in progs:
                q = {k: p[k] for k in ("id", "name", "stride", "steps", "drain") if k in p}
                fh.write(json.dumps(q, separators=(",", ":")) + "\n")
        if os.environ.get("VERIF_C04_KEEP"):
            import shutil
            shutil.copy(pf, os.environ["VERIF_C04_KEEP"])
        res = self.run_harness("TestVerifC04Replay", {"VERIF_C04_PROGRAMS": pf}, timeout)
        byid = {r["id"]: r for r in res}
        if len(byid) != len(progs):
            raise vlib.Inconclusive("harness returned %d results for %d programs" % (len(byid), len(progs)))
        return [byid[p["id"]] for p in progs]

    # ---- judging
    def report(self, sig, kind, what, rep):
        """At most 3 replay files per (signature, kind); the rest is counted."""
        key = (sig, kind)
        self.nviol[key] = self.nviol.get(key, 0) + 1
        if self.nviol[key] <= 3:
            self.ctx.violation(sig, what, rep)

    def assess(self, kind, progs, results):
        """Predicate + conformance on a batch of results. Returns list of indices judged ok."""
        ctx = self.ctx
        ok = []
        for i, res in enumerate(results):
            prog = progs[i] if progs else None
            if res.get("skipped"):
                self.nskipped += 1
                continue
            if res.get("saw_get"):
                self.saw_get = True
            rep = {"kind": kind, "name": res.get("name"),
                   "program": {k: prog[k] for k in ("name", "stride", "steps", "drain")} if prog else None,
                   "batches": res["batches"], "delivered": res["delivered"], "events": res["events"]}
            if res.get("panic"):
                self.report("getmessages-panic", kind, "getMessages panicked: " + res["panic"][:300], rep)
                continue
            if res.get("livelock") and [list(x) for x in res["delivered"]] == expected_of(res["batches"] or []):
                self.ndrift += 1
                ctx.drift("%s %s: reader loops (%s) but the client already has every message" % (
                    kind, res.get("name"), res["livelock"]))
                continue
            if res.get("livelock"):
                self.report("getmessages-resume-livelock", kind,
                            "reader never delivers the session's remaining messages %s: %s [%s %s]" % (
                                expected_of(res["batches"] or [])[len(res["delivered"]):], res["livelock"],
                                kind, res.get("name")), rep)
                continue
            v = judge(res)
            if v:
                self.flagged.append(res)
                self.report(v[0], kind, "%s [%s %s]" % (v[1], kind, res.get("name")), rep)
                continue
            if res.get("inconclusive"):
                # machinery problem of this run only; decided at the end (a
                # violation established on another run stands)
                self.inconcl.append("%s %s: %s" % (kind, res.get("name"), res["inconclusive"]))
                continue
            ok.append(i)
            if prog is not None:
                d = conformance(prog, res)
                if d:
                    self.ndrift += 1
                    ctx.drift("%s %s: %s" % (kind, prog.get("name"), d[0]))
        return ok

    # ---- trace validation
    def write_trace(self, results, path):
        marks = []
        n = 0
        with open(path, "w") as fh:
            for r in results:
                for e in r["events"]:
                    fh.write(json.dumps(e, separators=(",", ":")) + "\n")
                    n += 1
                fh.write('{"ev":"Reset"}\n')
                n += 1
                marks.append(n)
        return marks, n

    def tlc_trace(self, results, name, timeout=600):
        ctx = self.ctx
        tf = os.path.join(ctx.sub("runs"), name + ".ndjson")
        marks, n = self.write_trace(results, tf)
        r = ctx.tlc("GetMessagesTrace", cfg="GetMessagesTrace.cfg", workers=1, timeout=timeout,
                    files={"trace.ndjson": tf}, deadlock=False, name="tlc-" + name,
                    extra=["-noGenerateSpecTE"], heap="6g")
        conf, ended = None, None
        for line in r.out.splitlines():
            m = re.match(r'"?(CONFORMANT|ENDED) (\[.*\])"?$', line.strip())
            if m:
                s = set(json.loads(m.group(2)))
                if m.group(1) == "CONFORMANT":
                    conf = s
                else:
                    ended = s
        viol_line = None
        if r.invariant_violated:
            ls = re.findall(r"^/\\ l = (\d+)", r.out, re.M)
            if ls:
                viol_line = int(ls[-1])
        return r, marks, n, conf, ended, viol_line

    def validate_traces(self, results, name, chunk=1500):
        """TLC evaluates the predicates on every recorded state of traces the
        Python predicate accepted; both judges must agree."""
        ctx = self.ctx
        if not results:
            return
        chunks = [results[i:i + chunk] for i in range(0, len(results), chunk)]
        outs = [None] * len(chunks)
        sem = threading.Semaphore(4)

        def work(i):
            with sem:
                try:
                    outs[i] = self.tlc_trace(chunks[i], "%s-%d" % (name, i))
                except Exception as ex:  # noqa
                    outs[i] = ex

        ths = [threading.Thread(target=work, args=(i,)) for i in range(len(chunks))]
        for t in ths:
            t.start()
        for t in ths:
            t.join()
        ntr = nev = nconf = nst = 0
        for part, o in zip(chunks, outs):
            if isinstance(o, Exception):
                raise vlib.Inconclusive("trace validation failed: %s" % o)
            r, marks, n, conf, ended, vl = o
            ctx.cov["states"] = ctx.cov.get("states", 0) + r.distinct
            ctx.cov["transitions"] = ctx.cov.get("transitions", 0) + r.generated
            ctx.add("tlc_runs")
            if r.invariant_violated:
                idx = next((i for i, m in enumerate(marks) if vl is not None and vl <= m), None)
                raise vlib.Inconclusive(
                    "judges disagree: TLC reports %s at trace line %s (trace %s) but the Python predicate "
                    "accepted every trace of this run\n%s" % (r.invariant_violated, vl,
                                                               part[idx].get("name") if idx is not None else "?",
                                                               "\n".join(r.out.splitlines()[-30:])))
            if not r.ok or conf is None or ended is None:
                raise vlib.Inconclusive("trace validation did not complete (%s):\n%s" % (
                    name, "\n".join(r.out.splitlines()[-40:])))
            if ended != set(marks):
                raise vlib.Inconclusive("trace validation read %d of %d traces" % (len(ended), len(marks)))
            bad = [part[i] for i, m in enumerate(marks) if m not in conf]
            for b in bad:
                self.ndrift += 1
                ctx.drift("trace %s is not a behaviour of GetMessages (predicates held on every recorded state)"
                          % b.get("name"))
            ntr += len(marks)
            nev += n
            nconf += len(marks) - len(bad)
            nst += r.distinct
        ctx.add("traces_validated_against_impl", ntr)
        ctx.add("events_validated", nev)
        ctx.log("trace validation %s: %d traces, %d events, %d conformant, TLC %d states" % (
            name, ntr, nev, nconf, nst))

    def corroborate(self):
        """TLC must flag (invariant on a recorded state) what the Python predicate flagged."""
        ctx = self.ctx
        for i, res in enumerate(self.flagged[:2]):
            r, marks, n, conf, ended, vl = self.tlc_trace([res], "flagged-%d" % i, timeout=400)
            ctx.add("tlc_runs")
            if not r.invariant_violated:
                raise vlib.Inconclusive(
                    "judges disagree: the Python predicate flagged %s but TLC found no invariant "
                    "violation on the recorded states\n%s" % (res.get("name"), "\n".join(r.out.splitlines()[-30:])))
            ctx.note("TLC corroborates %s: %s violated at trace line %s" % (res.get("name"), r.invariant_violated, vl))

    # ---- binding selftest
    def selftest(self, base):
        """Corrupted copies of an accepted trace must be rejected."""
        ctx = self.ctx
        ev = base["events"]
        recv = [i for i, e in enumerate(ev) if e["ev"] == "Recv"]
        out = {}
        if len(recv) < 3:
            return {"skipped": "base trace too short"}

        def run(evs, tag):
            r, marks, n, conf, ended, vl = self.tlc_trace([{"events": evs, "name": tag}], "self-" + tag, timeout=400)
            if r.invariant_violated:
                return "rejected:" + r.invariant_violated
            if r.ok and conf is not None and marks[0] not in conf:
                return "nonconformant"
            if r.ok:
                return "accepted"
            return "error"

        dup = ev[:recv[1] + 1] + [ev[recv[1]]] + ev[recv[1] + 1:]
        drop = ev[:recv[1]] + ev[recv[1] + 1:]
        swap = list(ev)
        swap[recv[0]], swap[recv[1]] = swap[recv[1]], swap[recv[0]]
        rc = [i for i, e in enumerate(ev) if e["ev"] == "Reconnect"]
        bad = [dict(e) for e in ev]
        bad[rc[-1]]["r"] = bad[rc[-1]]["r"] + 1
        jobs = [("unmodified", ev, "base"), ("duplicate_recv", dup, "dup"), ("dropped_recv", drop, "drop"),
                ("reordered_recv", swap, "swap"), ("wrong_lastseen", bad, "lastseen")]
        ths = []
        for key, evs, tag in jobs:
            def work(key=key, evs=evs, tag=tag):
                try:
                    out[key] = run(evs, tag)
                except Exception as ex:  # noqa
                    out[key] = "error: %s" % ex
            t = threading.Thread(target=work)
            t.start()
            ths.append(t)
        for t in ths:
            t.join()
        ctx.add("tlc_runs", len(jobs))
        want = {"unmodified": "accepted", "wrong_lastseen": "nonconformant"}
        okay = all(out[k] == want.get(k, out[k]) for k in want) and all(
            out[k].startswith("rejected:") for k in ("duplicate_recv", "dropped_recv", "reordered_recv"))
        out["ok"] = okay
        return out


def mk_prog(pid, name, stride, steps, model=None, drain=True):
    return {"id": pid, "name": name, "stride": stride, "steps": steps, "drain": drain, "model": model}


def run(ctx):
    """A violation established on the real code stands: machinery problems
    that show up afterwards are recorded, they do not turn exit 1 into exit 2
    (and exit 2 is never accompanied by a VIOLATION line)."""
    try:
        _run(ctx)
    except vlib.Inconclusive as ex:
        if not (ctx.violations or ctx.known_hits) and not getattr(ctx, "replay", None) and not getattr(ctx, "selftest", False):
            # e.g. the in-package harness no longer compiles against a refactored getMessages: the HTTP-level
            # stage needs nothing but the public routes, so the property can still be judged on the real node
            from checks import irc_http
            ctx.note("in-package harness unusable (%s); judging by the HTTP-level stage alone" % str(ex)[:300])
            try:
                irc_http.report(ctx, "C04")
            except vlib.Inconclusive:
                pass
        if not (ctx.violations or ctx.known_hits):
            raise
        ctx.note("machinery problem after a violation was established: %s" % str(ex)[:600])
        ctx.log("machinery problem after a violation was established (recorded in the evidence): %s" % str(ex)[:200])


def _run(ctx):
    eng = Engine(ctx)
    eng.flagged = []
    eng.nviol = {}
    eng.inconcl = []
    eng.nskipped = 0
    eng.ndrift = 0
    eng.saw_get = False
    quick = ctx.quick
    rng = eng.rng

    # ------------------------------------------------------------- --replay
    if getattr(ctx, "replay", None):
        eng.build()
        rep = json.load(open(ctx.replay))["replay"]
        if not rep.get("program"):
            raise vlib.Inconclusive("replay file has no program (random-driver traces are not re-runnable "
                                    "deterministically; its events are in the file)")
        p = rep["program"]
        prog = mk_prog(0, p.get("name"), p.get("stride", 1), p["steps"], drain=p.get("drain", True))
        res = eng.replay([prog])
        ctx.log("replayed %s: delivered %s, session's messages %s" % (
            prog["name"], res[0]["delivered"], expected_of(res[0]["batches"])))
        eng.assess("replay", [prog], res)
        if eng.inconcl and not ctx.violations and not ctx.known_hits:
            raise vlib.Inconclusive(eng.inconcl[0])
        return

    eng.build()

    # ------------------------------------------------------------- TLC (design spec), in the background
    tlc_res = {}

    def bg_small():
        try:
            tlc_res["small"] = ctx.tlc("GetMessages", cfg="GetMessages_small.cfg" if quick else "GetMessages_thorough.cfg",
                                       workers=6, timeout=600 if quick else 2400, deadlock=False,
                                       coverage=not quick, name="tlc-small", heap="8g")
        except Exception as ex:  # noqa
            tlc_res["small_err"] = ex

    th = threading.Thread(target=bg_small)
    th.start()

    progs = []
    try:
        # --------------------------------------------------------- scenarios
        for name, stride, steps in SCENARIOS:
            progs.append(mk_prog(len(progs), name, stride, steps))
        nscen = len(progs)

        # --------------------------------------------------------- edge cover of the exhaustive graph
        dot = os.path.join(ctx.sub("cover"), "graph.dot")
        cover_cfg = "GetMessages_cover.cfg" if quick else "GetMessages_cover2.cfg"
        r = ctx.tlc("GetMessages", cfg=cover_cfg, workers=4, timeout=600, deadlock=False,
                    extra=["-dump", "dot,actionlabels", dot], name="tlc-cover")
        if not r.ok:
            raise vlib.Inconclusive("TLC failed on %s:\n%s" % (cover_cfg, "\n".join(r.out.splitlines()[-30:])))
        ctx.cov["states"] = ctx.cov.get("states", 0) + r.distinct
        ctx.cov["transitions"] = ctx.cov.get("transitions", 0) + r.generated
        ctx.add("tlc_runs")
        t = time.time()
        states, edges, init = parse_dot(dot)
        os.remove(dot)
        if init is None or len(states) != r.distinct:
            raise vlib.Inconclusive("dot dump: %d states parsed, TLC reported %d" % (len(states), r.distinct))
        paths = edge_cover(states, edges, init, rng)
        posts = {}
        for p in paths:
            steps, model = [], []
            for ei in p:
                u, v, lab = edges[ei]
                steps.append(step_of(lab, states[v]))
                if v not in posts:
                    posts[v] = post_of(states[v])
                model.append(posts[v])
            progs.append(mk_prog(len(progs), "cover-%d" % len(progs), rng.choice([1, 1, 3, 10]), steps, model))
        ncover = len(progs) - nscen
        ctx.cov["cover_graph"] = {"cfg": cover_cfg, "states": len(states), "edges": len(edges),
                                  "paths": ncover, "steps": sum(len(p) for p in paths)}
        ctx.log("cover graph: %d states, %d edges -> %d paths (%.1fs)" % (
            len(states), len(edges), ncover, time.time() - t))
        del states, edges, posts

        # --------------------------------------------------------- TLC simulation behaviours (larger constants)
        nsim = 400 if quick else 6000
        r = ctx.tlc("GetMessagesSim", cfg="GetMessagesSim.cfg", workers=1, simulate="num=%d" % nsim, depth=60,
                    timeout=600, deadlock=False, name="tlc-sim")
        if not r.ok:
            raise vlib.Inconclusive("TLC simulation failed:\n" + "\n".join(r.out.splitlines()[-30:]))
        ctx.add("tlc_runs")
        seen = set()
        for line in r.out.splitlines():
            if not line.startswith('"['):
                continue
            if line in seen:
                continue
            seen.add(line)
            hist = json.loads(json.loads(line))
            steps, model = [], []
            for h in hist:
                a = h["a"]
                if a == "add":
                    steps.append(["add", h["n"], h["b"]])
                elif a == "conn":
                    steps.append(["conn", h["n"]])
                else:
                    steps.append([a])
                model.append({k: h[k] for k in ("pc", "ls", "out", "wire", "dl", "want", "cn", "ap")})
            if steps:
                progs.append(mk_prog(len(progs), "sim-%d" % len(progs), rng.choice([1, 2, 5]), steps, model))
        nsimp = len(progs) - nscen - ncover
        if nsimp < nsim // 2:
            raise vlib.Inconclusive("only %d behaviours extracted from TLC simulation" % nsimp)
        ctx.log("simulation: %d behaviours" % nsimp)

        # --------------------------------------------------------- replay on the real code
        t = time.time()
        results = eng.replay(progs, timeout=1500)
        ctx.log("replayed %d programs (%d steps) on the real getMessages in %.1fs; back-offs %d, connections %d" % (
            len(progs), sum(len(p["steps"]) for p in progs), time.time() - t,
            sum(r_["backoffs"] for r_ in results), sum(r_["reconnects"] for r_ in results)))
        ok = eng.assess("replay", progs, results)
        ctx.cov["schedules_replayed"] = len(progs)
        ctx.cov["replay_steps"] = sum(len(p["steps"]) for p in progs)
        ctx.cov["replay_backoffs"] = sum(r_["backoffs"] for r_ in results)
        ctx.cov["replay_drained_complete"] = sum(1 for r_ in results if r_.get("drained"))
        for i in ok[:2]:
            ctx.sample({"program": progs[i]["name"], "steps": progs[i]["steps"],
                        "delivered": results[i]["delivered"], "batches": results[i]["batches"]})

        # trace validation of a sample of the replays (all scenarios + random sample)
        okset = [i for i in ok]
        pick = [i for i in okset if i < nscen]
        rest = [i for i in okset if i >= nscen]
        rng.shuffle(rest)
        pick += rest[:300 if quick else 4000]
        eng.validate_traces([results[i] for i in pick], "replays")

        # --------------------------------------------------------- random driver, free running
        nrand = 600 if quick else 6000
        t = time.time()
        rres = eng.run_harness("TestVerifC04Random",
                               {"VERIF_C04_RANDOM": json.dumps({"n": nrand, "seed": ctx.seed, "maxk": 6, "maxrep": 3})},
                               timeout=1200)
        ctx.log("random driver: %d sessions in %.1fs; connections %d" % (
            len(rres), time.time() - t, sum(r_["reconnects"] for r_ in rres)))
        rok = eng.assess("random", None, rres)
        ctx.cov["random_sessions"] = len(rres)
        ctx.cov["random_connections"] = sum(r_["reconnects"] for r_ in rres)
        eng.validate_traces([rres[i] for i in rok], "random")
        if rok:
            ctx.sample({"random_session": rres[rok[0]]["name"], "events": rres[rok[0]]["events"][:40]})

        # --------------------------------------------------------- catch-up race, free running
        t = time.time()
        cres = eng.run_harness("TestVerifC04CatchUp",
                               {"VERIF_C04_CATCHUP": json.dumps({"rounds": 60000 if quick else 600000, "seed": ctx.seed, "par": 6})},
                               timeout=1500)
        crounds = 0
        for c_ in cres:
            if c_.get("err"):
                raise vlib.Inconclusive("catch-up race %s: %s" % (c_["name"], c_["err"]))
            crounds += c_["rounds"]
            for k_, what in enumerate(c_.get("skipped") or []):
                if k_ == 0:
                    ctx.violation("catchup-skips-batch",
                                  "a resume that takes the search path while the node applies the next batch skips it: %s" % what,
                                  {"catchup": c_})
        ctx.cov["catchup_rounds"] = crounds
        ctx.log("catch-up race: %d resumes against a concurrent Add in %.1fs" % (crounds, time.time() - t))

        eng.corroborate()

        # --------------------------------------------------------- binding selftest
        base = results[0]
        if 0 in ok and (ctx.selftest or True):
            st = eng.selftest(base)
            # (c) replay against a deliberately wrong projection must diverge
            wrong = dict(progs[nscen]) if ncover else None
            if wrong:
                wm = [dict(m) for m in wrong["model"]]
                wm[-1]["dl"] = wm[-1]["dl"] + 1
                wrong["model"] = wm
                st["wrong_projection_detected"] = bool(conformance(wrong, results[nscen]))
                st["ok"] = st.get("ok", False) and st["wrong_projection_detected"]
            ctx.cov["binding_selftest"] = st
            ctx.log("binding selftest: %s" % st)
            if not st.get("ok") and not st.get("skipped"):
                raise vlib.Inconclusive("binding selftest failed: %s" % st)
        else:
            ctx.cov["binding_selftest"] = {"skipped": "base scenario not accepted on this tree"}
    finally:
        th.join()

    if eng.nskipped:
        ctx.cov["runs_skipped_after_300_failures"] = eng.nskipped
        if not ctx.violations and not ctx.known_hits:
            raise vlib.Inconclusive("%d runs skipped but no violation reported" % eng.nskipped)
    if eng.inconcl:
        ctx.cov["inconclusive_runs"] = len(eng.inconcl)
        ctx.note("inconclusive runs: %s" % eng.inconcl[:5])
        if not ctx.violations and not ctx.known_hits:
            raise vlib.Inconclusive("%d run(s) without outcome, e.g. %s" % (len(eng.inconcl), eng.inconcl[0]))

    # ------------------------------------------------------------- design-level result
    # (a violation established on the real code stands whatever TLC says about the design)
    decided = bool(ctx.violations or ctx.known_hits)
    r = tlc_res.get("small")
    problem = None
    if "small_err" in tlc_res:
        problem = "TLC (design spec) failed: %s" % tlc_res["small_err"]
    elif r.invariant_violated:
        problem = ("design spec GetMessages (Fixed=TRUE) violates %s -- modelling error, no verdict\n%s" % (
            r.invariant_violated, "\n".join(r.out.splitlines()[-40:])))
    elif not r.ok:
        problem = "TLC on the design spec did not finish: rc=%s timed_out=%s\n%s" % (
            r.rc, r.timed_out, "\n".join(x for x in r.out.splitlines()[-12:] if "processing of module" not in x))
    if problem:
        if not decided:
            raise vlib.Inconclusive(problem)
        ctx.note(problem[:400])
        ctx.cov["conformance_drifts"] = eng.ndrift
        return
    ctx.cov["states"] = ctx.cov.get("states", 0) + r.distinct
    ctx.cov["transitions"] = ctx.cov.get("transitions", 0) + r.generated
    ctx.add("tlc_runs")
    ctx.cov["design_exhaustive"] = {"distinct": r.distinct, "generated": r.generated, "depth": r.depth}
    if not quick:
        # final coverage dump only (TLC also prints interim ones)
        tail = r.out[r.out.rfind("<Init line"):]
        acts = re.findall(r"^<(\w+) line [^>]*>: (\d+):(\d+)", tail, re.M)
        ctx.cov["action_transitions"] = {a: int(g) for a, d, g in acts}
        ctx.cov["actions_never_taken"] = [a for a, d, g in acts if int(g) == 0]
    ctx.log("design spec exhaustive: %d distinct states, %d generated, depth %d" % (r.distinct, r.generated, r.depth))
    if eng.nviol:
        ctx.cov["violating_runs"] = {"%s/%s" % k: v for k, v in eng.nviol.items()}
        ctx.log("violating runs by class: %s" % ctx.cov["violating_runs"])
    ctx.cov["conformance_drifts"] = eng.ndrift
    ctx.cov["tree_has_initial_get"] = eng.saw_get

    if not quick:
        # vacuity of the invariant: the model of the PINNED getMessages (Get + GetNext(lastSeen),
        # Fixed = FALSE) must violate it; liveness of the repaired protocol
        r2 = ctx.tlc("GetMessages", cfg="GetMessages_unfixed.cfg", workers=4, timeout=900, deadlock=False,
                     name="tlc-pinned", extra=["-noGenerateSpecTE"])
        ctx.add("tlc_runs")
        ctx.cov["model_of_pinned_getmessages_violates"] = r2.invariant_violated
        if r2.invariant_violated != "DeliveredIsPrefix":
            raise vlib.Inconclusive("the model of the pinned getMessages does not violate DeliveredIsPrefix "
                                    "(the invariant does not discriminate)\n" + "\n".join(r2.out.splitlines()[-20:]))
        r3 = ctx.tlc("GetMessages", cfg="GetMessages_live.cfg", workers=4, timeout=900, deadlock=False,
                     name="tlc-live")
        ctx.add("tlc_runs")
        if not r3.ok:
            raise vlib.Inconclusive("liveness Complete not established on the design spec:\n" +
                                    "\n".join(r3.out.splitlines()[-30:]))
        ctx.cov["liveness_Complete"] = {"distinct": r3.distinct, "cfg": "GetMessages_live.cfg"}
        ctx.cov["states"] += r3.distinct
        ctx.cov["transitions"] += r3.generated

    ctx.assumptions += [
        "GetNext is atomic w.r.t. the stream at one instant and returns the smallest batch id above its "
        "argument or the successor of the tail (C08); nothing below the resume point is deleted (scope of C04)",
        "the per-session filter and the lastseen parsing of handleGetMessages are re-stated in the harness "
        "(the handler itself needs a raft node and an IRC server); getMessages and OutputStream are the real code",
        "one reader per session at a time (superseded requests are cancelled by handleGetMessages); pings ignored",
        "model ids are dense (k = 1,2,..); the harness maps them to sparse and dense real ids (stride 1..10)",
    ]

    # The resume protocol skips messages BY POSITION inside a batch, so it also relies on the state machine
    # numbering the replies of a batch 1..n without gaps: that predicate (ReplyIdsArePositions) is evaluated
    # by the IRC-layer engine on every reply batch the real state machine produced.
    if not getattr(ctx, "replay", None) and not getattr(ctx, "selftest", False):
        from checks import irc_common
        irc_common.attach(ctx, "C04")
        ctx.assumptions.append("reply numbering of the real state machine checked by the IRC-layer engine (irc_common.attach)")
        # The handler itself (per-session filter, lastseen parsing, superseding) runs in the HTTP-level stage:
        # real long polls of a complete single-node network, cancelled and resumed with lastseen, validated by
        # TLC against the recipient sets (StreamIsEntitledReplies: in order, exactly once across resumes).
        from checks import irc_http
        irc_http.report(ctx, "C04")
