"""C12 — decided by the shared IRC-layer engine (checks/irc_common.py) on the bare state machine and by
the HTTP-level stage (checks/irc_http.py) on a complete single-node network: what every session's real
long poll delivers is exactly what the (validated) recipient sets say."""
import json

from checks import irc_common, irc_http

LEVEL = "model_checking"


def run(ctx):
    rp = None
    if getattr(ctx, "replay", None):
        with open(ctx.replay) as fh:
            rp = (json.load(fh).get("replay") or {}).get("rig_program")
    if rp:
        irc_http.report(ctx, "C12", replay_program=rp)
        return
    irc_common.report(ctx, "C12")
    if not getattr(ctx, "replay", None):
        irc_http.report(ctx, "C12")
