"""C05 - acknowledged messages survive crashes and fail-over, exactly once, everywhere.

Technique: the design specification spec/Cluster.tla (raft abstracted to one
growing committed sequence; the bridge protocol; kills, restarts, pauses,
leader changes, snapshots) is model checked with TLC; its simulation behaviours
(history variable) become FAULT SCHEDULES that harness/cluster executes against
REAL robustirc binaries (one node, and three nodes on loopback) together with
hand-written crash-point schedules (SIGKILL at the hook gates) and seeded random
ones. What the binaries did is recorded per process (hooks H2/H3 in the nodes,
client/reader events in the orchestrator) and validated with TLC against
spec/ClusterTrace.tla, which infers the commit points and evaluates the
property predicates of spec/ClusterProps.tla on every recorded state.

Membership changes are part of both sides: Cluster.tla has the configuration
(`members`), Join / Part / CommitCfg / Retire, elections under a pending
configuration and InstallSnapshot for nodes whose entries were compacted out of
the leader's raft log; the orchestrator starts nodes late with -join (after
traffic and after compacting snapshots, so that they get their state by raft
InstallSnapshot over robustirc's HTTP transport - verified in the joiner's own
hook trace), removes nodes with POST /part as robustirc-removepeer does, deletes
their data and lets them join again; the leader's /status configuration after
every request is recorded and ClusterTrace.tla explains it. Besides the stream
predicates, the serialised state (/status/state) of all members is compared
whenever everything is applied everywhere (StatesEqual: a snapshot install must
not change the replicated state).

A verdict only ever comes from the recorded behaviour of the real binaries.

Environment: VERIF_C05_PORT_BASE=<port> makes the nodes listen on fixed ports
(8 per schedule, upwards from <port>) instead of ports handed out by the kernel.
"""
import concurrent.futures
import json
import os
import random
import re
import shutil
import threading
import zlib

import vlib

LEVEL = "model_checking"
OFFSET = 4648398125000000000
FIRSTLINE = 4          # ClientMessageIds 1..3 are NICK, USER, JOIN
HARNESS = os.path.join(vlib.HARNESS, "cluster")
F7_SIGNATURE = "retry-before-new-leader-applied-first-copy"
F7B_SIGNATURE = "retry-while-first-copy-unapplied-on-same-leader"
VISIBLE_SIGNATURE = "acked-post-applied-twice-although-first-copy-was-visible"
STALE_SIGNATURE = "stale-retry-after-newer-post"
_LOCK = threading.Lock()


def add(ctx, key, n=1):
    with _LOCK:
        ctx.add(key, n)

# ------------------------------------------------------------------ build


def build(ctx):
    """robustirc (tags verif, from the current tree) + the orchestrator."""
    src = os.path.join(vlib.REPO, "robustirc.go")
    with open(src) as fh:
        text = fh.read()
    # A single-node network refuses to restart ("Only known peer is myself",
    # robustirc.go main()). For the single-node rig that one test is made
    # conditional on an environment variable that only the rig sets; everything
    # else of main() is the tree's code.
    old = 'if len(addrs) == 1 && addrs[0] == *peerAddr {'
    if text.count(old) != 1:
        raise vlib.Inconclusive("robustirc.go: the single-peer restart test is not where the rig expects it")
    text = text.replace(old, 'if len(addrs) == 1 && addrs[0] == *peerAddr && os.Getenv("VERIF_ALLOW_SINGLE_RESTART") == "" {')
    # raft.Config.TrailingLogs (default 10240: the raft log is never compacted in a short
    # run, so a late joiner would replay the log and InstallSnapshot would never happen).
    # The membership schedules set it through the environment; without the variable the
    # Sscan fails and the default stays. Nothing else of the raft setup is touched.
    old = 'config.MaxAppendEntries = 1024'
    if text.count(old) != 1:
        raise vlib.Inconclusive("robustirc.go: the raft configuration is not where the rig expects it")
    text = text.replace(old, old + '\n\tfmt.Sscan(os.Getenv("VERIF_TRAILING_LOGS"), &config.TrailingLogs)')
    ov = ctx.overlay({"robustirc.go": text})
    bindir = ctx.sub("bin")
    robust = ctx.go_build(".", os.path.join(bindir, "robustirc"), overlay=ov, tags="verif", timeout=600)
    orch = os.path.join(bindir, "verif-cluster")
    rc, out, to = vlib.run(["go", "build", "-o", orch, "."], cwd=HARNESS, env=vlib._env(), timeout=300)
    if rc != 0 or to:
        raise vlib.Inconclusive("orchestrator build failed:\n" + out[-4000:])
    return robust, orch


# ------------------------------------------------------------------ schedules

def setup_steps(nclients):
    """NICK, USER, JOIN for everybody, on a calm network."""
    return [{"op": "bg", "count": 3}, {"op": "barrier"}]


def from_behaviour(hist, name, seed, nclients):
    """Translate the history variable of a TLC behaviour of Cluster.tla into the
    controllable steps of a schedule. Node numbers stay model numbers; the
    orchestrator binds them to real nodes (model leader -> real leader)."""
    steps = setup_steps(nclients)
    outstanding = {}      # client -> True while the model has a request outstanding
    initial = 3
    for i, h in enumerate(hist):
        a = h["a"]
        if a == "Init":
            members = h.get("members") or []
            if members and len(members) < 3:
                initial = len(members)
                steps.append({"op": "bindmembers", "n": h["n"], "members": members})
            else:
                steps.append({"op": "bindleader", "n": h["n"]})
        elif a == "Join":
            # a fresh process with -join=<some member>; the request is proxied to the leader
            steps.append({"op": "rejoin", "n": h["n"], "via": "member", "ms": 15000})
        elif a == "Part":
            steps.append({"op": "part", "n": h["n"], "via": "member"})
        elif a == "Retire":
            steps.append({"op": "retire", "n": h["n"]})
        elif a in ("Post", "Retry"):
            c = h["c"]
            # will the node die at the ack gate while this request is outstanding?
            gate = None
            for later in hist[i + 1:]:
                if later["a"] in ("Ack", "AckDup", "Timeout", "Retry") and later.get("c") == c:
                    break
                if later["a"] == "Kill" and later.get("atgate"):
                    gate = later["n"]
                    break
            if gate is not None:
                steps.append({"op": "arm", "n": gate, "point": "api.applied", "filterc": c,
                              "cmid": "next" if a == "Post" else "cur"})
            if a == "Post":
                steps.append({"op": "post", "c": c, "n": h["n"]})
            else:
                steps.append({"op": "retryat", "c": c, "n": h["n"]})
            outstanding[c] = True
        elif a == "Timeout":
            c = h["c"]
            for later in hist[i + 1:]:
                if later["a"] == "Retry" and later["c"] == c:
                    steps.append({"op": "retryat", "c": c, "n": later["n"]})
                    break
            steps.append({"op": "timeout", "c": c})
        elif a in ("Ack", "AckDup"):
            steps.append({"op": "await", "c": h["c"], "ms": 8000})
            outstanding[h["c"]] = False
        elif a == "Kill":
            if h.get("atgate"):
                steps.append({"op": "killgate", "n": h["n"], "point": "api.applied", "ms": 4000})
            else:
                steps.append({"op": "kill", "n": h["n"]})
        elif a == "Restart":
            steps.append({"op": "restart", "n": h["n"]})
        elif a == "Pause":
            steps.append({"op": "pause", "n": h["n"]})
        elif a == "Resume":
            steps.append({"op": "resume", "n": h["n"]})
        elif a == "Snapshot":
            steps.append({"op": "snapshot", "n": h["n"]})
        elif a == "LeaderChange":
            steps.append({"op": "leaderchange", "n": h["n"], "forced": bool(h.get("forced"))})
        steps.append({"op": "sleep", "ms": 40})
    sch = {"name": name, "nodes": 3, "clients": nclients, "seed": seed, "steps": steps, "origin": "tlc"}
    if initial < 3 or any(h["a"] in ("Join", "Part") for h in hist):
        # behaviours of Cluster_simmember.cfg: snapshots compact the raft log (the model's Trailing = 0)
        sch.update({"initial": initial, "trailing_logs": 1, "origin": "tlc-membership"})
    return sch


def single_gate_schedule(seed):
    """One node: forced snapshots, SIGKILL exactly between "committed+applied" and the
    acknowledgement (hook H3), SIGKILL at the end of FSM.Apply (hook H2), restarts."""
    rnd = random.Random(seed)
    steps = setup_steps(2)
    steps += [{"op": "bg", "count": 2}, {"op": "barrier"},
              {"op": "snapshot", "n": 1}, {"op": "sleep", "ms": 300},
              # crash point: committed and applied, not yet acknowledged
              {"op": "arm", "n": 1, "point": "api.applied", "filterc": 1, "cmid": "next"},
              {"op": "post", "c": 1, "n": 1},
              {"op": "post", "c": 2, "n": 1},
              {"op": "killgate", "n": 1, "point": "api.applied"},
              {"op": "restart", "n": 1},
              {"op": "barrier"},
              {"op": "bg", "count": 2}, {"op": "barrier"},
              # crash point: FSM.Apply done, raft future not yet answered
              {"op": "arm", "n": 1, "point": "fsm.apply", "filterc": 2, "cmid": "next"},
              {"op": "post", "c": 2, "n": 1},
              {"op": "killgate", "n": 1, "point": "fsm.apply"},
              {"op": "restart", "n": 1},
              {"op": "barrier"},
              {"op": "snapshot", "n": 1}, {"op": "sleep", "ms": 200 + rnd.randrange(300)},
              {"op": "bg", "count": 2},
              {"op": "sleep", "ms": rnd.randrange(400)},
              {"op": "kill", "n": 1},            # random moment, posts in flight
              {"op": "restart", "n": 1},
              {"op": "barrier"},
              {"op": "snapshot", "n": 1}, {"op": "sleep", "ms": 300},
              {"op": "kill", "n": 1}]            # quiesce restarts it: final reads after a full restart
    return {"name": "single-gates-%d" % seed, "nodes": 1, "clients": 2, "seed": seed, "steps": steps, "origin": "crashpoints"}


def fold_schedule(seed, nodes):
    """Snapshots that really compact: everything before the fold point is folded into
    the serialized server state and deleted from irclog and output store
    (-canary_compaction_start), then nodes are killed and restored from that
    snapshot; a client whose acknowledgement got lost retries a post that only
    exists inside the folded state."""
    rnd = random.Random(seed * 31 + nodes)
    nclients = 2 if nodes == 1 else 3
    who = "leader" if nodes == 3 else 1
    steps = setup_steps(nclients)
    steps += [{"op": "bg", "count": 2}, {"op": "barrier"},
              {"op": "foldpoint"},
              # clients 2.. go on; client 1 stays silent so that its last post lives only in the folded state
              {"op": "post", "c": 2, "n": who}, {"op": "await", "c": 2},
              {"op": "snapshot", "n": who}, {"op": "sleep", "ms": 500},
              {"op": "post", "c": 2, "n": "random"}, {"op": "await", "c": 2},
              {"op": "kill", "n": who},
              {"op": "sleep", "ms": rnd.randrange(400)},
              {"op": "restart", "n": "randomdown"}, {"op": "waitserving", "n": who if nodes == 1 else "random"},
              {"op": "waitleader"},
              {"op": "repost", "c": 1},
              {"op": "post", "c": 2, "n": "random"}, {"op": "await", "c": 2}]
    if nodes == 3:
        steps += [{"op": "snapshot", "n": 1}, {"op": "snapshot", "n": 2}, {"op": "snapshot", "n": 3}, {"op": "sleep", "ms": 500},
                  {"op": "post", "c": 3, "n": "random"}, {"op": "await", "c": 3}]
    steps += [{"op": "bg", "count": 2}, {"op": "barrier"},
              {"op": "snapshot", "n": who}, {"op": "sleep", "ms": 400}]
    steps += [{"op": "kill", "n": i + 1} for i in range(nodes)]
    return {"name": "fold%d-%d" % (nodes, seed), "nodes": nodes, "clients": nclients, "seed": seed, "steps": steps,
            "fold_after_ms": 9000 if nodes == 1 else 16000, "origin": "crashpoints"}


def single_random_schedule(seed, rounds=3):
    rnd = random.Random(seed * 7919 + 1)
    steps = setup_steps(2)
    for r in range(rounds):
        steps.append({"op": "bg", "count": 3})
        steps.append({"op": "sleep", "ms": rnd.randrange(900)})
        if rnd.random() < 0.5:
            steps.append({"op": "snapshot", "n": 1})
            steps.append({"op": "sleep", "ms": rnd.randrange(300)})
        steps.append({"op": "kill", "n": 1})
        steps.append({"op": "sleep", "ms": rnd.randrange(300)})
        steps.append({"op": "restart", "n": 1})
        steps.append({"op": "barrier"})
    return {"name": "single-random-%d" % seed, "nodes": 1, "clients": 2, "seed": seed, "steps": steps, "origin": "random"}


def three_mixed_schedule(seed, safeguard=False):
    """Three nodes: leader killed at the ack gate, follower pause, snapshots,
    restart, lost-acknowledgement retry, finally all nodes killed."""
    rnd = random.Random(seed * 104729 + 3)
    steps = setup_steps(3)
    steps += [{"op": "bg", "count": 2}, {"op": "barrier"},
              {"op": "snapshot", "n": "follower"},
              {"op": "pause", "n": "follower2"},
              {"op": "bg", "count": 2},
              {"op": "sleep", "ms": 200 + rnd.randrange(400)},
              {"op": "resumeall"},
              {"op": "barrier"},
              # the acknowledgement was lost: the client retries a post everybody has applied
              {"op": "waitdelivered", "c": 1},
              {"op": "repost", "c": 1},
              # leader dies between "committed+applied" and the acknowledgement
              {"op": "arm", "n": "leader", "point": "api.applied", "filterc": 2, "cmid": "next"},
              {"op": "post", "c": 2, "n": "leader"},
              {"op": "post", "c": 3, "n": "follower"},
              {"op": "killgate", "n": "leader", "point": "api.applied"},
              {"op": "bg", "count": 2},
              {"op": "sleep", "ms": rnd.randrange(1500)},
              {"op": "restart", "n": "randomdown"},
              {"op": "barrier"},
              {"op": "snapshot", "n": "leader"},
              {"op": "sleep", "ms": 300},
              {"op": "kill", "n": 1}, {"op": "kill", "n": 2}, {"op": "kill", "n": 3}]
    return {"name": "three-mixed-%d" % seed, "nodes": 3, "clients": 3, "seed": seed, "steps": steps,
            "safeguard": safeguard, "origin": "crashpoints"}


def partition_schedule(seed):
    """A leader that cannot reach its followers: the post it accepted stays
    uncommitted, it loses leadership (raft.ErrLeadershipLost), the rest of the
    network elects a new leader and moves on; the deposed leader's uncommitted
    entry is discarded when it comes back. The client must only see success for
    what survives."""
    rnd = random.Random(seed * 613 + 5)
    steps = setup_steps(3)
    steps += [{"op": "bg", "count": 1}, {"op": "barrier"},
              {"op": "bindleader", "n": 9},
              {"op": "pausefollowers"},
              {"op": "post", "c": 1, "n": 9},
              {"op": "sleep", "ms": 3200 + rnd.randrange(600)},     # LeaderLeaseTimeout is 2 s
              {"op": "pause", "n": 9},
              {"op": "resumeexcept", "n": 9},
              {"op": "waitleader"},
              {"op": "post", "c": 2, "n": "leader"}, {"op": "await", "c": 2},
              {"op": "await", "c": 1, "ms": 40000},
              {"op": "snapshot", "n": "leader"},
              {"op": "resumeall"},
              {"op": "barrier"},
              {"op": "bg", "count": 1}, {"op": "barrier"}]
    return {"name": "partition-%d" % seed, "nodes": 3, "clients": 3, "seed": seed, "steps": steps, "origin": "crashpoints"}


def isolated_leader_schedule(seed):
    """Like partition_schedule, but with crashes: both followers are killed, the
    leader accepts a post it can never commit and loses leadership; it is killed
    too; the followers come back (without that entry) and carry on; the old
    leader rejoins and its uncommitted entry is discarded."""
    rnd = random.Random(seed * 811 + 7)
    steps = setup_steps(3)
    steps += [{"op": "bg", "count": 1}, {"op": "barrier"},
              {"op": "bind", "n": 9, "to": "leader"}, {"op": "bind", "n": 7, "to": "follower"}, {"op": "bind", "n": 8, "to": "follower2"},
              {"op": "kill", "n": 7}, {"op": "kill", "n": 8},
              {"op": "post", "c": 1, "n": 9},
              {"op": "sleep", "ms": 3200 + rnd.randrange(600)},
              {"op": "kill", "n": 9},
              {"op": "restart", "n": 7}, {"op": "restart", "n": 8},
              {"op": "waitleader"},
              {"op": "post", "c": 2, "n": "leader"}, {"op": "await", "c": 2},
              {"op": "await", "c": 1, "ms": 40000},
              {"op": "restart", "n": 9},
              {"op": "barrier"},
              {"op": "bg", "count": 1}, {"op": "barrier"}]
    return {"name": "isolated-%d" % seed, "nodes": 3, "clients": 3, "seed": seed, "steps": steps, "origin": "crashpoints"}


def three_random_schedule(seed, rounds=4):
    rnd = random.Random(seed * 15485863 + 11)
    steps = setup_steps(3)
    steps.append({"op": "bg", "count": 3 * rounds})
    for r in range(rounds):
        steps.append({"op": "sleep", "ms": 300 + rnd.randrange(1200)})
        kind = rnd.choice(["killleader", "killfollower", "pauseleader", "pausefollower", "snapshot", "killgate"])
        if kind == "killleader":
            steps += [{"op": "kill", "n": "leader"}, {"op": "sleep", "ms": rnd.randrange(2500)},
                      {"op": "restart", "n": "randomdown"}]
        elif kind == "killfollower":
            steps += [{"op": "kill", "n": "follower"}, {"op": "sleep", "ms": rnd.randrange(1500)},
                      {"op": "restart", "n": "randomdown"}]
        elif kind == "pauseleader":
            steps += [{"op": "pause", "n": "leader"}, {"op": "sleep", "ms": 500 + rnd.randrange(4500)},
                      {"op": "resumeall"}]
        elif kind == "pausefollower":
            steps += [{"op": "pause", "n": "follower"}, {"op": "sleep", "ms": 500 + rnd.randrange(2500)},
                      {"op": "resumeall"}]
        elif kind == "snapshot":
            steps += [{"op": "snapshot", "n": "random"}]
        else:
            steps += [{"op": "arm", "n": "leader", "point": rnd.choice(["api.applied", "fsm.apply"]),
                       "filter": {"type": 2}},
                      {"op": "killgate", "n": "leader", "point": "api.applied", "ms": 3000},
                      {"op": "disarmall"},
                      {"op": "sleep", "ms": rnd.randrange(2000)},
                      {"op": "restart", "n": "randomdown"}]
    if rnd.random() < 0.5:
        steps += [{"op": "barrier"}, {"op": "kill", "n": 1}, {"op": "kill", "n": 2}, {"op": "kill", "n": 3}]
    return {"name": "three-random-%d" % seed, "nodes": 3, "clients": 3, "seed": seed, "steps": steps, "origin": "random"}


def stalled_leader_schedule(seed, rounds=2):
    """The leader stalls (SIGSTOP) for a little less than the clients' patience while traffic keeps arriving at the
    followers, which proxy it to the leader they still believe in: whatever a follower answers 200 for must be in
    the log (a proxy hop that gives up must not look like an acknowledgement)."""
    rnd = random.Random(seed * 32452843 + 5)
    steps = setup_steps(3)
    steps.append({"op": "bg", "count": 4 * rounds})
    for r in range(rounds):
        steps += [{"op": "sleep", "ms": 400 + rnd.randrange(600)},
                  {"op": "pause", "n": "leader"}, {"op": "sleep", "ms": 3200 + rnd.randrange(500)},
                  {"op": "resumeall"}, {"op": "sleep", "ms": 800}]
    steps += [{"op": "barrier"}]
    return {"name": "stalled-leader-%d" % seed, "nodes": 3, "clients": 3, "seed": seed, "steps": steps, "origin": "random"}


def f7_schedule(seed):
    """The candidate of DESIGN section 7 row F7 / the counterexample of Cluster_f7.cfg, with
    gates: the followers' FSM goroutines are parked (they still replicate), the
    leader is killed between "committed+applied" and the acknowledgement, the
    client retries the same ClientMessageId at the new leader before that one
    applied the first copy."""
    steps = setup_steps(3)
    steps += [{"op": "bg", "count": 1}, {"op": "barrier"},
              # park both followers at the end of FSM.Apply of a marker post of client 2
              {"op": "armfollowers", "point": "fsm.apply", "filterc": 2, "cmid": "next"},
              {"op": "post", "c": 2, "n": "leader"},
              {"op": "await", "c": 2},
              {"op": "waitgatefollowers", "point": "fsm.apply"},
              # first copy: committed, applied on the leader only, never acknowledged
              {"op": "arm", "n": "leader", "point": "api.applied", "filterc": 1, "cmid": "next"},
              {"op": "post", "c": 1, "n": "leader"},
              {"op": "killgate", "n": "leader", "point": "api.applied"},
              # the client retries (connection error); a follower wins the election
              {"op": "waitleader"},
              {"op": "sleep", "ms": 1500},
              # only now the new leader's FSM may apply the first copy
              {"op": "disarmall"},
              {"op": "barrier"},
              {"op": "bg", "count": 1}, {"op": "barrier"}]
    return {"name": "f7-%d" % seed, "nodes": 3, "clients": 3, "seed": seed, "steps": steps, "origin": "f7"}


# ------------------------------------------------------------------ membership schedules

def latejoin_schedule(seed, fold=False):
    """Two nodes carry the traffic; the leader takes a snapshot that really compacts its
    raft log (TrailingLogs 1); a third node joins LATE, through a follower (the request
    is proxied to the leader), while clients keep posting: it gets its state by raft
    InstallSnapshot over the HTTP transport (verified in the node's own hook trace) and
    the tail by log replication. With fold=True the snapshot also folds the old entries
    into the serialised server state (FSM.Snapshot compaction), so the joiner's state
    comes out of IRCServer.Unmarshal. A client whose acknowledgement got lost then
    retries a post every node has to recognise - the joiner from restored state only.
    Then an initial member is removed (POST /part through the joiner): the quorum is
    now {old member, late joiner}; the leader dies between apply and acknowledgement;
    finally every member is killed and restarted (the joiner from the snapshot it was
    sent)."""
    rnd = random.Random(seed * 7349 + (17 if fold else 3))
    steps = setup_steps(3)
    steps += [{"op": "bg", "count": 2}, {"op": "barrier"}]
    if fold:
        steps += [{"op": "foldpoint"},
                  {"op": "post", "c": 2, "n": "leader"}, {"op": "await", "c": 2}]
    steps += [{"op": "snapshot", "n": "leader"}, {"op": "sleep", "ms": 700},
              {"op": "post", "c": 2, "n": "random"}, {"op": "post", "c": 3, "n": "random"},
              {"op": "await", "c": 2}, {"op": "await", "c": 3}]
    if fold:
        # clients 2 and 3 go on while the node joins; client 1 stays silent: its last post
        # exists only inside the folded state
        steps += [{"op": "post", "c": 2, "n": "random"},
                  {"op": "join", "via": "follower", "expect": "snapshot"},
                  {"op": "await", "c": 2},
                  {"op": "post", "c": 3, "n": "random"}, {"op": "await", "c": 3}]
    else:
        steps += [{"op": "bg", "count": 3},
                  {"op": "sleep", "ms": rnd.randrange(200)},
                  {"op": "join", "via": "follower", "expect": "snapshot"},
                  {"op": "barrier"},
                  {"op": "waitdelivered", "c": 1}]
    steps += [{"op": "repost", "c": 1},
              {"op": "checkstates"},
              # the joiner's own next snapshot builds on the state it was sent
              {"op": "snapshot", "n": "joined"}, {"op": "sleep", "ms": 500},
              {"op": "bind", "n": 9, "to": "follower"},
              {"op": "part", "n": 9, "via": "follower2"},
              {"op": "post", "c": 3, "n": "random"}, {"op": "await", "c": 3},
              {"op": "arm", "n": "leader", "point": "api.applied", "filterc": 2, "cmid": "next"},
              {"op": "post", "c": 2, "n": "leader"},
              {"op": "killgate", "n": "leader", "point": "api.applied"},
              {"op": "sleep", "ms": rnd.randrange(600)},
              {"op": "restart", "n": "randomdown"},
              {"op": "barrier"},
              {"op": "post", "c": 3, "n": "random"}, {"op": "await", "c": 3},
              {"op": "kill", "n": 1}, {"op": "kill", "n": 2}, {"op": "kill", "n": 3}]
    sch = {"name": "latejoin%s-%d" % ("-fold" if fold else "", seed), "nodes": 3, "initial": 2, "clients": 3, "seed": seed,
           "trailing_logs": 1, "steps": steps, "origin": "membership", "expect_snapshot_installs": 1}
    if fold:
        sch["fold_after_ms"] = 14000
    return sch


def grow_schedule(seed, volume=False):
    """A network that starts with ONE node grows to three under traffic, both joiners
    after a compacting snapshot (InstallSnapshot); then the original node - the only one
    that applied every entry itself - is killed between apply and acknowledgement and
    removed: what was acknowledged by a quorum of one must be served by the two late
    joiners."""
    rnd = random.Random(seed * 4409 + 1)
    steps = setup_steps(3)
    # volume: more than 100 entries before the first snapshot (FSM.Restore writes them in
    # batches of 100); slow because the server throttles a session that posts quickly
    steps += [{"op": "bg", "count": 34 if volume else 2}, {"op": "barrier", "ms": 120000},
              {"op": "snapshot", "n": 1}, {"op": "sleep", "ms": 600},
              {"op": "bg", "count": 4},
              {"op": "sleep", "ms": rnd.randrange(300)},
              {"op": "join", "via": 1, "expect": "snapshot"},
              {"op": "barrier"},
              {"op": "snapshot", "n": "leader"}, {"op": "sleep", "ms": 600},
              {"op": "bg", "count": 3},
              {"op": "join", "via": "follower", "expect": "snapshot"},
              {"op": "barrier"},
              {"op": "waitdelivered", "c": 1},
              {"op": "repost", "c": 1},
              {"op": "checkstates"},
              {"op": "snapshot", "n": "joined"}, {"op": "sleep", "ms": 500},
              {"op": "arm", "n": 1, "point": "api.applied", "filterc": 2, "cmid": "next"},
              {"op": "post", "c": 2, "n": 1},
              {"op": "post", "c": 3, "n": "follower"},
              {"op": "killgate", "n": 1, "point": "api.applied", "ms": 3000},
              {"op": "disarmall"},
              {"op": "waitleader"},
              {"op": "part", "n": 1, "via": "leader"},
              {"op": "bg", "count": 2}, {"op": "barrier"},
              {"op": "snapshot", "n": "leader"}, {"op": "sleep", "ms": 400},
              {"op": "kill", "n": 2}, {"op": "kill", "n": 3}]
    return {"name": "grow%s-%d" % ("-volume" if volume else "", seed), "nodes": 3, "initial": 1, "clients": 3, "seed": seed, "trailing_logs": 1,
            "steps": steps, "origin": "membership", "expect_snapshot_installs": 2}


def shrinkgrow_schedule(seed):
    """Three members; the LEADER is removed under traffic (it leads until the change is
    committed, then raft shuts down and the process terminates itself); the two others
    carry on, snapshot and compact; the removed node's data is deleted and it joins
    again (InstallSnapshot); a follower is paused across a compacting snapshot so that
    a RUNNING node is sent the snapshot as well (FSM.Restore replaces live state)."""
    rnd = random.Random(seed * 2741 + 9)
    steps = setup_steps(3)
    steps += [{"op": "bg", "count": 2}, {"op": "barrier"},
              {"op": "bg", "count": 5},
              {"op": "sleep", "ms": 100 + rnd.randrange(300)},
              {"op": "bind", "n": 9, "to": "leader"},
              {"op": "part", "n": 9, "via": "follower"},
              {"op": "waitleader"},
              {"op": "barrier"},
              {"op": "snapshot", "n": "leader"}, {"op": "sleep", "ms": 600},
              {"op": "bg", "count": 3},
              {"op": "rejoin", "n": 9, "via": "follower", "expect": "snapshot"},
              {"op": "checkstates"},
              # a live follower falls behind a compacting snapshot (the clients talk to the
              # leader meanwhile: a request parked at the paused node beyond the client's
              # timeout is the stale-retry shape, reproduced on purpose by stale_retry_schedule)
              {"op": "bind", "n": 8, "to": "follower"},
              {"op": "pause", "n": 8},
              {"op": "post", "c": 1, "n": "leader"}, {"op": "post", "c": 2, "n": "leader"},
              {"op": "await", "c": 1}, {"op": "await", "c": 2},
              {"op": "post", "c": 3, "n": "leader"}, {"op": "post", "c": 2, "n": "leader"},
              {"op": "await", "c": 3}, {"op": "await", "c": 2},
              {"op": "snapshot", "n": "leader"}, {"op": "sleep", "ms": 700},
              {"op": "post", "c": 1, "n": "leader"}, {"op": "await", "c": 1},
              {"op": "resumeall"},
              {"op": "bg", "count": 2}, {"op": "barrier"},
              {"op": "checkstates"},
              {"op": "kill", "n": "leader"}]
    return {"name": "shrinkgrow-%d" % seed, "nodes": 3, "clients": 3, "seed": seed, "trailing_logs": 1, "steps": steps,
            "origin": "membership", "expect_snapshot_installs": 1}


def stale_retry_schedule(seed, rounds=6):
    """Third shape of the double application (same root cause as F7/F7b), on purpose: a
    request is parked at a node that is stalled for longer than the client's patience;
    the client retries elsewhere (same ClientMessageId), is acknowledged and posts newer
    messages; the stalled node wakes up and handles the stale request: the duplicate
    test only knows the session's LAST ClientMessageId, so the old message is committed
    and delivered a second time, behind the newer ones. Whether the woken node still
    forwards the stale request is a race inside net/http (the proxied request carries the
    context of a connection the client has closed), hence several rounds."""
    steps = setup_steps(3)
    steps += [{"op": "bg", "count": 1}, {"op": "barrier"},
              {"op": "bind", "n": 8, "to": "follower"}]
    for r in range(rounds):
        c = r % 3 + 1
        steps += [# a kept-alive connection to that node, so that the next request reaches its socket
                  {"op": "post", "c": c, "n": 8}, {"op": "await", "c": c},
                  # the stall stays below raft's heartbeat timeout (2 s), so that the node still
                  # knows its leader when it wakes up; the client is less patient than that
                  {"op": "clienttimeout", "c": c, "ms": 500},
                  {"op": "pause", "n": 8},
                  {"op": "retryat", "c": c, "n": "leader"},
                  {"op": "post", "c": c, "n": 8},                      # times out, retried at the leader
                  {"op": "await", "c": c, "ms": 20000},
                  {"op": "post", "c": c, "n": "leader"}, {"op": "await", "c": c},
                  {"op": "post", "c": c, "n": "leader"}, {"op": "await", "c": c},
                  {"op": "resumeall"},
                  {"op": "clienttimeout", "c": c, "ms": 4000},
                  {"op": "sleep", "ms": 900},
                  {"op": "barrier"}]
    steps += [{"op": "bg", "count": 1}, {"op": "barrier"}]
    return {"name": "stale-retry-%d" % seed, "nodes": 3, "clients": 3, "seed": seed, "steps": steps, "origin": "f7c"}


def member_random_schedule(seed, rounds=5):
    """Seeded random mix of joins, parts, re-joins, kills, pauses and compacting
    snapshots under continuous traffic."""
    rnd = random.Random(seed * 32452843 + 5)
    initial = rnd.choice([1, 2, 3])
    steps = setup_steps(3)
    steps.append({"op": "bg", "count": 3 * rounds})
    for r in range(rounds):
        steps.append({"op": "sleep", "ms": 300 + rnd.randrange(1000)})
        kind = rnd.choice(["join", "join", "part", "partleader", "rejoin", "snapshot", "snapshot", "killleader", "killfollower", "pausefollower"])
        if kind == "join":
            steps += [{"op": "join", "via": rnd.choice(["leader", "follower", "member"])}]
        elif kind == "part":
            steps += [{"op": "part", "n": "follower", "via": rnd.choice(["leader", "follower", "member"])}]
        elif kind == "partleader":
            steps += [{"op": "part", "n": "leader", "via": rnd.choice(["leader", "follower"])}, {"op": "waitleader", "ms": 20000}]
        elif kind == "rejoin":
            steps += [{"op": "rejoin", "n": "removed", "via": "member"}]
        elif kind == "snapshot":
            steps += [{"op": "snapshot", "n": rnd.choice(["leader", "random"])}]
        elif kind == "killleader":
            steps += [{"op": "kill", "n": "leader"}, {"op": "sleep", "ms": rnd.randrange(2000)}, {"op": "restart", "n": "randomdown"}]
        elif kind == "killfollower":
            steps += [{"op": "kill", "n": "follower"}, {"op": "sleep", "ms": rnd.randrange(1200)}, {"op": "restart", "n": "randomdown"}]
        else:
            steps += [{"op": "pause", "n": "follower"}, {"op": "sleep", "ms": 400 + rnd.randrange(1500)},
                      {"op": "snapshot", "n": "leader"}, {"op": "sleep", "ms": 500}, {"op": "resumeall"}]
    return {"name": "member-random-%d" % seed, "nodes": 3, "initial": initial, "clients": 3, "seed": seed, "trailing_logs": 1,
            "steps": steps, "origin": "membership-random"}


# ------------------------------------------------------------------ running

def run_schedule(ctx, bins, sched, deadline=240):
    robust, orch = bins
    d = ctx.sub("run-" + sched["name"])
    sp = os.path.join(d, "schedule.json")
    with open(sp, "w") as fh:
        json.dump(sched, fh)
    out = os.path.join(d, "out")
    work = os.path.join(d, "work")
    cmd = [orch, "-bin", robust, "-work", work, "-out", out, "-schedule", sp, "-deadline", str(deadline)]
    base = os.environ.get("VERIF_C05_PORT_BASE")
    if base:
        # fixed ports instead of ports handed out by the kernel: 8 per schedule, in the order
        # the schedules are started (for running several instances of the check side by side)
        with _LOCK:
            slot = run_schedule.slot = getattr(run_schedule, "slot", -1) + 1
        cmd += ["-portbase", str(int(base) + 8 * slot)]
    rc, txt, to = vlib.run(cmd, env=vlib._env(), timeout=deadline + 60)
    res = {}
    try:
        with open(os.path.join(out, "result.json")) as fh:
            res = json.load(fh)
    except Exception:
        res = {"status": "inconclusive", "why": "no result.json (rc=%s timed_out=%s): %s" % (rc, to, txt[-500:])}
    res["out"] = out
    res["work"] = work
    res["sched"] = sched
    if to:
        # last resort: the orchestrator did not clean up
        vlib.run(["pkill", "-9", "-f", work])
    return res


# ------------------------------------------------------------------ trace conversion

def norm_data(data):
    data = data.rstrip("\r\n")
    # RPL_CREATED carries the start time of the answering process (replica
    # determinism of that text is C01's subject, not C05's)
    if re.match(r"^:\S+ 003 ", data):
        return "003"
    return data


def hash_data(data):
    return zlib.crc32(norm_data(data).encode("utf-8", "replace")) & 0x3FFFFFFF


def norm_state(text):
    """The text form of IRCServer.Marshal() as /status/state serves it, made canonical:
    Marshal walks Go maps (sessions, channels, ...), so the ORDER of repeated blocks
    differs from node to node and from call to call; blocks are therefore sorted at every
    level (the comparison is order-insensitive). One field is left out because it is
    node-local by design: throttling_exponent is changed by the POST handler of the node
    that happens to serve a client, not by FSM.Apply."""
    lines = [l.strip() for l in text.splitlines() if l.strip()]
    pos = [0]

    def block():
        items = []
        while pos[0] < len(lines):
            l = lines[pos[0]]
            pos[0] += 1
            if l == ">":
                break
            if l.endswith("<"):
                items.append(l + " " + block() + " >")
            elif not l.startswith("throttling_exponent:"):
                items.append(l)
        return " ".join(sorted(items))

    out = []
    while pos[0] < len(lines):
        out.append(block())
    return "\n".join(x for x in out if x)


def hash_state(text):
    return 1 + (zlib.crc32(norm_state(text).encode("utf-8", "replace")) & 0x3FFFFFFF)


class History:
    """The recorded streams of one run, converted for ClusterTrace.tla."""

    def __init__(self, outdir):
        self.outdir = outdir
        self.orch = vlib.read_ndjson(os.path.join(outdir, "orch.ndjson"))
        self.sessions = {}        # client no -> session index
        self.idx2c = {}
        for e in self.orch:
            if e["ev"] == "session":
                self.sessions[e["c"]] = e["idx"]
                self.idx2c[e["idx"]] = e["c"]
        self.fold = {}            # session -> (idx, reply) of its last message before the fold point
        self.firstline = FIRSTLINE
        for e in self.orch:
            if e["ev"] == "foldpoint":
                self.fold[e["s"]] = (e["idx"], e["reply"])
                self.firstline = max(self.firstline, e["cmid"] + 1)
        self.nodes = 0
        self.streams = {}         # (n, k) -> stream number
        self.state_text = {}      # (round, node) -> normalised serialised state
        for e in self.orch:
            if e["ev"] == "state":
                self.state_text[(e.get("round", 1), e["n"])] = norm_state(e["text"])
            if e["ev"] == "schedule":
                self.nodes = e["nodes"]
            if e["ev"] == "start":
                self.streams[(e["n"], e["k"])] = 2 + len(self.streams)
        self.node_events = {}     # stream -> list of converted events
        self.raw_node = {}
        for (n, k), st in self.streams.items():
            p = os.path.join(outdir, "node%d.inc%d.ndjson" % (n, k))
            recs = vlib.read_ndjson(p) if os.path.exists(p) else []
            recs.sort(key=lambda r: r.get("seq", 0))
            self.raw_node[st] = recs
            self.node_events[st] = [x for x in (self.conv_node(st, n, k, r) for r in recs) if x]
        self.events = self.conv_orch()

    def client_of(self, rec):
        if rec.get("type") == 0:
            return self.idx2c.get(rec.get("index"), 0)
        sid = rec.get("session", 0)
        return self.idx2c.get(sid - OFFSET, 0) if sid >= OFFSET else 0

    def conv_node(self, st, n, k, r):
        p = r.get("point")
        if p == "fsm.apply":
            return {"st": st, "ev": "apply", "n": n, "k": k, "idx": r["index"], "type": r["type"],
                    "c": self.client_of(r), "cmid": r.get("cmid", 0), "seq": r["seq"]}
        if p == "api.applied":
            return {"st": st, "ev": "ackpoint", "n": n, "k": k, "idx": r["index"],
                    "c": self.client_of(r), "cmid": r.get("cmid", 0), "seq": r["seq"]}
        if p == "fsm.snapshot":
            return {"st": st, "ev": "snapshot", "n": n, "k": k, "first": r["first"], "last": r["last"], "seq": r["seq"]}
        if p == "fsm.restored":
            return {"st": st, "ev": "restored", "n": n, "k": k, "first": r["first"], "last": r["last"],
                    "included": r.get("included", 0), "seq": r["seq"]}
        return None

    def conv_orch(self):
        res = []
        resume = {}
        for e in self.orch:
            ev = e["ev"]
            if ev == "start":
                res.append({"st": 1, "ev": "start", "n": e["n"], "k": e["k"], "st2": self.streams[(e["n"], e["k"])], "seq": e["seq"]})
            elif ev in ("killed", "exited"):
                res.append({"st": 1, "ev": "killed", "n": e["n"], "k": e["k"], "st2": self.streams[(e["n"], e["k"])], "seq": e["seq"]})
            elif ev in ("post", "ack"):
                res.append({"st": 1, "ev": ev, "c": e["c"], "cmid": e["cmid"], "n": e["n"], "k": e.get("k", 0), "seq": e["seq"]})
            elif ev == "connected":
                resume[(e["n"], e["s"], e["conn"])] = e["resume"]
            elif ev == "recv":
                if (e["idx"], e["reply"]) <= self.fold.get(e["s"], (0, 0)):
                    continue      # before the fold point: compacted away by design
                res.append({"st": 1, "ev": "recv", "n": e["n"], "k": e["k"], "s": e["s"], "idx": e["idx"], "reply": e["reply"],
                            "c": e["from"], "cmid": e["cmid"], "h": hash_data(e["data"]),
                            "resume": resume.get((e["n"], e["s"], e["conn"]), 0), "seq": e["seq"]})
            elif ev == "final":
                msgs = [{"idx": m["idx"], "reply": m["reply"], "c": m["from"], "cmid": m["cmid"], "h": hash_data(m["data"])}
                        for m in (e["msgs"] or [])]
                res.append({"st": 1, "ev": "final", "n": e["n"], "s": e["s"], "msgs": msgs, "stale": bool(e.get("stale")), "seq": e["seq"]})
            elif ev == "cfgreq":
                res.append({"st": 1, "ev": "cfgreq", "kind": e["kind"], "n": e["n"], "seq": e["seq"]})
            elif ev == "cfg":
                res.append({"st": 1, "ev": "cfg", "kind": e["kind"], "n": e["n"], "peers": e.get("peers") or [],
                            "ok": bool(e.get("ok")), "leader": e.get("leader", 0), "seq": e["seq"]})
            elif ev == "state":
                res.append({"st": 1, "ev": "state", "n": e["n"], "h": hash_state(e["text"]), "round": e.get("round", 1), "seq": e["seq"]})
            elif ev == "end" and e.get("status") == "ok":
                res.append({"st": 1, "ev": "done", "seq": e["seq"]})
        return res

    def trace_text(self, mutate=None):
        recs = [{"st": 1, "ev": "meta", "streams": 1 + len(self.streams), "nodes": self.nodes,
                 "sessions": max(1, len(self.sessions)), "firstline": self.firstline, "members": [1]}]
        recs += self.events
        for st in sorted(self.node_events):
            recs += self.node_events[st]
        if mutate:
            recs = mutate(recs)
        return "".join(json.dumps(r, sort_keys=True, separators=(",", ":")) + "\n" for r in recs), len(recs) - 1

    # ---- python-side reading of the same history, only to NAME what TLC found
    def committed(self):
        log = {}
        for st in sorted(self.node_events):
            for e in self.node_events[st]:
                if e["ev"] == "apply":
                    log.setdefault(e["idx"], (e["c"], e["cmid"], e["type"]))
        return log

    def acked(self):
        return {(e["c"], e["cmid"]) for e in self.events if e["ev"] == "ack"}

    def duplicates(self):
        """acknowledged (c, cmid) that occur more than once in the committed sequence"""
        occ = {}
        for idx, (c, cmid, typ) in sorted(self.committed().items()):
            if typ == 2:
                occ.setdefault((c, cmid), []).append(idx)
        ack = self.acked()
        return {k: v for k, v in occ.items() if len(v) > 1 and k in ack}

    def classify_duplicate(self, key, idxs):
        """Name the shape of a double application (c, cmid) at idxs[0] < idxs[1]."""
        c, cmid = key
        log = self.committed()
        first, second = idxs[0], idxs[1]
        between = [i for i in range(first + 1, second) if i in log and log[i][0] == c and log[i][2] == 2 and log[i][1] != cmid]
        if between:
            return STALE_SIGNATURE, "a newer post of the same session (index %s) lies between the copies" % between
        # who proposed the copies? (hook H3 fires on the proposing node only)
        def proposer(idx):
            for st, evs in self.node_events.items():
                for e in evs:
                    if e["ev"] == "ackpoint" and e["idx"] == idx:
                        return (e["n"], e["k"]), st
            return None, None
        p1, _ = proposer(first)
        p2, st2 = proposer(second)
        if p2 is None:
            return F7_SIGNATURE, "second copy %d proposed by an incarnation that died before acknowledging" % second
        # Is it PROVEN that the proposer of the second copy had the first copy in its
        # applied state before any attempt that can have produced the second copy was
        # handled?  (a) it restored a snapshot containing the first copy when it started,
        # before it served anything; or (b) by the orchestrator's own order of events: it
        # had delivered output of the first copy, or acknowledged (c, cmid), before every
        # attempt was even sent.
        evs2 = self.node_events[st2]
        if evs2 and evs2[0]["ev"] == "restored" and evs2[0]["last"] >= first:
            return (VISIBLE_SIGNATURE, "node %d incarnation %d started from a snapshot that contains the first copy (index %d <= %d)" % (
                p2[0], p2[1], first, evs2[0]["last"]))
        proof_seq = None
        for e in self.events:
            if (e["ev"] == "recv" and (e["n"], e["k"]) == p2 and e["idx"] == first) or \
               (e["ev"] == "ack" and (e["n"], e["k"]) == p2 and (e["c"], e["cmid"]) == key):
                proof_seq = e["seq"]
                break
        attempts = [e["seq"] for e in self.events if e["ev"] == "post" and (e["c"], e["cmid"]) == key]
        early = [a for a in attempts if proof_seq is None or a < proof_seq]
        # the first copy itself stems from one attempt before the proof; every other
        # attempt was sent when the proposer provably had the first copy applied
        if proof_seq is not None and len(early) <= 1:
            return (VISIBLE_SIGNATURE, "node %d incarnation %d had delivered/acknowledged the first copy (index %d) before any further attempt was sent" % (
                p2[0], p2[1], first))
        if p1 is not None and p1 == p2:
            return F7B_SIGNATURE, ("both copies (indices %d, %d) proposed by node %d incarnation %d: the retry passed the duplicate "
                                   "test while the first copy was proposed but not yet applied" % (first, second, p2[0], p2[1]))
        return F7_SIGNATURE, ("first copy at index %d%s, second copy at index %d proposed by node %d incarnation %d; "
                              "no evidence that it had applied the first copy when the retry arrived" % (
                                  first, " (proposed by node %d incarnation %d)" % p1 if p1 else "", second, p2[0], p2[1]))

    def state_difference(self):
        """Which parts of the serialised state differ between two members (first round that differs)."""
        rounds = sorted({k[0] for k in self.state_text})
        for rd in rounds:
            nodes = sorted(n for (r_, n) in self.state_text if r_ == rd)
            for a in nodes:
                for b in nodes:
                    ta, tb = self.state_text[(rd, a)], self.state_text[(rd, b)]
                    if a < b and ta != tb:
                        wa, wb = set(re.split(r" (?=[a-z_]+: )", ta)), set(re.split(r" (?=[a-z_]+: )", tb))
                        only_a = sorted(wa - wb)[:6]
                        only_b = sorted(wb - wa)[:6]
                        return "reading %d: node %d has %s; node %d has %s" % (rd, a, [x[:60] for x in only_a], b, [x[:60] for x in only_b])
        return ""

    def live_restores(self):
        """FSM.Restore on a node that had applied entries in the same incarnation: an
        InstallSnapshot that replaced live state (not the restore at start-up)."""
        n = 0
        for evs in self.node_events.values():
            seen_apply = False
            for e in evs:
                if e["ev"] == "apply":
                    seen_apply = True
                elif e["ev"] == "restored" and seen_apply:
                    n += 1
        return n

    def summary(self):
        log = self.committed()
        return {"committed_commands": len(log), "acked": len(self.acked()), "live_snapshot_installs": self.live_restores(),
                "node_incarnations": len(self.streams),
                "events": len(self.events) + sum(len(v) for v in self.node_events.values())}


# ------------------------------------------------------------------ validation

INVARIANT_SIGNATURE = {
    "AckedDurable": "acked-post-missing-from-committed-sequence",
    "AckedExactlyOnce": "acked-post-applied-twice",
    "AckedInOrder": "acked-posts-of-one-sender-reordered",
    "AppliedPrefixAgreement": "nodes-disagree-on-applied-sequence",
    "StreamsAgree": "streams-of-nodes-not-prefix-compatible",
    "DeliveredInSenderOrder": "delivered-twice-or-out-of-sender-order",
    "NoDuplicateDelivery": "node-delivered-message-twice",
    "DeliveredMatchesLog": "delivered-line-differs-from-committed-entry",
    "FinalComplete": "acked-post-not-delivered-exactly-once-after-recovery",
    "FinalInSenderOrder": "final-stream-out-of-sender-order",
    "FinalsEqual": "final-streams-differ-between-nodes",
    "ResumedIsPrefixOfFinal": "resumed-stream-is-not-a-prefix-of-the-final-stream",
    "StaleIsPrefix": "removed-node-serves-a-stream-that-is-not-a-prefix",
    "StatesEqual": "replicated-state-differs-between-members",
}
# invariants through which a double application in the committed sequence shows
DUP_CONSEQUENCES = ("AckedExactlyOnce", "AckedInOrder", "DeliveredInSenderOrder", "FinalComplete", "FinalInSenderOrder")


def tlc_validate(ctx, hist, name, cfg="ClusterTrace.cfg", mutate=None):
    text, n = hist.trace_text(mutate)
    r = ctx.tlc("ClusterTrace", cfg=cfg, workers=1, files={"trace.ndjson": text}, timeout=600,
                name="tv-" + name, heap="1g")
    r.events = n
    return r


def tail_state(r):
    """The last (alias) state TLC printed."""
    m = None
    for m in re.finditer(r"State \d+:.*?\n(.*?)(?=\nState \d+:|\n\d+ states generated|\Z)", r.out, re.S):
        pass
    return m.group(1)[:1500] if m else ""


def judge(ctx, res, hist, r, replay):
    """Turn TLC's result on a recorded history into the verdict for that run."""
    name = res["sched"]["name"]
    if r.ok:
        ctx.add("traces_validated_against_impl")
        ctx.add("events_validated", r.events)
        for line in r.printed('<<"STATS"'):
            m = re.search(r'"(\{.*\})"', line)
            if m:
                try:
                    st = json.loads(m.group(1).replace('\\"', '"'))
                    ctx.add("resume_redeliveries_c04_shape", st.get("redeliv", 0))
                    r.cfgchanges = st.get("cfgchanges", 0)
                except Exception:
                    pass
        return "ok"
    if r.invariant_violated and r.invariant_violated in INVARIANT_SIGNATURE:
        inv = r.invariant_violated
        sig = INVARIANT_SIGNATURE[inv]
        what = "%s is false on the history recorded from the real binaries (schedule %s)" % (inv, name)
        dups = hist.duplicates()
        if inv in DUP_CONSEQUENCES and dups:
            shapes = [hist.classify_duplicate(k, v) for k, v in sorted(dups.items())]
            # one name only if every double application has the same shape
            sigs = sorted({s for s, _ in shapes})
            sig = sigs[0] if len(sigs) == 1 else "acked-post-applied-twice-mixed-shapes"
            what = ("acknowledged post applied (and delivered) twice: %s; %s [%s; schedule %s]" % (
                ", ".join("client %d ClientMessageId %d at indices %s" % (k[0], k[1], v) for k, v in sorted(dups.items())),
                shapes[0][1], inv, name))
        if inv == "StatesEqual":
            what += ": " + hist.state_difference()
        replay = dict(replay)
        replay.update({"invariant": inv, "tlc_last_state": tail_state(r), "history": hist.summary()})
        r.signature = sig
        new = ctx.violation(sig, what, replay)
        return "violation" if new else "known"
    if r.deadlock:
        ctx.drift("schedule %s: recorded streams cannot be merged into a behaviour of ClusterTrace "
                  "(no property predicate failed before that point): %s" % (name, tail_state(r)[:600]))
        return "drift"
    raise vlib.Inconclusive("TLC failed on the trace of %s: rc=%s timed_out=%s\n%s" % (
        name, r.rc, r.timed_out, "\n".join(r.out.splitlines()[-30:])))


def run_and_validate(ctx, bins, sched, deadline=240):
    res = run_schedule(ctx, bins, sched, deadline)
    out = {"name": sched["name"], "status": res.get("status"), "why": res.get("why"), "wall_s": res.get("wall_s"),
           "snapshot_installs": res.get("snapshot_installs", 0)}
    if res.get("unexpected_exits"):
        out["unexpected_exits"] = res["unexpected_exits"]
    if res.get("unmet") and out["status"] == "ok":
        # the run is still validated, but it did not exercise what it was written for
        out["status"] = "unmet"
        out["why"] = "; ".join(res["unmet"])
    hist = None
    try:
        hist = History(res["out"])
    except Exception as ex:     # noqa
        out["status"] = "inconclusive"
        out["why"] = "%s; streams unreadable: %s" % (out.get("why"), ex)
        return out, None, None, res
    # a run that did not reach quiescence is still validated as far as it got
    # (predicates are stable), but it does not count as explored
    r = tlc_validate(ctx, hist, sched["name"])
    return out, hist, r, res


def artifact_dir(ctx, res):
    return os.path.join(vlib.REPLAYS, ctx.id, "streams-%s-seed%d-%s" % (ctx.tier, ctx.seed, res["sched"]["name"]))


def keep_artifacts(ctx, res):
    """Copy the recorded streams of a failing run next to the replay file."""
    dst = artifact_dir(ctx, res)
    try:
        shutil.rmtree(dst, ignore_errors=True)
        shutil.copytree(res["out"], dst)
        return dst
    except Exception:
        return None


# ------------------------------------------------------------------ self test

def selftest(ctx, hist):
    """The binding binds: a corrupted or truncated history must be rejected."""
    out = {}
    out["accepted_unchanged"] = True     # the caller only passes histories TLC accepted

    def corrupt_cmid(recs):
        # a node claims to have applied a different ClientMessageId at some index
        done = False
        res = []
        seen = set()
        for r in recs:
            r = dict(r)
            if not done and r.get("ev") == "apply" and r.get("type") == 2 and r["idx"] in seen:
                r["cmid"] = r["cmid"] + 1
                done = True
            if r.get("ev") == "apply":
                seen.add(r["idx"])
            res.append(r)
        if not done:
            for r in res:
                if r.get("ev") == "apply" and r.get("type") == 2:
                    r["cmid"] += 1000
                    break
        return res

    def drop_apply(recs):
        # the last node stream loses one application in the middle: an entry is skipped
        last_st = max(r["st"] for r in recs)
        idxs = [i for i, r in enumerate(recs) if r["st"] == last_st and r.get("ev") == "apply"]
        if len(idxs) < 3:
            idxs = [i for i, r in enumerate(recs) if r.get("ev") == "apply"]
        victim = idxs[len(idxs) // 2]
        return recs[:victim] + recs[victim + 1:]

    def drop_delivery(recs):
        # one node's final stream loses a numbered line
        res = []
        done = False
        for r in recs:
            if not done and r.get("ev") == "final":
                msgs = list(r["msgs"])
                for i, m in enumerate(msgs):
                    if m["c"] != 0:
                        del msgs[i]
                        done = True
                        break
                r = dict(r, msgs=msgs)
            res.append(r)
        return res

    def double_apply(recs):
        # every node applies an acknowledged post a second time (the F7 outcome)
        acked = {(r["c"], r["cmid"]) for r in recs if r.get("ev") == "ack"}
        top = max(r["idx"] for r in recs if r.get("ev") == "apply")
        res = []
        laststream = {}
        for i, r in enumerate(recs):
            if r.get("ev") == "apply":
                laststream[r["st"]] = i
        victim = None
        for r in recs:
            if r.get("ev") == "apply" and r.get("type") == 2 and (r["c"], r["cmid"]) in acked:
                victim = r
        for i, r in enumerate(recs):
            res.append(r)
            if victim and laststream.get(r.get("st")) == i and r.get("idx") == top:
                res.append(dict(victim, st=r["st"], idx=top + 1))
        return res

    muts = (("corrupt_field", corrupt_cmid), ("drop_event", drop_apply),
            ("drop_delivery", drop_delivery), ("double_apply", double_apply))
    if ctx.quick and not ctx.selftest:
        muts = (muts[0], muts[2])       # the cheap half on every quick run; all four with --selftest / thorough
    with concurrent.futures.ThreadPoolExecutor(max_workers=4) as ex:
        futs = {nm: ex.submit(tlc_validate, ctx, hist, "self-" + nm, "ClusterTrace.cfg", fn) for nm, fn in muts}
        for nm, fut in futs.items():
            r = fut.result()
            rejected = (not r.ok) and bool(r.invariant_violated or r.deadlock)
            out[nm] = {"rejected": rejected, "by": r.invariant_violated or ("deadlock" if r.deadlock else None)}
    out["binds"] = out["accepted_unchanged"] and all(v["rejected"] for k, v in out.items() if isinstance(v, dict))
    return out


def selftest_membership(ctx, hist):
    """The membership part of the binding binds: on an accepted history with a late
    joiner, a changed state, configuration, snapshot position or joiner stream must be
    rejected."""
    out = {"accepted_unchanged": True}

    def corrupt_state(recs):
        # one member's serialised state differs at quiescence
        res, done = [], False
        for r in recs:
            if not done and r.get("ev") == "state":
                r = dict(r, h=r["h"] % 1000000 + 7)
                done = True
            res.append(r)
        return res

    def corrupt_cfg(recs):
        # the leader reports a configuration without the node that has just joined
        res, done = [], False
        for r in reversed(recs):
            if not done and r.get("ev") == "cfg" and r.get("kind") == "join" and r.get("ok") and len(r["peers"]) > 2:
                r = dict(r, peers=[p for p in r["peers"] if p != r["n"]])
                done = True
            res.append(r)
        return list(reversed(res))

    def snapshot_short(recs):
        # the snapshot a joiner was sent ends one entry earlier than what it goes on with
        joiners = {r["st2"] for r in recs if r.get("ev") == "start" and r.get("k") == 1 and r.get("n", 1) != 1}
        res, done = [], False
        for r in recs:
            if not done and r.get("ev") == "restored" and r["st"] in joiners and r["last"] > 3:
                r = dict(r, last=r["last"] - 2)
                done = True
            res.append(r)
        return res

    def joiner_stream(recs):
        # the node that joined last serves a final stream without one numbered line
        last = max((r["n"] for r in recs if r.get("ev") == "cfg" and r.get("kind") == "join" and r.get("ok")), default=0)
        res, done = [], False
        for r in recs:
            if not done and r.get("ev") == "final" and r.get("n") == last and not r.get("stale"):
                msgs = list(r["msgs"])
                for i, m in enumerate(msgs):
                    if m["c"] != 0:
                        del msgs[i]
                        done = True
                        break
                r = dict(r, msgs=msgs)
            res.append(r)
        return res

    muts = (("corrupt_state", corrupt_state), ("corrupt_configuration", corrupt_cfg),
            ("snapshot_too_short", snapshot_short), ("joiner_stream_incomplete", joiner_stream))
    if ctx.quick and not ctx.selftest:
        muts = muts[:2]
    base, _ = hist.trace_text()
    with concurrent.futures.ThreadPoolExecutor(max_workers=4) as ex:
        futs = {}
        for nm, fn in muts:
            if hist.trace_text(fn)[0] == base:
                out[nm] = "not applicable to this history"
                continue
            futs[nm] = ex.submit(tlc_validate, ctx, hist, "mself-" + nm, "ClusterTrace.cfg", fn)
        for nm, fut in futs.items():
            r = fut.result()
            rejected = (not r.ok) and bool(r.invariant_violated or r.deadlock)
            out[nm] = {"rejected": rejected, "by": r.invariant_violated or ("deadlock" if r.deadlock else None)}
    out["binds"] = all(v["rejected"] for k, v in out.items() if isinstance(v, dict))
    return out


# ------------------------------------------------------------------ design spec

MEMBERSHIP_ACTIONS = {"Join", "Part", "CommitCfg", "InstallSnapshot", "Retire", "ElectAny"}


def action_counts(out):
    """action -> number of states it generated in a -coverage run of Cluster.tla (vacuity)."""
    res = {}
    for m in re.finditer(r"^<(\w+) line \d+, col \d+ to line \d+, col \d+ of module Cluster>: (\d+):(\d+)", out, re.M):
        if m.group(1) != "Init":
            res[m.group(1)] = res.get(m.group(1), 0) + int(m.group(3))
    return res


def design_spec(ctx):
    workers = 4 if ctx.quick else 8
    # Cluster_membercov.cfg: the membership actions (Join, Part, CommitCfg, InstallSnapshot,
    # Retire, Elect with a pending configuration) with every invariant, with -coverage
    runs = [("Cluster_small.cfg", 300), ("Cluster_membercov.cfg", 300)]
    if not ctx.quick:
        runs += [("Cluster_small2.cfg", 300), ("Cluster_cov.cfg", 600), ("Cluster_member.cfg", 600), ("Cluster_pauses.cfg", 900),
                 ("Cluster_member3.cfg", 1200), ("Cluster_lc.cfg", 1200), ("Cluster_posts.cfg", 1200), ("Cluster_member2.cfg", 1500),
                 ("Cluster_kills.cfg", 1500)]
    covered = {}
    for cfg, to in runs:
        cov = cfg in ("Cluster_cov.cfg", "Cluster_membercov.cfg")
        r = ctx.tlc_must_pass("Cluster", cfg=cfg, workers=workers, timeout=to, coverage=cov, name="mc-" + cfg[:-4])
        add(ctx, "states", r.distinct)
        add(ctx, "transitions", r.generated)
        add(ctx, "tlc_runs")
        ctx.cov.setdefault("model_states_by_cfg", {})[cfg] = r.distinct
        ctx.log("TLC %s: %d distinct states, %d generated, depth %d" % (cfg, r.distinct, r.generated, r.depth))
        if cov:
            for name, n in action_counts(r.out).items():
                covered[name] = covered.get(name, 0) + n
    if covered:
        # vacuity: over the coverage runs of this tier together, every action was taken
        need = MEMBERSHIP_ACTIONS if ctx.quick else set(covered)
        zero = sorted(a for a in need if covered.get(a, 0) == 0)
        ctx.cov["coverage_zero_actions"] = zero
        ctx.cov["membership_actions_taken"] = {a: covered.get(a, 0) for a in sorted(MEMBERSHIP_ACTIONS)}
        if zero:
            ctx.note("vacuity: actions never taken in the coverage runs: %s" % zero)
    # as the code behaves: both shapes of the double application must be reachable in the model
    for cfg in ("Cluster_f7.cfg", "Cluster_f7b.cfg"):
        r = ctx.tlc("Cluster", cfg=cfg, workers=2, timeout=300, name="mc-" + cfg[:-4])
        add(ctx, "tlc_runs")
        if r.invariant_violated != "AckedExactlyOnce":
            raise vlib.Inconclusive("%s: expected a counterexample to AckedExactlyOnce, got %s\n%s" % (
                cfg, r.invariant_violated, "\n".join(r.out.splitlines()[-20:])))
        ctx.cov.setdefault("model_counterexample_states", {})[cfg] = len(re.findall(r"^State \d+:", r.out, re.M))
        add(ctx, "states", r.distinct)
        add(ctx, "transitions", r.generated)


FAULTS = ("Kill", "Pause", "LeaderChange", "Snapshot", "Timeout")
MEMBERSHIP = ("Join", "Part", "Retire")


def tlc_schedules(ctx, count, nclients=3, cfg="Cluster_sim.cfg", tag="tlc", per=400):
    """Behaviours of Cluster.tla (simulation, history variable) as fault schedules."""
    r = ctx.tlc("Cluster", cfg=cfg, workers=2, simulate="num=%d" % (40 if ctx.quick else count * per), depth=140 if tag != "tlc" else 120,
                timeout=180, name="sim-" + tag, deadlock=False)
    add(ctx, "tlc_runs")
    if not r.ok:
        raise vlib.Inconclusive("simulation of %s failed: %s\n%s" % (cfg, r.invariant_violated, "\n".join(r.out.splitlines()[-30:])))
    behaviours = []
    seen = set()
    for line in r.out.splitlines():
        if '"BEHAVIOUR"' not in line:
            continue
        m = re.search(r'<<"BEHAVIOUR", "(.*)">>', line)
        if not m:
            continue
        try:
            hist = json.loads(m.group(1).replace('\\"', '"'))
        except Exception:
            continue
        key = json.dumps([{k: v for k, v in h.items() if k != "cmid"} for h in hist
                          if h["a"] in FAULTS + MEMBERSHIP + ("Restart", "Resume")], sort_keys=True)
        if key in seen:
            continue
        seen.add(key)
        behaviours.append(hist)
    ctx.cov["tlc_behaviours_generated"] = ctx.cov.get("tlc_behaviours_generated", 0) + len(behaviours)
    ctx.cov.setdefault("tlc_behaviours_by_cfg", {})[cfg] = len(behaviours)
    # prefer behaviours with many faults (and membership changes), deterministic for a seed
    rnd = random.Random(ctx.seed)
    rnd.shuffle(behaviours)
    behaviours.sort(key=lambda h: -sum((2 if x["a"] in ("Join", "Part") else 1) for x in h if x["a"] in FAULTS + ("Join", "Part")))
    picked = behaviours[:count]
    return [from_behaviour(h, "%s-%d-%d" % (tag, ctx.seed, i + 1), ctx.seed * 1000 + i, nclients) for i, h in enumerate(picked)], picked


# ------------------------------------------------------------------ main

def run(ctx):
    ctx.assumptions += [
        "raft's own safety (hashicorp/raft): one committed sequence, never lost or reordered while a majority of disks survives",
        "cross-process order is only taken from causality the harness creates (start before / killed after an incarnation's events; an entry is applied after its first POST); never from clocks",
        "single-node rig: robustirc.go's 'Only known peer is myself' start-up test is made conditional (overlay, one line) because the unchanged main() refuses to restart a one-node network",
        "the text of RPL_CREATED (003) is excluded from stream equality (per-process start time; replica determinism is C01)",
        "re-delivery of x.1..x.r after resuming at x.r on a node that applies x later is C04's subject (F6) and only counted here",
        "membership schedules: raft.Config.TrailingLogs is set from the environment (overlay, one line in main(); default 10240 would never compact the raft log in a short run, so InstallSnapshot would never happen); hashicorp/raft's handling of configuration changes is trusted like the rest of raft",
        "the configuration of the network is read from the leader's machine-readable /status (what robustirc-removepeer reads); a configuration the recorded requests do not explain is DRIFT, not a violation",
        "serialised states (/status/state = IRCServer.Marshal) are compared order-insensitively (Marshal walks Go maps) and without throttling_exponent (node-local: changed by the serving node's POST handler, not by FSM.Apply)",
        "a removed node that still runs refuses GetMessages once its last raft contact is too old; when it does answer, its stream must be a prefix",
    ]
    bins = build(ctx)
    ctx.log("built robustirc (tags verif) and the orchestrator")

    if ctx.replay:
        with open(ctx.replay) as fh:
            rp = json.load(fh)
        sched = rp["replay"]["schedule"]
        out, hist, r, res = run_and_validate(ctx, bins, sched)
        if hist is None or out["status"] != "ok":
            raise vlib.Inconclusive("replay run inconclusive: %s" % out.get("why"))
        judge(ctx, res, hist, r, {"schedule": sched})
        return

    pool = concurrent.futures.ThreadPoolExecutor(max_workers=1)
    design = pool.submit(design_spec, ctx)

    seed = ctx.seed
    if ctx.quick:
        scheds = [single_gate_schedule(seed), fold_schedule(seed, 1), three_mixed_schedule(seed, safeguard=True), f7_schedule(seed),
                  partition_schedule(seed), isolated_leader_schedule(seed),
                  latejoin_schedule(seed, fold=(seed % 2 == 0)), grow_schedule(seed), stalled_leader_schedule(seed)]
        ntlc, nmem, par = 1, 1, 11
    else:
        scheds = [single_gate_schedule(seed), single_gate_schedule(seed + 1)]
        scheds += [single_random_schedule(seed + i) for i in range(3)]
        scheds += [three_mixed_schedule(seed, safeguard=True), three_mixed_schedule(seed + 1)]
        scheds += [f7_schedule(seed), stale_retry_schedule(seed), fold_schedule(seed, 1), fold_schedule(seed + 1, 1), fold_schedule(seed, 3)]
        scheds += [partition_schedule(seed), partition_schedule(seed + 1), isolated_leader_schedule(seed), isolated_leader_schedule(seed + 1)]
        scheds += [three_random_schedule(seed * 100 + i) for i in range(10)]
        scheds += [stalled_leader_schedule(seed + i, rounds=3) for i in range(3)]
        scheds += [latejoin_schedule(seed), latejoin_schedule(seed, fold=True), latejoin_schedule(seed + 1), latejoin_schedule(seed + 1, fold=True),
                   grow_schedule(seed, volume=True), grow_schedule(seed + 1), shrinkgrow_schedule(seed), shrinkgrow_schedule(seed + 1)]
        scheds += [member_random_schedule(seed * 100 + i) for i in range(8)]
        ntlc, nmem, par = 12, 8, 5

    results = []
    deadline = 240 if ctx.quick else 300
    with concurrent.futures.ThreadPoolExecutor(max_workers=par) as ex:
        futs = [ex.submit(run_and_validate, ctx, bins, s, deadline) for s in scheds]
        # meanwhile: behaviours of the design spec as further schedules
        tl, picked = tlc_schedules(ctx, ntlc)
        scheds += tl
        futs += [ex.submit(run_and_validate, ctx, bins, s, deadline) for s in tl]
        tm, pickedm = tlc_schedules(ctx, nmem, cfg="Cluster_simmember.cfg", tag="tlcm", per=300)
        scheds += tm
        futs += [ex.submit(run_and_validate, ctx, bins, s, deadline) for s in tm]
        picked = picked[:1] + pickedm[:1]
        ctx.log("TLC simulation: %d distinct fault behaviours, %d + %d (with membership changes) taken as schedules" % (
            ctx.cov["tlc_behaviours_generated"], len(tl), len(tm)))
        for fut in concurrent.futures.as_completed(futs):
            results.append(fut.result())
    for h in picked[:2]:
        ctx.sample({"tlc_behaviour": h})
    ctx.cov["schedules"] = [s["name"] for s in scheds]
    ctx.log("all schedules executed and validated")

    design.result()      # re-raises Inconclusive from the model-checking thread
    pool.shutdown()

    explored = 0
    inconclusive = []
    selftest_done = False
    mselftest_done = False
    selftest_failed = None
    f7_seen = False
    results.sort(key=lambda x: x[0]["name"])
    for out, hist, r, res in results:
        name = out["name"]
        if hist is None:
            inconclusive.append("%s: %s" % (name, out.get("why")))
            continue
        replay = {"schedule": res["sched"], "how": "./check C05 --replay <this file>",
                  "recorded_streams": artifact_dir(ctx, res)}
        verdict = judge(ctx, res, hist, r, replay) if r is not None else "inconclusive"
        if verdict == "violation":
            keep_artifacts(ctx, res)
        if verdict == "known" and res["sched"].get("origin") == "f7":
            f7_seen = True
        if verdict == "known":
            # the known shape hides the predicates it implies; check all the others on the same history
            stale = STALE_SIGNATURE in getattr(r, "signature", "") or "mixed" in getattr(r, "signature", "")
            r2 = tlc_validate(ctx, hist, name + "-rest", cfg="ClusterTrace_rest2.cfg" if stale else "ClusterTrace_rest.cfg")
            if r2.ok:
                ctx.add("traces_validated_against_impl")
                ctx.add("events_validated", r2.events)
            elif r2.invariant_violated in INVARIANT_SIGNATURE:
                judge(ctx, res, hist, r2, replay)
            elif r2.deadlock:
                ctx.drift("schedule %s: streams cannot be merged (after a known finding): %s" % (name, tail_state(r2)[:400]))
        if out["status"] != "ok":
            inconclusive.append("%s: %s" % (name, out.get("why")))
        elif verdict in ("ok", "known"):
            explored += 1
        ctx.log("schedule %-22s run=%s %.0fs events=%s verdict=%s%s" % (
            name, out["status"], out.get("wall_s") or 0, getattr(r, "events", "?"), verdict,
            " unexpected_exits=%s" % out["unexpected_exits"] if out.get("unexpected_exits") else ""))
        if out.get("unexpected_exits"):
            ctx.note("%s: node exited on its own: %s" % (name, out["unexpected_exits"]))
        complete = out["status"] == "ok" and any(e["ev"] == "final" and e["msgs"] for e in hist.events)
        if verdict == "ok" and complete and not selftest_done and (ctx.selftest or res["sched"]["nodes"] == 1):
            st = selftest(ctx, hist)
            ctx.cov["binding_selftest"] = st
            selftest_done = True
            ctx.log("binding self-test: %s" % json.dumps(st))
            if not st["binds"]:
                selftest_failed = json.dumps(st)
        if verdict in ("ok", "known"):
            ctx.add("snapshot_installs_verified", out.get("snapshot_installs") or 0)
            ctx.add("snapshot_installs_on_running_nodes", hist.live_restores())
            ctx.add("membership_changes_validated", getattr(r, "cfgchanges", 0))
        late = any(e["ev"] == "cfg" and e["kind"] == "join" and e["ok"] and len(e["peers"]) > 2 for e in hist.events)
        if verdict == "ok" and complete and late and not mselftest_done and res["sched"].get("origin") == "membership":
            st = selftest_membership(ctx, hist)
            ctx.cov["binding_selftest_membership"] = st
            mselftest_done = True
            ctx.log("binding self-test (membership): %s" % json.dumps(st))
            if not st["binds"]:
                selftest_failed = json.dumps(st)
        if len(ctx.cov["samples"]) < 5 and verdict in ("ok", "known"):
            ctx.sample({"schedule": name, "summary": hist.summary(),
                        "excerpt": [e for e in hist.events if e["ev"] in ("post", "ack", "killed", "start")][:12]})

    ctx.cov["schedules_replayed"] = explored
    ctx.cov["schedules_inconclusive"] = inconclusive
    ctx.cov["f7_reproduced_on_real_binaries"] = f7_seen or any(v["signature"] == F7_SIGNATURE for v in ctx.violations)
    if ctx.violations:
        return               # a violation seen on the real binaries is never masked by machinery problems
    if selftest_failed:
        raise vlib.Inconclusive("binding self-test failed: %s" % selftest_failed)
    if ctx.selftest and not selftest_done:
        raise vlib.Inconclusive("no accepted trace to run the self-test on")
    if not ctx.cov.get("snapshot_installs_verified") or not mselftest_done:
        raise vlib.Inconclusive("the membership part was not exercised: no late joiner got its state by InstallSnapshot in an accepted run (%s)" % (
            "; ".join(inconclusive)[:1200]))
    need = max(2, (len(scheds) * 2) // 3)
    if explored < need and not ctx.violations:
        raise vlib.Inconclusive("only %d of %d schedules ran to quiescence: %s" % (explored, len(scheds), "; ".join(inconclusive)[:1500]))
