"""C10 -- A retried POST (same client message id) is never applied twice.

Technique: explicit TLA+ specification (spec/Retry.tla: handler / FSM apply /
snapshot+restart, one action per decision point) checked exhaustively by TLC;
every behaviour TLC enumerates is a retry pattern. A feature-covering, seeded
selection of them is REPLAYED on the single-node in-process rig (real
hashicorp/raft, real DispatchPublic -> handlePostMessage, real FSM, LevelDB
stores, FileSnapshotStore; restarts and second replicas are child processes),
and the recorded observations are validated back against the specification
(spec/RetryTrace.tla) with the property predicates as invariants.

Verdict (VIOLATION) comes only from the predicates evaluated on real outcomes:
  P1 a request whose id equals the marker the handling node reports for its
     (existing) session is answered 200 and adds no raft entry, no irclog
     entry and no output batch;
  P2 the real raft log never holds two consecutive entries of one session
     with the same client message id (read back entry by entry in a replica);
  P3 LastPostMessage of every session is the same before and after a
     restart (snapshot restore + log replay);
  P4 a MessageOfDeath entry sets the marker of its session;
  P5 a fresh FSM fed the same raft log, and one restored from the newest
     snapshot + log tail, report the same markers as the handling node after
     every entry;
  P6 no reply token is delivered twice to a session.
Differences to the implementation-level model that keep P1..P6 are DRIFT.

Role dimension (Retry.tla Roles / LineKinds): the primary session is an
unregistered session, a registered client, an IRC operator or an authenticated
services link (config with operator + services password; PASS services=...,
SERVER ..., pseudo-client lines); every concrete message kind of every role --
including the lines that CHANGE the role (USER, OPER, SERVER) -- is retried at
least once per run (else exit 2).
"""
import json
import os
import random

import vlib
from checks import rig_common

LEVEL = "model_checking"

PRELUDE_NICK, PRELUDE_USER = 8, 9


# ----------------------------------------------------------------- selection
def features(b):
    fs = set()
    fresh = b[0]["fresh"]
    orig = None
    nret = 0
    for j, h in enumerate(b):
        a = h["a"]
        if a in ("Post", "Death"):
            if orig is not None and a == "Post":
                ci = b[orig]["c"]
                rel = "lt" if h["c"] < ci else "eq" if h["c"] == ci else "gt"
                fs.add(("second", rel, h["appended"]))
            if a == "Post" and fresh and h["c"] == 0 and not h["appended"] and h["status"] == 200 and orig is None:
                fs.add(("cmid0fresh",))
            orig = j
            nret = 0
        elif a == "Retry":
            nret += 1
            o = b[orig]
            kind = "death" if o["a"] == "Death" else o["t"]
            btw = set()
            for k in range(orig + 1, j):
                x = b[k]["a"]
                if x == "Other":
                    btw.add("OtherSame" if b[k]["c"] == o["c"] else "Other")
                elif x in ("Snapshot", "Restart"):
                    btw.add(x)
            fs.add(("retry", kind, o["appended"], tuple(sorted(btw)), h["status"]))
            fs.add(("nret", kind, nret))
            fs.add(("role", b[0]["role"], kind, o["appended"], "Snapshot" in btw and "Restart" in btw, "Restart" in btw))
        elif a == "Other":
            fs.add(("other", h["appended"], h["saw"]))
    return fs


REQUIRED = [  # task list: must be present in every replay set
    lambda f: f[0] == "nret" and f[2] == 1,
    lambda f: f[0] == "nret" and f[2] == 3,
    lambda f: f[0] == "retry" and f[2] and "Other" in f[3],
    lambda f: f[0] == "retry" and f[2] and "OtherSame" in f[3],
    lambda f: f[0] == "retry" and f[1] == "msg" and f[2] and "Snapshot" in f[3] and "Restart" in f[3],
    lambda f: f[0] == "retry" and f[1] == "death",
    lambda f: f[0] == "retry" and f[1] == "death" and "Snapshot" in f[3] and "Restart" in f[3],
    lambda f: f[0] == "retry" and f[1] == "quit" and f[2] and f[4] == 404,
    lambda f: f[0] == "cmid0fresh",
]


def select(behs, rnd, extra):
    """Greedy feature cover (representatives and ties chosen by the seeded
    PRNG) + `extra` random behaviours that contain a retry."""
    groups = {}
    for i, b in enumerate(behs):
        groups.setdefault(frozenset(features(b)), []).append(i)
    keys = sorted(groups, key=lambda k: sorted(map(str, k)))
    rnd.shuffle(keys)
    allf = set()
    for k in keys:
        allf |= k
    remaining = set(allf)
    pick = []
    while remaining:
        best, gain = None, 0
        for k in keys:
            g = len(k & remaining)
            if g > gain:
                best, gain = k, g
        pick.append(rnd.choice(groups[best]))
        remaining -= best
    chosen = set(pick)
    cand = [i for k in keys for i in groups[k] if any(f[0] == "retry" for f in k)]
    rnd.shuffle(cand)
    for i in cand:
        if extra <= 0:
            break
        if i not in chosen:
            chosen.add(i)
            pick.append(i)
            extra -= 1
    return [behs[i] for i in pick], allf


# ------------------------------------------------------------------ programs
CONFIG_TOML = """SessionExpiration = "30m0s"
PostMessageCooloff = "0s"
[IRC]
[[IRC.Operators]]
Name = "op"
Password = "oppw"
[[IRC.Services]]
Password = "svcpw"
"""

# the role's prelude (last line carries client message id 9 = Retry!PreludeCmid)
PRELUDE = {
    "unreg": [],
    "client": ["NICK alice", "USER alice 0 * :alice"],
    "oper": ["NICK alice", "USER alice 0 * :alice", "OPER op oppw"],
    "services": ["PASS :services=svcpw", "SERVER services.rig 1 :Services for the rig",
                 "NICK ChanServ 1 1 cs h s 0 +o :CS"],
}
# concrete lines per role (Retry!LineKinds); {k} = running token number, {d} = a disposable victim
LINES = {
    "unreg": {"ping": "PING :tok{k}", "nick": "NICK un{k}", "user": "USER un{k} 0 * :tok{k}", "quit": "QUIT :bye{k}"},
    "client": {"privmsg": "PRIVMSG bob :tok{k}", "join": "JOIN #ch{k}", "ping": "PING :tok{k}", "nick": "NICK al{k}",
               "oper": "OPER op oppw", "quit": "QUIT :bye{k}"},   # "oper": the line that changes the role
    "oper": {"privmsg": "PRIVMSG bob :tok{k}", "kill": "KILL dsp{d} :tok{k}", "mode": "MODE alice +i", "quit": "QUIT :bye{k}"},
    "services": {"snick": "NICK Sv{k} 1 1 sv h s 0 +o :tok{k}", "sprivmsg": ":ChanServ PRIVMSG bob :tok{k}",
                 "sjoin": ":ChanServ JOIN #sv{k}", "skill": ":ChanServ KILL dsp{d} :tok{k}", "squit": "QUIT :bye{k}",
                 # late handshake: the prelude stops after PASS, the first request IS the SERVER line
                 "server": "SERVER services.rig 1 :Services for the rig"},
}
QUIT_KIND = {"unreg": "quit", "client": "quit", "oper": "quit", "services": "squit"}


class Kinds:
    """Round-robin choice of the concrete line kind, separately for requests
    that are retried right away (so that every kind of every role is retried)."""

    def __init__(self):
        self.n = {}
        self.retried = set()

    def late(self, b):
        """every other services behaviour whose first request is a retried
        ordinary message completes the handshake with that request"""
        first = next((k for k, h in enumerate(b) if h["a"] in ("Post", "Death")), None)
        if b[0]["role"] != "services" or first is None or b[first]["a"] != "Post" or b[first]["t"] != "msg" \
                or not is_retried(b, first):
            return False
        self.n["late"] = self.n.get("late", 0) + 1
        return self.n["late"] % 2 == 1

    def pick(self, role, retried):
        ks = sorted(k for k in LINES[role] if k not in (QUIT_KIND[role], "server"))
        key = (role, retried)
        i = self.n.get(key, 0)
        self.n[key] = i + 1
        return ks[i % len(ks)]


def is_retried(b, k):
    """the request at position k is repeated before the client's next original"""
    for h in b[k + 1:]:
        if h["a"] == "Retry":
            return True
        if h["a"] in ("Post", "Death"):
            return False
    return False


def program(name, b, rnd, kinds):
    """Rig program for one behaviour. Every model step k maps to the rig step
    tagged {"k": k}."""
    role = b[0]["role"]
    skewed = int(name[1:]) % 3 == 2      # every third program: entries stamped by leaders with different clocks
    steps = [
        {"op": "config", "toml": CONFIG_TOML},
        {"op": "create_session", "as": "a"},
        {"op": "create_session", "as": "b"},
        {"op": "create_session", "as": "h"},
        {"op": "post", "session": "b", "data": "NICK bob", "cmid": PRELUDE_NICK},
        {"op": "post", "session": "b", "data": "USER bob 0 * :bob", "cmid": PRELUDE_USER},
    ]
    ndisp = 0
    if role in ("oper", "services"):
        ndisp = sum(1 for h in b[1:] if h["a"] == "Post") or 1
        for d in range(1, ndisp + 1):
            steps += [{"op": "create_session", "as": "d%d" % d},
                      {"op": "login", "session": "d%d" % d, "nick": "dsp%d" % d}]
    pre = PRELUDE[role]
    late = kinds.late(b)
    if late:
        pre = pre[:1]
    for n, line in enumerate(pre):
        steps.append({"op": "post", "session": "a", "data": line, "cmid": PRELUDE_USER - (len(pre) - 1 - n)})
    steps.append({"op": "probe", "tag": {"k": 0, "a": "Init", "role": "link" if late else role}})
    tok = 0
    nposts = 0
    disp = 0
    last_a = None
    cur_c = PRELUDE_USER if pre else 0     # id of the last entry of session a
    snapshots = 0
    for k, h in enumerate(b):
        if k == 0:
            continue
        a = h["a"]
        tag = {"k": k, "a": a}
        if a == "Post":
            tok += 1
            nposts += 1
            retried = is_retried(b, k)
            if h["t"] == "quit":
                kind = QUIT_KIND[role]
            elif late and nposts == 1:
                kind = "server"
            elif late:
                kind = "snick"      # ChanServ was never introduced in this variant
            else:
                kind = kinds.pick(role, retried)
            if "{d}" in LINES[role][kind]:
                disp += 1
            data = LINES[role][kind].format(k=tok, d=disp)
            last_a = data
            tag["kind"] = kind
            if skewed and kind not in ("server", "snick") and not late and cur_c:
                # the previous entry of this session was accepted by a leader whose clock is 1.5 s ahead: the post
                # below is stamped EARLIER than the session's last activity (fail-over to a slower clock)
                # (it repeats the id of the session's last entry, so the marker the model tracks is unchanged)
                steps.append({"op": "apply", "type": "irc_from_client", "session": "a", "data": "PING :skew%d" % tok,
                              "cmid": 800000 + tok, "clock_ms": 1500})
                steps.append({"op": "apply", "type": "irc_from_client", "session": "a", "data": "PING :skew%d" % tok,
                              "cmid": cur_c, "clock_ms": 1500})
            steps.append({"op": "post", "session": "a", "data": data, "cmid": h["c"], "tag": tag})
            cur_c = h["c"]
        elif a == "Death":
            tok += 1
            data = "PING :tok%d" % tok
            last_a = data
            steps.append({"op": "apply", "type": "message_of_death", "session": "a", "data": data,
                          "cmid": h["c"], "tag": tag, **({"clock_ms": -1500} if skewed else {})})
            cur_c = h["c"]
        elif a == "Retry":
            steps.append({"op": "post", "session": "a", "data": last_a, "cmid": h["c"], "tag": tag})
        elif a == "Other":
            tok += 1
            steps.append({"op": "post", "session": "b", "data": "PING :tok%d" % tok, "cmid": h["c"], "tag": tag})
        elif a == "Snapshot":
            # a filler entry of a third session so that "all but the newest
            # entry" folds everything of a and b into the serialised state
            steps.append({"op": "post", "session": "h", "data": "PING :filler"})
            steps.append({"op": "snapshot", "fold": "allButLast", "tag": tag})
            snapshots += 1
        elif a == "Restart":
            steps.append({"op": "restart", "mode": rnd.choice(["clean", "clean", "kill"]), "tag": tag})
            steps.append({"op": "probe", "tag": {"k": k, "a": "Restarted"}})
        else:
            raise vlib.Inconclusive("unknown model action %r" % a)
    steps.append({"op": "probe", "full": True, "tag": {"final": True}})
    for s in ("a", "b"):
        steps.append({"op": "get", "session": s, "lastseen": "0.0", "ms": 100, "tag": {"deliver": s}})
    steps.append({"op": "replica", "mode": "replay_log", "tag": {"replica": "log"}})
    if snapshots:
        steps.append({"op": "replica", "mode": "restore_snapshot", "tag": {"replica": "snap"}})
    return {"name": name, "opts": {}, "steps": steps}


# ---------------------------------------------------------------- evaluation
def markers(probe):
    m, e = {}, {}
    for s in ("a", "b"):
        p = rig_common.sess(probe, s)
        m[s] = p["lastCmid"] if p else 0
        e[s] = bool(p and p["exists"] == "ok")
    return m, e


def evaluate(ctx, prog, b, recs, trace):
    """Evaluate P1..P6 on the records of one replay; append trace events."""
    name = prog["name"]
    replay = {"behaviour": b, "program": prog}
    steps = rig_common.by_step(recs)
    sid = {}
    live_at = {}     # raft index -> (markers by small sid, exists)
    viol = 0

    def bad(sig, what):
        nonlocal viol
        viol += 1
        ctx.violation(sig, "%s [%s]" % (what, name), replay)

    trace.append({"ev": "Reset"})
    for i, st in enumerate(prog["steps"]):
        rs = steps.get(i, [])
        r = rs[-1]
        tag = st.get("tag") or {}
        if r.get("died") and st["op"] != "replica":
            raise vlib.Inconclusive("%s: node died in step %d (%s): %s" % (name, i, st["op"], r.get("log", "")[-400:]))
        post = r.get("post") or r.get("pre")
        if post:
            for s in post.get("sessions") or []:
                if s.get("alias"):
                    sid[s["alias"]] = s["sid"]
            live_at[post["raftLast"]] = post
        if "k" not in tag:
            if st["op"] in ("post", "login", "config", "create_session") and (r.get("status") != 200 or r.get("err")):
                raise vlib.Inconclusive("%s: setup step %d (%s) failed: %s %s" % (name, i, st["op"], r.get("status"), r.get("body", "")[:100]))
            if tag.get("final"):
                final = post
            if "deliver" in tag and r.get("status") == 200:
                toks = {}
                for ln in r.get("lines") or []:
                    for w in ln["data"].replace(":", " ").split():
                        if w.startswith("tok"):
                            toks.setdefault((w, ln["data"].split()[1] if len(ln["data"].split()) > 1 else ""), []).append(ln["id"])
                for (t, cmd), ids in toks.items():
                    if len(ids) > 1:
                        bad("reply-delivered-twice", "session %s received %s (%s) %d times (input ids %s)" % (
                            tag["deliver"], t, cmd, len(ids), ids))
            continue
        k, a = tag["k"], tag["a"]
        h = b[k]
        pre = r.get("pre")
        m1, e1 = markers(post)
        if a == "Init":
            pa = rig_common.sess(post, "a") or {}
            role = tag.get("role", h["role"])
            is_role = {"unreg": not pa.get("loggedIn") and not pa.get("server"),
                       "link": not pa.get("loggedIn") and not pa.get("server") and pa.get("lastCmid") == PRELUDE_USER,
                       "client": pa.get("loggedIn") and not pa.get("operator") and not pa.get("server"),
                       "oper": pa.get("loggedIn") and pa.get("operator"),
                       "services": pa.get("server")}[role]
            if not is_role:
                raise vlib.Inconclusive("%s: prelude did not establish role %s: %s" % (name, role, pa))
            trace.append({"ev": "Init", "fresh": h["fresh"], "markers": m1, "exists": e1})
            continue
        if a == "Restarted":
            # P3: markers as before the restart
            m0, e0 = markers(before_restart)
            if (m0, e0) != (m1, e1):
                bad("marker-lost-across-restart", "LastPostMessage before restart %s/%s, after %s/%s" % (m0, e0, m1, e1))
            trace.append({"ev": "Restart", "markers": m1, "exists": e1})
            continue
        if a == "Restart":
            before_restart = r.get("pre")
            continue
        m0, e0 = markers(pre)
        d = r.get("delta") or {}
        if a in ("Post", "Retry", "Other"):
            s, c = h["s"], h["c"]
            appended = d.get("raft", 0) > 0
            saw = e0[s] and m0[s] == c
            if saw:
                # P1
                if r.get("status") != 200:
                    bad("retry-not-acknowledged", "%s of (%s, cmid %d) with marker == cmid answered %s %r" % (
                        a, s, c, r.get("status"), r.get("body", "")[:80]))
                if d.get("raft", 0) != 0 or d.get("irc", 0) != 0:
                    bad("retry-applied-twice", "%s of (%s, cmid %d) found marker == cmid but added a log entry (raft +%d, irclog +%d)" % (
                        a, s, c, d.get("raft", 0), d.get("irc", 0)))
                if d.get("out", 0) != 0 or d.get("outLastChanged"):
                    bad("retry-delivered-twice", "%s of (%s, cmid %d) found marker == cmid but produced output" % (a, s, c))
            trace.append({"ev": a, "s": s, "c": c, "t": h["t"], "status": r.get("status", 0), "appended": appended,
                          "out": d.get("out", 0) + (1 if d.get("outLastChanged") and d.get("out", 0) == 0 else 0),
                          "markers": m1, "exists": e1})
        elif a == "Death":
            if r.get("err") or (r.get("extra") or {}).get("fsmError"):
                raise vlib.Inconclusive("%s: raw MessageOfDeath entry failed: %s" % (name, r))
            if e0["a"] and m1["a"] != h["c"]:
                bad("message-of-death-does-not-set-marker", "MessageOfDeath(a, cmid %d) applied, LastPostMessage is %d" % (h["c"], m1["a"]))
            trace.append({"ev": "Death", "c": h["c"], "appended": d.get("raft", 0) > 0, "markers": m1, "exists": e1})
        elif a == "Snapshot":
            if r.get("err"):
                raise vlib.Inconclusive("%s: snapshot failed: %s" % (name, r.get("err")))
            if (m0, e0) != (m1, e1):
                bad("snapshot-changed-marker", "markers before snapshot %s, after %s" % (m0, m1))
            trace.append({"ev": "Snapshot", "markers": m1, "exists": e1})

    # replicas: P2 and P5
    for i, st in enumerate(prog["steps"]):
        if st["op"] != "replica":
            continue
        rr = [x for x in steps.get(i, []) if x["op"] == "replica"]
        if not rr or rr[0].get("died"):
            raise vlib.Inconclusive("%s: replica observer died: %s" % (name, rr[0].get("log", "")[:2500] if rr else "no record"))
        rep = rr[0]
        ex = rep["extra"]
        if rep.get("err"):
            bad("replica-failed", "replica (%s) failed: %s" % (ex["mode"], rep["err"]))
            continue
        if ex.get("nosnapshot"):
            raise vlib.Inconclusive("%s: no snapshot found for the restore replica" % name)
        per_sess = {}
        for pt in ex["points"]:
            live = live_at.get(pt["idx"])
            if live is not None:
                for s in live.get("sessions") or []:
                    key = str(s["sid"])
                    if key in pt["markers"]:
                        lm, rm = s["lastCmid"], pt["markers"][key]
                        le, re_ = s["exists"] == "ok", pt["exists"][key]
                        if lm != rm or le != re_:
                            bad("markers-disagree-%s" % ex["mode"],
                                "after raft index %d session %s: handling node marker %d (exists %s), replica (%s) marker %d (exists %s)" % (
                                    pt["idx"], s.get("alias") or key, lm, le, ex["mode"], rm, re_))
            if ex["mode"] == "replay_log" and pt.get("entry"):
                en = pt["entry"]
                if en["type"] in ("irc_from_client", "message_of_death"):
                    prev = per_sess.get(en["session"])
                    if prev is not None and prev[0] == en["cmid"]:
                        bad("log-holds-adjacent-duplicate", "raft log: session %s has consecutive entries %d and %d with client message id %d" % (
                            en["session"], prev[1], pt["idx"], en["cmid"]))
                    per_sess[en["session"]] = (en["cmid"], pt["idx"])
        mm = {}
        ee = {}
        lastpt = ex["points"][-1] if ex["points"] else None
        for s in ("a", "b"):
            key = str(sid.get(s))
            mm[s] = lastpt["markers"].get(key, 0) if lastpt else 0
            ee[s] = lastpt["exists"].get(key, False) if lastpt else False
        trace.append({"ev": "Replica", "mode": "log" if ex["mode"] == "replay_log" else "snap", "markers": mm, "exists": ee})
    return viol


# ----------------------------------------------------------------------- run
def model(ctx, steps):
    cfg = "Retry_small.cfg"
    files = None
    if steps != 5:
        with open(os.path.join(vlib.SPEC, "Retry_small.cfg")) as fh:
            txt = fh.read().replace("MaxSteps = 5", "MaxSteps = %d" % steps)
        cfg = "Retry_gen.cfg"
        files = {cfg: txt}
    r = ctx.tlc_must_pass("Retry", cfg=cfg, workers=4 if ctx.quick else 8, timeout=900, files=files,
                          coverage=not ctx.quick, heap="6g")
    ctx.add("states", r.distinct)
    ctx.add("transitions", r.generated)
    ctx.add("tlc_runs")
    behs = rig_common.behaviours(r.out)
    if not behs:
        raise vlib.Inconclusive("TLC printed no behaviours")
    if not ctx.quick:
        ctx.cov["coverage_zero"] = [z for z in r.coverage_zero() if "Trap" not in z and "Feature" not in z][:20]
    return behs


def trap(ctx, feature):
    with open(os.path.join(vlib.SPEC, "Retry_trap.cfg")) as fh:
        txt = fh.read().replace('TrapFeature = "retry1"', 'TrapFeature = "%s"' % feature)
    r = ctx.tlc("Retry", cfg="Retry_trapgen.cfg", files={"Retry_trapgen.cfg": txt}, workers=4, timeout=300)
    ctx.add("tlc_runs")
    bs = rig_common.behaviours(r.out)
    if r.invariant_violated != "Trap" or not bs:
        raise vlib.Inconclusive("TLC found no witness for feature %s\n%s" % (feature, r.out[-1500:]))
    return bs[0]


def validate(ctx, trace, expect_ok=True, name=None):
    txt = "".join(json.dumps(e, sort_keys=True) + "\n" for e in trace)
    r = ctx.tlc("RetryTrace", cfg="RetryTrace.cfg", workers=1, timeout=600, files={"Retry_trace.ndjson": txt},
                name=name, heap="4g")
    ctx.add("tlc_runs")
    return r


def run(ctx):
    rnd = random.Random(ctx.seed)
    binary = rig_common.build(ctx)
    ctx.log("rig built")

    if getattr(ctx, "replay", None):
        with open(ctx.replay) as fh:
            rep = json.load(fh)["replay"]
        res = rig_common.run(ctx, binary, [rep["program"]], par=1)
        trace = []
        evaluate(ctx, rep["program"], rep["behaviour"], res[rep["program"]["name"]], trace)
        ctx.cov["traces_validated_against_impl"] = 1
        return

    behs = model(ctx, 5 if ctx.quick else 6)
    ctx.log("TLC: %d behaviours" % len(behs))
    chosen, allf = select(behs, rnd, extra=10 if ctx.quick else 500)
    got = set()
    for b in chosen:
        got |= features(b)
    for n, req in enumerate(REQUIRED):
        if not any(req(f) for f in got):
            raise vlib.Inconclusive("replay set misses required retry pattern #%d" % n)
    # patterns longer than the enumeration bound: shortest witnesses from TLC
    if not ctx.quick:
        for f in ("deathSnapRestart", "retry3", "snapRestart"):
            chosen.append(trap(ctx, f))
    ctx.cov["behaviours_enumerated"] = len(behs)
    ctx.cov["features_total"] = len(allf)
    ctx.cov["features_replayed"] = len(got)
    kinds = Kinds()
    progs = [program("r%04d" % n, b, rnd, kinds) for n, b in enumerate(chosen)]
    retried = set()
    for p, b in zip(progs, chosen):
        tags = {s["tag"]["k"]: s["tag"] for s in p["steps"] if "k" in (s.get("tag") or {}) and s["tag"]["a"] == "Post"}
        for k, h in enumerate(b):
            if h["a"] == "Post" and is_retried(b, k):
                retried.add((b[0]["role"], tags[k]["kind"]))
    missing = [(r, k) for r in LINES for k in LINES[r] if (r, k) not in retried]
    if missing:
        raise vlib.Inconclusive("replay set retries no message of kind(s) %s" % missing)
    ctx.cov["role_line_kinds_retried"] = len(retried)
    ctx.log("replaying %d behaviours on the rig" % len(progs))
    res = rig_common.run(ctx, binary, progs, par=6 if ctx.quick else 8, timeout=3000)
    trace = []
    nviol = 0
    for p, b in zip(progs, chosen):
        nviol += evaluate(ctx, p, b, res[p["name"]], trace)
    ctx.cov["traces_validated_against_impl"] = len(progs)
    ctx.cov["events_validated"] = len(trace)
    ctx.cov["requests_with_marker_equal_cmid"] = sum(
        1 for p, b in zip(progs, chosen) for h in b[1:] if h.get("saw"))
    ctx.sample({"behaviour": chosen[0], "program_steps": [s["op"] for s in progs[0]["steps"]]})
    ctx.sample({"trace_excerpt": trace[:8]})
    ctx.log("rig done, %d events" % len(trace))

    # code -> model: the recorded observations must be behaviours of the spec
    r = validate(ctx, trace, name="tlc-trace")
    acc = rig_common.trace_accepted(r.out)
    if r.invariant_violated:
        # the same predicates, evaluated by TLC on the observed values
        ctx.violation("trace-invariant-" + r.invariant_violated,
                      "TLC: invariant %s is false on the recorded observations" % r.invariant_violated,
                      {"tlc_tail": r.out[-3000:]})
    elif not r.ok or acc is None:
        raise vlib.Inconclusive("trace validation did not finish:\n" + r.out[-3000:])
    else:
        ctx.add("states", r.distinct)
        ctx.add("transitions", r.generated)
        rig_common.report_drift(ctx, r.out, trace)
    if nviol and not r.invariant_violated and not ctx.known_hits:
        ctx.note("python predicates failed but TLC accepted the trace")

    if not nviol and not r.invariant_violated:
        selftest(ctx, trace)
    ctx.assumptions += [
        "hashicorp/raft orders and persists entries correctly (single voter, real library)",
        "retry arrives after the first copy was applied on the handling node; clients are sequential (scope of C10)",
        "a real message of death is represented by a MessageOfDeath entry proposed through raft (what the log holds after the crash/rewrite)",
        "rig = main()'s wiring with plain HTTP, 50 ms raft timeouts and no time safeguard (harness/rig/README.md)",
    ]


def selftest(ctx, trace):
    """Show that the binding binds: doctored observations must be rejected."""
    out = {}
    # (a) a retry that saw its marker but appended
    t = [dict(e) for e in trace]
    done = False
    prev = None
    for e in t:
        if e["ev"] == "Retry" and e["status"] == 200 and not e["appended"] and prev is not None \
                and prev.get("exists", {}).get("a") and prev.get("markers", {}).get("a") == e["c"]:
            e["appended"] = True
            done = True
            break
        if e["ev"] != "Reset":
            prev = e
    if done:
        r = validate(ctx, t, name="tlc-selftest-a")
        out["retry_appended_rejected"] = bool(r.invariant_violated)
    # (b) marker lost across a restart
    t = [dict(e) for e in trace]
    done = False
    for e in t:
        if e["ev"] == "Restart" and e["exists"]["b"]:
            e["markers"] = dict(e["markers"], b=0)
            done = True
            break
    if done:
        r = validate(ctx, t, name="tlc-selftest-b")
        out["marker_lost_rejected"] = bool(r.invariant_violated)
    # (c) a dropped event (an applied original) must at least be drift
    t = [dict(e) for e in trace]
    for n, e in enumerate(t):
        # an applied original whose retry follows: without it the retry is unexplained
        if e["ev"] == "Post" and e["appended"] and e["t"] == "msg" and n + 1 < len(t) \
                and t[n + 1]["ev"] == "Retry" and t[n + 1]["c"] == e["c"]:
            del t[n]
            r = validate(ctx, t, name="tlc-selftest-c")
            acc = rig_common.trace_accepted(r.out)
            out["dropped_event_detected"] = bool(r.invariant_violated) or bool(acc and acc[1] > 0)
            break
    ctx.cov["binding_selftest"] = out
    if out and not all(out.values()):
        raise vlib.Inconclusive("binding self-test failed: %s" % out)
    if getattr(ctx, "selftest", False):
        ctx.log("selftest: %s" % out)
