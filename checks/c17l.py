"""C17L - the lag stage of C17 (checks/c17_lag.py) run on its own (development entry point;
checks/c17.py calls c17_lag.report(ctx) as part of C17).  Known findings registered for C17 apply."""
import json

import vlib
from checks import c17_lag

LEVEL = "model_checking"


def run(ctx):
    # this entry point files its verdicts under the id C17L; the known findings of C17 are the ones that matter
    try:
        with open(vlib.KNOWN) as fh:
            ctx._known = [f for f in json.load(fh).get("findings", []) if f.get("property") == "C17" and f.get("status") == "known"]
    except (OSError, ValueError):
        pass
    rp = None
    if getattr(ctx, "replay", None):
        with open(ctx.replay) as fh:
            rp = (json.load(fh).get("replay") or {}).get("lag_scenario")
    c17_lag.report(ctx, replay=rp)
