"""Shared engine for C02 and C07: FSM.tla behaviours -> schedules on the real
FSM (harness/fsm) -> property predicates + trace validation (FSMTrace.tla).

Model time unit = 10 s (Grace = 1 = expireSessionsInterval, DefaultExp = 60).
"""
import json
import os
import random
import re
import shutil
import sys

sys.path.insert(0, os.path.join(os.path.dirname(os.path.abspath(__file__)), "..", "tools"))
import vlib

UNIT = 10 * 10**9                    # one model tick in ns
T0 = 1_600_000_000 * 10**9           # model time 0 as UnixNano
GRACE_NS = 10 * 10**9                # expireSessionsInterval
DEFAULT_EXP_NS = 600 * 10**9         # "exp == 0 -> 10 min" in FSM.Snapshot

# the production default of -robustirc_message_offset: message ids (and so session ids) are offset + raft index.
# Schedules, projections and the model use raft indices; harness/fsm converts (schedule field "offset").
PROD_OFFSET = 4648398125000000000

# robust.Type
T_CREATE, T_DELETE, T_LINE, T_MOD, T_CONFIG = 0, 1, 2, 5, 6
RAFT_TYPES = [1, 4, 5]               # LogNoop, LogBarrier, LogConfiguration

# mirrors of the Prelude* definitions of FSM.tla
def _e(kind, cls, ts, sess, cmid, exp, ms=0):
    return {"kind": kind, "cls": cls, "ts": ts, "sess": sess, "cmid": cmid, "exp": exp, "ms": ms}


PRELUDES = {
    "PreludeNone": [],
    "PreludeSess": [_e("cmd", "create", 0, 0, 0, 0)],
    "PreludeReg": [_e("cmd", "create", 0, 0, 0, 0), _e("cmd", "line", 0, 1, 2, 0), _e("cmd", "line", 0, 1, 3, 0)],
}


# ----------------------------------------------------------------------------
# abstract semantics (mirror of ApplyAbs in FSM.tla) -- used only to choose the
# concrete form of each entry; never used as an oracle
class Abs:
    def __init__(self):
        self.sess = set()
        self.marks = {}      # idx -> sess
        self.maxs = 0        # MaxSessions in force

    def nlines(self, s):
        return sum(1 for v in self.marks.values() if v == s)

    def apply(self, i, e, mod=False):
        if e["kind"] != "cmd" or mod:
            return
        c = e["cls"]
        if c == "create":
            if not (self.maxs > 0 and len(self.sess) >= self.maxs):     # else refused at the limit
                self.sess.add(i)
        elif c == "config":
            self.maxs = e.get("ms", 0)
        elif c == "line" and e["sess"] in self.sess:
            self.marks[i] = e["sess"]
        elif c == "delete" and e["sess"] in self.sess:
            self.sess.discard(e["sess"])
            self.marks = {k: v for k, v in self.marks.items() if v != e["sess"]}


def concrete_entry(i, e, st):
    """Abstract entry e at index i -> harness entry, given the abstract state st before it."""
    ts = T0 + e["ts"] * UNIT
    if e["kind"] == "raft":
        return {"idx": i, "kind": "raft", "rafttype": RAFT_TYPES[i % len(RAFT_TYPES)]}
    c = e["cls"]
    sess = e["sess"] if e["sess"] else 9000 + i      # a session that never existed
    if c == "create":
        return {"idx": i, "kind": "cmd", "type": T_CREATE, "ts": ts, "data": "auth%d" % i}
    if c == "line":
        n = st.nlines(e["sess"]) if e["sess"] in st.sess else 9
        data = "NICK n%d" % i if n == 0 else ("USER u%d 0 * :r" % i if n == 1 else "JOIN #e%d" % i)
        return {"idx": i, "kind": "cmd", "type": T_LINE, "ts": ts, "sess": sess, "cmid": e["cmid"], "data": data}
    if c == "delete":
        return {"idx": i, "kind": "cmd", "type": T_DELETE, "ts": ts, "sess": sess, "data": "bye"}
    if c == "config":
        data = "MaxChannels = 50\n"
        if e.get("ms"):
            data += "MaxSessions = %d\n" % e["ms"]
        if e["exp"]:
            data += 'SessionExpiration = "%ds"\n' % (e["exp"] * 10)
        return {"idx": i, "kind": "cmd", "type": T_CONFIG, "ts": ts, "rev": i, "data": data}
    if c == "badconfig":
        return {"idx": i, "kind": "cmd", "type": T_CONFIG, "ts": ts, "rev": i, "data": "SessionExpiration = [not toml"}
    if c == "panic":
        return {"idx": i, "kind": "cmd", "type": T_LINE, "ts": ts, "sess": sess, "cmid": e["cmid"], "data": "PANIC"}
    raise ValueError(c)


def concretize(hist, prelude, name, proto=True, rng=None, final_probe=True, offset=0):
    """A behaviour of FSM.tla (list of hist records) -> (schedule for the harness, abstract log)."""
    rng = rng or random.Random(0)
    alog = list(prelude)
    for h in hist:
        if h["a"] in ("Apply", "ApplyPanics") and h["i"] > len(alog):
            assert h["i"] == len(alog) + 1, (h, len(alog))
            alog.append(h["e"])
    st = Abs()
    clog = []
    mod = set(h["i"] for h in hist if h["a"] == "ApplyPanics")
    for i, e in enumerate(alog, 1):
        clog.append(concrete_entry(i, e, st))
        st.apply(i, e, mod=(i in mod))
    steps = []
    for h in hist:
        a = h["a"]
        if a in ("Apply", "ApplyPanics"):
            steps.append({"a": a, "i": h["i"]})
        elif a == "SnapshotTake":
            steps.append({"a": a, "now": T0 + h["now"] * UNIT})
        elif a == "PersistFail":
            steps.append({"a": a, "k": rng.choice([0, 1, 9, 60, 150, 400])})
        elif a == "Tick":
            steps.append({"a": a, "now": T0 + h["now"] * UNIT})
        elif a == "RestartEnc":
            steps.append({"a": a, "enc": h["enc"]})
        else:
            steps.append({"a": a})
    sched = {"name": name, "proto": proto, "log": clog, "steps": steps, "mod": [], "abs": True,
             "twice": True, "prestore": len(prelude), "offset": offset}
    return sched, alog


# ----------------------------------------------------------------------------
# behaviours out of TLC
_EDGE = re.compile(r'^<<"EDGE", "(.*)">>$')


def parse_edges(out):
    """Lines printed by EmitEdge -> list of behaviours (each a list of hist records),
    proper prefixes of other behaviours removed."""
    behs = []
    for line in out.splitlines():
        m = _EDGE.match(line.strip())
        if not m:
            continue
        txt = m.group(1).replace('\\"', '"').replace("\\\\", "\\")
        try:
            behs.append(json.loads(txt))
        except ValueError:
            continue
    keys = [json.dumps(b, sort_keys=True) for b in behs]
    # a behaviour is dropped when it is a proper prefix of another one
    prefixes = set()
    for b in behs:
        for n in range(1, len(b)):
            prefixes.add(json.dumps(b[:n], sort_keys=True))
    seen = set()
    res = []
    for b, k in zip(behs, keys):
        if k in prefixes or k in seen:
            continue
        seen.add(k)
        res.append(b)
    return res, len(behs)


def _tla_to_json(txt):
    """TLA+ value made of sequences, records, strings and integers -> Python."""
    txt = re.sub(r'(\w+) \|->', r'"\1":', txt)
    txt = txt.replace("<<", "\x01").replace(">>", "\x02").replace("[", "{").replace("]", "}")
    txt = txt.replace("\x01", "[").replace("\x02", "]")
    return json.loads(txt)


def parse_sim_files(d):
    """Trace files written by `tlc -simulate file=...` -> the hist of each trace's last state."""
    behs = []
    for fn in sorted(os.listdir(d)):
        with open(os.path.join(d, fn)) as fh:
            txt = fh.read()
        k = txt.rfind("/\\ hist = ")
        if k < 0:
            continue
        rest = txt[k + len("/\\ hist = "):]
        m = re.search(r"\n/\\ |\n\n", rest)
        val = rest[:m.start()] if m else rest
        try:
            b = _tla_to_json(val)
        except ValueError:
            continue
        if b:
            behs.append(b)
    return behs


# ----------------------------------------------------------------------------
# running the harness
def build_harness(ctx):
    ov = ctx.harness_overlay("", "fsm")
    outbin = os.path.join(ctx.sub("bin"), "fsm.test")
    ctx.go_build_test(".", ov, outbin)
    return outbin


def run_schedules(ctx, binary, scheds, tag, env=None, expect_death=False, timeout=900):
    """Runs the schedules in one child process. Returns (rc, events, output)."""
    d = ctx.sub("run-" + tag)
    prog = os.path.join(d, "program.ndjson")
    outp = os.path.join(d, "events.ndjson")
    if os.path.exists(outp):
        os.unlink(outp)
    vlib.write_ndjson(prog, scheds)
    e = {"VERIF_FSM_PROGRAM": prog, "VERIF_FSM_OUT": outp, "VERIF_FSM_DIR": ctx.sub("rd-" + tag),
         "TMPDIR": ctx.sub("tmp")}
    e.update(env or {})
    rc, out = ctx.run_bin([binary, "-test.run", "^TestVerifFSM$", "-test.count=1", "-test.timeout", "%ds" % timeout],
                          env=e, timeout=timeout + 30, cwd=d)
    events = vlib.read_ndjson(outp) if os.path.exists(outp) else []
    shutil.rmtree(ctx.sub("rd-" + tag), ignore_errors=True)
    if not expect_death:
        if rc != 0 or not events or events[-1].get("ev") != "Done":
            raise vlib.Inconclusive("harness run %s died (rc=%s):\n%s" % (tag, rc, out[-3000:]))
    return rc, events, out


def split_events(events):
    by = {}
    order = []
    for ev in events:
        if ev.get("ev") == "Done":
            continue
        k = ev["sched"]
        if k not in by:
            by[k] = []
            order.append(k)
        by[k].append(ev)
    return [(k, by[k]) for k in order]


# ----------------------------------------------------------------------------
# property predicates on what the real code did (C02 P1-P4, C07)
def eff_exp(ns):
    return ns if ns else DEFAULT_EXP_NS


MSG_FIELDS = ("Id", "Session", "Type", "Data", "UnixNano", "ClientMessageId", "Revision", "RemoteAddr", "Servers", "Currentmaster")


def check_conversion(conv):
    """The encoding migration of a node (NewLevelDBStore -> ConvertToProto on the raft log store and
    on the irclog): only the encoding of a stored entry may change.  conv = the raw content of both
    stores before and after they were opened with the new encoding.
    -> (findings [(signature, what)], drifts [what])"""
    bad, drifts = [], []
    for store, pre, post in (("raftlog", conv["raft_pre"], conv["raft_post"]), ("irclog", conv["irc_pre"], conv["irc_post"])):
        a = {r["idx"]: r for r in pre}
        b = {r["idx"]: r for r in post}
        if set(a) != set(b):
            bad.append(("conv-%s-keys-changed" % store, "the conversion of the %s to %s changed its keys: %s -> %s"
                        % (store, conv["enc"], sorted(a), sorted(b))))
            continue
        for k in sorted(a):
            x, y = a[k], b[k]
            if x.get("err"):
                continue            # unreadable before the migration: not the conversion's doing
            if y.get("err"):
                bad.append(("conv-%s-entry-undecodable" % store, "%s entry %d cannot be decoded after the conversion to %s: %s"
                            % (store, k, conv["enc"], y.get("err"))))
                continue
            if (x["rafttype"], x["term"]) != (y["rafttype"], y["term"]) or (x.get("msg") and not y.get("msg")):
                bad.append(("conv-%s-entry-envelope-changed" % store, "%s entry %d: raft log type/term %s became %s in the conversion to %s"
                            % (store, k, (x["rafttype"], x["term"]), (y["rafttype"], y["term"]), conv["enc"])))
                continue
            if x.get("msg"):
                diff = [f for f in MSG_FIELDS if x["msg"].get(f) != y["msg"].get(f)]
                if diff:
                    marked = x["msg"].get("Type") == T_MOD
                    bad.append(("conv-%s-%sentry-fields-changed" % (store, "marked-" if marked else ""),
                                "%s entry %d%s: the conversion to %s changed %s" % (
                                    store, k, " (a marked message of death)" if marked else "", conv["enc"],
                                    ", ".join("%s %r -> %r" % (f, x["msg"].get(f), y["msg"].get(f)) for f in diff))))
                    continue
            if (x.get("ext", ""), x.get("appended", 0)) != (y.get("ext", ""), y.get("appended", 0)):
                drifts.append("%s entry %d: raft.Log.Extensions/AppendedAt %r became %r in the conversion to %s"
                              % (store, k, (x.get("ext"), x.get("appended")), (y.get("ext"), y.get("appended")), conv["enc"]))
    return bad, drifts


class Judge:
    """Evaluates the predicates of DESIGN 6 "C02" on the events of one schedule."""

    def __init__(self, sched):
        self.sched = sched
        self.cmd = sorted(e["idx"] for e in sched["log"] if e["kind"] == "cmd")
        self.ts = {e["idx"]: e.get("ts", 0) for e in sched["log"]}
        self.hmax = None          # newest horizon the property allows, ns
        self.conv_drifts = []     # raft-level metadata changed by a conversion (no property predicate)
        self.conversions = 0

    def cmds(self, n):
        return set(i for i in self.cmd if i <= n)

    def check(self, ev):
        """-> list of (signature, what)"""
        bad = []
        a = ev["ev"]
        if ev.get("panic"):
            bad.append(("panic-in-%s" % a, "the node panicked in %s: %s" % (a, ev["panic"][:200])))
            return bad
        err = ev.get("err") or ""
        if err.startswith("harness:"):
            raise vlib.Inconclusive("harness error in %s step %s: %s" % (ev["sched"], ev["n"], err))
        if err and not (a == "SnapshotTake" and "first index of ircstore (0)" in err):
            bad.append(("error-in-%s" % a, "%s failed on the real code: %s" % (a, err[:200])))
        if ev.get("conv"):
            # the encoding migration: only the encoding of a stored entry may change
            cbad, cdrift = check_conversion(ev["conv"])
            bad += cbad
            self.conv_drifts += cdrift
            self.conversions += 1
        fin = ev.get("final")
        if a == "End" and fin and not fin["eq"]:
            bad.append(("P1-active-probe-differs-at-End",
                        "JOIN/PRIVMSG/TOPIC probes sent from every session are answered differently than by the "
                        "never-snapshotting reference: %s" % fin.get("diff", "")[:300]))
        post, chk = ev.get("post"), ev.get("chk")
        if not post or not chk:
            return bad
        if chk.get("srv_diff") == "no-reference":
            return bad
        applied = post["applied"]
        store = set(post["store"])
        outs = set(post["outs"])
        cmds = self.cmds(applied)
        # the horizon the property states: expiration in force + 10 s at each compaction
        if a == "SnapshotTake" and not err:
            h = ev["step"]["now"] - (eff_exp(chk["ref_exp"]) + GRACE_NS)
            self.hmax = h if self.hmax is None else max(self.hmax, h)
        # P1 / P4
        if not chk["srv_eq"]:
            bad.append(("P1-state-differs-after-" + a,
                        "live server state != reference replay of log[1..%d] after %s: %s" % (applied, a, chk.get("srv_diff", "")[:300])))
        elif not chk["probe_eq"]:
            bad.append(("P1-probe-differs-after-" + a, "probe commands answer differently after %s: %s" % (a, chk.get("probe_diff", "")[:300])))
        elif not chk["marker_eq"]:
            bad.append(("P1-marker-differs-after-" + a, "LastPostMessage / config revision differ from the reference after %s" % a))
        # P2
        if chk["out_bad"]:
            bad.append(("P2-output-differs-after-" + a, "outputStream.Get(id) != reference replies for ids %s" % chk["out_bad"][:8]))
        refout = set(chk["ref_out"])
        miss = sorted(i for i in store if i <= applied and i in refout and i not in outs)
        if miss:
            bad.append(("P2-output-missing-for-retained-after-" + a, "retained ids %s have no output batch" % miss[:8]))
        if self.hmax is not None:
            young = sorted(i for i in cmds if self.ts[i] > self.hmax and i not in store)
            if young:
                bad.append(("P2-dropped-inside-horizon-after-" + a,
                            "entries %s are not older than the compaction horizon (expiration in force %ds + 10s) but are gone from the irclog"
                            % (young[:8], eff_exp(chk["ref_exp"]) // 10**9)))
        # P3
        extra = sorted(outs - store)
        if extra:
            bad.append(("P3-output-for-compacted-after-" + a, "output batches %s exist for entries that are not retained" % extra[:8]))
        if chk["store_bad"]:
            bad.append(("P3-irclog-entry-differs-after-" + a, "irclog entries %s differ from the raft log" % chk["store_bad"][:8]))
        if not store <= set(range(1, post["stored"] + 1)):
            bad.append(("P3-irclog-unknown-key-after-" + a, "irclog holds unknown keys"))
        ok = (store == cmds)
        for l in post["lss"]:
            for n in l.get("covers") or []:
                if store == cmds - self.cmds(n):
                    ok = True
        if not ok and not (a == "SnapshotTake" and err):
            dropped = sorted(cmds - store)
            bad.append(("P3-folded-xor-retained-after-" + a,
                        "command entries <= %d: irclog %s, dropped %s; no state held by the node is the fold of exactly the dropped ones (lss %s)"
                        % (applied, sorted(store), dropped, [(l["k"], l.get("covers")) for l in post["lss"]])))
        if post["snaps"]:
            s = post["snaps"][-1]      # the one the next restore would load
            sok = False
            for n in s.get("covers") or []:
                if set(s["retained"]) == self.cmds(s["ridx"]) - self.cmds(n):
                    sok = True
            if s.get("err"):
                bad.append(("P3-snapshot-unreadable-after-" + a, "newest snapshot unreadable: %s" % s["err"]))
            elif not sok:
                bad.append(("P3-snapshot-folded-xor-retained-after-" + a,
                            "newest snapshot (raft index %d): retained %s, state covers %s: not a fold of exactly the missing command entries"
                            % (s["ridx"], s["retained"], s.get("covers"))))
            elif not s["retained_ok"]:
                bad.append(("P3-snapshot-entry-differs-after-" + a, "entries retained in the newest snapshot differ from the raft log"))
        return bad


def judge_all(ctx, scheds, events, prefix=""):
    """Judges every schedule; reports violations. Returns number of steps judged."""
    byname = {s["name"]: s for s in scheds}
    steps = 0
    nviol = 0
    flagged = judge_all.flagged
    for name, evs in split_events(events):
        s = byname[name]
        j = Judge(s)
        for ev in evs:
            steps += 1
            bad = j.check(ev)
            if j.conv_drifts:
                for d in j.conv_drifts[:2]:
                    ctx.drift("%s [schedule %s]" % (d, name))
                j.conv_drifts = []
            if ev.get("conv"):
                ctx.add("conversions_inspected", 1)
            if bad:
                sig, what = bad[0]
                nviol += 1
                flagged.add(name)
                judge_all.sigs[prefix + sig] = judge_all.sigs.get(prefix + sig, 0) + 1
                if judge_all.sigs[prefix + sig] > 2:
                    # the same predicate failing after the same action: counted, not listed again
                    ctx.add("violating_schedules_not_listed", 1)
                    break
                if sig.startswith("conv-"):
                    also = sorted(set(b[0] for b in bad if not b[0].startswith("conv-")))
                    if also:
                        what += "; in the same step: " + ", ".join(also)
                ctx.violation(prefix + sig, "%s [schedule %s, step %d %s]" % (what, name, ev["n"], ev["ev"]),
                              {"schedule": s, "failed_step": ev["n"], "event": {k: ev.get(k) for k in ("ev", "err", "chk")},
                               "all": [b[0] for b in bad]})
                break
    return steps, nviol


judge_all.flagged = set()      # schedules on which a property predicate failed
judge_all.sigs = {}


# ----------------------------------------------------------------------------
# trace validation input (FSMTrace.tla)
def _absstate(a):
    if a is None:
        return {"sess": [], "marks": [], "marker": [], "rev": 0, "cexp": -1, "maxs": 0}
    return {"sess": a["sess"], "marks": a["marks"], "maxs": a.get("maxs", 0),
            "marker": [[int(k), v] for k, v in sorted(a["marker"].items(), key=lambda kv: int(kv[0]))],
            "rev": a["rev"], "cexp": a["cexp"] // UNIT if a["cexp"] % UNIT == 0 else -2}


def trace_records(sched, alog, evs):
    """Harness events of an abstract-family schedule -> records for FSMTrace.tla."""
    recs = [{"ev": "Reset", "prelude": alog[:sched.get("prestore", 0)], "enc": "proto" if sched["proto"] else "json"}]
    cur_now = 0
    for ev in evs:
        a = ev["ev"]
        if a in ("End", "Skip"):
            continue
        if a == "AboutToPanic":
            # the process dies inside this step: no observation, the model marks the entry
            st = ev["step"]
            recs.append({"ev": "ApplyPanics", "i": st["i"], "now": 0, "e": alog[st["i"] - 1], "err": 0})
            continue
        post = ev.get("post")
        if a == "Reset":
            continue
        if post is None:
            break
        r = {"ev": a, "i": 0, "now": 0, "e": _e("none", "none", 0, 0, 0, 0), "err": 1 if ev.get("err") else 0}
        st = ev.get("step") or {}
        if a in ("Apply", "ApplyPanics"):
            i = st["i"] or post["applied"]        # i = 0: "the next entry" (lenient schedules)
            if i > len(alog):
                break
            r["i"] = i
            r["e"] = alog[i - 1]
        if a == "RestartEnc":
            r["enc"] = st["enc"]
        if a in ("SnapshotTake", "Tick"):
            r["now"] = (st["now"] - T0) // UNIT
            if a == "SnapshotTake" and r["now"] != cur_now:
                # the model reads the clock variable: move it first
                recs.append({"ev": "Tick", "i": 0, "now": r["now"], "e": _e("none", "none", 0, 0, 0, 0), "err": 0})
            cur_now = r["now"]
        pend = post.get("pending")
        r["post"] = {
            "applied": post["applied"], "store": post["store"], "outs": post["outs"],
            "srv": _absstate(post.get("srv")),
            "exp": post["exp"] // UNIT if post["exp"] % UNIT == 0 else -2,
            "lss": [{"k": l["k"], "st": _absstate(l.get("abs"))} for l in post["lss"]],
            "snaps": [{"ridx": s["ridx"], "li": s["li"], "base": _absstate(s.get("abs")), "retained": s["retained"],
                       "fmt": s.get("fmt") or "unreadable", "renc": s.get("renc") or []}
                      for s in post["snaps"]],
            "enc": post["enc"], "renc": post["renc"], "ienc": post["ienc"],
            "pending": ({"none": 0, "first": pend["first"], "last": pend["last"], "li": pend["first"] - 1,
                         "ridx": pend["ridx"], "base": _absstate(pend.get("abs"))} if pend else
                        {"none": 1, "first": 0, "last": 0, "li": 0, "ridx": 0, "base": _absstate(None)}),
        }
        recs.append(r)
    return recs


PROPERTY_INVARIANTS = ("StateIsFullReplay", "RestoreEqualsReplay", "FoldedXorRetained", "OutputOnlyRetained",
                       "HorizonRespected", "ModOnlyPanicking", "ModSkippedEverywhere")


def validate_traces(ctx, items, tag="tv", max_rounds=3):
    """items: list of (sched, alog, events). Runs FSMTrace over all of them (one TLC
    run, Reset records in between). Returns dict(records=, resyncs=[(sched, ev)], violated=[(inv, sched, recno)])."""
    items = list(items)
    res = {"records": 0, "resyncs": [], "violated": [], "runs": 0}
    seen_rs = set()
    for rnd in range(max_rounds):
        recs = []
        owner = []
        for sched, alog, evs in items:
            rr = trace_records(sched, alog, evs)
            recs.extend(rr)
            owner.extend([sched["name"]] * len(rr))
        if not recs:
            break
        text = "".join(json.dumps(r, sort_keys=True, separators=(",", ":")) + "\n" for r in recs)
        r = ctx.tlc("FSMTrace", cfg="FSMTrace.cfg", workers=1, timeout=600, files={"trace.ndjson": text},
                    deadlock=False, name="%s-%d" % (tag, rnd))
        res["runs"] += 1
        ctx.add("states", r.distinct)
        ctx.add("transitions", r.generated)
        for line in r.out.splitlines():
            m = re.match(r'^<<"RESYNC", (\d+), "(\w+)">>', line.strip())
            if m:
                k = int(m.group(1)) - 1
                if (rnd, k) not in seen_rs:
                    seen_rs.add((rnd, k))
                    res["resyncs"].append((owner[k], m.group(2), recs[k]))
        if r.invariant_violated and r.invariant_violated != "TraceDone":
            ls = re.findall(r"^/\\ l = (\d+)", r.out, re.M)
            if not ls:
                raise vlib.Inconclusive("FSMTrace: cannot locate the violating record\n" + r.out[-2000:])
            k = int(ls[-1]) - 2          # l points at the next record to consume
            k = max(0, min(k, len(recs) - 1))
            name = owner[k]
            res["violated"].append((r.invariant_violated, name, recs[k]))
            # everything before the violating schedule has been validated; go on without it
            idx = [n for n, it in enumerate(items) if it[0]["name"] == name][0]
            res["records"] += sum(1 for o in owner[:k + 1])
            items = items[idx + 1:]
            res["resyncs"] = [x for x in res["resyncs"]]
            continue
        if "TRACE-DONE" not in r.out or r.error or r.timed_out:
            raise vlib.Inconclusive("FSMTrace did not consume the trace (rc=%s):\n%s" % (r.rc, r.out[-3000:]))
        res["records"] += len(recs)
        break
    return res


# ----------------------------------------------------------------------------
# orchestration shared by c02.py / c07.py
import concurrent.futures
import tempfile
import time


class Engine:
    def __init__(self, ctx):
        self.ctx = ctx
        self.binary = build_harness(ctx)
        # LevelDB creation is fsync-bound; a tmpfs scratch makes a schedule 3x cheaper
        self.fast = None
        if os.path.isdir("/dev/shm") and os.access("/dev/shm", os.W_OK):
            try:
                self.fast = tempfile.mkdtemp(prefix="verif-%s-" % ctx.id.lower(), dir="/dev/shm")
            except OSError:
                self.fast = None
        old_cleanup = ctx.cleanup

        def cleanup():
            if self.fast:
                shutil.rmtree(self.fast, ignore_errors=True)
            old_cleanup()
        ctx.cleanup = cleanup
        self.nrun = 0
        self.env = {}           # extra environment of every harness process
        self.alogs = {}
        self.bg = concurrent.futures.ThreadPoolExecutor(max_workers=4)
        self.bgjobs = []
        ctx.cov.setdefault("tlc_runs", [])
        ctx.cov.setdefault("schedules_replayed", 0)
        ctx.cov.setdefault("steps_replayed", 0)

    def scratch(self, name):
        base = self.fast or self.ctx.scratch
        d = os.path.join(base, name)
        os.makedirs(d, exist_ok=True)
        return d

    # -- TLC -----------------------------------------------------------------
    def _record(self, cfg, r, mode):
        self.ctx.add("states", r.distinct)
        self.ctx.add("transitions", r.generated)
        self.ctx.cov["tlc_runs"].append({"cfg": cfg, "mode": mode, "distinct": r.distinct, "generated": r.generated,
                                         "depth": r.depth, "violated": r.invariant_violated})

    def exhaustive(self, cfg, workers=4, timeout=900, coverage=False):
        r = self.ctx.tlc("FSM", cfg=cfg, workers=workers, timeout=timeout, deadlock=False, coverage=coverage,
                         name="tlc-" + cfg.replace(".cfg", ""))
        self._record(cfg, r, "exhaustive")
        if r.invariant_violated:
            raise vlib.Inconclusive("the design spec FSM.tla (%s) violates its own invariant %s -- modelling error, not a verdict\n%s"
                                    % (cfg, r.invariant_violated, r.out[-1500:]))
        if not r.ok:
            raise vlib.Inconclusive("TLC failed on %s: rc=%s timed_out=%s\n%s" % (cfg, r.rc, r.timed_out, r.out[-1500:]))
        return r

    def edges(self, cfg, timeout=900, check=True, coverage=False):
        r = self.ctx.tlc("FSM", cfg=cfg, workers=1, timeout=timeout, deadlock=False, coverage=coverage,
                         name="tlc-" + cfg.replace(".cfg", ""))
        if coverage:
            self.ctx.cov["coverage_zero_" + cfg.replace(".cfg", "")] = [l for l in r.coverage_zero() if "module FSM" in l][:20]
        self._record(cfg, r, "edges")
        if r.invariant_violated:
            raise vlib.Inconclusive("the design spec FSM.tla (%s) violates its own invariant %s" % (cfg, r.invariant_violated))
        if not r.ok:
            raise vlib.Inconclusive("TLC failed on %s: rc=%s timed_out=%s\n%s" % (cfg, r.rc, r.timed_out, r.out[-1500:]))
        behs, nedges = parse_edges(r.out)
        if nedges != r.generated - 1 and check:
            raise vlib.Inconclusive("edge dump of %s incomplete: %d lines for %d transitions" % (cfg, nedges, r.generated - 1))
        return behs, nedges

    def simulate(self, cfg, num, depth, timeout=300):
        d = self.ctx.sub("simtraces-" + cfg.replace(".cfg", ""))
        r = self.ctx.tlc("FSM", cfg=cfg, workers=1, timeout=timeout, deadlock=False,
                         simulate="num=%d,file=%s" % (num, os.path.join(d, "t")), depth=depth,
                         name="tlc-sim-" + cfg.replace(".cfg", ""))
        self._record(cfg, r, "simulate")
        if r.invariant_violated:
            raise vlib.Inconclusive("the design spec FSM.tla (%s, simulation) violates its own invariant %s\n%s"
                                    % (cfg, r.invariant_violated, r.out[-1500:]))
        if not r.ok:
            raise vlib.Inconclusive("TLC simulation failed on %s: rc=%s\n%s" % (cfg, r.rc, r.out[-1500:]))
        behs = parse_sim_files(d)
        shutil.rmtree(d, ignore_errors=True)
        if len(behs) < num // 2:
            raise vlib.Inconclusive("only %d of %d simulated behaviours could be read back" % (len(behs), num))
        return behs

    def counterexample(self, cfg, timeout=300):
        """Runs an as-is cfg; returns the hist of the counterexample (or None)."""
        path = os.path.join(self.ctx.sub("cex"), cfg + ".json")
        r = self.ctx.tlc("FSM", cfg=cfg, workers=2, timeout=timeout, deadlock=False, extra=["-dumpTrace", "json", path],
                         name="tlc-" + cfg.replace(".cfg", ""))
        self._record(cfg, r, "as-is")
        if not r.invariant_violated:
            return None, None
        try:
            with open(path) as fh:
                tr = json.load(fh)
            cx = tr["counterexample"]
            if cx.get("action"):
                last = cx["action"][-1][2][1]
            else:
                last = cx["state"][-1][1]
            return r.invariant_violated, last["hist"]
        except (OSError, ValueError, KeyError, IndexError, TypeError) as ex:
            raise vlib.Inconclusive("cannot read TLC's counterexample for %s: %s" % (cfg, ex))

    # -- real code -------------------------------------------------------------
    def run(self, scheds, nproc=4, env=None, timeout=1200):
        """Executes schedules on the real FSM, nproc child processes in parallel."""
        if not scheds:
            return []
        self.nrun += 1
        chunks = [scheds[i::nproc] for i in range(nproc)]
        chunks = [c for c in chunks if c]
        results = [None] * len(chunks)

        def one(k):
            tag = "%d-%d" % (self.nrun, k)
            d = self.ctx.sub("run-" + tag)
            prog = os.path.join(d, "program.ndjson")
            outp = os.path.join(d, "events.ndjson")
            vlib.write_ndjson(prog, chunks[k])
            rd = self.scratch("rd-" + tag)
            e = {"VERIF_FSM_PROGRAM": prog, "VERIF_FSM_OUT": outp, "VERIF_FSM_DIR": rd, "TMPDIR": self.scratch("tmp-" + tag)}
            e.update(self.env)
            e.update(env or {})
            rc, out = self.ctx.run_bin([self.binary, "-test.run", "^TestVerifFSM$", "-test.count=1",
                                        "-test.timeout", "%ds" % timeout], env=e, timeout=timeout + 30, cwd=d)
            evs = vlib.read_ndjson(outp) if os.path.exists(outp) else []
            shutil.rmtree(rd, ignore_errors=True)
            shutil.rmtree(self.scratch("tmp-" + tag), ignore_errors=True)
            if rc != 0 or not evs or evs[-1].get("ev") != "Done":
                raise vlib.Inconclusive("harness process died (rc=%s):\n%s" % (rc, out[-3000:]))
            os.unlink(outp)
            return evs
        with concurrent.futures.ThreadPoolExecutor(max_workers=len(chunks)) as ex:
            futs = {ex.submit(one, k): k for k in range(len(chunks))}
            for f in concurrent.futures.as_completed(futs):
                results[futs[f]] = f.result()
        events = []
        for r in results:
            events.extend(r)
        self.ctx.cov["schedules_replayed"] += len(scheds)
        return events

    def replay_behaviours(self, behs, prelude, tag, proto_of=lambda k: k % 2 == 0, tv=True, nproc=4, limit=None,
                          offset_of=lambda k: PROD_OFFSET if (k // 2) % 2 == 0 else 0):
        """TLC behaviours -> schedules -> real code -> predicates (+ trace validation).
        proto_of / offset_of: encoding and message offset of the k-th schedule's node."""
        ctx = self.ctx
        rng = random.Random(ctx.seed * 7919 + len(tag))
        if limit is not None and len(behs) > limit:
            behs = rng.sample(behs, limit)
        scheds = []
        for k, b in enumerate(behs):
            s, alog = concretize(b, PRELUDES[prelude], "%s-%d" % (tag, k), proto=proto_of(k), rng=rng, offset=offset_of(k))
            scheds.append(s)
            self.alogs[s["name"]] = alog
        t = time.time()
        events = self.run(scheds, nproc=nproc)
        steps, nviol = judge_all(ctx, scheds, events)
        ctx.cov["steps_replayed"] += steps
        ctx.add("traces_validated_against_impl", len(scheds))
        ctx.log("%s: %d behaviours, %d steps on the real FSM in %.1fs, %d violating schedules" % (tag, len(scheds), steps, time.time() - t, nviol))
        if scheds:
            ctx.sample({"kind": tag, "steps": [dict(st) for st in scheds[-1]["steps"]],
                        "log": [e.get("data", "raft-internal") for e in scheds[-1]["log"]]})
        if tv:
            self.bgjobs.append((tag, self.bg.submit(self.trace_validate, scheds, events, tag)))
        return scheds, events

    def background(self, label, fn, *a, **kw):
        self.bgjobs.append((label, self.bg.submit(fn, *a, **kw)))

    def finish(self):
        """Waits for the background TLC jobs (trace validation, exhaustive runs) and reports."""
        res = {}
        for label, f in self.bgjobs:
            res[label] = f.result()
        self.bgjobs = []
        return res

    def trace_validate(self, scheds, events, tag, chunk=400):
        ctx = self.ctx
        byname = {s["name"]: s for s in scheds}
        items = [(byname[n], self.alogs[n], evs) for n, evs in split_events(events)]
        t = time.time()
        total = {"records": 0, "resyncs": [], "violated": []}
        for i in range(0, len(items), chunk):
            r = validate_traces(ctx, items[i:i + chunk], tag="tv-%s-%d" % (tag, i))
            total["records"] += r["records"]
            total["resyncs"].extend(r["resyncs"])
            total["violated"].extend(r["violated"])
        ctx.add("events_validated", total["records"])
        for name, ev, rec in total["resyncs"][:50]:
            ctx.drift("real FSM diverges from FSM.tla (repaired behaviour) at %s of schedule %s" % (ev, name))
        ctx.add("trace_resyncs", len(total["resyncs"]))
        for inv, name, rec in total["violated"]:
            if name in judge_all.flagged:
                # the differential oracle reported this schedule already; TLC agrees on the recorded state
                ctx.add("tv_confirmed_violations", 1)
            else:
                # only the model-side reading of the recorded state fails: never a verdict by itself
                ctx.drift("invariant %s of FSM.tla is false on a state recorded from the real FSM (schedule %s, after %s) "
                          "but the reference-based predicates hold" % (inv, name, rec.get("ev")))
        ctx.log("%s: trace validation of %d records in %.1fs, %d resyncs, %d invariant violations on recorded states"
                % (tag, total["records"], time.time() - t, len(total["resyncs"]), len(total["violated"])))
        return total


# ----------------------------------------------------------------------------
# seeded random schedules over longer, realistic logs (judged by the
# differential oracle only; not of the decodable family)
S = 10**9


def gen_random(rng, name, n_entries=None, proto=None):
    n = n_entries or rng.randint(10, 26)
    exps = [None, 45, 600, 1800]            # seconds; None = config without SessionExpiration
    # compaction times the schedule will use, chosen first so that timestamps can straddle them
    base = T0
    span = rng.choice([60, 900, 4000])      # seconds covered by the log
    log = []
    sessions = []        # dicts: id, nick, reg(0..2), chans
    chans = ["#a", "#b", "#c"]
    cmid = 100
    style = rng.choice(["mono", "mono", "mixed", "allold"])
    cur_exp = 600
    limit = [0]          # MaxSessions in force (as far as the generator can tell)
    prev_limit = 0

    def ts_for(i):
        if style == "allold":
            return base + rng.randint(0, 30) * S
        if style == "mixed" and rng.random() < 0.3:
            return base + rng.randint(0, span) * S
        return base + int(span * i / max(1, n)) * S + rng.randint(0, 3) * S

    i = 0
    while len(log) < n:
        i = len(log) + 1
        ts = ts_for(i)
        r = rng.random()
        live = [s for s in sessions if not s["gone"]]
        reg = [s for s in live if s["reg"] >= 2]
        if r < 0.10:
            log.append({"idx": i, "kind": "raft", "rafttype": rng.choice(RAFT_TYPES)})
            continue
        if r < 0.22 or not live:
            log.append({"idx": i, "kind": "cmd", "type": T_CREATE, "ts": ts, "data": "authauth%d" % i})
            nlive = len([x for x in sessions if not x["gone"] and not x.get("ghost")])
            refused = limit[0] > 0 and nlive >= limit[0]       # ErrSessionLimitReached: the entry stays in the log
            if not refused or rng.random() < 0.3:
                sessions.append({"id": i, "reg": 0, "nick": None, "chans": set(), "gone": False, "ghost": refused})
            continue
        if r < 0.30:
            e = rng.choice(exps)
            cfgrev = i
            prev_limit = limit[0]
            data = 'MaxChannels = 40\n'
            limit[0] = 0
            if rng.random() < 0.35:
                limit[0] = rng.choice([1, 2, 3])
                data += 'MaxSessions = %d\n' % limit[0]
            data += '[IRC]\n  [[IRC.Operators]]\n  Name = "op"\n  Password = "pw"\n'
            if rng.random() < 0.15:
                data = "SessionExpiration = {broken"
                limit[0] = prev_limit
            elif e is not None:
                data = 'SessionExpiration = "%ds"\n' % e + data
                cur_exp = e
            log.append({"idx": i, "kind": "cmd", "type": T_CONFIG, "ts": ts, "rev": cfgrev, "data": data})
            continue
        if r < 0.35:
            s = rng.choice(live)
            log.append({"idx": i, "kind": "cmd", "type": T_DELETE, "ts": ts, "sess": s["id"], "data": "gone %d" % i})
            s["gone"] = True
            continue
        s = rng.choice(live)
        cmid += rng.randint(1, 5)
        if s["reg"] == 0:
            line = "NICK u%dx" % s["id"]
            s["nick"] = "u%dx" % s["id"]
            s["reg"] = 1
        elif s["reg"] == 1:
            line = "USER id%d 0 * :Real %d" % (s["id"], s["id"])
            s["reg"] = 2
        else:
            c = rng.choice(chans)
            others = [o for o in reg if o is not s and o["nick"]]
            k = rng.random()
            if k < 0.30:
                line = "JOIN " + c
                s["chans"].add(c)
            elif k < 0.38:
                line = "PART " + c
                s["chans"].discard(c)
            elif k < 0.50:
                line = "PRIVMSG %s :hello %d" % (c, i)
            elif k < 0.58:
                line = "TOPIC %s :topic %d" % (c, i)
            elif k < 0.64:
                line = "MODE %s %s" % (c, rng.choice(["+i", "-t", "+s", "+k key%d" % i, "+b *!*@bad%d" % i]))
            elif k < 0.70 and others:
                line = "MODE %s +o %s" % (c, rng.choice(others)["nick"])
            elif k < 0.75 and others:
                line = "KICK %s %s :bye" % (c, rng.choice(others)["nick"])
            elif k < 0.80:
                s["nick"] = "v%dx%d" % (s["id"], i)
                line = "NICK " + s["nick"]
            elif k < 0.84:
                line = "AWAY :afk %d" % i
            elif k < 0.88 and others:
                line = "INVITE %s %s" % (rng.choice(others)["nick"], c)
            elif k < 0.91:
                line = "OPER op pw"
            elif k < 0.94:
                line = "PING :x"
            elif k < 0.97:
                line = "QUIT :leaving"
                s["gone"] = True
            else:
                line = "WHOIS " + (s["nick"] or "x")
        log.append({"idx": i, "kind": "cmd", "type": T_LINE, "ts": ts, "sess": s["id"], "cmid": cmid, "data": line,
                    "addr": rng.choice(["", "", "192.0.2.%d" % (s["id"] % 200)])})
    # schedule: lenient (the harness skips steps that are not enabled; Apply i=0 = next entry)
    steps = []
    cmd_ts = [e["ts"] for e in log if e["kind"] == "cmd"]

    def pick_now():
        # a compaction time that puts the cut somewhere interesting, incl. exactly on an entry
        e_s = rng.choice([cur_exp, 600, 45, 1800])
        k = rng.random()
        t = rng.choice(cmd_ts) if cmd_ts else base
        if k < 0.25:
            return t + (e_s + 10) * S                   # that entry is exactly at the cutoff: folded
        if k < 0.45:
            return t + (e_s + 10) * S + 1               # the cutoff is 1 ns past that entry
        if k < 0.55:
            return t + (e_s + 10) * S - 1               # that entry is 1 ns younger than the cutoff: retained
        if k < 0.68:
            return max(cmd_ts or [base]) + 4000 * S     # everything older than any horizon
        if k < 0.75:
            return base + 1                             # nothing old
        return t + rng.randint(0, 2000) * S

    napply = 0
    while napply < len(log) + 2 and len(steps) < 6 * n:
        r = rng.random()
        if r < 0.50:
            napply += 1
            steps.append({"a": "Apply", "i": 0})
        elif r < 0.68:
            steps.append({"a": "SnapshotTake", "now": pick_now()})
        elif r < 0.84:
            if rng.random() < 0.25:
                steps.append({"a": "PersistFail", "k": rng.choice([0, 1, 9, 100, 1000, 100000])})
            else:
                steps.append({"a": "PersistOK"})
        elif r < 0.90:
            steps.append({"a": "Restore"})
        else:
            steps.append({"a": "Restart"})
    # always end with: everything applied, a persisted snapshot, a process start
    steps += [{"a": "Apply", "i": 0}] * 3 + [{"a": "SnapshotTake", "now": pick_now()}, {"a": "PersistOK"}, {"a": "Restart"},
                                             {"a": "SnapshotTake", "now": pick_now()}, {"a": "PersistOK"}, {"a": "Restart"}]
    return with_migration(rng, {"name": name, "proto": rng.random() < 0.6 if proto is None else proto, "log": log, "steps": steps,
                                "mod": [], "abs": False, "twice": True, "prestore": 0, "lenient": True})


def with_migration(rng, sched, p=0.7):
    """A schedule of a JSON node gets, with probability p, its encoding migration: one of its process
    starts (or an additional one) is made with the protobuf encoding.  Some entries carry raft extensions."""
    for e in sched["log"]:
        if rng.random() < 0.15:
            e["ext"] = "x%d" % e["idx"]
    sched["offset"] = PROD_OFFSET if rng.random() < 0.5 else 0
    if sched["proto"] or rng.random() >= p:
        return sched
    steps = sched["steps"]
    restarts = [k for k, st in enumerate(steps) if st["a"] == "Restart"]
    if restarts and rng.random() < 0.6:
        steps[rng.choice(restarts)] = {"a": "RestartEnc", "enc": "proto"}
    else:
        steps.insert(rng.randint(1, max(1, len(steps) - 1)), {"a": "RestartEnc", "enc": "proto"})
    return sched


HMAC_SECRET = "00112233445566778899aabbccddeeff00112233445566778899aabbccddeeff"


def gen_halfreg(rng, name, proto=None):
    """Sessions in intermediate registration states (NICK only, USER only, PASS only, NICK+USER with the
    login pending because a captcha is required, ...) that are older than the horizon when a snapshot
    folds them, followed after a restore / process start by commands whose outcome depends on that
    per-session state.  Judged by the differential oracle."""
    Sx = 10**9
    log = []
    old = lambda: T0 + rng.randint(0, 20) * Sx
    young = lambda: T0 + (130 + rng.randint(0, 9)) * Sx
    cm = [50]

    def add(e):
        e["idx"] = len(log) + 1
        log.append(e)
        return e["idx"]

    def line(sess, data, ts):
        cm[0] += rng.randint(1, 3)
        return add({"kind": "cmd", "type": T_LINE, "ts": ts, "sess": sess, "cmid": cm[0], "data": data})

    def maybe_gap():
        if rng.random() < 0.2:
            add({"kind": "raft", "rafttype": rng.choice(RAFT_TYPES)})

    captcha = rng.random() < 0.7
    exp = rng.choice(["45s", "45s", "45s", "60s"])
    cfg = 'SessionExpiration = "%s"\n' % exp
    if captcha:
        cfg += 'CaptchaRequiredForLogin = true\nCaptchaURL = "http://captcha.example/"\nCaptchaHMACSecret = "%s"\n' % HMAC_SECRET
    cfg_first = rng.random() < 0.5
    anchors = []
    if not cfg_first:
        # a fully registered session from before the captcha requirement
        a = add({"kind": "cmd", "type": T_CREATE, "ts": old(), "data": "authanchor"})
        line(a, "NICK anchor", old())
        line(a, "USER anchor 0 * :Anchor", old())
        line(a, "JOIN #a", old())
        anchors.append(a)
    maybe_gap()
    add({"kind": "cmd", "type": T_CONFIG, "ts": old(), "rev": 1, "data": cfg})
    states = ["nick", "nick+user", "user", "pass", "pass+nick", "pass+nick+user", "none", "user+nick"]
    half = []
    for k in range(rng.randint(2, 4)):
        sid = add({"kind": "cmd", "type": T_CREATE, "ts": old(), "data": "authhalf%02d" % k})
        st = rng.choice(states)
        for part in st.split("+"):
            if part == "nick":
                line(sid, "NICK h%dx" % sid, old())
            elif part == "user":
                line(sid, "USER h%d 0 * :Half %d" % (sid, sid), old())
            elif part == "pass":
                line(sid, "PASS %s" % rng.choice(["secret", "captcha=bogus.bogus.bogus", "nickserv=x:captcha=zz"]), old())
        half.append((sid, st))
        maybe_gap()
    n_old = len(log)
    follow = ["JOIN #a", "PRIVMSG #a :hi", "JOIN #b", "TOPIC #a :t", "PING :x", "USER late 0 * :Late", "NICK late%d",
              "PASS captcha=no.no.no", "PRIVMSG anchor :psst", "WHOIS anchor", "QUIT :bye"]
    order = list(half) + [(a, "anchor") for a in anchors]
    rng.shuffle(order)
    for sid, st in order:
        for _ in range(rng.randint(1, 3)):
            f = rng.choice(follow)
            if "%d" in f:
                f = f % sid
            line(sid, f, young())
    # schedule
    cut = T0 + 120 * Sx                 # cutoff T0+65s (45s) / T0+50s (60s): the old part is folded, the follow-ups are young
    far = T0 + 9000 * Sx
    steps = [{"a": "Apply", "i": i} for i in range(1, n_old + 1)]
    if rng.random() < 0.3:
        k = rng.randint(2, max(2, n_old - 1))
        steps.insert(k, {"a": "SnapshotTake", "now": cut})
        steps.insert(k + 1, {"a": rng.choice(["PersistOK", "PersistOK", "PersistFail"]), "k": 7})
    steps += [{"a": "SnapshotTake", "now": rng.choice([cut, cut, far])}, {"a": "PersistOK"}]
    if rng.random() < 0.4:
        steps += [{"a": "SnapshotTake", "now": rng.choice([cut, far])}, {"a": "PersistOK"}]
    steps += [{"a": rng.choice(["Restart", "Restart", "Restore"])}]
    if rng.random() < 0.3:
        steps += [{"a": rng.choice(["Restart", "Restore"])}]
    for i in range(n_old + 1, len(log) + 1):
        steps.append({"a": "Apply", "i": 0})
        if rng.random() < 0.15:
            steps += [{"a": "SnapshotTake", "now": far}, {"a": "PersistOK"}, {"a": rng.choice(["Restart", "Restore"])}]
    steps += [{"a": "Apply", "i": 0}, {"a": "SnapshotTake", "now": far}, {"a": "PersistOK"}, {"a": "Restart"}]
    return with_migration(rng, {"name": name, "proto": rng.random() < 0.6 if proto is None else proto, "log": log, "steps": steps,
                                "mod": [], "abs": False, "twice": True, "prestore": 0, "lenient": True})
