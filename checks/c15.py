"""C15 -- every line sent to clients is a single well-formed IRC line.

Technique: explicit TLA+ specification (spec/Lines.tla) of the byte pipeline
  POST/DELETE handler sanitising -> irc.ParseMessage -> ProcessMessage/handlers
  (which parameter is copied into which reply) -> irc.Message.Bytes (':' rule,
  truncation at MaxLen) -> send() -> JSON delivery by GET .../messages
as functions over strings of character classes. TLC checks the invariant
OneLine exhaustively for EVERY input string up to MaxX symbols in every
syntactic frame x sender state at a scaled-down MaxLen, and (documentation)
that each of the three modelled repairs is necessary.

Binding (model -> code replay + code -> model trace validation): the frames,
alphabets and sender states are read from TLC's output; every model input up
to the replay bound is concretised (class -> representative bytes, several per
class incl. non-ASCII, control characters; seeded length-stretched variants
that cross the real 510 limit, bodies beyond 2048 bytes) and sent as a real
`POST .../message` / `DELETE` through the single-node rig (real raft, real
DispatchPublic, real FSM, real output stream) from four sender states; what
EVERY session then receives from `GET .../messages` is mapped back to classes
and TLC validates the recorded steps against the SAME operators at real scale
(spec/LinesTrace.tla, MaxLen = 510, real widths). Plus seeded fuzz: random
JSON strings (all control characters, invalid UTF-8 via raw bodies, ~2 KiB
bodies) x the command vocabulary of the tree under test.

Verdict (VIOLATION) only from the property predicate on REAL delivered lines:
each Data returned by GET .../messages is <= 510 bytes, has no LF, CR, NUL and
matches  [":" prefix SP] command [SP ...]  with a command of letters or three
digits (the server's prefix-less `ERROR :...` lines are valid).
Model/implementation differences with the predicate intact are DRIFT.
"""
import base64
import concurrent.futures
import json
import os
import random
import re

import vlib
from checks import rig_common

LEVEL = "model_checking"

MAXLEN = 510
LINE_RE = re.compile(rb"^(:[^ \x00\r\n]+ )?([A-Za-z]+|[0-9]{3})( .*)?$", re.S)

# ------------------------------------------------------------------ classes
_CLS = []
for _b in range(256):
    if _b == 0x20:
        _CLS.append("SP")
    elif _b == 0x3A:
        _CLS.append("COLON")
    elif _b == 0x23:
        _CLS.append("HASH")
    elif _b == 0x0D:
        _CLS.append("CR")
    elif _b == 0x0A:
        _CLS.append("LF")
    elif _b == 0x00:
        _CLS.append("NUL")
    elif 0x80 <= _b <= 0xBF:
        _CLS.append("V")
    elif 0xC0 <= _b <= 0xDF:
        _CLS.append("U2")
    elif 0xE0 <= _b <= 0xEF:
        _CLS.append("U3")
    elif 0xF0 <= _b <= 0xF7:
        _CLS.append("U4")
    else:
        _CLS.append("o")


def rle(seq):
    out = []
    for c in seq:
        if out and out[-1][0] == c:
            out[-1][1] += 1
        else:
            out.append([c, 1])
    return out


def cls_rle(b):
    return rle(_CLS[x] for x in b)


def unrle(r):
    out = []
    for c, n in r:
        out.extend([c] * n)
    return out


# ----------------------------------------------------------- the predicate
def line_faults(b):
    """Property predicate on one delivered line (bytes). Returns list of fault names."""
    f = []
    if len(b) > MAXLEN:
        f.append("too-long")
    if b"\r" in b:
        f.append("ctl-cr")
    if b"\n" in b:
        f.append("ctl-lf")
    if b"\x00" in b:
        f.append("ctl-nul")
    if not LINE_RE.match(b):
        f.append("no-command")
    return f


def lenient_cmd(b):
    """Command token of a line as far as it can be told (None if there is none)."""
    parts = b.split(b" ")
    if b.startswith(b":"):
        parts = parts[1:]
    if not parts or not re.match(rb"^([A-Za-z]+|[0-9]{3})$", parts[0]):
        return None
    return parts[0].decode().upper()


# ------------------------------------------------------------ concretiser
ORD_POOL = "zQ7x~.-_=+|[]{}^`\\/\"'<>()!@%&;?\x01\x1b\x7f"
NICK_ORD_POOL = ".~+=%&/"          # bytes that are not allowed in nicknames
# representatives of the 2/3/4-byte rune classes; half of them have a code point whose LOW BYTE is LF, CR or
# NUL (U+010A, U+010D, U+0100, U+200A, U+4E0D, U+3000, U+1F60A, U+1F40D): a rune truncated to a byte somewhere
# in the server turns into a control character
R2 = ["é", "ß", "Ω", "ñ", "\u010a", "\u010d", "\u0100"]
R3 = ["€", "中", "→", "\u200a", "\u4e0d", "\u3000"]
R4 = ["\U0001F600", "\U0001D11E", "\U0001F60A", "\U0001F40D"]
CMD_WORDS = {"PRIVMSG", "NOTICE", "TOPIC", "KICK", "QUIT", "PART", "AWAY", "KNOCK", "USER", "NICK", "PING",
             "WHOIS", "WHO", "LIST", "JOIN", "INVITE", "KILL", "PASS", "SERVER"}


def randcase(rnd, s):
    return "".join(ch.upper() if rnd.random() < 0.5 else ch.lower() for ch in s)


class Conc:
    def __init__(self, rnd, names, nickframe=False):
        self.rnd = rnd
        self.names = names          # {"CHAN": "#c", "BOB": "bob", "SELF": ..., "VIC": ..., "NEWNICK": ...}
        self.pool = NICK_ORD_POOL if nickframe else ORD_POOL

    def sym(self, y):
        r = self.rnd
        if y == "o":
            return r.choice(self.pool)
        if y == "SP":
            return " "
        if y == "COLON":
            return ":"
        if y == "HASH":
            return "#"
        if y == "CR":
            return "\r"
        if y == "LF":
            return "\n"
        if y == "NUL":
            return "\x00"
        if y == "E2":
            return r.choice(R2)
        if y == "E3":
            return r.choice(R3)
        if y == "E4":
            return r.choice(R4)
        if y in CMD_WORDS:
            return randcase(r, y)
        if y == "NEWNICK":
            return self.names[y]
        if y in self.names:
            return randcase(r, self.names[y])
        raise vlib.Inconclusive("concretiser: unknown symbol %r" % y)

    def text(self, syms):
        """syms: list of symbols or [symbol, count] pairs. Returns (text, expanded symbol list)."""
        out, flat = [], []
        for y in syms:
            if isinstance(y, list):
                for _ in range(y[1]):
                    out.append(self.sym(y[0]))
                    flat.append(y[0])
            else:
                out.append(self.sym(y))
                flat.append(y)
        return "".join(out), flat


def body_post(data, cmid):
    return json.dumps({"Data": data, "ClientMessageId": cmid}, ensure_ascii=False)


def body_delete(msg):
    return json.dumps({"Quitmessage": msg}, ensure_ascii=False)


# ------------------------------------------------------- inputs from TLC
def all_strings(alpha, maxlen):
    res = [[]]
    layer = [[]]
    for _ in range(maxlen):
        layer = [s + [a] for s in layer for a in alpha]
        res.extend(layer)
    return res


def parse_frames(out):
    m = re.search(r'<<"FRAMES", (".*")>>\s*$', out, re.M)
    if not m:
        raise vlib.Inconclusive("Lines.tla did not print its frames")
    return json.loads(json.loads(m.group(1)))


# ------------------------------------------------------------ programs
JOIN_SKIP = ["324", "331", "332", "333", "353", "366", "MODE"]
SEQ_FIELDS = ("user", "real", "away", "topic")


class Builder:
    """One rig program: bob (observer, `other`), a subject per scenario, victims."""

    def __init__(self, name, rnd):
        self.name = name
        self.rnd = rnd
        self.steps = []
        self.scen = []           # scenarios: {id, kind, subject, env.., st, steps: [...]}
        self.cmid = {}
        self.streams = {}        # alias -> index of the rig step whose result carries the session's lines
        self.nvic = 0
        self.opts = {}

    def add(self, st):
        self.steps.append(st)
        return len(self.steps) - 1

    def post(self, alias, data):
        n = self.cmid.get(alias, 5000) + 1
        self.cmid[alias] = n
        return self.add({"op": "post", "session": alias, "body": body_post(data, n)})

    def session(self, alias, nick, user=None, real=None, join=True):
        self.add({"op": "create_session", "as": alias})
        self.post(alias, "NICK " + nick)
        self.post(alias, "USER %s 0 * :%s" % (user or nick, real or nick))
        if join:
            self.post(alias, "JOIN #c")

    def services(self):
        """A services link `svc`: it receives a copy of most state changes (sendServices). Its lines are
        judged by the property predicate only (the model does not predict them)."""
        self.add({"op": "config", "toml": OPER_TOML})
        self.add({"op": "create_session", "as": "svc"})
        self.post("svc", "PASS services=svcpw")
        self.post("svc", "SERVER services.example 1 :Services")
        self.has_services = True

    def final_gets(self, aliases, ms, bg=()):
        """Ends the program: for every live session a sentinel request is posted and its whole stream is
        read until the sentinel's reply arrives (step `drain` of harness/lines; deadline `ms`)."""
        self.drains = {}
        if getattr(self, "has_services", False):
            aliases = list(aliases) + ["svc"]
        for a in aliases:
            self.drains[a] = self.streams[a] = self.add({"op": "drain", "session": a, "ms": ms})
        for a in bg:
            self.drains[a] = self.streams[a] = self.add({"op": "drain", "session": a, "ms": ms, "bg": "g-" + a})

    def program(self):
        return {"name": self.name, "opts": self.opts, "steps": self.steps}


OPER_TOML = ('SessionExpiration = "30m0s"\nPostMessageCooloff = "0s"\n'
             '[IRC]\n[[IRC.Operators]]\nName = "root"\nPassword = "rootpw"\n'
             '[[IRC.Services]]\nPassword = "svcpw"\n')


def kind_setup(b, kind, subject_nick):
    """Brings the program into the sender state `kind`; returns the Start state (flags) for the trace."""
    b.services()
    b.session("bob", "bob")
    if kind == "unreg":
        b.add({"op": "create_session", "as": "sub"})
        return
    b.session("sub", subject_nick)
    if kind == "oper":
        b.post("sub", "OPER root rootpw")
        b.post("bob", "MODE #c +o " + subject_nick)
        new_victim(b)
    if kind == "knock":
        b.post("bob", "MODE #c +i")


def new_victim(b):
    b.nvic += 1
    alias = "vic%03d" % b.nvic
    b.session(alias, alias)
    b.add({"op": "get", "session": alias, "lastseen": "0.0", "bg": "g-" + alias})
    b.victim = alias
    return alias


def stretch(rnd, xs, quick):
    """A length-stretched variant of the free string: one ordinary symbol becomes a long run
    (mixed rune widths so that the 510 cut falls inside a rune for some of them)."""
    idx = [i for i, y in enumerate(xs) if y in ("o", "E2")]
    if not idx:
        return None
    i = rnd.choice(idx)
    target = rnd.choice([rnd.randint(430, 560), rnd.randint(430, 560), rnd.randint(900, 1300)])
    run = []
    n = 0
    if xs[i] == "o":
        run = [["o", target]]
    else:
        lead = rnd.randint(0, 3)
        if lead:
            run.append(["o", lead])
            n += lead
        while n < target:
            y = rnd.choice(["E2", "E2", "E3", "E4"])
            k = rnd.randint(1, 40)
            run.append([y, k])
            n += k * {"E2": 2, "E3": 3, "E4": 4}[y]
    return list(xs[:i]) + run + list(xs[i + 1:])


class Plan:
    """All replay cases of one (kind, shard) program, and the bookkeeping to read them back."""

    def __init__(self, ctx, spec, kind, shard, cases, rnd):
        self.ctx = ctx
        self.kind = kind
        self.spec = spec
        self.rnd = rnd
        self.b = Builder("c15-%s-%d" % (kind, shard), rnd)
        self.subject_nick = "sue"
        self.records = []    # trace records in order (dicts with bookkeeping keys starting with "_")
        self.dying = []
        kind_setup(self.b, kind, self.subject_nick)
        self.start = {"ev": "Start", "id": self.b.name, "_kind": kind, "_subject": "sub", "_self": self.subject_nick,
                      "_nick": self.subject_nick if kind != "unreg" else ""}
        self.records.append(self.start)
        for case in cases:
            self.case(case)
        self.b.final_gets(["bob", "sub"], 30000, bg=[self.b.victim] if kind == "oper" else [])

    def names(self):
        return {"CHAN": "#c", "BOB": "bob", "SELF": self.subject_nick, "VIC": getattr(self.b, "victim", "vic000"),
                "NEWNICK": self.subject_nick}

    def emit(self, frame, step, caseid, main):
        """One model step -> rig step(s) + trace record."""
        b = self.b
        op = step["op"]
        if op == "otherjoin":
            b.post("bob", "JOIN #c")
            self.records.append({"ev": "Step", "id": caseid, "op": "otherjoin", "data": [], "skip": [], "all": True, "opt": [], "_rig": None})
            return
        if op == "vicjoin":
            # the killed victim's stream ended; collect it, then bring a new one
            old = b.victim
            b.add({"op": "delete", "session": old, "quitmessage": "cleanup"})
            b.streams[old] = b.add({"op": "collect", "bg": "g-" + old, "ms": 3000})
            new_victim(b)
            self.records.append({"ev": "Step", "id": caseid, "op": "vicjoin", "data": [], "skip": [], "all": True, "opt": [], "_rig": None})
            return
        conc = Conc(self.rnd, self.names(), nickframe=frame["id"].startswith("nick"))
        text, flat = conc.text(step["data"])
        skip = []
        if main and frame["id"] == "whois":
            skip = ["317"]
        if [y for y in flat[:1]] == ["JOIN"]:
            skip = JOIN_SKIP
        rec = {"ev": "Step", "id": caseid, "op": op, "data": rle(flat), "skip": skip, "all": False,
               "opt": ["vic"] if frame["id"] == "kill-vt" and main else [],
               "_vic": getattr(b, "victim", None), "_text": text}
        if op == "post":
            n = b.cmid.get("sub", 5000) + 1
            b.cmid["sub"] = n
            body = body_post(text, n)
            if len(body.encode("utf-8")) > 2048:
                rec["op"] = "big"
                rec["data"] = []
            rec["_rig"] = b.add({"op": "post", "session": "sub", "body": body})
        else:
            rec["_rig"] = b.add({"op": "delete", "session": "sub", "body": body_delete(text)})
        self.records.append(rec)

    def case(self, case):
        frame, xs, cid = case["frame"], case["x"], case["id"]
        self.emit(frame, {"op": frame["op"], "data": list(frame["pre"]) + list(xs) + list(frame["post"])}, cid, True)
        for k, st in enumerate(frame["follow"]):
            self.emit(frame, st, "%s+%d" % (cid, k + 1), False)


class DyingPlan:
    """Cases that end the subject's session (QUIT, DELETE): one fresh subject per case."""

    def __init__(self, ctx, spec, kind, shard, cases, rnd):
        self.ctx = ctx
        self.kind = kind
        self.spec = spec
        self.rnd = rnd
        self.b = Builder("c15-die-%s-%d" % (kind, shard), rnd)
        self.records = []
        self.b.services()
        self.b.session("bob", "bob")
        self.n = 0
        for case in cases:
            self.case(case)
        self.b.final_gets(["bob"], 30000)

    def case(self, case):
        b = self.b
        frame, xs, cid = case["frame"], case["x"], case["id"]
        self.n += 1
        alias = "tm%04d" % self.n
        unreg = self.kind == "unreg"
        if unreg:
            b.add({"op": "create_session", "as": alias})
            nick = ""
        else:
            b.session(alias, alias)
            nick = alias
            # a registered session's stream ends with the session (the QUIT batch is the last one written)
            b.add({"op": "get", "session": alias, "lastseen": "0.0", "bg": "g-" + alias})
        self.records.append({"ev": "Start", "id": cid, "_kind": self.kind, "_subject": alias, "_nick": nick, "_self": alias})
        conc = Conc(self.rnd, {"CHAN": "#c", "BOB": "bob", "SELF": alias, "VIC": "vic000", "NEWNICK": alias})
        text, flat = conc.text(list(frame["pre"]) + list(xs) + list(frame["post"]))
        if not unreg:
            b.add({"op": "sleep", "ms": 3})      # let the subject's stream catch up: it is cut with the session
        rec = {"ev": "Step", "id": cid, "op": frame["op"], "data": rle(flat), "skip": [], "all": False, "opt": ["self"], "_vic": None, "_text": text}
        if frame["op"] == "post":
            body = body_post(text, 7001)
            if len(body.encode("utf-8")) > 2048:
                rec["op"] = "big"
                rec["data"] = []
            rec["_rig"] = b.add({"op": "post", "session": alias, "body": body})
        else:
            rec["_rig"] = b.add({"op": "delete", "session": alias, "body": body_delete(text)})
        self.records.append(rec)
        # a second request after the end must find no session (model: gone)
        rec2 = {"ev": "Step", "id": cid + "+after", "op": "post", "data": rle(["PING"]), "skip": [], "all": False, "opt": ["self"], "_vic": None, "_text": "PING"}
        rec2["_rig"] = b.add({"op": "post", "session": alias, "body": body_post("PING", 7002)})
        self.records.append(rec2)
        if unreg:
            # an unregistered session's QUIT writes nothing, so its stream would stay open: read it up to a
            # sentinel instead (refused at once if the session is gone; then it never received anything)
            b.streams[alias] = b.add({"op": "drain", "session": alias, "ms": 30000})
            b.add({"op": "delete", "session": alias, "quitmessage": "cleanup"})
        else:
            # end sessions that survived (e.g. the QUIT word was not parsed as such): the stream ends with the session
            b.add({"op": "delete", "session": alias, "quitmessage": "cleanup"})
            b.streams[alias] = b.add({"op": "collect", "bg": "g-" + alias, "ms": 3000})


# ------------------------------------------------------------ read back
def stream_lines(recs_by_i, idx):
    r = recs_by_i[idx][-1]
    return r.get("lines") or []


def by_raft_id(lines):
    d = {}
    for ln in lines:
        d.setdefault(ln["id"], []).append(ln)
    for k in d:
        d[k].sort(key=lambda x: x["reply"])
    return d


def check_sentinels(b, by_i, streams):
    """Completeness: the stream of every session alive at the end must reach its sentinel request."""
    for alias, i in getattr(b, "drains", {}).items():
        r = by_i[i][-1]
        if r.get("err") or not (r.get("extra") or {}).get("reached"):
            raise vlib.Inconclusive("program %s: stream of %s is incomplete (sentinel not reached within the deadline): %s" % (
                b.name, alias, r.get("err")))


def host_of(lines, nick):
    pat = re.compile(r"^:%s!%s@(robust/0x[0-9a-f]+) JOIN " % (re.escape(nick), re.escape(nick)))
    for ln in lines:
        m = pat.match(ln["data"])
        if m:
            return m.group(1)
    return None


class Judge:
    """Evaluates the property predicate on every delivered line and records violations."""

    def __init__(self, ctx):
        self.ctx = ctx
        self.lines = 0
        self.bad = 0
        self.sig_seen = {}
        self.names = {}          # reply command -> number of delivered lines

    def check(self, data, origin):
        b = data.encode("utf-8", "surrogatepass")
        self.lines += 1
        tok = lenient_cmd(b) or "(none)"
        self.names[tok] = self.names.get(tok, 0) + 1
        faults = line_faults(b)
        if faults:
            self.bad += 1
            for f in faults:
                sig = "%s-via-%s" % (f, origin["op"])
                n = self.sig_seen.get(sig, 0)
                self.sig_seen[sig] = n + 1
                if n < 1:
                    self.ctx.violation(sig, "line delivered to %s violates C15 (%s): %d bytes %r" % (
                                       {"self": "the sender", "other": "ANOTHER session", "vic": "ANOTHER session",
                                        "services": "the services link"}.get(origin["rcpt"], "a session"),
                                       f, len(b), b[:160]),
                                       {"program": origin.get("prog"), "case": origin.get("case"), "sent": origin.get("text"),
                                        "op": origin["op"], "recipient": origin["rcpt"], "line": data})
        return faults


def harvest(ctx, plan, recs, judge, srvname):
    """Turns a plan's rig results into trace records (with observations)."""
    b = plan.b
    by_i = rig_common.by_step(recs)
    streams = {}
    for alias, idx in b.streams.items():
        lines = stream_lines(by_i, idx)
        streams[alias] = lines
    check_sentinels(b, by_i, streams)
    idx_lines = {a: by_raft_id(l) for a, l in streams.items()}
    hosts = {}

    def host(alias, nick):
        # bob is a member of the channel from the start: he sees every set-up JOIN
        if alias not in hosts:
            hosts[alias] = host_of(streams.get("bob", []), nick) if nick else None
        return hosts[alias]

    out = []
    cur = None
    judged = set()
    idinfo = {}
    for rec in plan.records:
        if rec["ev"] == "Start":
            cur = rec
            kind = rec["_kind"]
            st = dict(plan.spec["kinds"][kind])
            nick = rec["_nick"]
            for f in SEQ_FIELDS:
                st[f] = rle(st[f])
            if kind != "unreg":
                st["user"] = [["o", len(nick)]]
                st["real"] = [["o", len(nick)]]
            h = host(rec["_subject"], nick) if nick else None
            bh = host("bob", "bob")
            if bh is None or (nick and h is None):
                raise vlib.Inconclusive("program %s: cannot find the JOIN line of a set-up session" % b.name)
            vic = getattr(b, "victim", None) or "vic000"
            vh = host(vic, vic) if getattr(b, "victim", None) else None
            env = {"self": len(rec["_self"]), "bob": 3, "vic": len(vic), "chan": 2, "srv": len(srvname),
                   "host": len(h) if h else len(bh), "bhost": len(bh), "vhost": len(vh) if vh else len(bh),
                   "buser": [["o", 3]], "breal": [["o", 3]], "vuser": [["o", len(vic)]], "vreal": [["o", len(vic)]],
                   "bobop": True}
            out.append({"ev": "Start", "id": rec["id"], "env": env, "st": st})
            continue
        o = {"ev": "Step", "id": rec["id"], "op": rec["op"], "data": rec["data"], "skip": rec["skip"], "all": rec["all"],
             "opt": rec["opt"], "obs": {"self": [], "other": [], "vic": []}}
        if rec.get("_rig") is not None:
            r = by_i[rec["_rig"]][-1]
            status = r.get("status")
            rid = r["post"]["raftLast"] if (status == 200 and r["delta"]["raft"] == 1) else None
            if rec["op"] == "big" and (status != 400 or r["delta"]["raft"] != 0):
                ctx.drift("body beyond 2048 bytes was not refused: %s status %s" % (rec["id"], status))
            if rid is not None:
                idinfo[rid] = rec
                who = {"self": cur["_subject"], "other": "bob", "vic": rec.get("_vic")}
                for rcpt, alias in who.items():
                    if alias is None or alias not in idx_lines:
                        continue
                    for ln in idx_lines[alias].get(rid, []):
                        bts = ln["data"].encode("utf-8", "surrogatepass")
                        key = (alias, ln["id"], ln["reply"])
                        if key not in judged:
                            judged.add(key)
                            judge.check(ln["data"], {"op": rec["op"], "rcpt": rcpt, "prog": b.name, "case": rec["id"], "text": rec.get("_text")})
                        tok = lenient_cmd(bts)
                        if tok is not None and tok in rec["skip"]:
                            continue
                        o["obs"][rcpt].append(cls_rle(bts))
        out.append(o)
    # every other line any session of this program received (set-up, third parties): predicate only
    for alias, lines in streams.items():
        for ln in lines:
            key = (alias, ln["id"], ln["reply"])
            if key not in judged:
                judged.add(key)
                src = idinfo.get(ln["id"])
                judge.check(ln["data"], {"op": src["op"] if src else "setup", "rcpt": "services" if alias == "svc" else "any",
                                         "prog": b.name, "case": src["id"] if src else None, "text": src.get("_text") if src else None})
    return out


# ---------------------------------------------------------------- fuzz
def repo_commands():
    cmds = set()
    d = os.path.join(vlib.REPO, "internal", "ircserver")
    for f in os.listdir(d):
        if f.endswith(".go") and not f.endswith("_test.go"):
            with open(os.path.join(d, f)) as fh:
                for m in re.finditer(r'Commands\["([A-Za-z_]+)"\]', fh.read()):
                    cmds.add(m.group(1))
    return sorted(c for c in cmds if not c.startswith("server_"))


def fuzz_string(rnd, maxlen):
    n = rnd.choice([0, 1, 2, 5, 17, 60, 200, maxlen])
    out = bytearray()
    while len(out) < n:
        k = rnd.random()
        if k < 0.25:
            out.append(rnd.randrange(0, 0x20))
        elif k < 0.55:
            out.append(rnd.randrange(0x20, 0x7f))
        elif k < 0.65:
            out += rnd.choice([b" ", b" :", b":", b"#", b",", b"\r\n", b"\x00", b"\r", b"\n"])
        elif k < 0.85:
            out += rnd.choice(R2 + R3 + R4 + ["\u0085", " ", " ", "�"]).encode()
        else:
            out.append(rnd.randrange(0x80, 0x100))      # lone high bytes: invalid UTF-8
    return bytes(out[:maxlen])


def json_bytes(obj_items):
    """JSON object with string values given as BYTES (may be invalid UTF-8; written raw)."""
    parts = []
    for k, v in obj_items:
        if isinstance(v, bytes):
            esc = bytearray()
            for c in v:
                if c == 0x22:
                    esc += b'\\"'
                elif c == 0x5C:
                    esc += b"\\\\"
                elif c < 0x20:
                    esc += b"\\u%04x" % c
                else:
                    esc.append(c)
            parts.append(b'"%s":"%s"' % (k.encode(), bytes(esc)))
        else:
            parts.append(b'"%s":%d' % (k.encode(), v))
    return b"{" + b",".join(parts) + b"}"


def fuzz_program(ctx, name, rnd, cmds, nsteps):
    b = Builder(name, rnd)
    b.services()
    b.session("bob", "bob")
    subs = ["fa", "fb", "fc", "fd"]
    b.session("fa", "fuzza")
    b.session("fb", "fuzzb")
    b.post("fb", "OPER root rootpw")
    b.post("bob", "MODE #c +o fuzzb")
    b.add({"op": "create_session", "as": "fc"})                 # unregistered
    b.session("fd", "fuzzd", join=False)
    targets = [b"#c", b"bob", b"fuzza", b"fuzzb", b"#C", b"#new", b"nobody", b"$*", b""]
    origin = {}
    safe = [c for c in cmds if c not in ("QUIT", "KILL", "GLINE", "SERVER", "OPER")]
    for k in range(nsteps):
        a = rnd.choice(subs)
        cmd = rnd.choice(safe).encode()
        shape = rnd.randrange(7)
        big = rnd.random() < 0.08
        s = fuzz_string(rnd, 1900 if big else 300)
        if shape == 0:
            data = cmd + b" " + rnd.choice(targets) + b" :" + s
        elif shape == 1:
            data = cmd + b" " + s
        elif shape == 2:
            data = cmd + b" " + rnd.choice(targets) + b" " + s + b" :" + fuzz_string(rnd, 100)
        elif shape == 3:
            data = s
        elif shape == 4:
            data = b":" + fuzz_string(rnd, 20) + b" " + cmd + b" " + rnd.choice(targets) + b" :" + s
        elif shape == 5:
            data = cmd + s
        else:
            data = cmd + b" :" + s
        n = b.cmid.get(a, 5000) + 1
        b.cmid[a] = n
        body = json_bytes([("Data", data), ("ClientMessageId", n)])
        i = b.add({"op": "raw", "session": a, "method": "POST", "data": base64.b64encode(body).decode()})
        origin[i] = data
    # sessions that end with an arbitrary Quitmessage / QUIT text
    for k in range(max(4, nsteps // 25)):
        alias = "fq%03d" % k
        b.session(alias, alias)
        b.add({"op": "get", "session": alias, "lastseen": "0.0", "bg": "g-" + alias})
        s = fuzz_string(rnd, rnd.choice([40, 300, 1500]))
        if rnd.random() < 0.6:
            body = json_bytes([("Quitmessage", s)])
            i = b.add({"op": "raw", "session": alias, "method": "DELETE", "data": base64.b64encode(body).decode()})
        else:
            body = json_bytes([("Data", b"QUIT :" + s), ("ClientMessageId", 9001)])
            i = b.add({"op": "raw", "session": alias, "method": "POST", "data": base64.b64encode(body).decode()})
        origin[i] = s
        b.add({"op": "delete", "session": alias, "quitmessage": "cleanup"})
        b.streams[alias] = b.add({"op": "collect", "bg": "g-" + alias, "ms": 3000})
    b.final_gets(["bob"] + subs, 30000)
    b.origin = origin
    return b


def sweep_program(ctx, name, rnd, quick):
    """Length sweep around the 510-byte limit, byte by byte, for senders whose stored user name was cut at
    its limit in every possible way (inside 2-, 3- and 4-byte characters), with texts of every rune width:
    whatever combination of "cut here, sanitise there" the server uses, some delivered line ends exactly at
    the limit.  Judged by the property predicate only (like the fuzz programs)."""
    b = Builder(name, rnd)
    b.services()
    b.session("bob", "bob")
    origin = {}

    def raw(alias, data):
        n = b.cmid.get(alias, 5000) + 1
        b.cmid[alias] = n
        i = b.add({"op": "raw", "session": alias, "method": "POST",
                   "data": base64.b64encode(json_bytes([("Data", data), ("ClientMessageId", n)])).decode()})
        origin[i] = data
    users = [b"shortuser", b"u" * 40]
    for w, ch in ((2, "\u00e9"), (3, "\u20ac"), (4, "\U0001F600")):
        for inside in range(1, w):
            # the character starts so that `inside` of its bytes are below the 32-byte limit
            users.append(b"u" * (32 - inside) + ch.encode() + b"tail")
    rnd.shuffle(users)
    if quick:
        users = users[:5]
    subs = []
    lo, hi = (418, 472) if quick else (395, 480)
    for k, u in enumerate(users):
        a = "sw%d" % k
        subs.append(a)
        b.add({"op": "create_session", "as": a})
        raw(a, b"NICK sw%d" % k)
        raw(a, b"USER " + u + b" 0 * :sweeper")
        raw(a, b"JOIN #c")
        for unit in (b"x", "\u00e9".encode(), "\u20ac".encode(), "\U0001F600".encode()):
            for nbytes in range(lo, hi):
                raw(a, b"PRIVMSG #c :" + b"x" * (nbytes % len(unit)) + unit * (nbytes // len(unit)))
        # the same sweep with texts whose first and last byte belong together (CTCP, formatting): whatever a
        # server does to keep such a pair intact after the cut must stay within the limit as well
        frames = [(b"\x01ACTION ", b"\x01"), (b"\x0304", b"\x03"), (b"\x02", b"\x0f")]
        verbs = [b"PRIVMSG #c :", b"NOTICE #c :", b"PRIVMSG bob :", b"TOPIC #c :"]
        for fi, (pre, post) in enumerate(frames[:2] if quick else frames):
            for unit in (b"x", "\u00e9".encode(), "\u20ac".encode(), "\U0001F600".encode()):
                for nbytes in range(lo, hi + 40, 1 if unit == b"x" else 3):
                    verb = verbs[(nbytes + fi) % len(verbs)] if unit != b"x" else verbs[0]
                    raw(a, verb + pre + b"x" * (nbytes % len(unit)) + unit * (nbytes // len(unit)) + post)
        raw(a, b"PART #c")
    b.final_gets(["bob"] + subs, 60000)
    b.origin = origin
    return b


def judge_fuzz(ctx, b, recs, judge):
    by_i = rig_common.by_step(recs)
    # raft id -> (posted bytes, op) for the replay file
    sent = {}
    for i, data in b.origin.items():
        r = by_i[i][-1]
        if r.get("status") == 200 and r["delta"]["raft"] == 1:
            sent[r["post"]["raftLast"]] = (data, b.steps[i]["method"])
    seen = set()
    n = 0
    streams = {alias: stream_lines(by_i, idx) for alias, idx in b.streams.items()}
    check_sentinels(b, by_i, streams)
    for alias, lines in streams.items():
        for ln in lines:
            key = (alias, ln["id"], ln["reply"])
            if key in seen:
                continue
            seen.add(key)
            n += 1
            src = sent.get(ln["id"])
            judge.check(ln["data"], {"op": ("delete" if src and src[1] == "DELETE" else "post") if src else "setup",
                                     "rcpt": "fuzz", "prog": b.name, "case": "fuzz",
                                     "text": src[0].decode("latin-1") if src else None})
    return n, len(sent)


# ------------------------------------------------------------ trace / TLC
TRACE_CFG = """SPECIFICATION TSpec
CONSTANTS
  MaxLen = 510
  FixSanitise = TRUE
  MaxUser = %d
  FixUtf8 = TRUE
  MaxX = 0
POSTCONDITION Accept
CHECK_DEADLOCK FALSE
"""


def validate_chunk(ctx, k, trace, maxuser):
    text = "\n".join(json.dumps(r, sort_keys=True, separators=(",", ":")) for r in trace) + "\n"
    # short single-threaded runs: C1 only (the optimising JIT costs more CPU than it saves here)
    r = ctx.tlc("LinesTrace", cfg="LinesTrace_run.cfg", workers=1, timeout=900, name="tlc-trace-%d" % k,
                jvm=["-XX:TieredStopAtLevel=1", "-XX:ParallelGCThreads=2"],
                files={"Lines_trace.ndjson": text, "LinesTrace_run.cfg": TRACE_CFG % maxuser})
    acc = rig_common.trace_accepted(r.out)
    if not r.ok or acc is None or acc[0] != len(trace):
        raise vlib.Inconclusive("TLC did not accept trace chunk %d (%d records):\n%s" % (
            k, len(trace), "\n".join(r.out.splitlines()[-25:])))
    m = re.search(r'<<"BAD-LINES", (\d+)>>', r.out)
    return r, acc, int(m.group(1)) if m else -1


def split_scenarios(trace, n):
    """Split at Start records into n chunks of similar size."""
    groups, cur = [], []
    for r in trace:
        if r["ev"] == "Start" and cur:
            groups.append(cur)
            cur = []
        cur.append(r)
    if cur:
        groups.append(cur)
    chunks = [[] for _ in range(n)]
    for g in sorted(groups, key=len, reverse=True):
        min(chunks, key=len).extend(g)
    return [c for c in chunks if c]


# ------------------------------------------------------------------ run
def build_rig(ctx):
    src, info = rig_common.mux_source()
    ctx.cov["rig_mux"] = info
    rigdir = os.path.join(vlib.HARNESS, "rig")
    mapping = {"zz_verif_rigmux_test.go": src}
    for f in sorted(os.listdir(rigdir)):
        if f.startswith("rig_") and f.endswith("_test.go"):
            mapping["zz_verif_" + f] = os.path.join(rigdir, f)
    mapping["zz_verif_steps_c15_test.go"] = os.path.join(vlib.HARNESS, "lines", "steps_c15_test.go")
    ov = ctx.overlay(mapping)
    out = os.path.join(ctx.sub("rigbin"), "rig.test")
    ctx.go_build_test(".", ov, out)
    return out


def probe_tree(ctx, binary):
    """Measures two parameters of the tree under test: the server name and the user name limit of cmdUser."""
    b = Builder("c15-probe", random.Random(0))
    b.session("p", "prb", user="u" * 200, real="r", join=False)
    b.post("p", "WHOIS prb")
    b.final_gets(["p"], 30000)
    recs = rig_common.run(ctx, binary, [b.program()], par=1, name="probe", probe_errors_ok=True)[b.name]
    lines = stream_lines(rig_common.by_step(recs), b.streams["p"])
    srv, ulen = None, None
    for ln in lines:
        m = re.match(r"^:(\S+) 311 prb prb (\S*) robust/", ln["data"])
        if m:
            srv, ulen = m.group(1), len(m.group(2))
    if srv is None:
        # a 200 byte user name cannot overflow the line; but be tolerant
        for ln in lines:
            m = re.match(r"^:(\S+) 001 ", ln["data"])
            if m:
                srv = m.group(1)
        if srv is None:
            raise vlib.Inconclusive("probe: no server prefix seen")
        ulen = 200
    return srv, (0 if ulen >= 200 else ulen)


def gen_cases(ctx, spec, rnd):
    """(kind -> list of cases), dying cases, per the tier's replay bound."""
    quick = ctx.quick
    main = {k: [] for k in spec["kinds"]}
    dying = {"unreg": [], "reg": []}
    for fr in spec["frames"]:
        alpha = sorted(spec["alpha"][fr["alpha"]])
        die = fr["id"] in ("quit", "quit-t", "delete")
        bound = (2 if quick else 3)
        if die:
            bound = 2
        xs = all_strings(alpha, bound)
        for kind in fr["kinds"]:
            cases = []
            for x in xs:
                if die and kind == "unreg" and len(x) > 1:
                    continue
                cases.append({"frame": fr, "x": x, "id": "%s/%s/%s" % (kind, fr["id"], ".".join(x) or "-")})
            # stretched variants + oversized bodies (seeded sample)
            cand = [x for x in xs if 1 <= len(x) <= 2 and any(y in ("o", "E2") for y in x)]
            rnd.shuffle(cand)
            nst = (6 if quick else 30) if not die else (4 if quick else 12)
            if kind == "unreg":
                nst = min(nst, 3)
            for j, x in enumerate(cand[:nst]):
                sx = stretch(rnd, x, quick)
                if sx is not None:
                    cases.append({"frame": fr, "x": sx, "id": "%s/%s/%s~s%d" % (kind, fr["id"], ".".join(x), j)})
            cases.append({"frame": fr, "x": [["o", 2100]], "id": "%s/%s/big" % (kind, fr["id"])})
            (dying[kind] if die else main[kind]).extend(cases)
    return main, dying


def shard(lst, size):
    return [lst[i:i + size] for i in range(0, len(lst), size)] or [[]]


def replay(ctx, path):
    """./check C15 --replay <violation file>: sends the recorded input again (from a registered member of a
    channel with a second session, and from an unregistered session) and judges every delivered line."""
    with open(path) as fh:
        v = json.load(fh)["replay"]
    text = v.get("sent") or ""
    binary = build_rig(ctx)
    b = Builder("c15-replay", random.Random(0))
    b.session("bob", "bob")
    b.session("sub", "sue")
    b.add({"op": "create_session", "as": "raw"})
    raw = text.encode("latin-1") if v.get("recipient") == "fuzz" else text.encode("utf-8", "surrogatepass")
    for alias in ("sub", "raw"):
        if v.get("op") == "delete":
            if alias == "raw":
                continue
            b.add({"op": "get", "session": alias, "lastseen": "0.0", "bg": "g-" + alias})
            b.add({"op": "raw", "session": alias, "method": "DELETE",
                   "data": base64.b64encode(json_bytes([("Quitmessage", raw)])).decode()})
            b.streams[alias] = b.add({"op": "collect", "bg": "g-" + alias, "ms": 3000})
        else:
            b.add({"op": "raw", "session": alias, "method": "POST",
                   "data": base64.b64encode(json_bytes([("Data", raw), ("ClientMessageId", 4242)])).decode()})
    b.post("bob", "PRIVMSG #c :after")
    live = ["bob", "raw"] + ([] if v.get("op") == "delete" else ["sub"])
    b.final_gets(live, 30000)
    recs = rig_common.run(ctx, binary, [b.program()], par=1, name="replay", probe_errors_ok=True)[b.name]
    by_i = rig_common.by_step(recs)
    judge = Judge(ctx)
    for alias, idx in b.streams.items():
        for ln in stream_lines(by_i, idx):
            faults = judge.check(ln["data"], {"op": v.get("op", "post"), "rcpt": "other" if alias == "bob" else "self",
                                              "prog": b.name, "case": "replay", "text": text})
            if faults:
                ctx.log("%s received %r: %s" % (alias, ln["data"][:200], faults))
    ctx.cov["delivered_lines_checked"] = judge.lines
    ctx.cov["delivered_lines_violating"] = judge.bad
    ctx.cov["traces_validated_against_impl"] = 1
    ctx.sample({"replayed": path, "lines": judge.lines, "violating": judge.bad})


def run(ctx):
    if getattr(ctx, "replay", None):
        return replay(ctx, ctx.replay)
    rnd = random.Random(ctx.seed * 7919 + (1 if ctx.quick else 2))
    # ---- 1. design level: exhaustive TLC at small scale
    cfg = "Lines_small.cfg" if ctx.quick else "Lines_thorough.cfg"
    r = ctx.tlc_must_pass("Lines", cfg=cfg, workers=8, timeout=900, coverage=not ctx.quick, name="tlc-design")
    ctx.add("states", r.distinct)
    ctx.add("transitions", r.generated)
    ctx.add("tlc_runs")
    ctx.cov["design_model"] = {"cfg": cfg, "distinct": r.distinct, "depth": r.depth}
    if not ctx.quick:
        ctx.cov["design_coverage_zero"] = [z for z in r.coverage_zero() if "Lines.tla" in z or "module Lines" in z][:20]
    spec = parse_frames(r.out)
    asis = ctx.tlc("Lines", cfg="Lines_asis.cfg", workers=4, timeout=300, name="tlc-asis")
    ctx.add("tlc_runs")
    ctx.cov["design_model_without_repairs"] = {"violates": asis.invariant_violated,
                                               "note": "expected: OneLine fails in the model of the unrepaired pipeline"}
    if asis.invariant_violated != "OneLine":
        raise vlib.Inconclusive("the as-read model no longer violates OneLine: the model is vacuous\n" + asis.out[-1500:])
    ctx.log("design model: %d states, OneLine holds with the three repairs; fails without (%s)" % (r.distinct, asis.invariant_violated))

    # ---- 2. the rig and the tree's parameters
    binary = build_rig(ctx)
    srvname, maxuser = probe_tree(ctx, binary)
    ctx.cov["tree_parameters"] = {"server": srvname, "username_limit": maxuser}
    ctx.log("tree under test: server name %s, user name limit %s" % (srvname, maxuser or "none"))

    # ---- 3. replay programs
    main, dying = gen_cases(ctx, spec, rnd)
    plans = []
    per = 260 if ctx.quick else 400
    for kind in sorted(main):
        for k, cs in enumerate(shard(main[kind], per)):
            if cs:
                plans.append(Plan(ctx, spec, kind, k, cs, random.Random(rnd.random())))
    for kind in sorted(dying):
        for k, cs in enumerate(shard(dying[kind], 60)):
            if cs:
                plans.append(DyingPlan(ctx, spec, kind, k, cs, random.Random(rnd.random())))
    cmds = repo_commands()
    nf = 3 if ctx.quick else 24
    fuzz = [fuzz_program(ctx, "c15-fuzz-%d" % k, random.Random(rnd.random()), cmds, 400 if ctx.quick else 1200) for k in range(nf)]
    fuzz.append(sweep_program(ctx, "c15-sweep", random.Random(rnd.random()), ctx.quick))
    programs = [p.b.program() for p in plans] + [f.program() for f in fuzz]
    nsteps = sum(len(p["steps"]) for p in programs)
    ctx.log("replay: %d programs, %d requests (%d model cases)" % (len(programs), nsteps, sum(len(v) for v in main.values()) + sum(len(v) for v in dying.values())))
    res = rig_common.run(ctx, binary, programs, par=8, timeout=1500, name="replay", probe_errors_ok=True)
    ctx.log("replay done")

    # ---- 4. predicate on every delivered line + trace records
    judge = Judge(ctx)
    trace = []
    for p in plans:
        trace.extend(harvest(ctx, p, res[p.b.name], judge, srvname))
    fl = fa = 0
    for f in fuzz:
        a, s = judge_fuzz(ctx, f, res[f.name], judge)
        fl += a
        fa += s
    ctx.cov["delivered_lines_checked"] = judge.lines
    ctx.cov["delivered_lines_violating"] = judge.bad
    ctx.cov["violation_signatures"] = judge.sig_seen
    ctx.cov["reply_commands_delivered"] = dict(sorted(judge.names.items()))
    ctx.cov["fuzz"] = {"programs": len(fuzz), "requests_accepted": fa, "lines": fl, "commands": len(cmds)}
    ctx.cov["replayed_requests"] = nsteps

    ctx.log("observations harvested: %d lines judged" % judge.lines)
    if os.environ.get("C15_DUMP_TRACE"):
        vlib.write_ndjson(os.environ["C15_DUMP_TRACE"], trace)
    # ---- 5. trace validation at real scale
    chunks = split_scenarios(trace, 8)
    steps = sum(1 for t in trace if t["ev"] == "Step")
    with concurrent.futures.ThreadPoolExecutor(max_workers=8) as ex:
        futs = [ex.submit(validate_chunk, ctx, k, c, maxuser) for k, c in enumerate(chunks)]
        outs = [f.result() for f in futs]
    ndrift = 0
    tlc_bad = 0
    for (tr, acc, nbad), c in zip(outs, chunks):
        ctx.add("tlc_runs")
        ctx.add("states", tr.distinct)
        ctx.add("transitions", tr.generated)
        ndrift += rig_common.report_drift(ctx, tr.out, c)
        tlc_bad += nbad
    ctx.cov["traces_validated_against_impl"] = sum(1 for t in trace if t["ev"] == "Start")
    ctx.cov["events_validated"] = steps
    ctx.cov["trace_drift"] = ndrift
    ctx.cov["tlc_observed_lines_violating_OneLineOk"] = tlc_bad
    # TLC evaluated OneLineOk on the observed lines of the modelled steps: must agree with the byte-level
    # predicate in direction (no line TLC flags may be clean for the Python predicate)
    if tlc_bad > 0 and judge.bad == 0:
        raise vlib.Inconclusive("TLC flags %d observed lines, the byte-level predicate none" % tlc_bad)
    for t in trace:
        if t["ev"] == "Step" and t["obs"]["other"] and len(t["data"]) > 5:
            ctx.sample({"case": t["id"], "op": t["op"], "data": t["data"], "obs": t["obs"]}, limit=4)
    ctx.log("checked %d delivered lines (%d violating), validated %d steps in TLC (drift %d)" % (
        judge.lines, judge.bad, steps, ndrift))

    # ---- 6. the binding binds
    if ctx.selftest or True:
        selftest(ctx, trace, maxuser)

    ctx.assumptions += [
        "single-node rig: real raft + DispatchPublic + FSM + output stream in-process (plain HTTP, no bridge); lines are judged as returned by GET .../messages",
        "a services link listens in every program and its lines are judged by the predicate, but not predicted by the model; lines SENT by a services peer (pseudo-clients' user/host names) are trusted input and not exercised",
        "class abstraction: ordinary bytes are represented by a seeded sample of ASCII punctuation/letters/control bytes and 2-4 byte runes; the fuzz part covers arbitrary bytes without a model",
    ]


def selftest(ctx, trace, maxuser):
    """Corrupt one observation / drop one line of an accepted trace: TLC must notice."""
    # first scenario with an observed line for another session
    sc, cur = None, []
    for t in trace:
        if t["ev"] == "Start":
            if sc:
                break
            cur = [t]
        else:
            cur.append(t)
            if t["obs"]["other"] and not t["all"] and len(cur) < 120:
                sc = True
    if not sc:
        ctx.cov["binding_selftest"] = "skipped (no relayed line in the trace)"
        return
    base = json.loads(json.dumps(cur[:121]))
    r0, acc0, nbad0 = validate_chunk(ctx, 110, base, maxuser)
    drifting = set(rig_common.drift_positions(r0.out))

    def clean(t):
        return all(c not in ("CR", "LF", "NUL") for ln in t["obs"]["other"] for c, _ in ln)
    cand = [i for i, t in enumerate(base) if t["ev"] == "Step" and t["obs"]["other"] and not t["all"]
            and (i + 1) not in drifting and clean(t)]
    if not cand:
        ctx.cov["binding_selftest"] = "skipped (every relayed line of the first scenario already differs from the model)"
        return
    k = cand[-1]
    res = {}
    # (a) corrupt one class of one observed line
    a = json.loads(json.dumps(base))
    ln = a[k]["obs"]["other"][0]
    ln[-1][0] = "HASH" if ln[-1][0] != "HASH" else "o"
    # (b) drop the line
    b = json.loads(json.dumps(base))
    b[k]["obs"]["other"] = b[k]["obs"]["other"][1:]
    # (c) inject a CR into an observed line: the predicate evaluated by TLC must fire
    c = json.loads(json.dumps(base))
    c[k]["obs"]["other"][0] = c[k]["obs"]["other"][0] + [["CR", 1]]
    with concurrent.futures.ThreadPoolExecutor(max_workers=3) as ex:
        futs = {name: ex.submit(validate_chunk, ctx, 100 + n, tr, maxuser)
                for n, (name, tr) in enumerate((("corrupt", a), ("drop", b), ("cr", c)))}
        outs = {name: f.result() for name, f in futs.items()}
    for name in ("corrupt", "drop", "cr"):
        res[name] = {"drift": outs[name][1][1], "bad": outs[name][2]}
    ok = (res["corrupt"]["drift"] > acc0[1] and res["drop"]["drift"] > acc0[1] and res["cr"]["bad"] > nbad0
          and line_faults(b"PRIVMSG #c :a\rb") and not line_faults(b"ERROR :Closing Link: x") and line_faults(b":nick!user@host"))
    ctx.cov["binding_selftest"] = {"baseline": {"drift": acc0[1], "bad": nbad0}, "mutants": res, "ok": bool(ok)}
    if not ok:
        raise vlib.Inconclusive("binding self-test failed: %s" % json.dumps(ctx.cov["binding_selftest"]))
    ctx.log("binding self-test ok: corrupted / dropped observation -> TLC reports drift, injected CR -> predicate fires")
