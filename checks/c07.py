"""C07 -- a message of death is contained: marked durably, skipped on every replay.

FSM.tla (ApplyPanics / mod / Restart; FSM_mod.cfg exhaustive) -> behaviours with the
test-only PANIC command are executed on the REAL FSM.  The crash path ends in
glog.Fatalf, so every behaviour is cut at its ApplyPanics steps and each piece runs
in a CHILD process over the same raftdir (ROBUSTIRC_TESTING_ENABLE_PANIC_COMMAND=1):
  child k   : steps up to the crashing Apply          -> must exit non-zero
  parent    : raw raft log store before/after          -> exactly that entry became
              MessageOfDeath, every other value byte-identical
  child k+1 : real process start (Restore newest snapshot, replay the raft log),
              remaining steps, a further entry
and after every step the node is compared with a reference that applied the log
MINUS the marked entries (duplicate marker advanced by hand), see fsm_common.Judge.

Encoding migration (FSM.tla RestartWithEncoding; FSM_migedges.cfg / FSM_mig.cfg): the chain
starts as a JSON node (-pre1.0_protobuf=false), and one of its process starts is made with
the protobuf encoding: NewLevelDBStore converts the raft log store and the irclog
(ConvertToProto, CopyToProtoMessage, raftlog.FromBytes), a JSON snapshot is restored by
decodeJson, the converted log is replayed.  A message of death is marked in the JSON life,
in the protobuf life, or in both; the marked entry is the session's last line when the
stores are converted.  The raw content of both stores is recorded before and after the
conversion: only the encoding of an entry may change (fsm_common.check_conversion).
"""
import concurrent.futures
import json
import os
import random
import shutil
import time

import vlib
from checks import fsm_common as F

LEVEL = "model_checking"
PANIC_ENV = {"ROBUSTIRC_TESTING_ENABLE_PANIC_COMMAND": "1"}


def H(a, i=0, e=None, now=0):
    return {"a": a, "i": i, "now": now, "e": e or F._e("none", "none", 0, 0, 0, 0)}


# ----------------------------------------------------------------------------
def child(eng, sched, tag, expect_death):
    ctx = eng.ctx
    d = ctx.sub("c07-" + tag)
    prog = os.path.join(d, "program.ndjson")
    outp = os.path.join(d, "events.ndjson")
    if os.path.exists(outp):
        os.unlink(outp)
    vlib.write_ndjson(prog, [sched])
    env = {"VERIF_FSM_PROGRAM": prog, "VERIF_FSM_OUT": outp, "VERIF_FSM_DIR": eng.scratch("c07rd-" + tag),
           "TMPDIR": eng.scratch("c07tmp-" + tag)}
    env.update(PANIC_ENV)
    rc, out = ctx.run_bin([eng.binary, "-test.run", "^TestVerifFSM$", "-test.count=1", "-test.timeout", "120s"],
                          env=env, timeout=150, cwd=d)
    evs = vlib.read_ndjson(outp) if os.path.exists(outp) else []
    shutil.rmtree(eng.scratch("c07tmp-" + tag), ignore_errors=True)
    shutil.rmtree(eng.scratch("c07rd-" + tag), ignore_errors=True)
    if not expect_death and (rc != 0 or not evs or evs[-1].get("ev") != "Done"):
        # an unexpected death is a finding only if it happened inside a step of the real code
        last = evs[-1] if evs else {}
        return rc, evs, out, "died"
    return rc, evs, out, ""


def dump(eng, raftdir, tag, offset=0):
    ctx = eng.ctx
    d = ctx.sub("c07-" + tag)
    outp = os.path.join(d, "dump.json")
    env = {"VERIF_FSM_DUMPDIR": raftdir, "VERIF_FSM_OUT": outp, "TMPDIR": eng.scratch("c07tmp-" + tag), "VERIF_FSM_OFFSET": offset}
    rc, out = ctx.run_bin([eng.binary, "-test.run", "^TestVerifFSMDumpLog$", "-test.count=1"], env=env, timeout=120, cwd=d)
    shutil.rmtree(eng.scratch("c07tmp-" + tag), ignore_errors=True)
    if rc != 0 or not os.path.exists(outp):
        raise vlib.Inconclusive("raft log dump failed:\n" + out[-2000:])
    with open(outp) as fh:
        return json.load(fh)


def msg_core(m):
    return {k: m.get(k) for k in ("Id", "Session", "Data", "UnixNano", "ClientMessageId", "Revision", "RemoteAddr",
                                  "Servers", "Currentmaster")}


def check_marking(pre, post, idx, proto):
    """-> list of (signature, what): exactly entry idx was rewritten as MessageOfDeath."""
    bad = []
    a = {r["idx"]: r for r in pre}
    b = {r["idx"]: r for r in post}
    if set(a) != set(b):
        bad.append(("mod-log-keys-changed", "raft log keys changed across the crash: %s -> %s" % (sorted(a), sorted(b))))
        return bad
    for k in sorted(a):
        if k == idx:
            continue
        if a[k]["hex"] != b[k]["hex"]:
            bad.append(("mod-other-entry-rewritten", "raft log entry %d changed although entry %d crashed" % (k, idx)))
    x, y = a.get(idx), b.get(idx)
    if x is None or y is None:
        bad.append(("mod-entry-missing", "crashing entry %d is not in the raft log store" % idx))
        return bad
    if y.get("err") or not y.get("msg"):
        bad.append(("mod-entry-undecodable", "entry %d cannot be decoded after the crash: %s" % (idx, y.get("err"))))
        return bad
    if y["msg"]["Type"] != F.T_MOD:
        bad.append(("mod-entry-not-marked", "entry %d crashed the state machine but is stored with type %s, not MessageOfDeath"
                    % (idx, y["msg"]["Type"])))
    if msg_core(x["msg"]) != msg_core(y["msg"]):
        bad.append(("mod-entry-fields-changed", "entry %d: fields other than the type changed: %s -> %s" % (idx, msg_core(x["msg"]), msg_core(y["msg"]))))
    if (x["rafttype"], x["term"], x["data_enc"]) != (y["rafttype"], y["term"], y["data_enc"]):
        bad.append(("mod-entry-envelope-changed", "entry %d: raft type/term/encoding changed: %s -> %s"
                    % (idx, (x["rafttype"], x["term"], x["data_enc"]), (y["rafttype"], y["term"], y["data_enc"]))))
    if x["data_enc"] != ("proto" if proto else "json"):
        bad.append(("harness-encoding", "harness stored entry %d as %s" % (idx, x["data_enc"])))
    return bad


def expected_markers(alog, applied):
    """Duplicate marker per live session after log[1..applied], computed independently of the Go
    side: UpdateLastClientMessageID runs for client lines, for a 451-answered PANIC and for a
    message of death alike (a panicking PANIC <= applied has been marked by then)."""
    live = set()
    marker = {}
    for i, e in enumerate(alog[:applied], 1):
        if e["kind"] != "cmd":
            continue
        c = e["cls"]
        if c == "create":
            live.add(i)
            marker[i] = 0
        elif c in ("line", "panic") and e["sess"] in live:
            marker[e["sess"]] = e["cmid"]
        elif c == "delete" and e["sess"] in live:
            live.discard(e["sess"])
            marker.pop(e["sess"], None)
    return marker


def run_panic_schedule(eng, sched, alog, tag, extra_entry=True, lie=()):
    """Runs one behaviour with ApplyPanics steps as a chain of child processes.
    -> (findings [(sig, what)], all events, facts)"""
    ctx = eng.ctx
    raftdir = eng.scratch("c07dir-" + tag)
    shutil.rmtree(raftdir, ignore_errors=True)
    steps = list(sched["steps"])
    findings = []
    facts = {"crashes": 0, "children": 0}
    all_events = []
    mod = []
    seg = []
    segments = []
    for st in steps:
        seg.append(st)
        if st["a"] == "ApplyPanics":
            segments.append(seg)
            seg = []
    segments.append(seg)
    resume = False
    cur_proto = sched["proto"]         # -pre1.0_protobuf of the process that runs the segment
    try:
        for k, seg in enumerate(segments):
            dies = bool(seg) and seg[-1]["a"] == "ApplyPanics"
            convdump = False
            if resume and seg and seg[0]["a"] == "Restart":
                seg = seg[1:]                      # the process start IS the model's Restart
            elif resume and seg and seg[0]["a"] == "RestartEnc":
                # the process start IS the model's RestartWithEncoding: the child starts with the other
                # encoding over the stores the crashed process left (and records them before/after)
                cur_proto = (seg[0]["enc"] == "proto")
                convdump = True
                seg = seg[1:]
            last = (k == len(segments) - 1)
            s = dict(sched, name="%s#%d" % (sched["name"], k), steps=seg, dir=raftdir, resume=resume,
                     mod=list(mod) + (list(lie) if mod else []), proto=cur_proto, convdump=convdump)
            for st in seg:
                if st["a"] == "RestartEnc":        # a migration inside the segment (the node was up)
                    cur_proto = (st["enc"] == "proto")
            if last and extra_entry:
                # "the node continues to apply new entries": one more line from the first session
                n = len(s["log"]) + 1
                s["log"] = s["log"] + [{"idx": n, "kind": "cmd", "type": F.T_LINE, "ts": F.T0 + 7 * F.UNIT, "sess": 1,
                                        "cmid": 1000 + n, "data": "JOIN #after%d" % n}]
                s["steps"] = seg + [{"a": "Apply", "i": 0}]
                s["lenient"] = True
            rc, evs, out, died = child(eng, s, "%s-%d" % (tag, k), expect_death=dies)
            facts["children"] += 1
            all_events.append((s, evs))
            if dies:
                idx = seg[-1]["i"]
                about = [e for e in evs if e.get("ev") == "AboutToPanic"]
                survived = [e for e in evs if e.get("ev") == "ApplyPanics"]
                if survived or (rc == 0):
                    findings.append(("mod-no-exit", "entry %d panics inside ProcessMessage but the process did not terminate (rc=%s)" % (idx, rc)))
                    break
                if not about:
                    if resume and "PANIC called" in out:
                        findings.append(("mod-crash-loop", "after the restart the node crashed again while replaying its log "
                                         "(marked entries %s): the entry that crashed it is not skipped" % mod))
                        break
                    raise vlib.Inconclusive("child died before reaching the crashing step:\n" + out[-2000:])
                if "PANIC called" not in out:
                    findings.append(("mod-unexpected-death", "child died, but not from the PANIC command: %s" % out[-300:]))
                    break
                facts["crashes"] += 1
                post = dump(eng, raftdir, "%s-%d-dump" % (tag, k), offset=sched.get("offset", 0))
                findings += check_marking(about[-1]["raw"], post, idx, cur_proto)
                facts["crashes_" + ("proto" if cur_proto else "json")] = facts.get("crashes_" + ("proto" if cur_proto else "json"), 0) + 1
                mod.append(idx)
                resume = True
            elif died:
                if resume and "PANIC called" in out and not [e for e in evs if e.get("ev") in ("Restart", "RestartEnc")]:
                    findings.append(("mod-crash-loop", "after the restart the node crashed again while replaying its log "
                                     "(marked entries %s): the entry that crashed it is not skipped" % mod))
                else:
                    findings.append(("mod-death-after-restart", "the node died although no unmarked PANIC was applied (rc=%s): %s" % (rc, out[-400:])))
                break
    finally:
        shutil.rmtree(raftdir, ignore_errors=True)
    return findings, all_events, facts


def judge_panic(ctx, sched, alog, findings, all_events, abs_family=True, state_predicates=True):
    """Property predicates on a chain of segments; reports at most one violation per schedule."""
    nsteps = 0
    bad = list(findings)
    if not state_predicates:
        # (whether the PANIC still finds its session depends on the state the snapshot preserved)
        bad = [x for x in bad if x[0] != "mod-no-exit"]
    modset = set()
    for s, evs in all_events:
        j = F.Judge(s)
        modset = set(s["mod"])
        for ev in evs:
            if ev.get("ev") in ("Done", "AboutToPanic"):
                continue
            nsteps += 1
            b = j.check(ev)
            for d in j.conv_drifts[:2]:
                ctx.drift("%s [schedule %s]" % (d, sched["name"]))
            j.conv_drifts = []
            if not state_predicates:
                # a snapshot folded every entry in this behaviour: the bookkeeping after that is C02's
                # subject; here only the message-of-death predicates are judged
                b = [x for x in b if x[0].startswith(("panic-in", "error-in"))]
            bad += b
            post = ev.get("post")
            if abs_family and post and post.get("srv") and ev.get("ev") not in ("Reset",):
                want = expected_markers(alog + [F._e("cmd", "line", 7, 1, 1000 + len(alog) + 1, 0)], post["applied"])
                got = {int(k): v for k, v in post["srv"]["marker"].items()}
                for sess, c in want.items():
                    if sess in got and got[sess] != c:
                        bad.append(("mod-marker-not-advanced-after-" + ev["ev"],
                                    "session %d: LastPostMessage is %d, expected %d (marked entries %s)" % (sess, got[sess], c, sorted(modset))))
            if b:
                break
    if bad:
        sig, what = bad[0]
        F.judge_all.flagged.add(sched["name"])
        F.judge_all.sigs[sig] = F.judge_all.sigs.get(sig, 0) + 1
        if F.judge_all.sigs[sig] <= 2:
            ctx.violation(sig, "%s [schedule %s]" % (what, sched["name"]),
                          {"schedule": sched, "all": [b[0] for b in bad][:10], "env": PANIC_ENV})
        else:
            ctx.add("violating_schedules_not_listed", 1)
    return nsteps, len(bad)


# ----------------------------------------------------------------------------
def handcrafted():
    """Roles and snapshot positions the task names, on the decodable log family
    (registered / unregistered / unknown session) and with an operator (general log)."""
    reg = F.PRELUDES["PreludeReg"]
    line = lambda ts, i: F._e("cmd", "line", ts, 1, i, 0)
    panic = lambda ts, i, s=1: F._e("cmd", "panic", ts, s, i, 0)
    create = lambda ts: F._e("cmd", "create", ts, 0, 0, 0)
    A = lambda i, e: H("Apply", i, e)
    P = lambda i, e: H("ApplyPanics", i, e)
    pre = [A(1, reg[0]), A(2, reg[1]), A(3, reg[2])]
    out = {}
    # (in all of these the irclog keeps a young entry, ts 6 > cutoff 3 at now 64: the case "a snapshot
    #  folds every entry" is C02's subject and is replayed separately without state predicates)
    out["no-snapshot"] = pre + [A(4, line(0, 4)), P(5, panic(0, 5)), H("Restart"), A(6, line(6, 6))]
    out["snapshot-before-crash"] = pre + [A(4, line(6, 4)), H("SnapshotTake", now=64), H("PersistOK"), P(5, panic(6, 5)),
                                          H("Restart"), A(6, line(6, 6)), H("Restart")]
    out["snapshot-folds-marked-entry"] = pre + [P(4, panic(0, 4)), H("Restart"), A(5, line(6, 5)), H("SnapshotTake", now=64),
                                                H("PersistOK"), H("Restart"), A(6, line(6, 6))]
    out["snapshot-retains-marked-entry"] = pre + [P(4, panic(6, 4)), H("Restart"), A(5, line(6, 5)), H("SnapshotTake", now=64),
                                                  H("PersistOK"), H("Restart"), H("Restore"), A(6, line(6, 6))]
    out["two-crashes"] = pre + [P(4, panic(0, 4)), H("Restart"), A(5, line(0, 5)), P(6, panic(0, 6)), H("Restart")]
    out["unregistered-does-not-panic"] = pre + [A(4, create(0)), A(5, panic(0, 5, 4)), A(6, panic(0, 6, 0)), A(7, line(0, 7)),
                                                P(8, panic(0, 8)), H("Restart")]
    out["crash-pending-snapshot"] = pre + [A(4, line(6, 4)), H("SnapshotTake", now=64), P(5, panic(6, 5)), H("Restart"),
                                           H("SnapshotTake", now=64), H("PersistOK"), H("Restart")]
    return out


def handcrafted_migration():
    """The migration paths the task names, as behaviours of FSM.tla (InitEnc = "json"): a message of
    death marked in the JSON life / in the protobuf life / in both, the marked entry being the session's
    last line when the stores are converted, snapshot + restore in the new encoding afterwards, a JSON
    snapshot (with and without the marked entry among its retained records) restored by the protobuf node."""
    reg = F.PRELUDES["PreludeReg"]
    line = lambda ts, i: F._e("cmd", "line", ts, 1, i, 0)
    panic = lambda ts, i, s=1: F._e("cmd", "panic", ts, s, i, 0)
    A = lambda i, e: H("Apply", i, e)
    P = lambda i, e: H("ApplyPanics", i, e)
    M = dict(H("RestartEnc"), enc="proto")
    snap = [H("SnapshotTake", now=64), H("PersistOK")]
    pre = [A(1, reg[0]), A(2, reg[1]), A(3, reg[2])]
    out = {}
    # marked in the JSON life (last line of the session), converted, protobuf snapshot retains the marked entry, restore
    out["json-crash-convert-snapshot-restore"] = pre + [A(4, line(6, 4)), P(5, panic(6, 5)), M] + snap + [H("Restore"), A(6, line(6, 6)), H("Restart")]
    # ... the protobuf snapshot folds the marked entry
    out["json-crash-convert-fold-marked"] = pre + [P(4, panic(0, 4)), M, A(5, line(6, 5))] + snap + [H("Restart"), H("Restore"), A(6, line(6, 6))]
    # JSON snapshot, crash, conversion: decodeJson + replay of the converted marked entry; live restore of the JSON
    # snapshot by the protobuf node; the marked entry is applied again from the converted raft log
    out["json-snapshot-crash-convert-restore"] = pre + [A(4, line(6, 4))] + snap + [P(5, panic(6, 5)), M, H("Restore"), A(5, panic(6, 5)),
                                                                                     A(6, line(6, 6)), H("Restart")]
    # the JSON snapshot retains the marked entry (taken after the JSON restart), restored by the protobuf node
    out["json-snapshot-retains-marked-convert"] = pre + [P(4, panic(6, 4)), H("Restart"), A(5, line(6, 5))] + snap + [M, H("Restore"), A(6, line(6, 6))]
    # marked in the protobuf life, after the migration of a calm JSON node
    out["convert-then-crash"] = pre + [A(4, line(6, 4)), M, P(5, panic(6, 5)), H("Restart")] + snap + [H("Restore"), A(6, line(6, 6))]
    # one message of death in each life
    out["crash-in-both-lives"] = pre + [P(4, panic(0, 4)), M, A(5, line(6, 5)), P(6, panic(6, 6)), H("Restart")]
    # crash with a snapshot pending in the JSON life, conversion, the snapshot is repeated as protobuf
    out["json-crash-pending-snapshot-convert"] = pre + [A(4, line(6, 4)), H("SnapshotTake", now=64), P(5, panic(6, 5)), M] + snap + [H("Restart")]
    return out


def operator_schedule(name, proto, snapshot, migrate=False):
    """PANIC from an IRC operator, on a general log (differential oracle only).  migrate: the JSON node
    is restarted with the protobuf encoding after the crash; the entries carry everything an entry can
    carry (remote address, 64-bit client message ids, config revision, raft extensions)."""
    T = F.T0
    S = 10**9
    log = [
        {"idx": 1, "kind": "raft", "rafttype": 5},
        {"idx": 2, "kind": "cmd", "type": F.T_CONFIG, "ts": T, "rev": 1,
         "data": '[IRC]\n  [[IRC.Operators]]\n  Name = "root"\n  Password = "pw"\n'},
        {"idx": 3, "kind": "cmd", "type": F.T_CREATE, "ts": T + S, "data": "a3"},
        {"idx": 4, "kind": "cmd", "type": F.T_LINE, "ts": T + 2 * S, "sess": 3, "cmid": 11, "data": "NICK oper"},
        {"idx": 5, "kind": "cmd", "type": F.T_LINE, "ts": T + 3 * S, "sess": 3, "cmid": 12, "data": "USER o 0 * :O"},
        {"idx": 6, "kind": "cmd", "type": F.T_CREATE, "ts": T + 3 * S, "data": "a6"},
        {"idx": 7, "kind": "cmd", "type": F.T_LINE, "ts": T + 4 * S, "sess": 6, "cmid": 5, "data": "NICK user"},
        {"idx": 8, "kind": "cmd", "type": F.T_LINE, "ts": T + 4 * S, "sess": 6, "cmid": 6, "data": "USER u 0 * :U"},
        {"idx": 9, "kind": "cmd", "type": F.T_LINE, "ts": T + 5 * S, "sess": 3, "cmid": 13, "data": "OPER root pw"},
        {"idx": 10, "kind": "cmd", "type": F.T_LINE, "ts": T + 6 * S, "sess": 6, "cmid": 7, "data": "JOIN #x"},
        {"idx": 11, "kind": "raft", "rafttype": 1},
        {"idx": 12, "kind": "cmd", "type": F.T_LINE, "ts": T + 7 * S, "sess": 3, "cmid": 14, "data": "PANIC"},
        {"idx": 13, "kind": "cmd", "type": F.T_LINE, "ts": T + 8 * S, "sess": 3, "cmid": 15, "data": "JOIN #x"},
        {"idx": 14, "kind": "cmd", "type": F.T_LINE, "ts": T + 9 * S, "sess": 3, "cmid": 16, "data": "KILL user :bye"},
    ]
    old = T + 615 * S          # cutoff T+5s (default expiration 10m + 10s): entries 2..9 old, the rest young
    steps = [{"a": "Apply", "i": i} for i in range(1, 12)]
    if snapshot == "before":
        steps += [{"a": "SnapshotTake", "now": old}, {"a": "PersistOK"}]
    steps += [{"a": "ApplyPanics", "i": 12}, {"a": "RestartEnc", "enc": "proto"} if migrate else {"a": "Restart"}]
    if migrate:
        big = 0x6b43fe3c00000000
        for e in log:
            if e["kind"] == "cmd" and e["type"] == F.T_LINE:
                e["cmid"] += big
                e["addr"] = "192.0.2.%d:%d" % (e["sess"], 4000 + e["idx"])
            e["ext"] = "x%d" % e["idx"]
        # the marked entry stays the operator's last line across the conversion, a snapshot and a restore
        steps += [{"a": "SnapshotTake", "now": old}, {"a": "PersistOK"}, {"a": "Restore"}]
    steps += [{"a": "Apply", "i": 13}]
    if snapshot == "after":
        steps += [{"a": "SnapshotTake", "now": old}, {"a": "PersistOK"}, {"a": "Restart"}]
    steps += [{"a": "Apply", "i": 14}, {"a": "Restart"}]
    return {"name": name, "proto": proto, "log": log, "steps": steps, "mod": [], "abs": False, "twice": True, "prestore": 0,
            "offset": F.PROD_OFFSET if (migrate or proto) else 0}


def shape_of(b):
    return tuple(h["a"] for h in b)


def folds_all(b):
    return any(h["a"] == "SnapshotTake" and h["i"] == 1 for h in b)


def run(ctx):
    try:
        _run(ctx)
    except vlib.Inconclusive as ex:
        # a machinery problem after a property violation was observed on the real code must not hide it
        if not ctx.violations:
            raise
        ctx.note("inconclusive after a violation had been found: %s" % str(ex)[:500])
        ctx.log("(later stage inconclusive: %s)" % str(ex)[:300])


def _run(ctx):
    t0 = time.time()
    eng = F.Engine(ctx)
    ctx.log("harness built in %.1fs (repo %s)" % (time.time() - t0, vlib.REPO))
    quick = ctx.quick
    ctx.assumptions += [
        "the PANIC command (ROBUSTIRC_TESTING_ENABLE_PANIC_COMMAND=1) stands for any panic inside ircserver.ProcessMessage",
        "process start in the child imitates raft (Restore(newest) twice, then Apply of the raft log after the snapshot index to its end)",
        "reference instance = log minus the marked entries, with UpdateLastClientMessageID called for them; "
        "it does not go through applyRobustMessage's MessageOfDeath case",
        "single node; the cluster-wide statement (every node marks and skips) is covered per node",
    ]
    if getattr(ctx, "replay", None):
        with open(ctx.replay) as fh:
            rep = json.load(fh)
        s = rep["replay"]["schedule"]
        f, evs, facts = run_panic_schedule(eng, s, [], "replay", extra_entry=False)
        for seg, ee in evs:
            for ev in ee:
                ctx.log(json.dumps({k: ev.get(k) for k in ("sched", "n", "ev", "err", "panic", "chk")})[:500])
        judge_panic(ctx, s, [], f, evs, abs_family=False)
        return

    eng.env = dict(PANIC_ENV)

    # 1. the design: FSM_mod*.cfg / FSM_mig*.cfg carry the invariants; the edge runs below are exhaustive checks.
    #    The migration graph (JSON life -> RestartWithEncoding("proto") -> protobuf life, a crash in either life)
    #    is generated by a second JVM while the message-of-death graph is.
    pool = concurrent.futures.ThreadPoolExecutor(max_workers=2)
    f_mig = pool.submit(eng.edges, "FSM_migedges.cfg" if quick else "FSM_migedges2.cfg", 1500)
    if not quick:
        def exhaustive_mig():
            r = eng.exhaustive("FSM_mig.cfg", workers=6, timeout=1500, coverage=True)
            ctx.cov["coverage_zero_FSM_mig"] = [l for l in r.coverage_zero() if "module FSM" in l][:20]
            taken = [l.strip() for l in r.out.splitlines() if l.startswith("<RestartWithEncoding ")]
            ctx.cov["coverage_RestartWithEncoding"] = taken[-1:] if taken else []
            ctx.log("FSM_mig: %d distinct states, depth %d" % (r.distinct, r.depth))
        eng.background("exhaustive-mig", exhaustive_mig)
    # 2. behaviours: every transition of the message-of-death graph
    behs, nedges = eng.edges("FSM_mod.cfg" if quick else "FSM_mod2.cfg", timeout=1500, coverage=not quick)
    ctx.cov["edges_mod"] = nedges
    crash = [b for b in behs if any(h["a"] == "ApplyPanics" for h in b)]
    # without a crash: the ones where a snapshot folds every entry are plain C02 material (replayed there)
    calm = [b for b in behs if not any(h["a"] == "ApplyPanics" for h in b) and not folds_all(b)]
    ctx.log("%d transitions -> %d behaviours with a crash, %d without" % (nedges, len(crash), len(calm)))

    # 2a. behaviours without a crash (unregistered / unknown session PANIC, snapshots, restores): in-process
    rng = random.Random(ctx.seed)
    if len(calm) > (600 if quick else 20000):
        calm = rng.sample(calm, 600 if quick else 20000)
    eng.replay_behaviours(calm, "PreludeReg", "calm", nproc=4 if quick else 6)

    # 2a'. the migration graph: behaviours that contain the migration; the calm ones in-process (JSON node,
    #      restarted as a protobuf node: conversion of both stores recorded raw, JSON snapshot restored by decodeJson)
    mbehs, mnedges = f_mig.result()
    pool.shutdown()
    ctx.cov["edges_migration"] = mnedges
    mbehs = [b for b in mbehs if any(h["a"] == "RestartEnc" for h in b)]
    mcrash = [b for b in mbehs if any(h["a"] == "ApplyPanics" for h in b)]
    mcalm = [b for b in mbehs if not any(h["a"] == "ApplyPanics" for h in b) and not folds_all(b)]
    ctx.log("migration graph: %d transitions -> %d behaviours with a migration and a crash, %d with a migration only"
            % (mnedges, len(mcrash), len(mcalm)))
    if len(mcalm) > (250 if quick else 20000):
        mcalm = rng.sample(mcalm, 250 if quick else 20000)
    eng.replay_behaviours(mcalm, "PreludeReg", "migcalm", proto_of=lambda k: False, nproc=4 if quick else 6,
                          offset_of=lambda k: F.PROD_OFFSET if k % 3 else 0)

    # 2b. behaviours with crashes: child processes; one per distinct shape first, then seeded sample
    byshape = {}
    for b in crash:
        byshape.setdefault(shape_of(b), []).append(b)
    shapes = sorted(byshape)
    rng.shuffle(shapes)
    budget = 36 if quick else 600
    chosen = [rng.choice(byshape[sh]) for sh in shapes[:budget]]
    if len(chosen) < budget:
        rest = [b for b in crash if b not in chosen]
        chosen += rng.sample(rest, min(len(rest), budget - len(chosen)))
    hand = handcrafted()
    jobs = []
    for name, b in sorted(hand.items()):
        for proto in (True, False):
            s, alog = F.concretize(b, F.PRELUDES["PreludeReg"], "hand-%s-%s" % (name, "pb" if proto else "json"), proto=proto, rng=rng,
                                   offset=F.PROD_OFFSET if len(jobs) % 2 == 0 else 0)
            jobs.append((s, alog, True, True))
    for k, b in enumerate(chosen):
        s, alog = F.concretize(b, F.PRELUDES["PreludeReg"], "crash-%d" % k, proto=(k % 2 == 0), rng=rng,
                               offset=F.PROD_OFFSET if (k // 2) % 2 == 0 else 0)
        jobs.append((s, alog, True, not folds_all(b)))
    for snap in ("none", "before", "after"):
        for proto in (True, False):
            jobs.append((operator_schedule("oper-%s-%s" % (snap, "pb" if proto else "json"), proto, snap), [], False, True))
    # the same with the encoding migration of the node: always a JSON node at first
    nmig0 = len(jobs)
    for name, b in sorted(handcrafted_migration().items()):
        s, alog = F.concretize(b, F.PRELUDES["PreludeReg"], "mig-%s" % name, proto=False, rng=rng, offset=F.PROD_OFFSET)
        jobs.append((s, alog, True, True))
    mshape = {}
    for b in mcrash:
        mshape.setdefault(shape_of(b), []).append(b)
    mshapes = sorted(mshape)
    rng.shuffle(mshapes)
    mbudget = 24 if quick else 500
    mchosen = [rng.choice(mshape[sh]) for sh in mshapes[:mbudget]]
    if len(mchosen) < mbudget:
        rest = [b for b in mcrash if b not in mchosen]
        mchosen += rng.sample(rest, min(len(rest), mbudget - len(mchosen)))
    for k, b in enumerate(mchosen):
        s, alog = F.concretize(b, F.PRELUDES["PreludeReg"], "migcrash-%d" % k, proto=False, rng=rng,
                               offset=F.PROD_OFFSET if k % 3 else 0)
        jobs.append((s, alog, True, not folds_all(b)))
    for snap in ("none", "before", "after"):
        jobs.append((operator_schedule("oper-mig-%s" % snap, False, snap, migrate=True), [], False, True))
    ctx.cov["migration_crash_shapes_total"] = len(mshapes)
    ctx.cov["migration_crash_schedules"] = len(jobs) - nmig0
    ctx.cov["crash_shapes_total"] = len(shapes)
    ctx.cov["crash_schedules_with_fold_all_snapshot"] = sum(1 for j in jobs if not j[3])
    ctx.cov["crash_schedules"] = len(jobs)

    t = time.time()
    results = {}

    def one(k):
        s, alog, absf, statep = jobs[k]
        return run_panic_schedule(eng, s, alog, "j%d" % k)
    with concurrent.futures.ThreadPoolExecutor(max_workers=4 if quick else 6) as ex:
        futs = {ex.submit(one, k): k for k in range(len(jobs))}
        for f in concurrent.futures.as_completed(futs):
            results[futs[f]] = f.result()
    crashes = children = steps = nbad = 0
    crashes_by_life = {"json": 0, "proto": 0}
    conversions = 0
    tv_items = []
    for k in range(len(jobs)):
        s, alog, absf, statep = jobs[k]
        findings, all_events, facts = results[k]
        crashes += facts["crashes"]
        children += facts["children"]
        for life in crashes_by_life:
            crashes_by_life[life] += facts.get("crashes_" + life, 0)
        conversions += sum(1 for seg, ee in all_events for e in ee if e.get("conv"))
        if not statep:
            # a snapshot folds every entry in this behaviour (C02's F2 territory): judge with all predicates, and
            # fall back to the message-of-death predicates alone if only the snapshot bookkeeping fails
            saved = ctx.violation
            probe = []
            ctx.violation = lambda sig, what, replay: probe.append(sig)
            sigs0 = dict(F.judge_all.sigs)
            try:
                judge_panic(ctx, s, alog, findings, all_events, abs_family=absf, state_predicates=True)
            finally:
                ctx.violation = saved
                F.judge_all.sigs.clear()
                F.judge_all.sigs.update(sigs0)
                F.judge_all.flagged.discard(s["name"])
            if not probe:
                statep = True
                jobs[k] = (s, alog, absf, True)
            else:
                ctx.add("fold_all_schedules_judged_on_mod_predicates_only", 1)
        n, b = judge_panic(ctx, s, alog, findings, all_events, abs_family=absf, state_predicates=statep)
        steps += n
        nbad += 1 if b else 0
        if absf and statep:
            eng.alogs[s["name"]] = alog
            evs = []
            for seg, ee in all_events:
                evs += [dict(e, sched=s["name"]) for e in ee if e.get("ev") != "Done"]
            # the extra entry appended by run_panic_schedule is not part of the abstract log: stop before it
            evs = [e for e in evs if not (e.get("post") and e["post"]["applied"] > len(alog))]
            tv_items.append((s, alog, evs))
    ctx.cov["crashes_observed"] = crashes
    ctx.cov["crashes_by_life"] = crashes_by_life
    ctx.cov["conversions_in_crash_chains"] = conversions
    ctx.cov["child_processes"] = children
    ctx.cov["steps_replayed"] += steps
    ctx.cov["schedules_replayed"] += len(jobs)
    ctx.add("traces_validated_against_impl", len(jobs))
    ctx.log("crash schedules: %d (%d child processes, %d crashes observed and inspected), %d steps, %d violating, %.1fs"
            % (len(jobs), children, crashes, steps, nbad, time.time() - t))
    if jobs:
        s, alog, absf, statep = jobs[0]
        ctx.sample({"kind": "crash", "name": s["name"], "log": [e.get("data", "raft-internal") for e in s["log"]],
                    "steps": [st["a"] for st in s["steps"]]})
    if crashes == 0:
        raise vlib.Inconclusive("no crash was observed: the PANIC command did not fire")
    if not crashes_by_life["json"] or not crashes_by_life["proto"] or not conversions:
        raise vlib.Inconclusive("the migration chains did not run: crashes by life %s, conversions %d" % (crashes_by_life, conversions))

    # 3'. the binding binds for the migration (a second JVM, while the chains are validated): a recorded
    #     encoding that is not the model's must be rejected by TLC
    def tv_selftest_migration():
        for s_, alog_, evs_ in tv_items:
            if not s_["name"].startswith("mig-json-crash-convert-snapshot-restore"):
                continue
            bad = json.loads(json.dumps(evs_))
            hit = [e for e in bad if e.get("ev") == "RestartEnc" and e.get("post")]
            if not hit:
                return None
            hit[0]["post"]["renc"][-1][2] = "json"          # the marked entry's payload "stayed JSON"
            r_ = F.validate_traces(ctx, [(s_, alog_, bad)], tag="st-mig")
            return bool(r_["resyncs"] or r_["violated"])
        return None
    f_stmig = eng.bg.submit(tv_selftest_migration)

    # 3. trace validation of the crash chains (ApplyPanics / Restart with the mod set)
    r = F.validate_traces(ctx, tv_items, tag="tv-crash")
    ctx.add("events_validated", r["records"])
    ctx.add("trace_resyncs", len(r["resyncs"]))
    for name, ev, rec in r["resyncs"][:20]:
        ctx.drift("real FSM diverges from FSM.tla at %s of schedule %s" % (ev, name))
        ctx.note("resync %s %s: %s" % (name, ev, json.dumps(rec, sort_keys=True)[:900]))
    for inv, name, rec in r["violated"]:
        if name in F.judge_all.flagged:
            ctx.add("tv_confirmed_violations", 1)
        else:
            ctx.drift("invariant %s of FSM.tla is false on a state recorded from the real FSM (schedule %s, after %s) "
                      "but the reference-based predicates hold" % (inv, name, rec.get("ev")))
    ctx.log("crash chains: trace validation of %d records, %d resyncs, %d invariant violations" % (r["records"], len(r["resyncs"]), len(r["violated"])))

    # 4. the binding binds: a reference that does NOT skip the marked entry must be noticed,
    #    and a tampered dump must be noticed
    st = {}
    s, alog = F.concretize(hand["no-snapshot"], F.PRELUDES["PreludeReg"], "selftest", proto=True, rng=rng)
    findings, all_events, facts = run_panic_schedule(eng, s, alog, "selftest")
    hits = []
    saved = ctx.violation
    ctx.violation = lambda sig, what, replay: hits.append(sig)
    try:
        judge_panic(ctx, s, alog, findings, all_events)
        st["clean_chain_accepted"] = not hits
        # a reference that is told one MORE entry was marked (the line at index 4) must disagree with the node
        f2, ev2, _ = run_panic_schedule(eng, s, alog, "selftest-lie", lie=(4,))
        hits.clear()
        F.judge_all.sigs.clear()
        judge_panic(ctx, s, alog, f2, ev2)
        st["wrong_marked_entry_detected"] = any(h.startswith("P1") for h in hits)
        about = [e for seg, ee in all_events for e in ee if e.get("ev") == "AboutToPanic"][-1]
        tam = json.loads(json.dumps(about["raw"]))
        good = json.loads(json.dumps(about["raw"]))
        for r_ in good:
            if r_["idx"] == 5:
                r_["msg"]["Type"] = F.T_MOD
        st["true_marking_accepted"] = not [b for b in check_marking(tam, good, 5, True) if not b[0].startswith("harness")]
        good2 = json.loads(json.dumps(good))
        good2[0]["hex"] = good2[0]["hex"][:-2] + "00"
        st["tampered_other_entry_detected"] = bool(check_marking(tam, good2, 5, True))
        st["unmarked_detected"] = bool(check_marking(tam, tam, 5, True))
    finally:
        ctx.violation = saved
        F.judge_all.sigs.clear()
        F.judge_all.flagged.discard("selftest")
    # ... and for the migration: the recorded conversion of the handcrafted chain is accepted as it is, a
    # marked entry whose ClientMessageId / a plain entry whose RemoteAddr differs after the conversion is noticed
    convs = [e["conv"] for k in range(len(jobs)) if jobs[k][0]["name"].startswith("oper-mig-none")
             for seg, ee in results[k][1] for e in ee if e.get("conv")]
    if convs:
        conv = convs[0]
        st["clean_conversion_accepted"] = not F.check_conversion(conv)[0]
        tam = json.loads(json.dumps(conv))
        marked = [r_ for r_ in tam["raft_post"] if r_.get("msg") and r_["msg"]["Type"] == F.T_MOD]
        if marked:
            marked[0]["msg"]["ClientMessageId"] = (marked[0]["msg"].get("ClientMessageId") or 0) + 1
        st["tampered_marked_entry_detected"] = any(b[0] == "conv-raftlog-marked-entry-fields-changed" for b in F.check_conversion(tam)[0])
        tam = json.loads(json.dumps(conv))
        plain = [r_ for r_ in tam["irc_post"] if r_.get("msg") and r_["msg"].get("RemoteAddr")]
        if plain:
            plain[0]["msg"]["RemoteAddr"] = ""
        st["tampered_irclog_entry_detected"] = any(b[0] == "conv-irclog-entry-fields-changed" for b in F.check_conversion(tam)[0])
    else:
        st["clean_conversion_accepted"] = False
    st["wrong_recorded_encoding_rejected"] = bool(f_stmig.result())
    ctx.cov["binding_selftest"] = st
    ctx.log("binding selftest: %s" % st)
    if not all(st.values()):
        raise vlib.Inconclusive("binding selftest failed: %s" % st)
    eng.finish()
