"""C17, expiry stage - the expiry machinery of the REAL program.

The IRC engine judges `ExpireSessions()` of the bare state machine and the HTTP-level stage a
single in-process node; nothing there observes the timer loop of main() (every 10 s, only on the
raft leader, one DeleteSession entry per idle session through api.ApplyMessageWait), LastActivity
being refreshed by every applied entry, Config entries changing the threshold, or what a client
sees when its session expires.  This stage does:

  * spec/Expiry.tla (+ ExpiryProps, ExpiryMC, cfgs): nodes, leader, clock, timers, the sweep as the
    code does it, raft as a FIFO of committed entries, clients, Config entries, leader changes;
    OnlyIdleExpire, ActiveNeverExpires, SweepsAllIdle, ExpiredSessionGone, FollowersNeverPropose
    exhaustively, IdleEventuallyExpires under weak fairness (liveness cfg); Restore(n) replaces a
    follower's server object at run time (Expiry_restore.cfg); Expiry_stale.cfg is the variant in which
    the sweep keeps the object of process start: it must violate the first three (run once each);
  * harness/expiry: real robustirc binaries (tags verif, built from vlib.REPO), 1 and 3 nodes on
    loopback, SessionExpiration of a few seconds set through the real POST /config, sessions
    driven through the real HTTP API, the leader stopped or killed, and - scenario restored-leader -
    a follower that installs a snapshot at RUN TIME (FSM.Restore replaces its server object while
    its timer loop goes on) and then becomes the leader; recorded: the replicated log
    (read from the nodes' irclog with the tree's own code), the proposer of every entry (hook
    api.applied), every line the long polls delivered, API answers, raft states over time, the
    sweep's own log lines;
  * spec/ExpiryTrace.tla: TLC infers the tick times and evaluates every property predicate on the
    recorded behaviour.

report(ctx) adds violations / drift / coverage to the given ctx (like irc_http.report).
"""
import concurrent.futures
import json
import os
import re
import shutil
import subprocess
import threading
import time

import vlib

HARNESS = "expiry"
PKG = "cmd/zz_verif_expiry"
_LOCK = threading.Lock()

# property predicate -> what it says (for the VIOLATION line)
PREDICATES = {
    "OnlyIdleExpire": "a session was deleted by a sweep entry although no tick that can have produced the entry found it idle for longer than the expiration in force",
    "ActiveNeverExpires": "a session was swept although a line of it, acknowledged before the earliest possible tick, was younger than the expiration",
    "SweepsAllIdle": "a sweep (evidenced by its first entry) left out a session that had been idle for longer than the expiration at every possible tick time; it was still alive when the next sweep was due",
    "PseudoNeverSwept": "the sweep proposed a services pseudo-client (Reply != 0)",
    "FollowersNeverPropose": "the sweep ran on a node that was not the leader",
    "IdleEventuallyExpires": "a session idle for longer than the expiration was still alive three sweep intervals (+15 s) after it became due, with a leader in office and answering all the time",
    "ExpiredSessionGone": "an ended session was still visible (line delivered, listed in the channel, nickname taken, request served)",
    "LookupSound": "a live session was answered 404",
}


def scenarios(ctx):
    seed = ctx.seed
    fo = "failover-stop" if seed % 2 else "failover-kill"
    # restored-leader: an initial follower restores at run time and becomes the leader; restored-exleader: the initial
    # leader (whose loop has swept as the leader's before) is deposed while stopped, restores, becomes the leader again
    res = [("mix1", 4000), ("config1", 4000), (fo, 5000), ("restored-leader", 4000), ("restored-exleader", 4000)]
    if not ctx.quick:
        other = "failover-kill" if fo == "failover-stop" else "failover-stop"
        res += [("mix3", 3000), (other, 6000), ("mix1", 2500), ("config1", 6000), ("restored-leader-long", 3000), ("restored-exleader-long", 5000)]
    return [{"name": n, "exp": e, "seed": seed * 1000 + k, "k": k} for k, (n, e) in enumerate(res)]


def build(ctx):
    bindir = ctx.sub("expiry-bin")
    # raft.Config.TrailingLogs (default 10240: the raft log is never compacted in a short run, so a
    # follower that was held back would replay the log and raft's InstallSnapshot - FSM.Restore at run
    # time - would never happen).  One line of main() reads it from the environment, as checks/c05.py
    # does; only the restored-leader scenario sets the variable, without it the Sscan fails and the
    # default stays.  Everything else of main() - the timer loop above all - is the tree's code.
    with open(os.path.join(vlib.REPO, "robustirc.go")) as fh:
        text = fh.read()
    old = 'config.MaxAppendEntries = 1024'
    if text.count(old) != 1:
        raise vlib.Inconclusive("robustirc.go: the raft configuration is not where the expiry stage expects it")
    text = text.replace(old, old + '\n\tfmt.Sscan(os.Getenv("VERIF_TRAILING_LOGS"), &config.TrailingLogs)')
    ov0 = ctx.overlay({"robustirc.go": text})
    robust = ctx.go_build(".", os.path.join(bindir, "robustirc"), overlay=ov0, tags="verif", timeout=600)
    ov = ctx.harness_overlay(PKG, HARNESS)
    orch = ctx.go_build("./" + PKG, os.path.join(bindir, "verif-expiry"), overlay=ov, tags="verif", timeout=600)
    return robust, orch


def run_scenario(ctx, robust, orch, sc):
    tag = "expiry-%d-%s" % (sc["k"], sc["name"])
    work = ctx.sub(tag + "-work")
    out = ctx.sub(tag + "-out")
    cmd = [orch, "-bin", robust, "-work", work, "-out", out, "-scenario", sc["name"], "-seed", str(sc["seed"]),
           "-exp", str(sc["exp"]), "-deadline", "260"]
    t0 = time.time()
    rc, txt, to = vlib.run(cmd, cwd=work, env=vlib._env(), timeout=320)
    res = {"sc": sc, "out": out, "work": work, "rc": rc, "wall": round(time.time() - t0, 1), "stderr": txt[-2000:]}
    try:
        with open(os.path.join(out, "result.json")) as fh:
            res["result"] = json.load(fh)
    except (OSError, ValueError):
        res["result"] = {"status": "inconclusive", "why": "the orchestrator left no result (rc=%s timed_out=%s): %s" % (rc, to, txt[-1500:])}
    # whatever happens, no robustirc process of this scenario may survive
    subprocess.run(["pkill", "-9", "-f", work], stdout=subprocess.DEVNULL, stderr=subprocess.DEVNULL)
    shutil.rmtree(work, ignore_errors=True)
    return res


_RESULT_RE = re.compile(r'<<\s*"RESULT",\s*\[(.*?)\]\s*>>(?=\s*(?:<<\s*"|Model checking|$))', re.S)


def _parse_pairs(text):
    """{ << "name", 12 >>, ... } -> [(name, 12), ...]"""
    return [(m.group(1), int(m.group(2))) for m in re.finditer(r'<<\s*"([^"]*)",\s*(-?\d+)\s*>>', text)]


def parse_trace_result(out):
    """RESULT records of all final states (one per way TLC could explain the sweeps) and the high-water marks."""
    hwm = re.search(r'<<"HWM", (\d+), (\d+), (\d+)>>', out)
    finals = []
    for m in _RESULT_RE.finditer(out):
        body = m.group(1)
        conf = re.search(r'conf \|-> (TRUE|FALSE)', body)
        v = re.search(r'viol \|->\s*(\{.*?\})\s*,\s*notes \|->', body, re.S)
        n = re.search(r'notes \|->\s*(\{.*\})\s*$', body, re.S)
        finals.append({"conf": bool(conf and conf.group(1) == "TRUE"), "viol": _parse_pairs(v.group(1)) if v else [],
                       "notes": _parse_pairs(n.group(1)) if n else []})
    return (tuple(int(x) for x in hwm.groups()) if hwm else None), finals


def validate(ctx, name, trace, aux, label):
    r = ctx.tlc("ExpiryTrace", cfg="ExpiryTrace.cfg", workers=1, timeout=300, deadlock=False,
                files={"trace.ndjson": trace, "aux.ndjson": aux}, name="expirytrace-" + label, heap="2g")
    hwm, finals = parse_trace_result(r.out)
    if not r.ok or hwm is None or not finals or hwm[0] != hwm[2] + 2:
        raise vlib.Inconclusive("ExpiryTrace did not consume the trace of %s: rc=%s\n%s" % (name, r.rc, r.out[-3000:]))
    # the property predicates do not depend on how the sweeps were explained: same set in every final state
    viol = sorted(set(finals[0]["viol"]))
    for f in finals[1:]:
        if sorted(set(f["viol"])) != viol:
            raise vlib.Inconclusive("ExpiryTrace: property verdicts differ between final states of %s" % name)
    conforming = [f for f in finals if f["conf"]]
    notes = sorted(set((conforming or finals)[0]["notes"]))
    return {"tlc": r, "viol": viol, "notes": notes, "conforming": bool(conforming), "explained_upto": hwm[1], "n": hwm[2]}


def read_lines(path):
    with open(path) as fh:
        return [l for l in fh.read().splitlines() if l.strip()]


def selftest(ctx, trace_path, aux_path):
    """The binding binds: corrupted copies of an accepted recording must be rejected."""
    recs = [json.loads(l) for l in read_lines(trace_path)]
    sweeps = [k for k, r in enumerate(recs) if r["ev"] == "entry" and r["k"] == "delete" and r["sweep"] == 1 and r["r"] == 0]
    if not sweeps:
        return {"skipped": "no sweep entry in the recording"}
    d = sweeps[0]
    victim = recs[d]["s"]
    others = sorted({r["s"] for r in recs[:d] if r["ev"] == "entry" and r["k"] == "line" and r["cmd"] == "PING" and r["s"] != victim and r["r"] == 0
                     and recs[d]["ts"] - r["ts"] < 2500})
    cases = {}

    def dump(rs):
        return "\n".join(json.dumps(r, sort_keys=True, separators=(",", ":")) for r in rs) + "\n"
    if others:
        c = [dict(r) for r in recs]
        c[d]["s"] = others[0]        # the sweep entry names a session that had just posted
        cases["sweep entry retargeted to a session that had posted < 2.5 s before"] = (dump(c), "OnlyIdleExpire")
    c = [dict(r) for r in recs]
    c[d]["r"] = 1
    cases["sweep entry carries Reply != 0"] = (dump(c), "PseudoNeverSwept")
    c = [dict(r) for r in recs]
    hit = False
    for r in c:
        if r["ev"] == "probe" and r["s"] == victim and r["st"] == 404 and not hit:
            r["st"] = 200
            hit = True
    if hit:
        cases["a request for the expired session answered 200"] = (dump(c), "ExpiredSessionGone:request-still-served")
    c = [dict(r) for r in recs if not (r["ev"] == "entry" and r["i"] == recs[d]["i"])]
    cases["the sweep entry dropped (its lines stay)"] = (dump(c), None)
    res = {}
    aux = open(aux_path).read()
    for k, (what, (text, expect)) in enumerate(cases.items()):
        try:
            v = validate(ctx, "selftest", text, aux, "selftest-%d" % k)
            names = [x[0] for x in v["viol"]]
            ok = (expect in names) if expect else bool(names) or not v["conforming"] or bool(v["notes"])
            why = sorted(set(names)) or sorted({n for n, _ in v["notes"]}) or ["not explained by the model"]
            res[what] = "rejected (%s)" % ", ".join(why) if ok else "NOT rejected"
        except vlib.Inconclusive as ex:
            res[what] = "rejected (TLC could not consume it)" if expect is None else "machinery: %s" % str(ex)[:200]
    return res


def selftest_restore(ctx, trace_path, aux_path):
    """The restore event binds: without it (or with a restore dated after the sweeps) the recording of a restored-leader
    scenario no longer witnesses 'sweeps of a node after its run-time restore' and the stage refuses to count it."""
    aux = [json.loads(l) for l in read_lines(aux_path)]
    if not any(a["ev"] == "restore" for a in aux):
        return {"skipped": "no restore record"}
    trace = open(trace_path).read()

    def dump(rs):
        return "\n".join(json.dumps(r, sort_keys=True, separators=(",", ":")) for r in rs) + "\n"
    cases = {"the restore record dropped": [a for a in aux if a["ev"] != "restore"],
             "the restore dated after the end of the recording": [dict(a, t=2 ** 30, t2=2 ** 30) if a["ev"] == "restore" else a for a in aux],
             "the restore attributed to another node": [dict(a, n=a["n"] % 3 + 1) if a["ev"] == "restore" else a for a in aux]}
    res = {}
    for k, (what, recs) in enumerate(cases.items()):
        try:
            v = validate(ctx, "selftest-restore", trace, dump(recs), "selftest-restore-%d" % k)
            wit = [pos for w, pos in v["notes"] if w.startswith("WITNESS ")]
            res[what] = "rejected (no sweep entry after a run-time restore is witnessed)" if not wit or wit[0] == 0 else "NOT rejected"
        except vlib.Inconclusive as ex:
            res[what] = "machinery: %s" % str(ex)[:200]
    return res


MC_QUICK = [("Expiry_two.cfg", 2), ("Expiry_one.cfg", 2), ("Expiry_live.cfg", 3), ("Expiry_restore.cfg", 2)]
MC_THOROUGH = [("Expiry_small.cfg", 4), ("Expiry_three.cfg", 4), ("Expiry_two.cfg", 2), ("Expiry_one.cfg", 2), ("Expiry_live.cfg", 3),
               ("Expiry_restore.cfg", 2)]
# Expiry_stale.cfg: NOT the code - the sweep keeps the server object of process start.  Each of these must be violated.
STALE_INVARIANTS = ("OnlyIdleExpire", "ActiveNeverExpires", "SweepsAllIdle")


def model_check(ctx, cfg, workers, coverage=False):
    t0 = time.time()
    r = ctx.tlc("ExpiryMC", cfg=cfg, workers=workers, timeout=1500, deadlock=False, coverage=coverage,
                name="expirymc-" + cfg.replace(".cfg", "") + ("-cov" if coverage else ""), heap="6g")
    return cfg, r, round(time.time() - t0, 1)


def stale_variant(ctx):
    """Expiry_stale.cfg once per invariant: the design with the stale reference must violate each (a TLC result on a variant
    of the design; says nothing about the code - it documents why the per-sweep look-up matters)."""
    with open(os.path.join(vlib.SPEC, "Expiry_stale.cfg")) as fh:
        text = fh.read()
    if len(re.findall(r"^INVARIANTS .*$", text, re.M)) != 1:
        raise vlib.Inconclusive("Expiry_stale.cfg has no single INVARIANTS line")
    res = []
    for inv in STALE_INVARIANTS:
        t0 = time.time()
        cfg = "Expiry_stale_%s.cfg" % inv
        r = ctx.tlc("ExpiryMC", cfg=cfg, workers=1, timeout=300, deadlock=False, name="expirymc-stale-" + inv, heap="2g",
                    files={cfg: re.sub(r"^INVARIANTS .*$", "INVARIANTS " + inv, text, flags=re.M)})
        steps = re.findall(r"^State \d+: <(\w+)", r.out, re.M)
        res.append({"invariant": inv, "violated": r.invariant_violated, "counterexample_actions": steps, "distinct": r.distinct,
                    "wall_s": round(time.time() - t0, 1), "tail": r.out[-1500:]})
    return res


def report(ctx, replay=None):
    """Runs the stage and files its verdicts under ctx (property C17)."""
    t0 = time.time()
    robust, orch = build(ctx)
    build_s = round(time.time() - t0, 1)
    scs = scenarios(ctx)
    only_selftest = bool(getattr(ctx, "selftest", False)) and not replay
    if replay:
        scs = [dict(replay, k=0)]
    if only_selftest:
        scs = [s for s in scs if s["name"] == "config1"][:1]
    mcs = [] if (replay or only_selftest) else (MC_QUICK if ctx.quick else MC_THOROUGH)
    ctx.log("expiry stage: %d scenario(s) on real binaries, %d model-checking run(s) alongside" % (len(scs), len(mcs)))
    # the scenarios mostly wait for sweeps: all at once; at most four TLC processes next to them
    with concurrent.futures.ThreadPoolExecutor(max_workers=len(scs) + 1) as ex, \
            concurrent.futures.ThreadPoolExecutor(max_workers=4) as exm:
        fs = [ex.submit(run_scenario, ctx, robust, orch, sc) for sc in scs]
        fm = [exm.submit(model_check, ctx, cfg, w) for cfg, w in mcs]
        fstale = exm.submit(stale_variant, ctx) if mcs else None
        if not ctx.quick and not replay and not only_selftest:
            fm += [exm.submit(model_check, ctx, cfg, 3, True) for cfg in ("Expiry_two.cfg", "Expiry_one.cfg", "Expiry_restore.cfg")]
        runs = [f.result() for f in fs]
        mcres = [f.result() for f in fm]
        stale = fstale.result() if fstale else []
    scen_s = round(time.time() - t0 - build_s, 1)

    # ---- the design specification
    stage = {"what": "expiry machinery of the real program: timer loop of main() on 1 and 3 real nodes, SessionExpiration set through "
                     "POST /config, leader stopped/killed, a node that installs a snapshot at run time (FSM.Restore replaces its server object) and then "
                     "leads; recorded log + streams validated by TLC (ExpiryTrace.tla)",
             "build_s": build_s, "scenarios_and_model_checking_s": scen_s, "model_checking": [], "scenarios": []}
    zero_by_cfg = {}
    for cfg, r, wall in mcres:
        cov = "-cov" in r.workdir
        if not r.ok:
            raise vlib.Inconclusive("TLC on ExpiryMC/%s did not pass (design specification, not a verdict on the code): violated=%s\n%s" % (
                cfg, r.invariant_violated, r.out[-3000:]))
        if cov:
            zero_by_cfg[cfg] = set(re.sub(r"^.*?(line \d+, col \d+ to line \d+, col \d+ of module \w+).*$", r"\1", z) for z in r.coverage_zero())
            continue
        ctx.add("states", r.distinct)
        ctx.add("transitions", r.generated)
        ctx.add("expiry_tlc_runs")
        stage["model_checking"].append({"cfg": cfg, "distinct": r.distinct, "generated": r.generated, "depth": r.depth, "wall_s": wall})
    if stale:
        stage["stale_reference_variant"] = [{k: v for k, v in x.items() if k != "tail"} for x in stale]
        for x in stale:
            if x["violated"] != x["invariant"] or "Restore" not in x["counterexample_actions"] or x["counterexample_actions"][-1:] != ["Tick"]:
                raise vlib.Inconclusive("ExpiryMC/Expiry_stale.cfg (the design with the sweep reading the server object of process start) did not "
                                        "violate %s by a Restore followed by a sweep (design specification, not a verdict on the code): %s\n%s" % (
                                            x["invariant"], x["violated"], x["tail"]))
            ctx.add("expiry_tlc_runs")
    if zero_by_cfg:
        never = set.intersection(*zero_by_cfg.values())
        stage["coverage_never_taken_in_any_cfg"] = sorted(never)
        if never:
            ctx.note("Expiry.tla: expressions never evaluated in any coverage run: %s" % sorted(never)[:6])

    # ---- the real runs
    bad = [r for r in runs if r["result"].get("status") != "ok"]
    good = [r for r in runs if r["result"].get("status") == "ok"]
    vals = []
    with concurrent.futures.ThreadPoolExecutor(max_workers=8) as ex:
        futs = []
        for r in good:
            tp, ap = os.path.join(r["out"], "trace.ndjson"), os.path.join(r["out"], "aux.ndjson")
            if not (os.path.exists(tp) and os.path.exists(ap)):
                bad.append(r)
                r["result"]["why"] = "no trace written"
                continue
            futs.append((r, ex.submit(validate, ctx, r["sc"]["name"], tp, ap, "%d-%s" % (r["sc"]["k"], r["sc"]["name"]))))
        st_future = None
        if futs and not replay:
            # on the smallest recording (cheapest): usually config1
            r0 = min((r for r, _ in futs), key=lambda r: os.path.getsize(os.path.join(r["out"], "trace.ndjson")))
            st_future = ex.submit(selftest, ctx, os.path.join(r0["out"], "trace.ndjson"), os.path.join(r0["out"], "aux.ndjson"))
        sr_future = None
        rr = [r for r, _ in futs if r["sc"]["name"].startswith("restored-")]
        if rr and not replay:
            sr_future = ex.submit(selftest_restore, ctx, os.path.join(rr[0]["out"], "trace.ndjson"), os.path.join(rr[0]["out"], "aux.ndjson"))
        for r, f in futs:
            vals.append((r, f.result()))
        if sr_future:
            stage["binding_selftest_restore"] = sr_future.result()
            ctx.cov["binding_selftest_expiry_restore"] = stage["binding_selftest_restore"]
            if any(not str(o).startswith(("rejected", "skipped")) for o in stage["binding_selftest_restore"].values()):
                raise vlib.Inconclusive("expiry stage: the restore self-test failed: %s" % stage["binding_selftest_restore"])
        if st_future:
            stage["binding_selftest"] = st_future.result()
            ctx.cov["binding_selftest_expiry"] = stage["binding_selftest"]
            if only_selftest:
                for what, outcome in stage["binding_selftest"].items():
                    print("SELFTEST %s: %s" % (what, outcome), flush=True)
            if any(str(o).startswith("NOT rejected") for o in stage["binding_selftest"].values()):
                raise vlib.Inconclusive("expiry stage: the binding self-test accepted a corrupted recording: %s" % stage["binding_selftest"])

    undecided = []
    unestablished = []
    witnesses = {"sweep_entries": 0, "sessions_swept": 0, "proposers": set(), "sweep_log_lines": 0, "stream_lines": 0, "entries": 0}
    for r, v in vals:
        sc, res = r["sc"], r["result"]
        recs = [json.loads(l) for l in read_lines(os.path.join(r["out"], "trace.ndjson"))]
        auxr = [json.loads(l) for l in read_lines(os.path.join(r["out"], "aux.ndjson"))]
        ctx.add("states", v["tlc"].distinct)
        ctx.add("transitions", v["tlc"].generated)
        ctx.add("expiry_tlc_runs")
        ctx.add("traces_validated_against_impl")
        ctx.add("events_validated", len(recs) + len(auxr))
        sweeps = [x for x in recs if x["ev"] == "entry" and x["k"] == "delete" and x["sweep"] == 1]
        witnesses["sweep_entries"] += len(sweeps)
        witnesses["sessions_swept"] += len({(x["s"], x["r"]) for x in sweeps})
        witnesses["proposers"] |= {(sc["k"], x["by"]) for x in sweeps if x["by"]}
        witnesses["sweep_log_lines"] += (res.get("info") or {}).get("sweep_log_lines", 0)
        witnesses["stream_lines"] += (res.get("info") or {}).get("stream_lines", 0)
        witnesses["entries"] += (res.get("info") or {}).get("entries", 0)
        stage["scenarios"].append({"scenario": sc["name"], "exp_ms": sc["exp"], "seed": sc["seed"], "nodes": res.get("nodes"),
                                   "wall_s": r["wall"], "startup_s": round(res.get("startup_s", 0), 1), "records": len(recs) + len(auxr),
                                   "sweep_entries": [{"index": x["i"], "session": x["s"], "text": x["text"], "proposed_by_node": x["by"], "ts_ms": x["ts"]} for x in sweeps],
                                   "sessions": res.get("sessions"), "notes": res.get("notes"), "unmet": res.get("unmet"),
                                   "conforming": v["conforming"], "tlc_distinct": v["tlc"].distinct})
        # notes that are neither drift nor verdicts: the witness of the restored-leader situation, diagnoses of violations
        diags = [(w[5:], pos) for w, pos in v["notes"] if w.startswith("DIAG ")]
        wit = [pos for w, pos in v["notes"] if w.startswith("WITNESS ")]
        if sc["name"].startswith("restored-"):
            n_after = wit[0] if wit else 0
            stage["scenarios"][-1]["restored_node"] = res.get("restored_node")
            stage["scenarios"][-1]["sweep_entries_by_the_restored_node_after_its_restore"] = n_after
            witnesses["sweep_entries_after_a_runtime_restore"] = witnesses.get("sweep_entries_after_a_runtime_restore", 0) + n_after
            if n_after == 0 and not v["viol"]:
                unestablished.append("%s: node %s restored at run time and took office, but no sweep entry of it was recorded" % (
                    sc["name"], res.get("restored_node")))
        replay_obj = {"scenario": {"name": sc["name"], "exp": sc["exp"], "seed": sc["seed"]},
                      "how": "./check C17 --replay <this file> runs this scenario again on real binaries (harness/expiry) and validates it",
                      "orchestrator_notes": res.get("notes")}
        seen = set()
        for name, pos in v["viol"]:
            if name in seen:
                continue
            seen.add(name)
            base = name.split(":")[0]
            rec = recs[pos - 1] if name.split(":")[0] not in ("FollowersNeverPropose", "IdleEventuallyExpires") and 1 <= pos <= len(recs) else None
            if base == "PseudoNeverSwept" and not (rec and rec["ev"] == "entry"):
                rec = None
            detail = ""
            if rec is not None:
                detail = " at record %d: %s" % (pos, json.dumps({k: rec[k] for k in ("ev", "k", "i", "s", "r", "ts", "t", "st", "text", "arg", "names", "by") if rec.get(k) not in ("", None, [], 0)})[:300])
            elif base == "IdleEventuallyExpires":
                sess = {v2: k2 for k2, v2 in (res.get("sessions") or {}).items()}
                detail = ": session %s (created at index %d), last activity + expiration long past at the end of the scenario" % (sess.get(pos, "?"), pos)
            elif base == "FollowersNeverPropose":
                detail = " (%s, time/record %d)" % (name.split(":")[-1], pos)
            if base in ("OnlyIdleExpire", "ActiveNeverExpires", "IdleEventuallyExpires"):
                # a diagnosis is attached to the record (sweep entry) or the session the violation names
                hint = sorted({w for w, p in diags if p == pos and (base == "IdleEventuallyExpires") == w.startswith("the overdue session")})
                if hint:
                    detail += " [diagnosis: %s]" % "; ".join(hint)
            sig = "expiry:%s:%s" % (name, sc["name"].split("-")[0].rstrip("13"))
            what = "%s false on real robustirc binaries (%s, %d node(s), SessionExpiration %d ms): %s%s" % (
                base, sc["name"], res.get("nodes") or 0, sc["exp"], PREDICATES.get(base, ""), detail)
            with _LOCK:
                ctx.violation(sig, what, dict(replay_obj, predicate=name, record=rec,
                                              sweep_entries=[x for x in recs if x["ev"] == "entry" and x["k"] == "delete"][:8]))
        for what, pos in v["notes"]:
            if what.startswith("DIAG ") or what.startswith("WITNESS "):
                continue
            if what.startswith("UNDECIDED"):
                undecided.append("%s: session created at index %d still alive long after it was due, but no leader was observed in office all the time" % (sc["name"], pos))
            else:
                ctx.drift("expiry (%s): %s (record/time %d)" % (sc["name"], what, pos))
        if not v["conforming"]:
            k = v["explained_upto"]
            rec = recs[k - 1] if 1 <= k <= len(recs) else {}
            ctx.drift("expiry (%s): Expiry.tla cannot explain the sweep entry at record %d by any tick (batches, >= 10 s apart, exactly the idle set): %s" % (
                sc["name"], k, json.dumps({x: rec.get(x) for x in ("i", "s", "ts", "text", "by")})))
        for u in res.get("unmet") or []:
            ctx.note("expiry (%s): %s" % (sc["name"], u))
        if len(ctx.cov["samples"]) < 6 and sweeps:
            ctx.sample({"expiry_scenario": sc["name"], "sweep_entries": stage["scenarios"][-1]["sweep_entries"][:3]})
    witnesses["proposers"] = len(witnesses["proposers"])
    stage["witnesses"] = witnesses
    stage["wall_s"] = round(time.time() - t0, 1)
    ctx.cov["expiry_stage"] = stage
    ctx.assumptions.append("expiry stage, restored-leader: raft.Config.TrailingLogs is set from the environment (overlay, one line in main(), as in C05; "
                           "the default of 10240 would never compact the raft log in a short run, so raft would never send InstallSnapshot); that the "
                           "follower really restored at run time is read from its own hook trace (fsm.restored after its last fsm.apply)")
    ctx.assumptions.append("expiry stage: entry timestamps and the orchestrator's times come from one clock (same machine; a run whose wall and "
                           "monotonic clocks disagree is discarded); hashicorp/raft elects and commits as specified; the leader's applied state at a "
                           "tick is a prefix of the log; 'the sweep ran on node n' is read from n's own log line 'Expiring session'")
    if bad:
        why = "; ".join("%s: %s" % (r["sc"]["name"], (r["result"].get("why") or "")[:400]) for r in bad)
        raise vlib.Inconclusive("expiry stage: scenario(s) did not complete: " + why)
    if undecided:
        raise vlib.Inconclusive("expiry stage: " + "; ".join(undecided))
    if unestablished and not ctx.violations:
        raise vlib.Inconclusive("expiry stage: the situation could not be established: " + "; ".join(unestablished))
    if not replay and not ctx.violations and witnesses["sweep_entries"] == 0:
        raise vlib.Inconclusive("expiry stage: no sweep entry was observed in any scenario and no predicate failed")
    return stage
