#!/bin/sh
# Offline setup: nothing is downloaded. Warms the Go build cache for /repo with
# the verif tag and checks that every specification parses.
set -e
cd "$(dirname "$0")"
export GOFLAGS=-mod=mod GOPROXY=off GOSUMDB=off GOTOOLCHAIN=local
(cd /repo && go build -tags verif ./... && go test -tags verif -vet=off -count=1 -run '^$' ./... >/dev/null 2>&1 || true)
python3 -m py_compile check tools/*.py checks/*.py
mkdir -p evidence replays
# Parse every specification (informational: a spec that does not parse makes its own check
# report "inconclusive"; modules that need the TLAPS or Apalache libraries are skipped here).
if ls spec/*.tla >/dev/null 2>&1; then
  tmp=$(mktemp -d)
  cp spec/*.tla "$tmp"/
  bad=0
  for f in "$tmp"/*.tla; do
    if grep -q "TLAPS\|Apalache\|@type" "$f"; then continue; fi
    (cd "$tmp" && timeout 120 tla-sany "$(basename "$f")" >"$f.sany" 2>&1) || { echo "WARNING: SANY failed on $(basename "$f")"; tail -5 "$f.sany"; bad=$((bad+1)); }
  done
  rm -rf "$tmp"
  echo "specs parsed, $bad warning(s)"
fi
echo setup ok
