#!/bin/sh
# Offline setup: nothing is downloaded. Warms the Go build cache for /repo with
# the verif tag and checks that every specification parses.
set -e
cd "$(dirname "$0")"
export GOFLAGS=-mod=mod GOPROXY=off GOSUMDB=off GOTOOLCHAIN=local
(cd /repo && go build -tags verif ./... && go test -tags verif -vet=off -count=1 -run '^$' ./... >/dev/null 2>&1 || true)
python3 -m py_compile check tools/*.py checks/*.py
mkdir -p evidence replays
if ls spec/*.tla >/dev/null 2>&1; then
  tmp=$(mktemp -d)
  cp spec/*.tla "$tmp"/
  for f in "$tmp"/*.tla; do
    (cd "$tmp" && timeout 120 tla-sany "$(basename "$f")" >"$f.sany" 2>&1) || { echo "SANY failed on $f"; tail -20 "$f.sany"; rm -rf "$tmp"; exit 1; }
  done
  rm -rf "$tmp"
fi
echo setup ok
