\* C16 scenario: post a body that sets X, post a body without X (every ordered pair of
\* valid bodies), battery on the live node, one more entry, snapshot folding both posts,
\* restart (+ observer replicas).
SPECIFICATION SpecReplace
CONSTANTS
  Users = {"u1"}
  Chans = {}
  Bodies = {"A", "Ae", "Ab", "B", "C", "Cn", "Ce", "D", "E", "Z", "R"}
  HdrKinds = {"cur"}
  Vias = {"d"}
  Creds = {"o1"}
  InjectRevs = {"same"}
  MaxSteps = 6
  MaxRej = 0
  MaxSnap = 1
  MaxRestart = 1
  MaxInject = 0
  MaxBattery = 1
  MaxCfg = 2
  FixedF5 = FALSE
  RecordHist = TRUE
INVARIANTS ReplicasSameConfig ExpirationFollowsConfig GlineIsConfig ExportBehaviours
CHECK_DEADLOCK FALSE
