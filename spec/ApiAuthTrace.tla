-------------------------- MODULE ApiAuthTrace --------------------------
(***************************************************************************)
(* Trace validation for C11: every request replayed against the real       *)
(* DispatchPublic / DispatchPrivate on the single-node rig is one ND-JSON   *)
(* record {ev:"Req", req, vs, vsAfter, ns, kind, obs}: the abstract request,*)
(* the victim's state before and after as projected from the real server,   *)
(* and the observed response class / effect / disclosure.  Each record must *)
(* be the decision of ApiAuth!Decide in the current state; the invariants   *)
(* of ApiAuth are evaluated on the OBSERVED response (variable `last` holds *)
(* observations only).  Differences between model and observation are       *)
(* counted as drift and the observation is adopted.                         *)
(***************************************************************************)
EXTENDS ApiAuth

VARIABLES l, drift
tvars == <<vars, l, drift>>

Trace == ndJsonDeserialize("ApiAuth_trace.ndjson")

TInit == l = 0 /\ drift = 0 /\ vstate = "fresh" /\ nstate = "absent" /\ inflight = None /\ last = None /\ TLCSet(1, 0)

Drifted(e, x) == drift' = drift + 1 /\ TLCSet(1, TLCGet(1) + 1) /\ PrintT(<<"DRIFT", l + 1, e, vstate, nstate, x>>)

(* Events: Reset (new victim / new program), Req (a request answered at    *)
(* once), Later (an entry newer than the ended victim was processed),       *)
(* Arrive (request naming the not yet existing next session id is sent),    *)
(* Appear (that session is created and gets traffic), Complete (the answer  *)
(* to the request in flight, read after Appear).                            *)
Step ==
    /\ l < Len(Trace)
    /\ l' = l + 1
    /\ LET e == Trace[l + 1] IN
       CASE e.ev = "Reset" ->
              vstate' = "fresh" /\ nstate' = "absent" /\ inflight' = None /\ last' = None /\ UNCHANGED drift
         [] e.ev = "Req" ->
              LET x  == Decide(e.req, vstate, nstate)
                  nv == NextV(e.req, vstate, x, e.kind)
                  ok == e.vs = vstate /\ e.ns = nstate /\ e.obs = x /\ e.vsAfter = nv IN
              /\ last' = [req |-> e.req, vs |-> e.vs, ns |-> e.ns, phase |-> "static", resp |-> e.obs]
              /\ vstate' = e.vsAfter /\ nstate' = e.ns /\ UNCHANGED inflight
              /\ IF ok THEN UNCHANGED drift ELSE Drifted(e, x)
         [] e.ev = "Later" ->
              /\ vstate' = e.vsAfter /\ last' = None /\ UNCHANGED <<nstate, inflight>>
              /\ IF vstate = "quitLast" /\ e.vsAfter = "deleted" THEN UNCHANGED drift ELSE Drifted(e, "deleted")
         [] e.ev = "Arrive" ->
              /\ inflight' = [req |-> e.req, resp |-> Decide(e.req, vstate, nstate)]
              /\ UNCHANGED <<vstate, nstate, last>>
              /\ IF nstate = "absent" /\ inflight = None THEN UNCHANGED drift ELSE Drifted(e, nstate)
         [] e.ev = "Appear" ->
              /\ nstate' = "live" /\ UNCHANGED <<vstate, inflight, last, drift>>
         [] e.ev = "Complete" ->
              LET x == IF inflight = None THEN NotFound ELSE inflight.resp IN
              /\ last' = [req |-> e.req, vs |-> e.vs, ns |-> nstate, phase |-> "inflight", resp |-> e.obs]
              /\ inflight' = None /\ UNCHANGED <<vstate, nstate>>
              /\ IF inflight # None /\ e.obs = x THEN UNCHANGED drift ELSE Drifted(e, x)

TSpec == TInit /\ [][Step]_tvars

Accept ==
    /\ TLCGet("distinct") = Len(Trace) + 1
    /\ PrintT(<<"TRACE-ACCEPTED", Len(Trace), "drift", TLCGet(1)>>)
=============================================================================
