-------------------------- MODULE ApiAuthTrace --------------------------
(***************************************************************************)
(* Trace validation for C11: every request replayed against the real       *)
(* DispatchPublic / DispatchPrivate on the single-node rig is one ND-JSON   *)
(* record {ev:"Req", req, vs, vsAfter, login, obs}: the abstract request,   *)
(* the victim's state before and after as projected from the real server,   *)
(* and the observed response class / effect / disclosure.  Each record must *)
(* be the decision of ApiAuth!Decide in the current state; the invariants   *)
(* of ApiAuth are evaluated on the OBSERVED response (variable `last` holds *)
(* observations only).  Differences between model and observation are       *)
(* counted as drift and the observation is adopted.                         *)
(***************************************************************************)
EXTENDS ApiAuth

VARIABLES l, drift
tvars == <<vars, l, drift>>

Trace == ndJsonDeserialize("ApiAuth_trace.ndjson")

TInit == l = 0 /\ drift = 0 /\ vstate = "fresh" /\ last = None /\ TLCSet(1, 0)

Step ==
    /\ l < Len(Trace)
    /\ l' = l + 1
    /\ LET e == Trace[l + 1] IN
       IF e.ev = "Reset"
       THEN vstate' = "fresh" /\ last' = None /\ UNCHANGED drift
       ELSE LET x  == Decide(e.req, vstate)
                nv == NextV(e.req, vstate, x, e.login)
                ok == e.vs = vstate /\ e.obs = x /\ e.vsAfter = nv IN
            /\ last' = [req |-> e.req, vs |-> e.vs, resp |-> e.obs]
            /\ vstate' = e.vsAfter
            /\ IF ok THEN UNCHANGED drift
               ELSE drift' = drift + 1 /\ TLCSet(1, TLCGet(1) + 1) /\ PrintT(<<"DRIFT", l + 1, e, vstate, x>>)

TSpec == TInit /\ [][Step]_tvars

Accept ==
    /\ TLCGet("distinct") = Len(Trace) + 1
    /\ PrintT(<<"TRACE-ACCEPTED", Len(Trace), "drift", TLCGet(1)>>)
=============================================================================
