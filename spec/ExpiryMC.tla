------------------------------ MODULE ExpiryMC ------------------------------
(* Model-checking instances of Expiry.tla (constants are model values set in *)
(* the cfg files; this module only adds what a cfg cannot express).          *)
EXTENDS Expiry

CONSTANTS n1, n2, n3, c1, c2, k1, p1

MCOwner == (p1 :> k1)
MCNoOwner == <<>>

SymNodes == Permutations({n1, n2, n3})
SymClients == Permutations({c1, c2})
SymNodes2 == Permutations({n1, n2})
Sym == SymNodes \cup SymClients

\* the liveness instance is cut off at the horizon
AtHorizon == now = MaxTime
=============================================================================
