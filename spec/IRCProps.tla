----------------------------- MODULE IRCProps -----------------------------
(***************************************************************************)
(* The property predicates of C01 C03 C06 C12 C13 C14 C15(FSM level) C17,   *)
(* stated over (S, e, S', out): state before an entry, the entry, state     *)
(* after it, and the replies.  They are evaluated by IRCMC (on model        *)
(* states, exhaustively) and by IRCTrace (on states recorded from the real  *)
(* code).  Each failure is reported as <<property id, predicate name>>.     *)
(***************************************************************************)
EXTENDS IRC

Live(st) == {x \in DOMAIN st.ss : ~st.ss[x].del}
Owner(st, nick) == st.nk[LcN(nick)]
Links(st) == {st.ss[x].id : x \in {y \in DOMAIN st.ss : st.ss[y].sv}} \cup ServerIds(st)

---------------------------------------------------------------------------
(* C14: state consistency *)
NickUnique(st) ==
  /\ \A x, y \in Live(st) : (x # y /\ st.ss[x].nick # "" /\ st.ss[y].nick # "")
                              => LcN(st.ss[x].nick) # LcN(st.ss[y].nick)
  /\ \A k \in DOMAIN st.nk : /\ st.nk[k] \in Live(st)
                             /\ LcN(st.ss[st.nk[k]].nick) = k
  /\ \A x \in Live(st) : st.ss[x].nick # "" => (Has(st.nk, LcN(st.ss[x].nick)) /\ st.nk[LcN(st.ss[x].nick)] = x)
(* the nickname of a pseudo-client (rid # 0) is what the authenticated services link said in its NICK line: *)
(* the server stores it as it is, and a line with a name outside the grammar is not a protocol-conforming   *)
(* one - such states stay in the scope of C01/C03 (replicas agree, snapshots round-trip), not of this one   *)
NamesValid(st) ==
  /\ \A x \in Live(st) : (st.ss[x].rid = 0 /\ st.ss[x].nick # "") => ValidNick(st.ss[x].nick)
  /\ \A c \in DOMAIN st.ch : ValidChan(st.ch[c].name) /\ LcC(st.ch[c].name) = c
MembershipSymmetric(st) ==
  \A x \in Live(st) : \A c \in st.ss[x].chans \cup DOMAIN st.ch :
     (c \in st.ss[x].chans) <=> (c \in DOMAIN st.ch /\ st.ss[x].nick # "" /\ Has(st.ch[c].mem, LcN(st.ss[x].nick)))
NoEmptyChannel(st) == \A c \in DOMAIN st.ch : DOMAIN st.ch[c].mem # {}
MembersLive(st) ==
  \A c \in DOMAIN st.ch : \A k \in DOMAIN st.ch[c].mem :
     /\ st.ch[c].mem[k] \in BOOLEAN
     /\ Has(st.nk, k) /\ st.nk[k] \in Live(st) /\ LcN(st.ss[st.nk[k]].nick) = k

FS(p, name, ok) == IF ok THEN {} ELSE {<<p, name>>}
(* invitations die with the channel; nobody lingers as "deleted" once an entry has been applied *)
InvitationsToExistingChannels(st) == \A x \in DOMAIN st.ss : st.ss[x].inv \subseteq DOMAIN st.ch
NoDeletedSessionLingers(st) == \A x \in DOMAIN st.ss : ~st.ss[x].del
StateInvFailures(st) ==
  IF ~(\A k \in DOMAIN st.nk : st.nk[k] \in DOMAIN st.ss)
  THEN {<<"C14", "NickIndexDangling">>}
  ELSE FS("C13", "InvitationsToExistingChannels", InvitationsToExistingChannels(st))
       \cup FS("C17", "NoDeletedSessionLingers", NoDeletedSessionLingers(st))
       \cup FS("C14", "NickUnique", NickUnique(st)) \cup FS("C14", "NamesValid", NamesValid(st))
       \cup FS("C14", "MembershipSymmetric", MembershipSymmetric(st))
       \cup FS("C14", "NoEmptyChannel", NoEmptyChannel(st)) \cup FS("C14", "MembersLive", MembersLive(st))

(* no entry raises the number of sessions / channels above a configured non-zero limit *)
LimitsKept(S, T) ==
  /\ Cardinality(DOMAIN T.ss) > Cardinality(DOMAIN S.ss) => (T.cfg.maxs = 0 \/ Cardinality(DOMAIN T.ss) <= T.cfg.maxs)
ChannelLimitKept(S, T) ==
  Cardinality(DOMAIN T.ch) > Cardinality(DOMAIN S.ch) => (T.cfg.maxc = 0 \/ Cardinality(DOMAIN T.ch) <= T.cfg.maxc)

---------------------------------------------------------------------------
(* C12: who receives what, under which identity *)
IsNum(c) == Len(c) = 3 /\ \A i \in 1..3 : Ch(c, i) \in Digits
(* recipients of a channel, tolerant of an inconsistent index (C14 reports the inconsistency itself) *)
SafeKeys(st, c) == {k \in DOMAIN st.ch[c].mem : Has(st.nk, k) /\ st.nk[k] \in DOMAIN st.ss}
MembersIn(st, c) == IF Has(st.ch, c) THEN {st.ss[st.nk[k]].id : k \in SafeKeys(st, c)} ELSE {}
IndexResolves(st) == \A k \in DOMAIN st.nk : st.nk[k] \in DOMAIN st.ss
UserPfx(p) == HasPrefix(p.h, "robust/0x")
SvcStylePfx(p) == p.u = "services" /\ p.h = "services"
Actor(e) == Sid(e.sess, 0)

(* sessions of S or T whose nickname is named by the prefix or a parameter of m, plus the actor *)
Involved(S, T, e, m) ==
  LET names == {LcN(m.from.n)} \cup {LcN(m.p[i]) : i \in {j \in 1..Len(m.p) : m.p[j] # ANY}} IN
  {x \in DOMAIN S.ss : LcN(S.ss[x].nick) \in names} \cup {x \in DOMAIN T.ss : LcN(T.ss[x].nick) \in names}
  \cup ({Actor(e)} \cap (DOMAIN S.ss \cup DOMAIN T.ss))
RcptOf(S, T, x) == IF x \in DOMAIN S.ss THEN S.ss[x].id ELSE T.ss[x].id
(* membership as the CHANNEL sees it (that is what decides who receives channel traffic); the session's   *)
(* own list is deliberately not trusted here, C14 checks that the two sides agree                        *)
ChanSide(st, x) == IF x \in DOMAIN st.ss /\ st.ss[x].nick # ""
                   THEN {c \in DOMAIN st.ch : Has(st.ch[c].mem, LcN(st.ss[x].nick)) /\ Has(st.nk, LcN(st.ss[x].nick))
                                               /\ st.nk[LcN(st.ss[x].nick)] = x}
                   ELSE {}
ChansOf(S, T, x) == ChanSide(S, x) \cup ChanSide(T, x)
Sharing(S, T, e, m) ==
  LET inv == Involved(S, T, e, m)
      named == {LcC(m.p[i]) : i \in {j \in 1..Len(m.p) : m.p[j] # ANY /\ HasPrefix(m.p[j], "#")}}
  IN
  {RcptOf(S, T, x) : x \in inv}
  \cup UNION {MembersIn(S, c) \cup MembersIn(T, c) : c \in named \cup UNION {ChansOf(S, T, x) : x \in inv}}

RecipientOK(S, T, e, m) ==
  LET srv == Links(S) \cup Links(T)
      a == Actor(e)
      actorId == e.sess
  IN
  CASE m.cmd \in {"PRIVMSG", "NOTICE"} /\ m.from # SrvPfx /\ Len(m.p) >= 1 /\ HasPrefix(m.p[1], "#") ->
         (* channel text: every other current member and nobody else (services links aside) *)
         LET c == LcC(m.p[1]) IN
         /\ Has(S.ch, c)
         /\ m.to \ srv = {S.ss[S.nk[n]].id : n \in {k \in SafeKeys(S, c) : S.nk[k] # a}} \ srv
    [] m.cmd \in {"PRIVMSG", "NOTICE"} /\ m.from # SrvPfx /\ Len(m.p) >= 1 /\ HasPrefix(m.p[1], "$") ->
         m.to \subseteq {S.ss[x].id : x \in DOMAIN S.ss}
    [] m.cmd \in {"PRIVMSG", "NOTICE"} /\ m.from # SrvPfx /\ Len(m.p) >= 1 ->
         (* private text: only the owner of the target nickname (a service alias goes to the links) *)
         \/ (Has(S.nk, LcN(m.p[1])) /\ m.to = {S.ss[S.nk[LcN(m.p[1])]].id})
         \/ m.to \subseteq srv
    [] IsNum(m.cmd) \/ m.cmd = "367*" ->
         (* numerics: the session that caused them, the links, or the subject of a services command *)
         m.to \subseteq {actorId} \cup srv
                \cup (IF a \in DOMAIN S.ss /\ S.ss[a].sv /\ Len(e.p) >= 1 /\ Has(S.nk, LcN(e.p[1]))
                      THEN {S.ss[S.nk[LcN(e.p[1])]].id} ELSE {})
    [] m.cmd = "ERROR" ->
         /\ Cardinality(m.to) = 1
         /\ m.to \subseteq {actorId} \cup {S.ss[x].id : x \in {y \in Live(S) : y \notin Live(T)}}
    [] m.cmd \in {"JOIN", "PART", "KICK", "TOPIC", "MODE"} /\ m.from # NoPfx /\ Len(m.p) >= 1 /\ HasPrefix(m.p[1], "#")
       /\ ~(a \in DOMAIN S.ss /\ S.ss[a].sv) ->
         (* a channel event caused by a client: only that channel's members (before or after), the actor *)
         (* and the sessions named in it (kicked / invited user)                                          *)
         m.to \ srv \subseteq MembersIn(S, LcC(m.p[1])) \cup MembersIn(T, LcC(m.p[1]))
                                \cup {RcptOf(S, T, x) : x \in Involved(S, T, e, m)}
    [] m.cmd \in {"JOIN", "PART", "KICK", "TOPIC", "MODE", "NICK", "QUIT", "INVITE", "KILL"} /\ m.from # NoPfx ->
         m.to \ srv \subseteq Sharing(S, T, e, m)
    [] m.cmd = "NOTICE" /\ m.from = SrvPfx ->
         m.to \ srv \subseteq {actorId} \cup (IF Len(m.p) >= 1 /\ HasPrefix(m.p[1], "#") THEN MembersIn(S, LcC(m.p[1])) ELSE {})
    [] m.cmd = "PONG" -> m.to = {actorId}
    [] OTHER -> m.to \subseteq srv     \* SJOIN / SERVER / NICK burst: services bookkeeping
RecipientsEntitled(S, T, e, out) ==
  \A i \in 1..Len(out) :
     /\ RecipientOK(S, T, e, out[i])
     (* nothing is ever addressed to a session that does not exist (before or after the entry) *)
     /\ out[i].to \subseteq {S.ss[x].id : x \in Live(S)} \cup {T.ss[x].id : x \in (DOMAIN T.ss) \ (DOMAIN S.ss)}
                           \cup Links(S) \cup Links(T)

(* every user-style prefix is the full current identity of some session; text is sent under the actor's own *)
Identity(st, x) == Pfx(st.ss[x].nick, st.ss[x].user, HostOf(st.ss[x].id))
PrefixIsSender(S, T, e, out) ==
  \A i \in 1..Len(out) :
     LET m == out[i] IN
     UserPfx(m.from) =>
        /\ \/ \E x \in DOMAIN S.ss : m.from = Identity(S, x)
           \/ \E x \in DOMAIN T.ss : m.from = Identity(T, x)
        /\ (m.cmd \in {"PRIVMSG", "NOTICE", "JOIN", "PART", "KICK", "TOPIC", "MODE", "INVITE", "KILL"}
            /\ e.t = "line" /\ Actor(e) \in DOMAIN S.ss /\ ~S.ss[Actor(e)].sv)
           => (m.from = Identity(S, Actor(e)) \/ (Actor(e) \in DOMAIN T.ss /\ m.from = Identity(T, Actor(e))))

---------------------------------------------------------------------------
(* C13: privileged effects, judged on the delta S -> T caused by a client actor *)
KeyFor(e, c) ==
  LET names == Split(e.p[1], ",")
      keys == IF Len(e.p) > 1 THEN Split(e.p[2], ",") ELSE <<>>
      idxs == {i \in 1..Len(names) : LcC(names[i]) = c}
  IN {IF i <= Len(keys) THEN keys[i] ELSE "" : i \in idxs}
CaptchaFresh(s) == s.lsc # -1 /\ s.la - s.lsc < 60
ClientActor(S, e) == e.t = "line" /\ e.ok /\ Actor(e) \in DOMAIN S.ss /\ ~S.ss[Actor(e)].sv
MemOf(st, c) == IF Has(st.ch, c) THEN DOMAIN st.ch[c].mem ELSE {}
SessOfKey(st, k) == st.nk[k]

PrivFailures(S, T, e, out) ==
  IF ~ClientActor(S, e) THEN {}
  ELSE
  LET a == Actor(e)
      s == S.ss[a]                       \* already carries the entry's timestamp? no: la is updated by the gate
      s1 == [s EXCEPT !.la = e.ts]
      lca == LcN(s.nick)
      oper == s.op
      isop(c) == Has(S.ch, c) /\ Has(S.ch[c].mem, lca) /\ S.ch[c].mem[lca] = TRUE
      common == DOMAIN S.ch \cap DOMAIN T.ch
      (* sessions (by Sid) that are members of c in T but were not in S, channel existed before *)
      gained(c) == {x \in Live(S) \cap Live(T) : c \in T.ss[x].chans /\ c \notin S.ss[x].chans}
      lost(c) == {x \in Live(S) \cap Live(T) : c \in S.ss[x].chans /\ c \notin T.ss[x].chans}
      joinOK(c) ==
         /\ e.cmd = "JOIN" /\ Len(e.p) >= 1
         /\ ~BanHit(S, c, [s1 EXCEPT !.addr = IF e.addr # "" THEN e.addr ELSE s.addr])
         /\ ("i" \in S.ch[c].modes => c \in s.inv)
         /\ ("x" \in S.ch[c].modes => (c \in s.inv \/ CaptchaFresh(s1) \/ (e.capok /\ KeyFor(e, c) # {""})))
         /\ (("k" \in S.ch[c].modes /\ ~("x" \in S.ch[c].modes /\ c \notin s.inv)) => S.ch[c].key \in KeyFor(e, c))
      F(name, ok) == IF ok THEN {} ELSE {<<"C13", name>>}
  IN
    F("JoinNeedsEntitlement",
      \A c \in DOMAIN S.ch : \A x \in gained(c) : x = a /\ joinOK(c))
    \cup F("ResolvedBanStored",
      (* a ban whose mask names a session host (robust/0x..) is stored with that session's ADDRESS as well *)
      (* (banBoth), so that the same user coming back as another session stays banned                       *)
      \A c \in common :
        \A i \in {i \in 1..Len(T.ch[c].bans) : ~\E j \in 1..Len(S.ch[c].bans) : S.ch[c].bans[j] = T.ch[c].bans[i]} :
          LET b == T.ch[c].bans[i]  re == ReOfMask(b.m)  ra == ResolveAddr(T, re) IN
          (* (an "address" that does not compile as a regexp is refused with 472, nothing is announced) *)
          (b.r = re /\ ra # re /\ AddrCompiles(ResolvedAddr(T, re))) => \E k \in 1..Len(T.ch[c].bans) : T.ch[c].bans[k].m = b.m /\ T.ch[c].bans[k].r = ra)
    \cup F("SessionBanCoversAddress",
      (* +b on a mask that names a session (robust/0x..) bans the ADDRESS that session has when the +b is     *)
      (* processed, each time it is processed: what the resolved pattern plainly matches is banned afterwards *)
      (e.cmd = "MODE" /\ Len(e.p) = 3 /\ e.p[2] = "+b" /\ LcC(e.p[1]) \in common /\ LcC(e.p[1]) \in s.chans
       /\ (isop(LcC(e.p[1])) \/ oper)) =>
        LET c == LcC(e.p[1])  re == ReOfMask(e.p[3])  ra == ResolveAddr(T, re)
            witness == MapStr([ch \in {"*"} |-> "x"], MaskOfRe(ra)) IN
        (ra # re /\ AddrCompiles(ResolvedAddr(T, re))) => StrBanHit(T, c, witness))
    \cup F("CaptchaProofOnlyFromCaptcha",
      (* the time of the last solved captcha (which opens +x channels for a minute) moves only when the entry *)
      (* itself carried a valid captcha: the grace period cannot renew itself                                  *)
      \A x \in Live(S) \cap Live(T) : T.ss[x].lsc # S.ss[x].lsc => (x = a /\ e.capok /\ T.ss[x].lsc = e.ts))
    \cup F("InvitationIsOneShot",
      (* joining a +i / +x channel uses up the invitation that admitted the session *)
      \A c \in DOMAIN S.ch : \A x \in gained(c) :
         (x = a /\ c \in s.inv /\ ("i" \in S.ch[c].modes \/ "x" \in S.ch[c].modes)) => c \notin T.ss[a].inv)
    \cup F("NewChannelOnlyByJoin",
      \A c \in DOMAIN T.ch \ DOMAIN S.ch : e.cmd = "JOIN" /\ MemOf(T, c) = {LcN(T.ss[a].nick)})
    \cup F("KickNeedsChanop",
      \A c \in DOMAIN S.ch : \A x \in lost(c) : x = a \/ (e.cmd = "KICK" /\ isop(c)))
    \cup F("ModeNeedsChanopOrOper",
      \A c \in common :
         (\/ S.ch[c].modes # T.ch[c].modes \/ S.ch[c].key # T.ch[c].key \/ S.ch[c].bans # T.ch[c].bans
          \/ \E k \in DOMAIN S.ch[c].mem \cap DOMAIN T.ch[c].mem :
                (* same member (not a re-keyed nickname) with a changed operator flag *)
                Has(S.nk, k) /\ Has(T.nk, k) /\ S.nk[k] = T.nk[k] /\ S.ch[c].mem[k] # T.ch[c].mem[k])
         => (e.cmd = "MODE" /\ (isop(c) \/ oper)))
    \cup F("TopicNeedsMembershipAndChanopOnT",
      \A c \in common :
         (S.ch[c].topic # T.ch[c].topic \/ S.ch[c].tt # T.ch[c].tt \/ S.ch[c].tn # T.ch[c].tn)
         => (e.cmd = "TOPIC" /\ c \in s.chans /\ ("t" \in S.ch[c].modes => isop(c))))
    \cup F("InviteNeedsMembershipAndChanopOnI",
      \A x \in Live(S) \cap Live(T) : \A c \in T.ss[x].inv \ S.ss[x].inv :
         e.cmd = "INVITE" /\ c \in s.chans /\ ("i" \in S.ch[c].modes => isop(c)))
    \cup F("EndingOthersNeedsOper",
      \A x \in Live(S) : (x \notin Live(T) /\ x # a) => (oper /\ e.cmd \in {"KILL", "GLINE"}))
    \cup F("BanTableNeedsOper", S.cfg.banned # T.cfg.banned => (oper /\ e.cmd = "GLINE"))
    \cup F("BroadcastNeedsOper",
      \A i \in 1..Len(out) : (out[i].cmd \in {"PRIVMSG", "NOTICE"} /\ out[i].from # SrvPfx /\ Len(out[i].p) >= 1
                              /\ HasPrefix(out[i].p[1], "$")) => oper)
    \cup F("OperNeedsCredentials",
      \A x \in Live(S) \cap Live(T) : (T.ss[x].op /\ ~S.ss[x].op) =>
         /\ x = a
         /\ \E c \in S.cfg.opers :
               \/ (e.cmd = "OPER" /\ Len(e.p) >= 2 /\ e.p[1] = c[1] /\ e.p[2] = c[2])
               (* or the password in force at the login carries the pair in its oper= part (a PASS may have *)
               (* several parts between colons; the server takes them apart with extractPassword)          *)
               \/ LET raw == JoinStr(e.p, " ")
                      now == IF e.cmd = "PASS" /\ Len(e.p) > 0
                             THEN (IF \E t \in PassTags : HasPrefix(raw, t) THEN raw ELSE "nickserv=" \o raw)
                             ELSE s.pass
                      op == Split(ExtractTag(now, "oper"), " ")
                  IN Len(op) > 1 /\ op[1] = c[1] /\ op[2] = c[2])
    \cup F("ServerNeedsServicesPassword",
      \A x \in Live(S) \cap Live(T) : (T.ss[x].sv /\ ~S.ss[x].sv) =>
         (x = a /\ e.cmd = "SERVER" /\ \E pw \in S.cfg.svc : s.pass = "services=" \o pw))
    \cup F("ClientCannotTouchOthers",
      (* a client line never changes another session's nickname, modes, svid or holds *)
      /\ \A x \in (Live(S) \cap Live(T)) \ {a} :
            /\ S.ss[x].nick = T.ss[x].nick
            /\ (S.ss[x].modes # T.ss[x].modes => (oper /\ e.cmd = "MODE"))
            /\ S.ss[x].svid = T.ss[x].svid
      /\ DOMAIN T.holds \subseteq DOMAIN S.holds)

---------------------------------------------------------------------------
(* what a snapshot round trip must not change: who holds which privilege *)
PrivProj(st) ==
  [ch |-> [c \in DOMAIN st.ch |-> [mem |-> st.ch[c].mem, modes |-> st.ch[c].modes, key |-> st.ch[c].key, bans |-> st.ch[c].bans]],
   ss |-> [x \in DOMAIN st.ss |-> [op |-> st.ss[x].op, sv |-> st.ss[x].sv, inv |-> st.ss[x].inv, li |-> st.ss[x].li,
                                    pass |-> st.ss[x].pass, lsc |-> st.ss[x].lsc]],
   opers |-> st.cfg.opers, svc |-> st.cfg.svc, banned |-> st.cfg.banned, capcfg |-> st.cfg.capcfg]

(* C17: lookups and ended sessions *)
Lookup(st, id) == IF Sid(id, 0) \in DOMAIN st.ss THEN "ok" ELSE IF st.lp > id THEN "nosuch" ELSE "notyet"
EndedGone(S, T) ==
  \A x \in Live(S) : x \notin Live(T) =>
     /\ \A k \in DOMAIN T.nk : T.nk[k] # x
     /\ \A c \in DOMAIN T.ch : \A k \in DOMAIN T.ch[c].mem : (Has(T.nk, k) => T.nk[k] # x) /\ k # LcN(S.ss[x].nick)

---------------------------------------------------------------------------
(* all failures of one recorded step; rec carries the verdicts computed in Go *)
(* A logged-in user may send PASS services=.. and SERVER and thereby turns into a services link that still has a   *)
(* nickname and channel memberships (its prefix becomes the server name). The recipient and privilege predicates  *)
(* are stated for clients and for proper links; they are not evaluated while such a hybrid session exists.        *)
HasHybrid(st) == \E x \in DOMAIN st.ss : st.ss[x].rid = 0 /\ st.ss[x].sv /\ st.ss[x].li

PropFailures(S, e, T, out, rec) ==
  LET F(p, name, ok) == IF ok THEN {} ELSE {<<p, name>>}
      (* the predicates below use tolerant lookups; only a nickname index that points outside the *)
      (* session table makes them meaningless                                                   *)
      okS == IndexResolves(S)
      okT == IndexResolves(T)
  IN
  StateInvFailures(T)
  \cup F("C14", "SessionLimitKept", LimitsKept(S, T))
  \cup F("C14", "ChannelLimitKept", ChannelLimitKept(S, T))
  \cup (IF okS /\ okT /\ ~rec.panic /\ ~HasHybrid(S) /\ ~HasHybrid(T)
        THEN F("C12", "RecipientsEntitled", RecipientsEntitled(S, T, e, out))
             \cup F("C12", "PrefixIsSender", PrefixIsSender(S, T, e, out))
             \cup PrivFailures(S, T, e, out)
        ELSE {})
  \cup (IF okS /\ ~rec.panic THEN F("C17", "EndedSessionGone", EndedGone(S, T)) ELSE {})
  \cup F("C06", "NoPanic", ~(rec.panic /\ rec.e.conf))
  \cup F("C01", "ReplicasAgree", rec.det = "")
  \cup F("C03", "SaveLoadInvisible", rec.snap = "")
  \cup F("C15", "OneLine", rec.lines = "")
  \cup F("C04", "ReplyIdsArePositions", rec.rids = "")
  \cup F("C01", "ReplyIdsArePositions", rec.rids = "")
  \cup F("C14", "PublicViewMatchesState", rec.view = "")
  \cup F("C17", "LookupSoundWhileLoading", rec.lkload = "")
  \cup F("C17", "LookupSound",
         \A k \in DOMAIN rec.lookup :
            LET id == rec.lookup[k][1]  ans == rec.lookup[k][2] IN
            ans = "skip" \/ ( /\ ans \in {"ok", "nosuch", "notyet"}
                              /\ (ans = "ok" <=> Sid(id, 0) \in DOMAIN T.ss)
                              /\ (ans = "nosuch" => (Sid(id, 0) \notin DOMAIN T.ss /\ id < rec.e.id))
                              /\ (id > rec.e.id => ans = "notyet") ))
=============================================================================
