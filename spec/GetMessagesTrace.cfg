\* C04 trace validation (repaired getMessages). Run with -workers 1 (TLCGet/TLCSet).
CONSTANTS
  Nodes = {1, 2}
  MaxBatches = 24
  MaxReplies = 4
  MaxReconnects = 100000
  Fixed = TRUE
  Hist = FALSE
SPECIFICATION TSpec
INVARIANTS
  TraceDeliveredIsPrefix
  CompleteAtQuiescence
POSTCONDITION Report
