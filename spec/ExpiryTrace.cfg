\* validation of one recorded scenario (files trace.ndjson, aux.ndjson next to the spec); workers = 1
SPECIFICATION Spec
CONSTANTS
    Interval = 10000
    Eps = 5
    ProposeSlack = 3000
    LogSlack = 500
    ClusterGap = 5000
    LiveBound = 45000
    Margin = 100
    DefaultExp = 600000
INVARIANT Mark
POSTCONDITION Post
CHECK_DEADLOCK FALSE
