SPECIFICATION Spec
CONSTANT NetName = "robustirc.net"
POSTCONDITION Accepted
CHECK_DEADLOCK FALSE
