\* C19 (root module TimeGuardMC): calls that measure 1..3 peers on a reduced
\* grid that keeps every class (accept; conservative refusal; refusal with a
\* truly bad clock; both signs; a non-zero start so that Start does not cancel
\* by accident).
SPECIFICATION Spec
CONSTANTS
    ET = 4
    Deltas <- SmallDeltas
    Delays <- SmallDelays
    Starts = {0, 7}
    MaxPeers = 3
INVARIANTS
    TypeOK
    Sound
    RefusalNamesOffenders
    DisabledNeverRefuses
    NonAnsweringIgnored
    ActionsAreDecision
CHECK_DEADLOCK FALSE
