\* transition cover, depth 1: every (prologue state, entry) pair is printed and replayed on the real server
SPECIFICATION Spec
CONSTANTS
  NetName = "robustirc.net"
  MaxN = 1
  Families = {"reg", "member", "mode", "talk", "oper", "services", "entry", "addr", "time"}
  Prologues = {1, 2, 3, 4, 5, 6, 7}
INVARIANT NoFailure
ACTION_CONSTRAINT EmitEdge
VIEW View
CHECK_DEADLOCK FALSE
