------------------------------- MODULE Lines -------------------------------
(***************************************************************************)
(* C15 -- every line sent to clients is a single well-formed IRC line.     *)
(*                                                                         *)
(* The byte pipeline of RobustIRC, transcribed as functions over strings   *)
(* of CHARACTER CLASSES (and a few atomic tokens that stand for fixed      *)
(* runs of ordinary bytes: command words, the names of the channel and of  *)
(* the other sessions, multi-byte runes):                                  *)
(*                                                                         *)
(*   client JSON body                                                      *)
(*     -> SanitisePost / SanitiseQuit   internal/api/postmessage.go,       *)
(*                                      internal/api/deletesession.go      *)
(*     -> raft log entry (robust.Message.Data)                             *)
(*     -> Parse                         irc.ParseMessage (sorcix/irc.v2)   *)
(*     -> Process / handlers            internal/ircserver ProcessMessage, *)
(*                                      cmd_*.go: which parameter is       *)
(*                                      copied into which reply            *)
(*     -> Encode                        irc.Message.Bytes: join, ':' rule, *)
(*                                      truncate at MaxLen                 *)
(*     -> Send                          ircserver.send: Data of the reply  *)
(*     -> Deliver                       GET .../messages: encoding/json    *)
(*                                      replaces every invalid UTF-8 byte  *)
(*                                      by U+FFFD (3 bytes)                *)
(*                                                                         *)
(* Invariant OneLine: every delivered line is at most MaxLen bytes, has no *)
(* CR, LF or NUL and matches  [":" prefix SP] command [SP params].         *)
(*                                                                         *)
(* The same operators are evaluated at two scales: scaled down (all fixed  *)
(* runs are 1-2 bytes, MaxLen small) for the exhaustive search of this     *)
(* module, and at real scale (MaxLen = 510, the real widths of names,      *)
(* command words and reply texts) by LinesTrace, which checks every        *)
(* request replayed on the real HTTP API against these functions.          *)
(*                                                                         *)
(* Three repairs are modelled as constants (TRUE / > 0 = repaired code,    *)
(* the behaviour the property needs; FALSE / 0 = the tree as read):        *)
(*   FixSanitise  both handlers cut at the first CR, LF or NUL (F13);      *)
(*                as read: POST cuts at LF only, DELETE does not cut       *)
(*   MaxUser      cmdUser cuts the user name to MaxUser bytes (F13b);      *)
(*                as read: unbounded, so the prefix alone can fill a line  *)
(*   FixUtf8      send() drops bytes that are not valid UTF-8 (F13c);      *)
(*                as read: Bytes() may cut a rune in half and the JSON     *)
(*                encoder expands the rest to U+FFFD, line > MaxLen        *)
(***************************************************************************)
EXTENDS Integers, Sequences, FiniteSets, SequencesExt, TLC, Json

CONSTANTS MaxLen, FixSanitise, MaxUser, FixUtf8

---------------------------------------------------------------------------
(* Symbols                                                                 *)

Classes == {"o", "SP", "COLON", "HASH", "CR", "LF", "NUL", "U2", "U3", "U4", "V"}
Ctl     == {"CR", "LF", "NUL"}
Runes   == {"E2", "E3", "E4"}                 \* one valid rune of 2, 3, 4 bytes
Names   == {"CHAN", "BOB", "SELF", "VIC", "NEWNICK"}
CmdWords == {"PRIVMSG", "NOTICE", "TOPIC", "KICK", "QUIT", "PART", "AWAY", "KNOCK", "USER",
             "NICK", "PING", "WHOIS", "WHO", "LIST", "JOIN", "INVITE", "KILL", "PASS", "SERVER"}
Symbols == Classes \cup Runes \cup Names \cup CmdWords

WordLen == [w \in CmdWords |->
    CASE w \in {"PRIVMSG"} -> 7
      [] w \in {"NOTICE", "INVITE", "SERVER"} -> 6
      [] w \in {"TOPIC", "KNOCK", "WHOIS"} -> 5
      [] w \in {"KICK", "QUIT", "PART", "AWAY", "USER", "NICK", "PING", "LIST", "JOIN", "KILL", "PASS"} -> 4
      [] w = "WHO" -> 3]

MinParams == [w \in CmdWords |->
    CASE w \in {"TOPIC", "PART", "KNOCK", "WHOIS", "JOIN"} -> 1
      [] w \in {"KICK", "INVITE", "KILL", "SERVER"} -> 2
      [] w = "USER" -> 3
      [] OTHER -> 0]

Rep(c, n) == [i \in 1..n |-> c]
O(n) == Rep("o", n)

(* An environment E gives the widths of the fixed parts:                   *)
(*   E.real   TRUE: real widths and reply texts; FALSE: everything 1 byte  *)
(*   E.self   width of the sender's nickname                              *)
(*   E.bob, E.vic, E.chan (incl. '#'), E.srv, E.host, E.bhost, E.vhost     *)
(*   E.buser, E.breal, E.vuser, E.vreal   class strings (other sessions)   *)
W(E, n) == IF E.real THEN n ELSE 1
Fx(E, n) == O(W(E, n))

\* reply text given as the widths of its words
Txt(E, ws) ==
    IF ~E.real THEN (IF Len(ws) > 1 THEN <<"o", "SP", "o">> ELSE <<"o">>)
    ELSE FoldLeft(LAMBDA acc, n : IF acc = <<>> THEN O(n) ELSE acc \o <<"SP">> \o O(n), <<>>, ws)

Exp1(E, y) ==
    CASE y \in Classes -> <<y>>
      [] y = "E2" -> <<"U2", "V">>
      [] y = "E3" -> <<"U3", "V", "V">>
      [] y = "E4" -> <<"U4", "V", "V", "V">>
      [] y = "CHAN" -> <<"HASH">> \o O(E.chan - 1)
      [] y = "BOB" -> O(E.bob)
      [] y = "SELF" -> O(E.self)
      [] y = "NEWNICK" -> O(E.self)
      [] y = "VIC" -> O(E.vic)
      [] y \in CmdWords -> O(IF E.real THEN WordLen[y] ELSE 2)

Exp(E, s) == FoldLeft(LAMBDA acc, y : acc \o Exp1(E, y), <<>>, s)
ByteLen(E, s) == Len(Exp(E, s))

---------------------------------------------------------------------------
(* The two HTTP handlers                                                   *)

First(s, S) == SelectInSeq(s, LAMBDA y : y \in S)
CutAt(s, S) == LET k == First(s, S) IN IF k = 0 THEN s ELSE SubSeq(s, 1, k - 1)

\* handlePostMessage: data = req.Data up to the first newline (as read)
SanitisePost(s) == IF FixSanitise THEN CutAt(s, Ctl) ELSE CutAt(s, {"LF"})
\* handleDeleteSession: Data = req.Quitmessage (as read: untouched)
SanitiseQuit(s) == IF FixSanitise THEN CutAt(s, Ctl) ELSE s

---------------------------------------------------------------------------
(* irc.ParseMessage                                                        *)

Nil == [nil |-> TRUE, cmd |-> <<>>, params |-> <<>>]

Trim(s) ==
    LET a == SelectInSeq(s, LAMBDA y : y \notin {"CR", "LF"})
        b == SelectLastInSeq(s, LAMBDA y : y \notin {"CR", "LF"})
    IN IF a = 0 THEN <<>> ELSE SubSeq(s, a, b)

\* strings.Split(s, " "): never empty, pieces may be empty
Split(s) ==
    LET r == FoldLeft(LAMBDA acc, y : IF y = "SP"
                                      THEN [done |-> Append(acc.done, acc.cur), cur |-> <<>>]
                                      ELSE [done |-> acc.done, cur |-> Append(acc.cur, y)],
                      [done |-> <<>>, cur |-> <<>>], s)
    IN Append(r.done, r.cur)

\* strings.Index(s, " :"), 1-based, 0 if absent
SpColon(s) ==
    IF Len(s) < 2 THEN 0
    ELSE SelectInSeq([i \in 1..(Len(s) - 1) |-> s[i] = "SP" /\ s[i + 1] = "COLON"], LAMBDA b : b)

Parse(E, data) ==
    LET raw == Trim(data) IN
    IF Len(raw) = 0 \/ (Len(raw) = 1 /\ Len(Exp1(E, raw[1])) < 2) THEN Nil     \* len(raw) < 2 bytes
    ELSE LET hasp == raw[1] = "COLON"
             k == First(raw, {"SP"})
         IN IF hasp /\ k < 3 THEN Nil            \* prefix must not be empty
            ELSE LET rest == IF hasp THEN SubSeq(raw, k + 1, Len(raw)) ELSE raw
                     s1 == First(rest, {"SP"})
                 IN IF s1 <= 1                   \* no space, or the command is empty: all of it is the command
                    THEN [nil |-> FALSE, cmd |-> rest, params |-> <<>>]
                    ELSE LET tail == SubSeq(rest, s1, Len(rest))     \* starts with the space
                             t == SpColon(tail)
                             cmd == SubSeq(rest, 1, s1 - 1)
                         IN IF t = 0
                            THEN [nil |-> FALSE, cmd |-> cmd, params |-> Split(SubSeq(tail, 2, Len(tail)))]
                            ELSE [nil |-> FALSE, cmd |-> cmd,
                                  params |-> (IF t > 2 THEN Split(SubSeq(tail, 2, t - 1)) ELSE <<>>)
                                             \o <<SubSeq(tail, t + 2, Len(tail))>>]

Trailing(m) == IF Len(m.params) > 0 THEN m.params[Len(m.params)] ELSE <<>>

---------------------------------------------------------------------------
(* irc.Message.Bytes, ircserver.send, JSON delivery                        *)

JoinSP(ps) == FoldLeft(LAMBDA acc, p : IF acc.first THEN [first |-> FALSE, s |-> p]
                                        ELSE [first |-> FALSE, s |-> acc.s \o <<"SP">> \o p],
                       [first |-> TRUE, s |-> <<>>], ps).s

Rng(s) == {s[i] : i \in DOMAIN s}

\* m = [hasp, p, c, a]: prefix present?, prefix bytes, command bytes, parameters (class strings)
Encode(m) ==
    LET n == Len(m.a)
        head == IF m.hasp THEN <<"COLON">> \o m.p \o <<"SP">> ELSE <<>>
        mid == IF n > 1 THEN <<"SP">> \o JoinSP(SubSeq(m.a, 1, n - 1)) ELSE <<>>
        tr == IF n > 0 THEN m.a[n] ELSE <<>>
        colon == Len(tr) < 1 \/ tr[1] = "COLON" \/ \E i \in DOMAIN tr : tr[i] = "SP"
        last == IF n > 0 THEN <<"SP">> \o (IF colon THEN <<"COLON">> ELSE <<>>) \o tr ELSE <<>>
        all == head \o m.c \o mid \o last
    IN IF Len(all) > MaxLen THEN SubSeq(all, 1, MaxLen) ELSE all

RuneLen(c) == CASE c = "U2" -> 2 [] c = "U3" -> 3 [] c = "U4" -> 4 [] OTHER -> 1

\* is byte i of l part of a complete rune? (what utf8.DecodeRune decides, byte by byte)
LeadOk(l, i) == /\ l[i] \in {"U2", "U3", "U4"}
                /\ i + RuneLen(l[i]) - 1 <= Len(l)
                /\ \A j \in 1..(RuneLen(l[i]) - 1) : l[i + j] = "V"
ByteOk(l, i) ==
    CASE l[i] \in {"U2", "U3", "U4"} -> LeadOk(l, i)
      [] l[i] = "V" -> \E d \in 1..3 : i - d >= 1 /\ LeadOk(l, i - d) /\ d < RuneLen(l[i - d])
      [] OTHER -> TRUE

HasHigh(l) == \E i \in DOMAIN l : l[i] \in {"U2", "U3", "U4", "V"}

\* strings.ToValidUTF8(s, ""): invalid bytes vanish
StripInvalid(l) ==
    IF ~HasHigh(l) THEN l
    ELSE FoldLeft(LAMBDA acc, i : IF ByteOk(l, i) THEN Append(acc, l[i]) ELSE acc, <<>>, [i \in DOMAIN l |-> i])
\* encoding/json: every invalid byte becomes U+FFFD = EF BF BD
ReplaceInvalid(l) ==
    IF ~HasHigh(l) THEN l
    ELSE FoldLeft(LAMBDA acc, i : IF ByteOk(l, i) THEN Append(acc, l[i]) ELSE acc \o <<"U3", "V", "V">>,
                  <<>>, [i \in DOMAIN l |-> i])

\* cmdUser with the repaired length limit: cut to MaxUser bytes, a rune cut in half is dropped
CutUser(u) == IF MaxUser > 0 /\ Len(u) > MaxUser THEN StripInvalid(SubSeq(u, 1, MaxUser)) ELSE u

Send(m) == IF FixUtf8 THEN StripInvalid(Encode(m)) ELSE Encode(m)      \* Replyctx.Messages[*].Data
Deliver(l) == ReplaceInvalid(l)                                          \* Data in GET .../messages

---------------------------------------------------------------------------
(* The property                                                            *)

AllO(s) == s # <<>> /\ \A i \in DOMAIN s : s[i] = "o"

\* [ ":" prefix SP ] command [ SP ... ]  -- command non-empty, ordinary bytes only
WellFormed(l) ==
    /\ l # <<>>
    /\ IF l[1] = "COLON"
       THEN LET k == First(l, {"SP"}) IN
            /\ k >= 3
            /\ LET rest == SubSeq(l, k + 1, Len(l))
                   e == First(rest, {"SP"})
               IN AllO(IF e = 0 THEN rest ELSE SubSeq(rest, 1, e - 1))
       ELSE LET e == First(l, {"SP"}) IN AllO(IF e = 0 THEN l ELSE SubSeq(l, 1, e - 1))

OneLineOk(l) == /\ Len(l) <= MaxLen
                /\ \A i \in DOMAIN l : l[i] \notin Ctl
                /\ WellFormed(l)

---------------------------------------------------------------------------
(* ircserver.ProcessMessage and the handlers: who gets which line          *)

(* Sender state st:                                                        *)
(*  reg, oper, inchan, chanop   the sender: registered / IRC operator /    *)
(*                              member / channel operator of the channel   *)
(*  bobin, vicin, vic           the other session is a member; the victim  *)
(*                              session exists / is a member               *)
(*  invite                      the channel is +i                          *)
(*  user, real, away            stored USER / AWAY parameters (classes)    *)
(*  tset, topic                 a topic is set; its text                   *)
(*  gone                        the sender's session was deleted           *)

Init0 == [reg |-> FALSE, oper |-> FALSE, inchan |-> FALSE, chanop |-> FALSE, bobin |-> TRUE,
          vic |-> FALSE, vicin |-> FALSE, invite |-> FALSE, user |-> <<>>, real |-> <<>>, away |-> <<>>,
          tset |-> FALSE, topic |-> <<>>, gone |-> FALSE, hasnick |-> FALSE]

Nick(E, st) == IF st.reg \/ st.hasnick THEN O(E.self) ELSE <<>>
UserPfx(E, st) == Nick(E, st) \o (IF st.user # <<>> THEN <<"o">> \o st.user ELSE <<>>) \o <<"o">> \o O(E.host)

NameLen(name) == IF name \in CmdWords THEN WordLen[name] ELSE IF name = "ERROR" \/ name = "SJOIN" THEN 5
                 ELSE IF name = "PONG" \/ name = "MODE" THEN 4 ELSE 3

\* one reply: to whom (set of "self", "other", "vic"), its name, the message
Srv(E, to, name, params) ==
    [to |-> to, name |-> name, m |-> [hasp |-> TRUE, p |-> O(E.srv), c |-> Fx(E, NameLen(name)), a |-> params]]
Usr(E, st, to, name, params) ==
    [to |-> to, name |-> name, m |-> [hasp |-> TRUE, p |-> UserPfx(E, st), c |-> Fx(E, NameLen(name)), a |-> params]]
Bare(E, to, name, params) ==
    [to |-> to, name |-> name, m |-> [hasp |-> FALSE, p |-> <<>>, c |-> Fx(E, NameLen(name)), a |-> params]]

Members(st) == (IF st.inchan /\ ~st.gone THEN {"self"} ELSE {}) \cup (IF st.bobin THEN {"other"} ELSE {})
               \cup (IF st.vicin THEN {"vic"} ELSE {})

IsChan(p) == p = <<"CHAN">>
TrimSP(s) ==
    LET a == SelectInSeq(s, LAMBDA y : y \notin {"SP", "CR", "LF"})
        b == SelectLastInSeq(s, LAMBDA y : y \notin {"SP", "CR", "LF"})
    IN IF a = 0 THEN <<>> ELSE SubSeq(s, a, b)

Res(st, out) == [st |-> st, out |-> out]


Privmsg(E, st, w, msg) ==
    LET N == Nick(E, st)  n == Len(msg.params)  p == msg.params IN
    IF n < 1 THEN Res(st, <<Srv(E, {"self"}, "411", <<N, Txt(E, <<2, 9, 5, WordLen[w] + 2>>)>>)>>)
    ELSE IF n < 2 THEN Res(st, <<Srv(E, {"self"}, "412", <<N, Txt(E, <<2, 4, 2, 4>>)>>)>>)
    ELSE IF Exp(E, p[1]) # <<>> /\ Exp(E, p[1])[1] = "HASH"
         THEN IF ~IsChan(p[1]) THEN Res(st, <<Srv(E, {"self"}, "403", <<N, Exp(E, p[1]), Txt(E, <<2, 4, 7>>)>>)>>)
              ELSE IF ~st.inchan THEN Res(st, <<Srv(E, {"self"}, "404", <<N, Exp(E, <<"CHAN">>), Txt(E, <<6, 4, 2, 7>>)>>)>>)
              ELSE Res(st, <<Usr(E, st, Members(st) \ {"self"}, w, <<Exp(E, p[1]), Exp(E, Trailing(msg))>>)>>)
    ELSE IF p[1] = <<"BOB">> THEN Res(st, <<Usr(E, st, {"other"}, w, <<Exp(E, p[1]), Exp(E, Trailing(msg))>>)>>)
    ELSE IF p[1] = <<"VIC">> /\ st.vic THEN Res(st, <<Usr(E, st, {"vic"}, w, <<Exp(E, p[1]), Exp(E, Trailing(msg))>>)>>)
    ELSE IF p[1] = <<"SELF">>
         THEN Res(st, <<Usr(E, st, {"self"}, w, <<Exp(E, p[1]), Exp(E, Trailing(msg))>>)>>
                      \o (IF st.away # <<>> /\ w = "PRIVMSG"
                          THEN <<Srv(E, {"self"}, "301", <<N, Exp(E, p[1]), st.away>>)>> ELSE <<>>))
    ELSE Res(st, <<Srv(E, {"self"}, "401", <<N, Exp(E, p[1]), Txt(E, <<2, 4, 12>>)>>)>>)

Topic(E, st, msg) ==
    LET N == Nick(E, st)  n == Len(msg.params)  p == msg.params  c == Exp(E, p[1])
        noop == Srv(E, {"self"}, "482", <<N, c, Txt(E, <<6, 3, 7, 8>>)>>)
    IN
    IF ~IsChan(p[1]) THEN Res(st, <<Srv(E, {"self"}, "403", <<N, c, Txt(E, <<2, 4, 7>>)>>)>>)
    ELSE IF ~st.inchan THEN Res(st, <<Srv(E, {"self"}, "442", <<N, c, Txt(E, <<6, 3, 2, 4, 7>>)>>)>>)
    ELSE IF Trailing(msg) = <<>> /\ n = 2
         THEN IF ~st.chanop THEN Res(st, <<noop>>)
              ELSE Res([st EXCEPT !.tset = FALSE, !.topic = <<>>], <<Usr(E, st, Members(st), "TOPIC", <<c, <<>>>>)>>)
    ELSE IF n = 1
         THEN IF ~st.tset THEN Res(st, <<Srv(E, {"self"}, "331", <<N, c, Txt(E, <<2, 5, 2, 3>>)>>)>>)
              ELSE Res(st, <<Srv(E, {"self"}, "332", <<N, c, st.topic>>),
                             Srv(E, {"self"}, "333", <<N, c, N, Fx(E, 10)>>)>>)
    ELSE IF ~st.chanop THEN Res(st, <<noop>>)
    ELSE Res([st EXCEPT !.tset = TRUE, !.topic = Exp(E, Trailing(msg))],
             <<Usr(E, st, Members(st), "TOPIC", <<c, Exp(E, Trailing(msg))>>)>>)

Kick(E, st, msg) ==
    LET N == Nick(E, st)  p == msg.params  c == Exp(E, p[1]) IN
    IF ~IsChan(p[1]) THEN Res(st, <<Srv(E, {"self"}, "403", <<N, c, Txt(E, <<2, 4, 12>>)>>)>>)
    ELSE IF ~st.inchan THEN Res(st, <<Srv(E, {"self"}, "442", <<N, c, Txt(E, <<6, 3, 2, 4, 7>>)>>)>>)
    ELSE IF ~st.chanop THEN Res(st, <<Srv(E, {"self"}, "482", <<N, c, Txt(E, <<6, 3, 7, 8>>)>>)>>)
    ELSE IF p[2] = <<"BOB">> /\ st.bobin
         THEN Res([st EXCEPT !.bobin = FALSE],
                  <<Usr(E, st, Members(st), "KICK", <<c, Exp(E, p[2]), Exp(E, Trailing(msg))>>)>>)
    ELSE IF p[2] = <<"SELF">>
         THEN Res([st EXCEPT !.inchan = FALSE, !.chanop = FALSE],
                  <<Usr(E, st, Members(st), "KICK", <<c, Exp(E, p[2]), Exp(E, Trailing(msg))>>)>>)
    ELSE Res(st, <<Srv(E, {"self"}, "441", <<N, Exp(E, p[2]), c, Txt(E, <<4, 6, 2, 4, 7>>)>>)>>)

Quit(E, st, msg) ==
    LET N == Nick(E, st)  t == Exp(E, Trailing(msg)) IN
    IF ~st.reg THEN Res([st EXCEPT !.gone = TRUE], <<>>)
    ELSE Res([st EXCEPT !.gone = TRUE, !.inchan = FALSE],
             <<Usr(E, st, IF st.inchan THEN Members(st) \ {"self"} ELSE {}, "QUIT", <<t>>),
               Bare(E, {"self"}, "ERROR",
                    <<(IF E.real THEN O(7) \o <<"SP">> \o O(4) \o <<"COLON", "SP">> ELSE <<"o", "COLON", "SP">>)
                      \o N \o <<"o">> \o O(E.host) \o <<"o", "SP", "o">> \o t \o <<"o">>>>)>>)

Part(E, st, msg) ==
    LET N == Nick(E, st)  p == msg.params  c == Exp(E, p[1]) IN
    IF ~IsChan(p[1]) THEN Res(st, <<Srv(E, {"self"}, "403", <<N, c, Txt(E, <<2, 4, 7>>)>>)>>)
    ELSE IF ~st.inchan THEN Res(st, <<Srv(E, {"self"}, "442", <<N, c, Txt(E, <<6, 3, 2, 4, 7>>)>>)>>)
    ELSE Res([st EXCEPT !.inchan = FALSE, !.chanop = FALSE], <<Usr(E, st, Members(st), "PART", <<c>>)>>)

Away(E, st, msg) ==
    LET N == Nick(E, st)  a == Exp(E, TrimSP(Trailing(msg))) IN
    IF a # <<>> THEN Res([st EXCEPT !.away = a], <<Srv(E, {"self"}, "306", <<N, Txt(E, <<3, 4, 4, 6, 2, 5, 4>>)>>)>>)
    ELSE Res([st EXCEPT !.away = <<>>], <<Srv(E, {"self"}, "305", <<N, Txt(E, <<3, 3, 2, 6, 6, 2, 5, 4>>)>>)>>)

Knock(E, st, msg) ==
    LET N == Nick(E, st)  p == msg.params  c == Exp(E, p[1])
        reason == IF Len(p) > 1 THEN Exp(E, JoinSP(SubSeq(p, 2, Len(p)))) ELSE Txt(E, <<2, 6, 9>>)
        cannot(ws) == (IF E.real THEN Txt(E, <<6, 5, 2>>) \o <<"SP">> ELSE <<"o", "SP">>) \o c \o <<"SP", "o">> \o Txt(E, ws) \o <<"o">>
    IN
    IF ~IsChan(p[1]) THEN Res(st, <<Srv(E, {"self"}, "480", <<N, cannot(<<7, 4, 3, 5>>)>>)>>)
    ELSE IF ~st.invite THEN Res(st, <<Srv(E, {"self"}, "480", <<N, cannot(<<7, 2, 3, 6, 4>>)>>)>>)
    ELSE Res(st, <<Srv(E, Members(st), "NOTICE",
                       <<Exp(E, <<"CHAN">>), (IF E.real THEN O(7) \o <<"SP">> \o O(2) \o <<"SP">> ELSE <<"o", "SP">>)
                                              \o UserPfx(E, st) \o <<"SP", "o">> \o reason \o <<"o">>>>),
                   Srv(E, {"self"}, "NOTICE", <<N, (IF E.real THEN Txt(E, <<7, 2>>) \o <<"SP">> ELSE <<"o", "SP">>) \o Exp(E, <<"CHAN">>)>>)>>)

User(E, st, msg) ==
    LET u == CutUser(Exp(E, msg.params[1]))
        st2 == [st EXCEPT !.user = u, !.real = Exp(E, Trailing(msg))]
    IN Res(IF ~st.reg /\ st.hasnick /\ u # <<>> THEN [st2 EXCEPT !.reg = TRUE] ELSE st2, <<>>)   \* login burst not modelled

NickCmd(E, st, msg) ==
    LET N == Nick(E, st)  p == msg.params  dest == IF st.reg THEN N ELSE <<"o">>
        nick == IF Len(p) > 0 THEN p[1] ELSE <<>> IN
    IF nick = <<>> THEN Res(st, <<Srv(E, {"self"}, "431", <<Txt(E, <<2, 8, 5>>)>>)>>)
    ELSE IF nick = <<"NEWNICK">>                                   \* a free, valid nickname (set-up steps only)
         THEN Res(IF st.user # <<>> THEN [st EXCEPT !.hasnick = TRUE, !.reg = TRUE] ELSE [st EXCEPT !.hasnick = TRUE], <<>>)
    ELSE IF nick = <<"BOB">> THEN Res(st, <<Srv(E, {"self"}, "433", <<dest, Exp(E, nick), Txt(E, <<8, 2, 7, 2, 3>>)>>)>>)
    \* every other nickname the frames can spell is invalid (the replay driver draws the ordinary bytes of
    \* NICK frames from characters that are not allowed in nicknames)
    ELSE Res(st, <<Srv(E, {"self"}, "432", <<dest, Exp(E, nick), Txt(E, <<9, 8>>)>>)>>)

Ping(E, st, msg) ==
    LET N == Nick(E, st) IN
    IF Len(msg.params) < 1 THEN Res(st, <<Srv(E, {"self"}, "409", <<N, Txt(E, <<2, 6, 9>>)>>)>>)
    ELSE Res(st, <<Srv(E, {"self"}, "PONG", <<Exp(E, msg.params[1])>>)>>)

Whois(E, st, msg) ==
    LET N == Nick(E, st)  p == msg.params
        block(nk, user, host, real, chans, oper, away, idle) ==
            <<Srv(E, {"self"}, "311", <<N, nk, user, host, <<"o">>, real>>)>>
            \o (IF chans # <<>> THEN <<Srv(E, {"self"}, "319", <<N, nk, chans>>)>> ELSE <<>>)
            \o <<Srv(E, {"self"}, "312", <<N, nk, O(E.srv), Fx(E, 9)>>)>>
            \o (IF oper THEN <<Srv(E, {"self"}, "313", <<N, nk, Txt(E, <<2, 2, 3, 8>>)>>)>> ELSE <<>>)
            \o (IF away # <<>> THEN <<Srv(E, {"self"}, "301", <<N, nk, away>>)>> ELSE <<>>)
            \o <<Srv(E, {"self"}, "317", <<N, nk, idle, Fx(E, 10), Txt(E, <<7, 5, 6, 4>>)>>),
                 Srv(E, {"self"}, "318", <<N, nk, Txt(E, <<3, 2, 6, 4>>)>>)>>
    IN
    IF p[1] = <<"SELF">>
    THEN Res(st, block(N, st.user, O(E.host), st.real,
                       IF st.inchan THEN (IF st.chanop THEN <<"o">> ELSE <<>>) \o Exp(E, <<"CHAN">>) ELSE <<>>,
                       st.oper, st.away, <<"o">>))
    ELSE IF p[1] = <<"BOB">>
    THEN Res(st, block(O(E.bob), E.buser, O(E.bhost), E.breal,
                       IF st.bobin THEN (IF E.bobop THEN <<"o">> ELSE <<>>) \o Exp(E, <<"CHAN">>) ELSE <<>>,
                       FALSE, <<>>, <<"o">>))
    ELSE Res(st, <<Srv(E, {"self"}, "401", <<N, Exp(E, p[1]), Txt(E, <<2, 4, 12>>)>>)>>)

Who(E, st, msg) ==
    LET N == Nick(E, st)  p == msg.params
        row(c, user, host, nk, gone, real) ==
            Srv(E, {"self"}, "352", <<N, c, user, host, O(E.srv), nk, <<"o">>, <<"o", "SP">> \o real>>)
    IN
    IF Len(p) < 1 THEN Res(st, <<Srv(E, {"self"}, "315", <<N, Txt(E, <<3, 2, 4, 4>>)>>)>>)
    ELSE LET c == Exp(E, p[1])  last == Srv(E, {"self"}, "315", <<N, c, Txt(E, <<3, 2, 4, 4>>)>>) IN
         IF ~IsChan(p[1]) THEN Res(st, <<last>>)
         ELSE Res(st, (IF st.bobin THEN <<row(c, E.buser, O(E.bhost), O(E.bob), FALSE, E.breal)>> ELSE <<>>)
                      \o (IF st.inchan THEN <<row(c, st.user, O(E.host), N, st.away # <<>>, st.real)>> ELSE <<>>)
                      \o (IF st.vicin THEN <<row(c, E.vuser, O(E.vhost), O(E.vic), FALSE, E.vreal)>> ELSE <<>>)
                      \o <<last>>)

List(E, st, msg) ==
    LET N == Nick(E, st)  p == msg.params
        f == IF Len(p) > 0 THEN TrimSP(p[1]) ELSE <<>>
        row == Srv(E, {"self"}, "322", <<N, Exp(E, <<"CHAN">>), <<"o">>, st.topic>>)
        e == Srv(E, {"self"}, "323", <<N, Txt(E, <<3, 2, 4>>)>>)
    IN IF f = <<>> \/ f = <<"CHAN">> THEN Res(st, <<row, e>>) ELSE Res(st, <<e>>)

Join(E, st, msg) ==
    LET N == Nick(E, st)  p == msg.params IN
    IF ~IsChan(p[1]) THEN Res(st, <<Srv(E, {"self"}, "403", <<N, Exp(E, p[1]), Txt(E, <<2, 4, 7>>)>>)>>)  \* the driver posts invalid names only
    ELSE IF st.inchan THEN Res(st, <<>>)
    ELSE IF st.invite THEN Res(st, <<Srv(E, {"self"}, "473", <<N, Exp(E, <<"CHAN">>), Txt(E, <<6, 4, 7, 4>>)>>)>>)
    ELSE LET st2 == [st EXCEPT !.inchan = TRUE] IN
         Res(st2, <<Usr(E, st, Members(st2), "JOIN", <<Exp(E, p[1])>>)>>)       \* + MODE/TOPIC/NAMES replies, not modelled

Invite(E, st, msg) ==
    LET N == Nick(E, st)  p == msg.params IN
    IF ~IsChan(p[2]) \/ ~st.inchan THEN Res(st, <<Srv(E, {"self"}, "442", <<N, Exp(E, p[2]), Txt(E, <<6, 3, 2, 4, 7>>)>>)>>)
    ELSE IF p[1] = <<"BOB">> /\ st.bobin
         THEN Res(st, <<Srv(E, {"self"}, "443", <<N, O(E.bob), Exp(E, <<"CHAN">>), Txt(E, <<2, 7, 2, 7>>)>>)>>)
    ELSE IF p[1] = <<"SELF">>
         THEN Res(st, <<Srv(E, {"self"}, "443", <<N, N, Exp(E, <<"CHAN">>), Txt(E, <<2, 7, 2, 7>>)>>)>>)
    ELSE Res(st, <<Srv(E, {"self"}, "401", <<N, Exp(E, p[1]), Txt(E, <<2, 4, 12>>)>>)>>)

Kill(E, st, msg) ==
    LET N == Nick(E, st)  p == msg.params  t == Exp(E, Trailing(msg)) IN
    IF ~st.oper THEN Res(st, <<Srv(E, {"self"}, "481", <<N, Txt(E, <<10, 6, 1, 6, 3, 2, 3, 8>>)>>)>>)
    ELSE IF p[1] = <<"VIC">> /\ st.vic
    THEN LET vp == O(E.vic) \o <<"o">> \o E.vuser \o <<"o">> \o O(E.vhost)
             st2 == [st EXCEPT !.vic = FALSE, !.vicin = FALSE] IN
         Res(st2,
             <<[to |-> IF st.vicin THEN Members(st2) ELSE {}, name |-> "QUIT",
                m |-> [hasp |-> TRUE, p |-> vp, c |-> Fx(E, 4),
                       a |-> <<(IF E.real THEN Txt(E, <<6, 2>>) \o <<"SP">> ELSE <<"o", "SP">>) \o N \o <<"COLON", "SP">> \o t>>]],
               Usr(E, st, {"vic"}, "KILL", <<O(E.vic), (IF E.real THEN O(5) ELSE <<"o">>) \o O(E.host) \o <<"o">> \o N \o <<"SP", "o">> \o t \o <<"o">>>>),
               Bare(E, {"vic"}, "ERROR",
                    <<(IF E.real THEN O(7) \o <<"SP">> \o O(4) \o <<"COLON", "SP">> ELSE <<"o", "COLON", "SP">>)
                      \o O(E.vic) \o <<"o">> \o O(E.vhost) \o <<"o", "SP">>
                      \o (IF E.real THEN O(7) \o <<"SP", "o">> ELSE <<"o", "SP", "o">>) \o N \o <<"SP", "o">> \o t \o <<"o", "o", "o">>>>)>>)
    ELSE Res(st, <<Srv(E, {"self"}, "401", <<N, Exp(E, p[1]), Txt(E, <<2, 4, 12>>)>>)>>)

Server(E, st, msg) == Res(st, <<Bare(E, {"self"}, "ERROR", <<Txt(E, <<7, 8>>)>>)>>)      \* "Invalid password"

Handle(E, st, w, msg) ==
    CASE w \in {"PRIVMSG", "NOTICE"} -> Privmsg(E, st, w, msg)
      [] w = "TOPIC" -> Topic(E, st, msg)
      [] w = "KICK" -> Kick(E, st, msg)
      [] w = "QUIT" -> Quit(E, st, msg)
      [] w = "PART" -> Part(E, st, msg)
      [] w = "AWAY" -> Away(E, st, msg)
      [] w = "KNOCK" -> Knock(E, st, msg)
      [] w = "USER" -> User(E, st, msg)
      [] w = "NICK" -> NickCmd(E, st, msg)
      [] w = "PING" -> Ping(E, st, msg)
      [] w = "WHOIS" -> Whois(E, st, msg)
      [] w = "WHO" -> Who(E, st, msg)
      [] w = "LIST" -> List(E, st, msg)
      [] w = "JOIN" -> Join(E, st, msg)
      [] w = "INVITE" -> Invite(E, st, msg)
      [] w = "KILL" -> Kill(E, st, msg)
      [] w = "PASS" -> Res(st, <<>>)
      [] w = "SERVER" -> Server(E, st, msg)

\* ircserver.ProcessMessage (the ban gate is out of scope: the peer address never changes)
Process(E, st, msg) ==
    LET N == Nick(E, st) IN
    IF st.gone THEN Res(st, <<>>)                               \* FSM gate: unknown session, entry dropped
    ELSE IF msg.nil THEN Res(st, <<Srv(E, {"self"}, "421", <<N, Txt(E, <<7, 7>>)>>)>>)
    ELSE LET known == Len(msg.cmd) = 1 /\ msg.cmd[1] \in CmdWords
             w == msg.cmd[1] IN
         IF ~st.reg /\ ~(known /\ w \in {"NICK", "USER", "PASS", "QUIT", "SERVER"})
         THEN Res(st, <<Srv(E, {"self"}, "451", <<Exp(E, msg.cmd), Txt(E, <<3, 4, 3, 10>>)>>)>>)
         ELSE IF ~known THEN Res(st, <<Srv(E, {"self"}, "421", <<N, Exp(E, msg.cmd), Txt(E, <<7, 7>>)>>)>>)
         ELSE IF Len(msg.params) < MinParams[w]
              THEN Res(st, <<Srv(E, {"self"}, "461", <<N, Exp(E, msg.cmd), Txt(E, <<3, 6, 10>>)>>)>>)
         ELSE Handle(E, st, w, msg)

(* One step of a session's life, as the API sees it:                       *)
(*  [op |-> "post", data]     POST .../message; body within 2048 bytes     *)
(*  [op |-> "big", data]      POST whose JSON body exceeds 2048 bytes: 400 *)
(*  [op |-> "delete", data]   DELETE with Quitmessage = data               *)
(*  [op |-> "otherjoin"]      the other session (re)joins the channel      *)
(*  [op |-> "vicjoin"]        a victim session logs in and joins           *)

\* the HTTP handler: what is proposed to raft (Data of the log entry), if anything
ToEntry(step) ==
    CASE step.op = "post" -> [op |-> "post", data |-> SanitisePost(step.data)]
      [] step.op = "delete" -> [op |-> "delete", data |-> SanitiseQuit(step.data)]
      [] step.op = "big" -> [op |-> "none", data |-> <<>>]
      [] OTHER -> [op |-> step.op, data |-> <<>>]

\* FSM.Apply of one entry (statemachine.go applyRobustMessage)
RunEntry(E, st, e) ==
    CASE e.op = "post" -> Process(E, st, Parse(E, e.data))
      [] e.op = "delete" -> IF st.gone THEN Res(st, <<>>)
                            ELSE Process(E, st, Parse(E, <<"QUIT", "SP", "COLON">> \o e.data))   \* "QUIT :" + Data
      [] e.op = "otherjoin" -> Res([st EXCEPT !.bobin = TRUE], <<>>)
      [] e.op = "vicjoin" -> Res([st EXCEPT !.vic = TRUE, !.vicin = TRUE], <<>>)
      [] OTHER -> Res(st, <<>>)

RunStep(E, st, step) == RunEntry(E, st, ToEntry(step))

\* send() for every reply, then GET .../messages
Delivered(out) == [i \in DOMAIN out |-> [to |-> out[i].to, name |-> out[i].name, line |-> Deliver(Send(out[i].m))]]

---------------------------------------------------------------------------
(* Exhaustive search at small scale.                                       *)
(*                                                                         *)
(* A client input is  pre \o x \o post  for a frame (pre, post) that puts  *)
(* the free string x into one syntactic position of one command, posted    *)
(* from one of the sender states (kinds), followed by the frame's canned   *)
(* follow-up requests that make the server replay stored text (TOPIC,      *)
(* AWAY, USER). TLC enumerates every x over the frame's alphabet up to     *)
(* MaxX symbols. The same frames drive the replay on the real HTTP API     *)
(* (checks/c15.py reads them from TLC's output).                           *)

CONSTANTS MaxX

SmallE == [real |-> FALSE, self |-> 1, bob |-> 1, vic |-> 1, chan |-> 2, srv |-> 1, host |-> 1, bhost |-> 1,
           vhost |-> 1, buser |-> <<"o">>, breal |-> <<"o">>, vuser |-> <<"o">>, vreal |-> <<"o">>, bobop |-> TRUE]

Base == {"o", "SP", "COLON", "HASH", "CR", "LF", "NUL", "E2"}
Alpha == [base |-> Base, chanbob |-> Base \cup {"CHAN", "BOB"}, all |-> Base \cup {"CHAN", "BOB", "SELF"}]
AllAlpha == Alpha["all"]

Kinds == {"unreg", "reg", "oper", "knock"}
Member0 == [Init0 EXCEPT !.reg = TRUE, !.hasnick = TRUE, !.inchan = TRUE, !.user = <<"o">>, !.real = <<"o">>]
KindState(k) ==
    CASE k = "unreg" -> Init0
      [] k = "reg" -> Member0
      [] k = "oper" -> [Member0 EXCEPT !.oper = TRUE, !.chanop = TRUE, !.vic = TRUE, !.vicin = TRUE]
      [] k = "knock" -> [Member0 EXCEPT !.invite = TRUE]

P(s) == [op |-> "post", data |-> s]
Reset == P(<<"USER", "SP", "o", "SP", "o", "SP", "o", "SP", "o">>)
Say == P(<<"PRIVMSG", "SP", "CHAN", "SP", "COLON", "o">>)
F(id, kinds, alpha, op, pre, post, follow) ==
    [id |-> id, kinds |-> kinds, alpha |-> alpha, op |-> op, pre |-> pre, post |-> post, follow |-> follow]

Frames == <<
  F("raw",        Kinds,                    "base",    "post", <<>>, <<>>, <<>>),
  F("pfx",        Kinds,                    "base",    "post", <<"COLON", "o", "SP">>, <<>>, <<>>),
  F("pfxcmd",     {"reg"},                  "base",    "post", <<"COLON", "o", "SP", "PRIVMSG", "SP", "CHAN", "SP">>, <<>>, <<>>),
  F("privmsg",    {"unreg", "reg"},         "all",     "post", <<"PRIVMSG">>, <<>>, <<>>),
  F("privmsg-c",  {"reg", "oper"},          "base",    "post", <<"PRIVMSG", "SP", "CHAN", "SP">>, <<>>, <<>>),
  F("privmsg-ct", {"reg"},                  "base",    "post", <<"PRIVMSG", "SP", "CHAN", "SP", "COLON">>, <<>>, <<>>),
  F("privmsg-bt", {"reg"},                  "base",    "post", <<"PRIVMSG", "SP", "BOB", "SP", "COLON">>, <<>>, <<>>),
  F("notice-ct",  {"reg"},                  "base",    "post", <<"NOTICE", "SP", "CHAN", "SP", "COLON">>, <<>>, <<>>),
  F("privmsg-t",  {"reg"},                  "base",    "post", <<"PRIVMSG", "SP">>, <<"SP", "COLON", "o">>, <<>>),
  F("topic",      {"reg", "oper"},          "chanbob", "post", <<"TOPIC">>, <<>>, <<P(<<"TOPIC", "SP", "CHAN">>)>>),
  F("topic-c",    {"oper"},                 "base",    "post", <<"TOPIC", "SP", "CHAN", "SP">>, <<>>, <<P(<<"TOPIC", "SP", "CHAN">>), P(<<"LIST">>)>>),
  F("topic-ct",   {"reg", "oper"},          "base",    "post", <<"TOPIC", "SP", "CHAN", "SP", "COLON">>, <<>>, <<P(<<"TOPIC", "SP", "CHAN">>), P(<<"LIST">>)>>),
  F("kick",       {"reg", "oper"},          "chanbob", "post", <<"KICK">>, <<>>, <<[op |-> "otherjoin"]>>),
  F("kick-c",     {"oper"},                 "chanbob", "post", <<"KICK", "SP", "CHAN", "SP">>, <<>>, <<[op |-> "otherjoin"]>>),
  F("kick-cbt",   {"reg", "oper"},          "base",    "post", <<"KICK", "SP", "CHAN", "SP", "BOB", "SP", "COLON">>, <<>>, <<[op |-> "otherjoin"]>>),
  F("part",       {"reg"},                  "chanbob", "post", <<"PART">>, <<>>, <<P(<<"JOIN", "SP", "CHAN">>)>>),
  F("part-ct",    {"reg"},                  "base",    "post", <<"PART", "SP", "CHAN", "SP", "COLON">>, <<>>, <<P(<<"JOIN", "SP", "CHAN">>)>>),
  F("away",       {"reg"},                  "base",    "post", <<"AWAY">>, <<>>,
                  <<P(<<"WHOIS", "SP", "SELF">>), P(<<"PRIVMSG", "SP", "SELF", "SP", "COLON", "o">>), P(<<"WHO", "SP", "CHAN">>), P(<<"AWAY">>)>>),
  F("away-t",     {"reg"},                  "base",    "post", <<"AWAY", "SP", "COLON">>, <<>>,
                  <<P(<<"WHOIS", "SP", "SELF">>), P(<<"PRIVMSG", "SP", "SELF", "SP", "COLON", "o">>), P(<<"AWAY">>)>>),
  F("knock",      {"reg", "knock"},         "all",     "post", <<"KNOCK">>, <<>>, <<>>),
  F("knock-c",    {"reg", "knock"},         "base",    "post", <<"KNOCK", "SP", "CHAN", "SP">>, <<>>, <<>>),
  F("knock-ct",   {"knock"},                "base",    "post", <<"KNOCK", "SP", "CHAN", "SP", "COLON">>, <<>>, <<>>),
  F("user",       {"unreg", "reg"},         "base",    "post", <<"USER">>, <<>>, <<Say, Reset>>),
  F("user-u",     {"unreg", "reg", "oper", "knock"}, "base", "post", <<"USER", "SP">>, <<"SP", "o", "SP", "o", "SP", "COLON", "o">>,
                  <<Say, P(<<"WHOIS", "SP", "SELF">>), P(<<"WHO", "SP", "CHAN">>), P(<<"TOPIC", "SP", "CHAN", "SP", "COLON", "o">>),
                    P(<<"KNOCK", "SP", "CHAN">>), Reset>>),
  F("user-r",     {"reg"},                  "base",    "post", <<"USER", "SP", "o", "SP", "o", "SP", "o", "SP", "COLON">>, <<>>,
                  <<P(<<"WHOIS", "SP", "SELF">>), P(<<"WHO", "SP", "CHAN">>), Reset>>),
  F("nick",       {"unreg", "reg"},         "base",    "post", <<"NICK">>, <<>>, <<>>),
  F("nick-p",     {"unreg", "reg"},         "base",    "post", <<"NICK", "SP">>, <<>>, <<>>),
  F("nick-b",     {"unreg", "reg"},         "base",    "post", <<"NICK", "SP", "BOB">>, <<>>, <<>>),
  F("ping",       {"reg"},                  "all",     "post", <<"PING">>, <<>>, <<>>),
  F("whois",      {"reg"},                  "all",     "post", <<"WHOIS">>, <<>>, <<>>),
  F("who",        {"reg"},                  "all",     "post", <<"WHO">>, <<>>, <<>>),
  F("list",       {"reg"},                  "all",     "post", <<"LIST">>, <<>>, <<>>),
  F("invite",     {"reg"},                  "all",     "post", <<"INVITE">>, <<>>, <<>>),
  F("invite-c",   {"reg"},                  "all",     "post", <<"INVITE", "SP">>, <<"SP", "CHAN">>, <<>>),
  F("kill",       {"reg", "oper"},          "base",    "post", <<"KILL">>, <<>>, <<>>),
  F("kill-vt",    {"oper"},                 "base",    "post", <<"KILL", "SP", "VIC", "SP", "COLON">>, <<>>, <<[op |-> "vicjoin"]>>),
  F("pass",       {"unreg", "reg"},         "base",    "post", <<"PASS">>, <<>>, <<>>),
  F("server",     {"unreg", "reg"},         "base",    "post", <<"SERVER">>, <<>>, <<>>),
  F("quit-t",     {"unreg", "reg"},         "base",    "post", <<"QUIT", "SP", "COLON">>, <<>>, <<>>),
  F("quit",       {"reg"},                  "base",    "post", <<"QUIT">>, <<>>, <<>>),
  F("delete",     {"unreg", "reg"},         "base",    "delete", <<>>, <<>>, <<>>)
>>

FrameIds == {Frames[i].id : i \in DOMAIN Frames}
\* the replay driver (checks/c15.py) takes the frames, alphabets and sender states from here
ASSUME PrintT(<<"FRAMES", ToJson([frames |-> Frames, alpha |-> Alpha, kinds |-> [k \in Kinds |-> KindState(k)]])>>)

Steps(f, xx) == <<[op |-> f.op, data |-> f.pre \o xx \o f.post]>> \o f.follow

VARIABLES x,       \* the free part of the client's input
          stage,   \* "client" -> "log" -> "out" -> "delivered"
          kind, frame,
          entries, \* what the handlers proposed to raft, in order
          replies, \* Replyctx.Messages of all entries: [to, name, m]
          lines    \* what GET .../messages hands out: [to, name, line]
vars == <<x, stage, kind, frame, entries, replies, lines>>

Init == x = <<>> /\ stage = "client" /\ kind = "reg" /\ frame = "raw" /\ entries = <<>> /\ replies = <<>> /\ lines = <<>>

\* the client types one more symbol
Extend == /\ stage = "client" /\ Len(x) < MaxX
          /\ \E y \in AllAlpha : x' = Append(x, y)
          /\ UNCHANGED <<stage, kind, frame, entries, replies, lines>>

\* handlePostMessage / handleDeleteSession: decode, sanitise, propose
Handler == /\ stage = "client"
           /\ \E k \in Kinds, i \in DOMAIN Frames :
                /\ k \in Frames[i].kinds
                /\ Rng(x) \subseteq Alpha[Frames[i].alpha]
                /\ kind' = k /\ frame' = Frames[i].id
                /\ LET st == Steps(Frames[i], x) IN entries' = [j \in DOMAIN st |-> ToEntry(st[j])]
           /\ stage' = "log"
           /\ UNCHANGED <<x, replies, lines>>

\* FSM.Apply: ParseMessage + ProcessMessage for every entry, in order
ApplyEntries ==
    /\ stage = "log"
    /\ replies' = FoldLeft(LAMBDA acc, e : LET r == RunEntry(SmallE, acc.st, e) IN [st |-> r.st, out |-> acc.out \o r.out],
                           [st |-> KindState(kind), out |-> <<>>], entries).out
    /\ stage' = "out"
    /\ UNCHANGED <<x, kind, frame, entries, lines>>

\* send() + GET .../messages
GetMessages ==
    /\ stage = "out"
    /\ lines' = Delivered(replies)
    /\ stage' = "delivered"
    /\ UNCHANGED <<x, kind, frame, entries, replies>>

Next == Extend \/ Handler \/ ApplyEntries \/ GetMessages
Spec == Init /\ [][Next]_vars

TypeOK == /\ stage \in {"client", "log", "out", "delivered"}
          /\ kind \in Kinds /\ frame \in FrameIds
          /\ Len(x) <= MaxX

\* C15
OneLine == \A i \in DOMAIN lines : lines[i].to # {} => OneLineOk(lines[i].line)

\* its parts, to see which repair is needed for what
NoCtl == \A i \in DOMAIN lines : lines[i].to # {} => Rng(lines[i].line) \cap Ctl = {}
LenOk == \A i \in DOMAIN lines : lines[i].to # {} => Len(lines[i].line) <= MaxLen
StartOk == \A i \in DOMAIN lines : lines[i].to # {} => WellFormed(lines[i].line)
\* cross-session injection: nothing the OTHER sessions receive carries a line break
NoInjection == \A i \in DOMAIN lines : (lines[i].to \ {"self"}) # {} => Rng(lines[i].line) \cap {"CR", "LF"} = {}
\* the log entry itself is clean once the handlers are repaired
EntryClean == FixSanitise => \A i \in DOMAIN entries : Rng(entries[i].data) \cap Ctl = {}
=============================================================================
