\* vacuity for the membership actions: 2 initial members, join, part, kill, snapshot, leader-change budgets 1 (1 client x 1 post; pauses and timeouts are covered by Cluster_cov.cfg), run with -coverage 1
\* Exhaustive, idealised duplicate test (F7 = FALSE): every invariant must hold.
\* Nodes are model values and symmetric; the history variable is outside the VIEW.
SPECIFICATION Spec
CONSTANTS
  Nodes = {n1, n2, n3}
  Clients = {1}
  MaxCmid = 1
  MaxKills = 1
  MaxSnaps = 1
  MaxLeaderChanges = 1
  MaxPauses = 0
  MaxFails = 0
  F7 = FALSE
  InitSize = 2
  MaxJoins = 1
  MaxParts = 1
  Trailing = 0
VIEW view
SYMMETRY NodeSymmetry
INVARIANTS
  TypeOK
  LeaderComplete
  CommittedOnMajority
  AckedDurable
  AppliedPrefixAgreement
  StreamsAgree
  AckedExactlyOnce
  AckedInOrder
  EqualAtQuiescence
PROPERTIES
  LogGrows
  AckOnlyAfterApply
  SingleServerChanges
  RestoredStateIsPrefix
CHECK_DEADLOCK FALSE
