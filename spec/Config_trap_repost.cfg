\* C16 trap: shortest behaviour in which a GLINE ban survives the GET/POST round trip
\* of the config, is folded into a snapshot, and the node is restarted.
SPECIFICATION Spec
CONSTANTS
  Users = {"u1", "u2"}
  Chans = {}
  Bodies = {"A", "R"}
  HdrKinds = {"cur"}
  Vias = {"d"}
  Creds = {"o1"}
  InjectRevs = {"same"}
  MaxSteps = 12
  MaxRej = 0
  MaxSnap = 1
  MaxRestart = 1
  MaxInject = 0
  MaxCfg = 2
  FixedF5 = FALSE
  RecordHist = FALSE
INVARIANTS TrapGlineRepost
CHECK_DEADLOCK FALSE
