\* As the code behaves (F7 = TRUE), no kill at all: a client times out while its
\* request is queued at a slow/paused leader and retries; both copies pass the
\* duplicate test before either is applied. TLC is EXPECTED to find the double
\* application (observed on the real binaries: schedule tlc-3-1, seed 3).
SPECIFICATION Spec
CONSTANTS
  Nodes = {n1, n2, n3}
  Clients = {1}
  MaxCmid = 1
  MaxKills = 0
  MaxSnaps = 0
  MaxLeaderChanges = 0
  MaxPauses = 0
  MaxFails = 1
  F7 = TRUE
  InitSize = 3
  MaxJoins = 0
  MaxParts = 0
  Trailing = 99
VIEW view
SYMMETRY NodeSymmetry
INVARIANTS
  TypeOK
  AckedDurable
  AppliedPrefixAgreement
  StreamsAgree
  AckedExactlyOnce
CHECK_DEADLOCK FALSE
