--------------------------- MODULE OutStreamTrace ---------------------------
(***************************************************************************)
(* Trace validation for C08.  The file trace.ndjson holds executions of    *)
(* the REAL internal/outputstream code recorded by                         *)
(* /verif/harness/outputstream (one record per lock-delimited step, with   *)
(* the projected state after the step), many executions concatenated with  *)
(* a "Reset" record in front of each.                                      *)
(*                                                                         *)
(* Two things happen on every record:                                      *)
(*  1. MONITOR (always): the property predicates of C08 are evaluated on   *)
(*     the recorded real-code step against the sorted-map view of the      *)
(*     property text (mlive = ids added and not deleted, computed from the *)
(*     recorded Add/Delete steps).  Failing predicates are collected in    *)
(*     `viol` (kind + line) and printed when the last record is reached.   *)
(*  2. CONFORMANCE (Conform = TRUE): the step must be a step of the design *)
(*     spec OutStream (action Start(t) or W(t) of the recorded thread)     *)
(*     whose result equals the recorded projection: LevelDB keys and       *)
(*     NextID links, lastseen, messagesCache, parked / runnable threads,   *)
(*     returned value.  A record no design action explains stops the run;  *)
(*     the POSTCONDITION reports how far the trace was matched.            *)
(* Run with -workers 1 (TLCSet/TLCGet registers).                          *)
(***************************************************************************)
EXTENDS OutStream

CONSTANTS Conform

Trace == ndJsonDeserialize("trace.ndjson")
N == Len(Trace)

VARIABLES
  l,       \* next record
  mlive,   \* sorted-map view: ids added and not deleted (from recorded Add/Delete)
  mx,      \* [thread -> position x of its GetNext call in flight, -1 if none]
  mseen,   \* [thread -> minimal successors of x observed during the call]
  mcanc,   \* [thread -> ctx of its current/next call cancelled]
  mcw,     \* [thread -> Broadcast happened while in flight and cancelled]
  viol,    \* failed property predicates: set of [k |-> kind, l |-> record number]
  mode     \* "sched" (one record per lock-delimited step) or "seq" / "seq-full"
           \* (sequential driver on the unmodified package: one record per call)

mvars == <<l, mlive, mx, mseen, mcanc, mcw, viol, mode>>

ToSet(s) == {s[i] : i \in 1..Len(s)}
SeqToFun(ks, vs) == [k \in ToSet(ks) |-> vs[CHOOSE i \in 1..Len(ks) : ks[i] = k]]

V(kind, holds) == IF holds THEN {} ELSE {[k |-> kind, l |-> l]}

MSeenUpd(lv) == [t \in Threads |-> IF mx[t] # -1 THEN mseen[t] \cup {MinSucc(lv, mx[t])}
                                                 ELSE mseen[t]]
MCwUpd == [t \in Threads |-> mcw[t] \/ (mx[t] # -1 /\ mcanc[t])]

(* ---- property predicates on a recorded return value ------------------- *)
RetViol(ret, seenSet, canc) ==
  (IF ret.k = "next"
     THEN V("getnext-wrong-batch", ret.id >= 0 /\ ret.id \in seenSet)
          \cup V("getnext-content-differs", ret.exact)
     ELSE {})
  \cup
  (IF ret.k = "empty"
     THEN V("getnext-empty-without-cancel", canc)
          \cup V("getnext-empty-though-successor-throughout", NoNext \in seenSet)
     ELSE {})

(* ---- property predicates on a recorded state -------------------------- *)
\* a reader parked in Wait (not woken) has no successor and was not woken since cancel
ParkViol(e, lv, xs, cws) ==
  V("getnext-parked-though-successor-exists",
    \A t \in ToSet(e.parked) : t \in Threads /\ xs[t] # -1 /\ MinSucc(lv, xs[t]) = NoNext)
  \cup V("getnext-parked-though-cancelled-and-woken",
    \A t \in ToSet(e.parked) : t \in Threads /\ ~cws[t])

(* ---- the monitor ------------------------------------------------------- *)
MonitorReset(e) ==
  /\ mode' = e.note
  /\ mlive' = {}
  /\ mx' = [t \in Threads |-> -1]
  /\ mseen' = [t \in Threads |-> {}]
  /\ mcanc' = [t \in Threads |-> FALSE]
  /\ mcw' = [t \in Threads |-> FALSE]
  /\ viol' = viol

MonitorStep(e) ==
  LET t == e.t
      panicV == V("panic", e.panic = "" /\ e.pos # "crash")
  IN
  CASE e.a = "Add" ->
         LET lv == mlive \cup {e.arg} IN
         /\ mlive' = lv
         /\ mseen' = MSeenUpd(lv)
         /\ mcw' = MCwUpd
         /\ UNCHANGED <<mx, mcanc>>
         /\ viol' = viol \cup panicV \cup ParkViol(e, lv, mx, MCwUpd)
    [] e.a = "Delete" ->
         LET lv == mlive \ {e.arg} IN
         /\ mlive' = lv
         /\ mseen' = MSeenUpd(lv)
         /\ UNCHANGED <<mx, mcanc, mcw>>
         /\ viol' = viol \cup panicV \cup ParkViol(e, lv, mx, mcw)
    [] e.a = "Get" ->
         /\ UNCHANGED <<mlive, mx, mseen, mcanc, mcw>>
         /\ viol' = viol \cup panicV
              \cup (IF e.panic # "" THEN {}
                    ELSE IF e.arg \in mlive
                    THEN V("get-live-batch-not-found", e.ret.k = "got")
                         \cup V("get-content-differs", e.ret.k # "got" \/ e.ret.exact)
                    ELSE {})
              \cup ParkViol(e, mlive, mx, mcw)
    [] e.a = "Interrupt" ->
         /\ mcw' = MCwUpd
         /\ UNCHANGED <<mlive, mx, mseen, mcanc>>
         /\ viol' = viol \cup panicV \cup ParkViol(e, mlive, mx, MCwUpd)
    [] e.a = "Cancel" ->
         /\ mcanc' = [mcanc EXCEPT ![e.arg] = TRUE]
         /\ UNCHANGED <<mlive, mx, mseen, mcw>>
         /\ viol' = viol \cup panicV \cup ParkViol(e, mlive, mx, mcw)
    [] e.a = "GetNext" ->
         LET s0 == {MinSucc(mlive, e.arg)} IN
         IF e.pos = "idle"          \* returned within the first critical section
         THEN /\ mcanc' = [mcanc EXCEPT ![t] = FALSE]
              /\ UNCHANGED <<mlive, mx, mseen, mcw>>
              /\ viol' = viol \cup panicV \cup RetViol(e.ret, s0, mcanc[t])
                              \cup V("getnext-no-result", e.ret.k \in {"next", "empty"})
                              \cup ParkViol(e, mlive, mx, mcw)
         ELSE /\ mx' = [mx EXCEPT ![t] = e.arg]
              /\ mseen' = [mseen EXCEPT ![t] = s0]
              /\ mcw' = [mcw EXCEPT ![t] = FALSE]
              /\ UNCHANGED <<mlive, mcanc>>
              /\ viol' = viol \cup panicV
                              \cup ParkViol(e, mlive, [mx EXCEPT ![t] = e.arg], [mcw EXCEPT ![t] = FALSE])
    [] e.a = "W" ->
         IF e.pos = "idle"          \* returned from the wait loop
         THEN /\ mx' = [mx EXCEPT ![t] = -1]
              /\ mseen' = [mseen EXCEPT ![t] = {}]
              /\ mcw' = [mcw EXCEPT ![t] = FALSE]
              /\ mcanc' = [mcanc EXCEPT ![t] = FALSE]
              /\ UNCHANGED mlive
              /\ viol' = viol \cup panicV \cup RetViol(e.ret, mseen[t], mcanc[t])
                              \cup V("getnext-no-result", e.ret.k \in {"next", "empty"})
                              \cup ParkViol(e, mlive, [mx EXCEPT ![t] = -1], mcw)
         ELSE /\ UNCHANGED <<mlive, mx, mseen, mcanc, mcw>>
              /\ viol' = viol \cup panicV \cup ParkViol(e, mlive, mx, mcw)
    [] e.a = "Wreg" ->              \* registered as waiter, lock released: parked
         /\ UNCHANGED <<mlive, mx, mseen, mcanc, mcw>>
         /\ viol' = viol \cup panicV \cup ParkViol(e, mlive, mx, mcw)
    [] OTHER ->
         /\ UNCHANGED <<mlive, mx, mseen, mcanc, mcw>>
         /\ viol' = viol \cup V("unknown-record", FALSE)

MonitorQuiescent(e) ==
  /\ UNCHANGED <<mlive, mx, mseen, mcanc, mcw>>
  /\ viol' = viol \cup ParkViol(e, mlive, mx, mcw)
                  \cup V("harness-not-quiescent", e.runnable = <<>>)

(* ---- conformance with the design spec ---------------------------------- *)
DesignReset ==
  /\ db' = (0 :> NoNext) /\ tail' = 0 /\ cache' = << >> /\ waiting' = {} /\ holder' = 0
  /\ cancelled' = [t \in Threads |-> FALSE]
  /\ x' = [t \in Threads |-> 0] /\ cur' = [t \in Threads |-> 0]
  /\ live' = {} /\ maxAdded' = 0
  /\ seen' = [t \in Threads |-> {}] /\ cw' = [t \in Threads |-> FALSE]
  /\ lastret' = NoRet /\ hist' = << >>
  /\ pc' = [t \in Threads |-> "Start"]

RetMatches(e) ==
  /\ lastret'.k = e.ret.k
  /\ e.ret.k # "none" => lastret'.t = e.t
  /\ e.ret.k \in {"next", "got", "miss"} => lastret'.id = e.ret.id
  /\ e.ret.k \in {"next", "got"} => e.ret.exact

PostMatches(e) ==
  /\ e.panic = ""
  /\ db' = SeqToFun(e.keys, e.next)
  /\ e.bad = <<>>
  /\ tail' = e.tail /\ e.tailnext = NoNext
     \* (while another thread is at an inner scheduling point of a critical section
     \* whose record is written when it ends, the cache may be half way there)
  /\ e.inner = 0 => cache' = SeqToFun(e.ckeys, e.cnext)
  /\ waiting' = ToSet(e.parked)
  /\ {t \in Threads : pc'[t] \in {"W", "Wreg"}} \ waiting' = ToSet(e.runnable)
  /\ holder' = e.holder
     \* whether InterruptGetNext broadcasts with messagesMu held is observed, not assumed
  /\ (mode = "sched" /\ e.a = "Interrupt") => e.locked = LockedInterrupt
  /\ RetMatches(e)

HistIs(t, a, arg) ==
  hist'[Len(hist')].t = t /\ hist'[Len(hist')].a = a /\ hist'[Len(hist')].arg = arg

DesignStep(e) ==
  /\ e.t \in Threads
  /\ IF e.a = "W" \/ (e.a = "GetNext" /\ pc[e.t] = "W")   \* second case: after SilentR1
       THEN W(e.t) /\ HistIs(e.t, "W", 0)
       ELSE IF e.a = "Wreg" THEN Wreg(e.t) /\ HistIs(e.t, "Wreg", 0)
       ELSE Start(e.t) /\ HistIs(e.t, e.a, e.arg)
  /\ PostMatches(e)

\* The sequential driver runs on the unmodified package and sees GetNext only as
\* one call: when the design needs two critical sections (R1, then W returning
\* empty or a batch) the first one is taken silently (the record is not consumed).
SilentR1 ==
  /\ Conform /\ l <= N /\ mode = "seq-full"
  /\ LET e == Trace[l] IN
       /\ e.ev = "Step" /\ e.a = "GetNext" /\ e.pos = "idle" /\ e.panic = ""
       /\ e.t \in Threads /\ pc[e.t] = "Start"
       /\ Start(e.t) /\ HistIs(e.t, "GetNext", e.arg)
       /\ pc'[e.t] = "W"
  /\ UNCHANGED mvars

DesignQuiescent(e) ==
  /\ UNCHANGED vars
  /\ waiting = ToSet(e.parked)
  /\ Quiescent

(* ---- the trace specification ------------------------------------------- *)
TInit ==
  /\ Init
  /\ l = 1
  /\ mlive = {}
  /\ mx = [t \in Threads |-> -1]
  /\ mseen = [t \in Threads |-> {}]
  /\ mcanc = [t \in Threads |-> FALSE]
  /\ mcw = [t \in Threads |-> FALSE]
  /\ viol = {}
  /\ mode = "sched"
  /\ TLCSet(1, 1)

Report == l' = N + 1 => PrintT(<<"VIOLSET", ToJson(viol')>>)

TStep ==
  /\ l <= N
  /\ l' = l + 1
  /\ LET e == Trace[l] IN
       CASE e.ev = "Reset" ->
              /\ MonitorReset(e)
              /\ IF Conform THEN DesignReset ELSE UNCHANGED vars
         [] e.ev = "Step" ->
              /\ MonitorStep(e) /\ mode' = mode
              /\ IF Conform THEN DesignStep(e) ELSE UNCHANGED vars
         [] e.ev = "Quiescent" ->
              /\ MonitorQuiescent(e) /\ mode' = mode
              /\ IF Conform THEN DesignQuiescent(e) ELSE UNCHANGED vars
         [] OTHER ->       \* "Crashed" marker etc.
              /\ UNCHANGED <<mlive, mx, mseen, mcanc, mcw, viol, mode>>
              /\ UNCHANGED vars
  /\ TLCSet(1, IF TLCGet(1) < l' THEN l' ELSE TLCGet(1))
  /\ Report

TNext == TStep \/ SilentR1

TSpec == TInit /\ [][TNext]_<<vars, mvars>>

\* acceptance: every record was explained
Accepted ==
  /\ PrintT(<<"MATCHED", TLCGet(1) - 1, "OF", N>>)
  /\ TLCGet(1) = N + 1

\* the design invariants must hold along conforming traces as well
TraceDesignInv == Conform => (TypeOK /\ DbInv /\ NoCrash)
=============================================================================
