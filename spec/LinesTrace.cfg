\* C15 trace validation at real scale. MaxUser is rewritten by checks/c15.py to the limit found in the tree
\* under test (0 = no limit in cmdUser); FixSanitise / FixUtf8 stay TRUE: the specification describes the
\* repaired pipeline, a tree that lacks a repair shows up as violations of the predicate + drift.
SPECIFICATION TSpec
CONSTANTS
  MaxLen = 510
  FixSanitise = TRUE
  MaxUser = 0
  FixUtf8 = TRUE
  MaxX = 0
POSTCONDITION Accept
CHECK_DEADLOCK FALSE
