\* C16 trace validation: the T_* invariants are evaluated on every recorded
\* observation of the real node and of the real replicas.
SPECIFICATION TSpec
CONSTANTS
  Users = {"u1", "u2", "u3"}
  Chans = {"c1", "c2"}
  Bodies = {"A"}
  HdrKinds = {"cur"}
  Vias = {"d"}
  Creds = {"o1"}
  InjectRevs = {"same"}
  MaxSteps = 0
  MaxRej = 0
  MaxSnap = 0
  MaxRestart = 0
  MaxInject = 0
  MaxBattery = 0
  MaxCfg = 0
  FixedF5 = FALSE
  RecordHist = FALSE
  KnownF5 = TRUE
INVARIANTS T_ConfigRevisionStep T_RejectedChangesNothing T_ReplicasSameConfig T_GlineIsConfig T_AcceptedPostReplacesBans T_BansAreExactlyConfig T_ReplicasAgreeOnBans T_ExpirationFollowsConfig T_BehaviourUsesConfig
POSTCONDITION Accept
CHECK_DEADLOCK FALSE
