\* C04 cover graph (thorough tier): small enough to dump the whole state graph and
\* replay EVERY transition on the real api.getMessages (edge cover).
\* 2 nodes, 2 batches of 1..3 replies, 2 connections.
CONSTANTS
  Nodes = {1, 2}
  MaxBatches = 2
  MaxReplies = 3
  MaxReconnects = 2
  Fixed = TRUE
  Hist = FALSE
SPECIFICATION Spec
VIEW View
INVARIANTS
  TypeOK
  DeliveredIsPrefix
  ClastOK
  InFlightOK
