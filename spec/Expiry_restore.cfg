\* quick: two nodes, the follower installs a snapshot at run time (FSM.Restore replaces its server object while its
\* timer runs on) and may become the leader afterwards; one client, the expiration may change twice; safety, exhaustive
SPECIFICATION Spec
CONSTANTS
    n1 = n1  n2 = n2  n3 = n3  c1 = c1  c2 = c2  k1 = k1  p1 = p1
    Nodes = {n1, n2}
    Clients = {c1}
    Links = {}
    Pseudo = {}
    Owner <- MCNoOwner
    Interval = 2
    Exps = {1, 2}
    InitExp = 2
    MaxTime = 4
    MaxLag = 1
    MaxChanges = 1
    MaxPend = 1
    MaxConfigs = 2
    MaxRestores = 1
    StaleRef = FALSE
    None = None
\* (no symmetry: the restore breaks the symmetry of the nodes)
INVARIANTS TypeOK OnlyIdleExpire ActiveNeverExpires SweepsAllIdle ExpiredSessionGone NickUnique
PROPERTIES FollowersNeverPropose
CHECK_DEADLOCK FALSE
