\* Encoding migration with messages of death (C07, also C10's marker), exhaustive:
\* a registered session (prelude: CreateSession, NICK, USER) in a JSON life; <= 3 further
\* entries over {line, PANIC} x timestamps {0, 6}; a crash in the JSON life and one in the
\* protobuf life (MaxPanics = 2), a snapshot in either life (JSON and protobuf container),
\* live restore (also of the JSON snapshot by the protobuf node), a plain restart, and ONE
\* RestartWithEncoding("proto") at any point -- after the crash (the marked entry is then
\* the session's last line when the stores are converted), before it, with or without a
\* snapshot, one failed Persist.  Compaction times 64 / 70: cutoff 3 (ts 0 old, ts 6
\* young) / 9 (everything old).  Measured: 225,036 distinct states, depth 20, < 1 min
\* with 4 workers; -coverage 1: every action taken (RestartWithEncoding 12,935 times
\* in the Nows = {64}, MaxFails = 0 sub-model already).
SPECIFICATION Spec
CONSTANTS
    Alphabet <- AlphaMig
    TS = {0, 6}
    Nows = {64, 70}
    Prelude <- PreludeReg
    DefaultExp = 60
    Grace = 1
    MaxLen = 6
    MaxGaps = 0
    MaxSnaps = 2
    MaxFails = 1
    MaxRestarts = 1
    MaxRestores = 1
    MaxPanics = 2
    FixF2 = TRUE
    FixF3 = TRUE
    InitEnc = "json"
    MaxMigrations = 1
VIEW view
INVARIANTS
    TypeOK
    StateIsFullReplay
    RestoreEqualsReplay
    LssSound
    NextBaseFound
    FoldedXorRetained
    OutputIffRetained
    HorizonRespected
    ExpInForce
    ModOnlyPanicking
    ModSkippedEverywhere
    ModProgress
    EncUniform
    SnapshotsReadable
CHECK_DEADLOCK FALSE
