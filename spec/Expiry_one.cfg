\* quick: one node, two clients (one may take the other's nickname once it is free); safety, exhaustive
SPECIFICATION Spec
CONSTANTS
    n1 = n1  n2 = n2  n3 = n3  c1 = c1  c2 = c2  k1 = k1  p1 = p1
    Nodes = {n1}
    Clients = {c1, c2}
    Links = {}
    Pseudo = {}
    Owner <- MCNoOwner
    Interval = 2
    Exps = {1, 2}
    InitExp = 1
    MaxTime = 4
    MaxLag = 1
    MaxChanges = 0
    MaxPend = 1
    MaxConfigs = 1
    MaxRestores = 0
    StaleRef = FALSE
    None = None
SYMMETRY SymClients
INVARIANTS TypeOK OnlyIdleExpire ActiveNeverExpires SweepsAllIdle ExpiredSessionGone NickUnique
PROPERTIES FollowersNeverPropose
CHECK_DEADLOCK FALSE
