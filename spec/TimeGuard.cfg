\* C19 exhaustive grid (root module TimeGuardMC): the full offset/delay grid,
\* calls that measure 1..2 peers (any subset not answering), both settings of
\* -disable_timesafeguard.
SPECIFICATION Spec
CONSTANTS
    ET = 4
    Deltas <- GridDeltas
    Delays <- GridDelays
    Starts = {0}
    MaxPeers = 2
INVARIANTS
    TypeOK
    Sound
    RefusalNamesOffenders
    DisabledNeverRefuses
    NonAnsweringIgnored
    ActionsAreDecision
CHECK_DEADLOCK FALSE
