\* Edge cover for the replay on the real FSM (quick tier): <= 2 entries after the
\* CreateSession, timestamps {0, 4}, compaction time 64 (cutoff 64-60-1 = 3: ts 0 old, ts 4 young only thanks to the 10 s grace; a log
\* of ts-0 entries is folded completely); EmitEdge prints the history of every
\* generated transition (2,326 edges, 1,279 states).
SPECIFICATION Spec
CONSTANTS
    Alphabet <- AlphaBook
    TS = {0, 4}
    Nows = {64}
    Prelude <- PreludeSess
    DefaultExp = 60
    Grace = 1
    MaxLen = 3
    MaxGaps = 1
    MaxSnaps = 2
    MaxFails = 1
    MaxRestarts = 1
    MaxRestores = 1
    MaxPanics = 0
    FixF2 = TRUE
    FixF3 = TRUE
    InitEnc = "proto"
    MaxMigrations = 0
VIEW view
INVARIANTS
    TypeOK
    StateIsFullReplay
    RestoreEqualsReplay
    LssSound
    NextBaseFound
    FoldedXorRetained
    OutputIffRetained
    HorizonRespected
    ExpInForce
    ModOnlyPanicking
    ModSkippedEverywhere
    ModProgress
    EncUniform
    SnapshotsReadable
ACTION_CONSTRAINT EmitEdge
CHECK_DEADLOCK FALSE
