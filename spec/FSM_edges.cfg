\* Edge cover for the replay on the real FSM (quick tier): <= 2 entries after the
\* CreateSession, timestamps {0, 6}; EmitEdge prints the history of every
\* generated transition (8,532 edges, 4,167 states).
SPECIFICATION Spec
CONSTANTS
    Alphabet <- AlphaBook
    TS = {0, 6}
    Nows = {64, 70}
    Prelude <- PreludeSess
    DefaultExp = 60
    Grace = 1
    MaxLen = 3
    MaxGaps = 1
    MaxSnaps = 2
    MaxFails = 1
    MaxRestarts = 1
    MaxRestores = 1
    MaxPanics = 0
    FixF2 = TRUE
    FixF3 = TRUE
VIEW view
INVARIANTS
    TypeOK
    StateIsFullReplay
    RestoreEqualsReplay
    LssSound
    NextBaseFound
    FoldedXorRetained
    OutputIffRetained
    HorizonRespected
    ExpInForce
    ModOnlyPanicking
    ModSkippedEverywhere
    ModProgress
ACTION_CONSTRAINT EmitEdge
CHECK_DEADLOCK FALSE
