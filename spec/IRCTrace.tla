----------------------------- MODULE IRCTrace -----------------------------
(***************************************************************************)
(* Validation of executions recorded from the REAL state machine           *)
(* (harness/irc: FSM.applyRobustMessage on ircserver.IRCServer) against     *)
(* IRC.tla.  One ND-JSON record per applied entry: the entry, the projected *)
(* post-state, the replies, the lookup classification of every id, and the  *)
(* verdicts of the real-vs-real comparisons.  For every record TLC          *)
(*   - evaluates every property predicate (IRCProps) on the recorded real   *)
(*     pre/post states and replies            -> lines  <<"PROP", ...>>     *)
(*   - checks conformance Step(pre, e) = (post, out) for entries inside the *)
(*     model's alphabet                        -> lines  <<"CONF", ...>>    *)
(* The behaviour is linear (variable l walks the trace); nothing is left    *)
(* for TLC to guess, so validation is linear in the trace length.           *)
(***************************************************************************)
EXTENDS IRCProps, Json

Trace == ndJsonDeserialize("irctrace.ndjson")

VARIABLE l
ToSet(s) == {s[i] : i \in DOMAIN s}

(* JSON -> model values *)
SessOf(r) == [id |-> r.id, rid |-> r.rid, auth |-> r.auth, nick |-> r.nick, user |-> r.user, real |-> r.real,
              li |-> r.li, op |-> r.op, sv |-> r.sv, chans |-> ToSet(r.chans), inv |-> ToSet(r.inv),
              modes |-> ToSet(r.modes), away |-> r.away, pass |-> r.pass, addr |-> r.addr, cmid |-> r.cmid,
              la |-> r.la, lnp |-> r.lnp, cr |-> r.cr, del |-> r.del, svid |-> r.svid, lsc |-> r.lsc, pfx |-> r.pfx]
ChanOf(r) == [name |-> r.name, mem |-> r.mem, modes |-> ToSet(r.modes), key |-> r.key, bans |-> r.bans,
              topic |-> r.topic, tn |-> r.tn, tt |-> r.tt]
CfgOf(r) == [rev |-> r.rev, opers |-> {<<x[1], x[2]>> : x \in ToSet(r.opers)}, svc |-> ToSet(r.svc),
             maxs |-> r.maxs, maxc |-> r.maxc, banned |-> r.banned, exp |-> r.exp,
             capcfg |-> r.capcfg, caplogin |-> r.caplogin]
StOf(j) == [ss |-> [x \in {Sid(r.id, r.rid) : r \in ToSet(j.ss)} |->
                       SessOf(CHOOSE r \in ToSet(j.ss) : Sid(r.id, r.rid) = x)],
            nk |-> j.nk,
            ch |-> [c \in DOMAIN j.ch |-> ChanOf(j.ch[c])],
            holds |-> j.holds, srv |-> ToSet(j.srv), lp |-> j.lp, cfg |-> CfgOf(j.cfg)]
EnOf(e) == [e EXCEPT !.cfg = CfgOf(e.cfg)]
ROf(r) == [cmd |-> r.cmd, from |-> r.from, to |-> ToSet(r.to), p |-> r.p]
OutOf(o) == [i \in DOMAIN o |-> ROf(o[i])]

(* model reply m explains real reply r *)
Match(m, r) ==
  IF m.cmd = "367*"
  THEN r.cmd = "367*" /\ m.from = r.from /\ m.to = r.to /\ Len(r.p) = 3
       /\ r.p[1] = m.p[1] /\ r.p[2] = m.p[2] /\ ToSet(r.p[3]) = m.p[3]
  ELSE /\ m.cmd = r.cmd /\ m.from = r.from /\ m.to = r.to /\ Len(m.p) = Len(r.p)
       /\ \A i \in 1..Len(m.p) : m.p[i] = ANY \/ m.p[i] = r.p[i]
IsNumeric(c) == Len(c) = 3 /\ \A i \in 1..3 : Ch(c, i) \in Digits
OutMatch(mr, real, actorRcpt) ==
  (* real = out, then the bag in some order, then tail *)
  LET n1 == Len(mr.out)  nb == Cardinality(mr.bag)  n3 == Len(mr.tail) IN
  /\ Len(real) = n1 + nb + n3
  /\ \A i \in 1..n1 : Match(mr.out[i], real[i])
  /\ \A b \in mr.bag : \E i \in (n1 + 1)..(n1 + nb) : Match(b, real[i])
  /\ \A i \in (n1 + 1)..(n1 + nb) : \E b \in mr.bag : Match(b, real[i])
  /\ \A i \in 1..n3 : Match(mr.tail[i], real[n1 + nb + i])


(* ------------------------------------------------------------------------ *)
(* HTTP level (harness/rig/steps_c12.go).  The same step records, produced    *)
(* by a complete node (HTTP API, raft, FSM, output stream), carry "rawout":   *)
(* [rid, crc, to] of every message of the batch; a final "streams" record     *)
(* lists what the long poll(s) of every session delivered.                    *)
(* StreamIsEntitledReplies: the stream of a live session is exactly the       *)
(* sequence of messages addressed to it (in order, once, across cancelled and  *)
(* resumed polls); the stream of an ended session is a prefix of that (the     *)
(* handler stops when it notices that the session is gone; that no message is  *)
(* ADDRESSED to an ended client is RecipientsEntitled/EndedSessionGone on the  *)
(* same records - only the id of an ended services link may linger in          *)
(* recipient sets, serverSessions never shrinks).                              *)
(* ------------------------------------------------------------------------ *)
ExistsIn(pj, s) == \E q \in DOMAIN pj.ss : pj.ss[q].id = s /\ pj.ss[q].rid = 0
AddressedTo(rec, s) == LET sel == SelectSeq(rec.rawout, LAMBDA m : s \in ToSet(m.to))
                       IN [k \in DOMAIN sel |-> <<rec.e.id, sel[k].rid, sel[k].crc>>]
RECURSIVE WantStream(_, _, _, _)
WantStream(j, i, h, s) ==
  IF j >= i THEN <<>>
  ELSE (IF Trace[j].k = "step" /\ Trace[j].h = h THEN AddressedTo(Trace[j], s) ELSE <<>>)
       \o WantStream(j + 1, i, h, s)
HistStart(i, h) == CHOOSE j \in 1..i : Trace[j].k = "reset" /\ Trace[j].h = h
IsPfx(a, b) == Len(a) <= Len(b) /\ SubSeq(b, 1, Len(a)) = a
StreamOk(i, q) ==
  LET rec == Trace[i]  s == rec.streams[q]
      want == WantStream(HistStart(i, rec.h) + 1, i, rec.h, s.sid)
  IN IF s.live THEN s.got = want ELSE IsPfx(s.got, want)

(* which part of a state differs (diagnostics) *)
DiffFields(a, b) == {f \in {"ss", "nk", "ch", "holds", "srv", "lp", "cfg"} : a[f] # b[f]}

Eval(i) ==
  LET rec == Trace[i] IN
  IF rec.k \in {"reset", "end"} THEN TRUE
  ELSE IF rec.k = "det"
  THEN (* a history outside the scope of the state predicates: only the replicas' agreement is judged *)
       IF rec.det = "" THEN TRUE ELSE PrintT(<<"PROP", <<"C01", "ReplicasAgree">>, rec.h, rec.i>>)
  ELSE IF rec.k = "snap"
  THEN (* all replicas were serialized and loaded: the abstract state must be unchanged *)
       LET a == StOf(Trace[i - 1].post)  b == StOf(rec.post) IN
       /\ IF /\ [a EXCEPT !.srv = {}] = [b EXCEPT !.srv = {}]
             (* serverSessions never shrinks on a running server; a loaded one rebuilds it from the sessions *)
             /\ {x \in a.srv : Sid(x, 0) \in DOMAIN a.ss /\ a.ss[Sid(x, 0)].sv} = b.srv
          THEN TRUE
          ELSE /\ PrintT(<<"PROP", <<"C14", "RoundTripKeepsState">>, rec.h, rec.i>>)
               /\ PrintT(<<"PROP", <<"C03", "RoundTripKeepsState">>, rec.h, rec.i>>)
               /\ PrintT(<<"SNAPDIFF", rec.h, rec.i, DiffFields(a, b)>>)
               /\ IF PrivProj(a) # PrivProj(b) THEN PrintT(<<"PROP", <<"C13", "RoundTripKeepsPrivileges">>, rec.h, rec.i>>) ELSE TRUE
       /\ \A pf \in StateInvFailures(b) : PrintT(<<"PROP", pf, rec.h, rec.i>>)
       /\ \A k \in DOMAIN rec.lookup :
             IF rec.lookup[k][2] = "nosuch" /\ Sid(rec.lookup[k][1], 0) \in DOMAIN b.ss
             THEN PrintT(<<"PROP", <<"C17", "LookupSound">>, rec.h, rec.i>>) ELSE TRUE
  ELSE IF rec.k = "streams"
  THEN /\ \A q \in DOMAIN rec.httplk :
            (* C17, HTTP level: an id newer than anything this node has applied is "not yet seen" (500 / proxy), *)
            (* never 404 "no such session" - a lagging node must not tell a client its live session is gone     *)
            IF rec.httplk[q][1] = 1 /\ rec.httplk[q][2] = 404
            THEN PrintT(<<"PROP", <<"C17", "HttpLookupSound">>, rec.h, rec.i>>) ELSE TRUE
       /\ \A q \in DOMAIN rec.streams :
         IF StreamOk(i, q) THEN TRUE
         ELSE /\ PrintT(<<"PROP", <<"C12", "StreamIsEntitledReplies">>, rec.h, rec.i>>)
              /\ PrintT(<<"STREAM", rec.h, rec.streams[q].sid, rec.streams[q].live, rec.streams[q].polls, Len(rec.streams[q].got),
                          Len(WantStream(HistStart(i, rec.h) + 1, i, rec.h, rec.streams[q].sid))>>)
              /\ IF rec.streams[q].polls > 1 THEN PrintT(<<"PROP", <<"C04", "StreamIsEntitledReplies">>, rec.h, rec.i>>) ELSE TRUE
              /\ IF ~rec.streams[q].live THEN PrintT(<<"PROP", <<"C17", "StreamIsEntitledReplies">>, rec.h, rec.i>>) ELSE TRUE
  ELSE IF rec.k = "expire"
  THEN (* C17 ExpireExact: exactly the sessions with Reply = 0 idle for longer than the expiration *)
       LET want == {rec.ages[j][1] : j \in {q \in DOMAIN rec.ages : rec.ages[q][2] = 0 /\ rec.ages[q][3] > 0}} IN
       IF ToSet(rec.expire) \ {-7} = want THEN TRUE ELSE PrintT(<<"PROP", <<"C17", "ExpireExact">>, rec.h, rec.i>>)
  ELSE
    LET pre  == StOf(Trace[i - 1].post)
        post == StOf(rec.post)
        e    == EnOf(rec.e)
        out  == OutOf(rec.out)
        tag  == <<rec.h, rec.i>>
        props == PropFailures(pre, e, post, out, rec)
        preok == StateInvFailures(pre) = {}
        doconf == rec.e.sup /\ preok /\ ~rec.panic
        mr == Step(pre, e)
        confSt == mr.st = post
        confOut == OutMatch(mr, out, 0)
    IN
    /\ \A pf \in props : PrintT(<<"PROP", pf, rec.h, rec.i>>)
    /\ IF rec.panic THEN PrintT(<<"PANIC", rec.h, rec.i, rec.e.conf>>) ELSE TRUE
    /\ IF doconf /\ mr.panic THEN PrintT(<<"CONF", "model-panics", rec.h, rec.i>>) ELSE TRUE
    /\ IF doconf /\ ~mr.panic /\ ~confSt THEN PrintT(<<"CONF", "state", rec.h, rec.i, DiffFields(mr.st, post)>>) ELSE TRUE
    /\ IF doconf /\ ~mr.panic /\ ~confOut THEN PrintT(<<"CONF", "out", rec.h, rec.i, mr.out, mr.bag, mr.tail>>) ELSE TRUE
    /\ IF doconf /\ ~mr.panic /\ confSt /\ confOut THEN TLCSet(1, TLCGet(1) + 1) ELSE TRUE

Init == l = 1 /\ TLCSet(1, 0)
Next == l <= Len(Trace) /\ Eval(l) /\ l' = l + 1
Spec == Init /\ [][Next]_l
Done == l = Len(Trace) + 1
(* acceptance: the whole trace was consumed *)
Accepted == PrintT(<<"CONFORMING", TLCGet(1)>>) /\ TLCGet("stats").diameter = Len(Trace) + 1
=============================================================================
