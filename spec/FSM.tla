-------------------------------- MODULE FSM --------------------------------
(***************************************************************************)
(* One node's replicated-state bookkeeping: statemachine.go / compaction.go *)
(* of robustirc (package main).  Serves C02 (compaction, snapshot and       *)
(* restore never change the replicated state) and C07 (a message of death   *)
(* is contained).                                                           *)
(*                                                                          *)
(* One action per critical section of the code:                             *)
(*   Apply          FSM.Apply -> ircstore.StoreLog -> applyProto            *)
(*   ApplyPanics    deferred recover() in applyProto: rewrite the entry as  *)
(*                  MessageOfDeath in the *raft log store*, glog.Fatalf     *)
(*   SnapshotTake   FSM.Snapshot() (runs on raft's FSM goroutine)           *)
(*   PersistOK/Fail robustSnapshot.Persist on raft's snapshot goroutine     *)
(*   Restore        FSM.Restore of the newest snapshot on a live node       *)
(*   Restart        process start: fresh FSM{}, fresh globals, raft's       *)
(*                  start-up sequence (Restore(newest), replay raft log)    *)
(*   RestartWithEncoding(c)  the same process start with the flag           *)
(*                  -pre1.0_protobuf switched: NewLevelDBStore runs         *)
(*                  ConvertToProto on the raft log store and on the irclog  *)
(*                  before raft starts (the encoding migration of a node)   *)
(*   Tick           wall clock used as compactionStart advances             *)
(*                                                                          *)
(* The IRC state is abstracted (DESIGN 3.3/4.3) to: live session ids, the   *)
(* set of "marks" (line entries whose individually visible effect is        *)
(* present), the per-session duplicate marker (last ClientMessageId), the   *)
(* config revision and the configured session expiration.  The concrete log *)
(* family that realises the abstraction is produced by checks/fsm_common.py *)
(* (k-th effective line of a session = NICK n<k> / USER u<k> / JOIN #e<k>). *)
(*                                                                          *)
(* Time unit: 10 s.  Grace = 1 is expireSessionsInterval, DefaultExp = 60   *)
(* is the 10 min used when FSM.sessionExpirationDur is 0.                   *)
(*                                                                          *)
(* FixF2 / FixF3 select the repaired behaviour (proposed_fixes/F2-*.diff,   *)
(* F3-*.diff); FALSE is the behaviour of the pinned tree.                   *)
(*                                                                          *)
(* Modelling decisions (each is an assumption of the checks, see c02.py):   *)
(*  - raft's calling discipline only: Snapshot() is serial with Apply and   *)
(*    Restore, Persist may overlap later Applies, one snapshot at a time,   *)
(*    a live Restore does not overlap a pending Persist.                    *)
(*  - Restart = crash + start: volatile state lost, Restore(newest), then   *)
(*    re-Apply of the raft log after the snapshot's raft index (or from 1)  *)
(*    up to the END of the log: raft's commit index after a start is never  *)
(*    behind what the node had applied; Snapshot() is not interleaved with  *)
(*    that replay.                                                          *)
(*  - the irclog copy of an entry is rewritten whenever the entry is        *)
(*    (re-)applied, so after the restart that follows ApplyPanics the copy  *)
(*    of a marked entry is the MessageOfDeath form: the irclog is modelled  *)
(*    as a set of indices, content = log + mod.                             *)
(*  - a crash inside Snapshot() is covered by SnapshotTake;Restart (the     *)
(*    deletions are durable, everything else is volatile).                  *)
(*  - encodings: every value of the two LevelDB stores and every snapshot   *)
(*    record is an envelope (raft.Log as JSON, or 'p' + pb.RaftLog) around  *)
(*    a payload (robust.Message as JSON, or 'p' + pb.RobustMessage); the    *)
(*    model keeps both per entry (renc, ienc, snaps[j].renc).  The CONTENT  *)
(*    of an entry is log[i] (+ mod) whatever its encoding: re-encoding must *)
(*    not change a field -- that is the contract of ConvertToProto /        *)
(*    CopyToProtoMessage / raftlog.FromBytes which the replay on the real   *)
(*    code checks (raw entries before/after, state against the reference).  *)
(*    The payload is written by the API in the encoding of the node's life, *)
(*    the flag is only ever switched from JSON to protobuf (the JSON        *)
(*    branches are marked "XXX(1.0): delete"), stores are smaller than      *)
(*    ConvertToProto's batch size (100).                                    *)
(***************************************************************************)
EXTENDS Integers, Sequences, FiniteSets, TLC, Json

CONSTANTS
    Alphabet,      \* entry templates the environment may append (see Alpha* below)
    TS,            \* timestamps an appended entry may carry
    Nows,          \* set of wall-clock values; Tick moves to the next larger one
    Prelude,       \* entries already in the raft log at the start (not yet applied)
    DefaultExp, Grace,
    MaxLen, MaxGaps, MaxSnaps, MaxFails, MaxRestarts, MaxRestores, MaxPanics,
    FixF2, FixF3,
    InitEnc,       \* "json" | "proto": -pre1.0_protobuf of the node's first life
    MaxMigrations  \* bound on RestartWithEncoding

VARIABLES
    log,       \* the committed raft log (sequence of entries), append-only
    mod,       \* indices rewritten as MessageOfDeath in the raft log store (durable)
    applied,   \* raft's lastApplied for this FSM
    store,     \* keys of the node-local irclog (durable LevelDB)
    outs,      \* input ids that have a batch in the output store (volatile)
    srv,       \* abstract state of the live IRCServer (volatile)
    lss,       \* FSM.lastSnapshotState: last included index -> abstract state (volatile)
    exp,       \* FSM.sessionExpirationDur (0 = never set)        (volatile)
    pending,   \* robustSnapshot returned by Snapshot(), not yet persisted
    snaps,     \* durable snapshot store, newest last
    up,        \* process running
    now,       \* wall clock (time.Now() / -canary_compaction_start when Snapshot() runs)
    hmax,      \* history: the newest compaction horizon the PROPERTY allows so far
    enc,       \* *useProtobuf of the running (or last) process: "json" | "proto"
    renc,      \* encoding of every value of the raft log store, parallel to log   (durable)
    ienc,      \* encoding of every value of the irclog, a function on store       (durable)
    cnt,       \* bounds bookkeeping
    hist       \* history of actions (for replay on the real code; not in VIEW)

vars == <<log, mod, applied, store, outs, srv, lss, exp, pending, snaps, up, now, hmax, enc, renc, ienc, cnt, hist>>
view == <<log, mod, applied, store, outs, srv, lss, exp, pending, snaps, up, now, hmax, enc, renc, ienc, cnt>>

None == [none |-> TRUE]

---------------------------------------------------------------------------
(* Entry templates.  s is the ordinal of the session the entry refers to   *)
(* (1 = the first CreateSession of the log, ...); it is resolved to the    *)
(* session id (= index of the creating entry) when the entry is appended.  *)
\* ms = MaxSessions of a config entry (0 = unlimited)
TM(kind, cls, s, x, ms) == [kind |-> kind, cls |-> cls, s |-> s, exp |-> x, ms |-> ms]
T(kind, cls, s, x) == TM(kind, cls, s, x, 0)
TCreate   == T("cmd", "create", 0, 0)
TLine(s)  == T("cmd", "line", s, 0)
TDelete(s)== T("cmd", "delete", s, 0)
TConfig(x)== T("cmd", "config", 0, x)
TLimit(n) == TM("cmd", "config", 0, 0, n)        \* config with MaxSessions = n, expiration unset
TBadCfg   == T("cmd", "badconfig", 0, 0)
TPanic(s) == T("cmd", "panic", s, 0)
TRaft     == T("raft", "none", 0, 0)

\* alphabets selected by the cfg files
AlphaBook == {TLine(1), TRaft}                                   \* bookkeeping (F2)
AlphaSess == {TCreate, TLine(1), TLine(2), TDelete(1), TRaft}
AlphaExp  == {TLine(1), TConfig(1), TConfig(90), TBadCfg}        \* expiration (F3)
AlphaExpS == {TLine(1), TConfig(1), TConfig(90)}
AlphaMod  == {TLine(1), TPanic(1), TPanic(2), TCreate, TRaft}    \* C07
\* session limit: CreateSession entries REFUSED by the state machine (applyRobustMessage
\* returns ErrSessionLimitReached) are still entries of the irclog and of every fold
AlphaLim  == {TCreate, TLine(1), TLine(2), TLimit(1), TLimit(2), TRaft}
AlphaLimS == {TCreate, TLimit(1)}
\* encoding migration: bookkeeping across the restart (C02), messages of death in both lives (C07)
AlphaMigB == {TLine(1), TRaft}
AlphaMig  == {TLine(1), TPanic(1)}
AlphaAll  == {TCreate, TLine(1), TLine(2), TDelete(1), TDelete(2), TConfig(1), TConfig(90),
              TConfig(0), TLimit(1), TLimit(2), TBadCfg, TPanic(1), TPanic(2), TRaft}

EM(kind, cls, ts, sess, cmid, x, ms) ==
    [kind |-> kind, cls |-> cls, ts |-> ts, sess |-> sess, cmid |-> cmid, exp |-> x, ms |-> ms]
E(kind, cls, ts, sess, cmid, x) == EM(kind, cls, ts, sess, cmid, x, 0)
\* preludes: one session / one registered session (two effective lines = NICK, USER)
PreludeNone == << >>
PreludeSess == << E("cmd", "create", 0, 0, 0, 0) >>
PreludeReg  == << E("cmd", "create", 0, 0, 0, 0), E("cmd", "line", 0, 1, 2, 0), E("cmd", "line", 0, 1, 3, 0) >>

Creates(L) == {i \in 1..Len(L) : L[i].kind = "cmd" /\ L[i].cls = "create"}
RECURSIVE NthMin(_, _)
NthMin(S, n) == IF S = {} THEN 0
                ELSE LET m == CHOOSE x \in S : \A y \in S : x <= y
                     IN IF n = 1 THEN m ELSE NthMin(S \ {m}, n - 1)
\* the entry a template stands for when appended at position i with timestamp ts
Resolve(t, ts, i, L) ==
    EM(t.kind, t.cls, IF t.kind = "raft" THEN 0 ELSE ts,
      IF t.s = 0 THEN 0 ELSE NthMin(Creates(L), t.s),
      IF t.cls \in {"line", "panic"} THEN i ELSE 0,
      t.exp, t.ms)

---------------------------------------------------------------------------
(* The abstract IRC state machine: deterministic and total.                *)

EmptyFn == [x \in {} |-> 0]
EMPTY == [sess |-> {}, marks |-> {}, marker |-> EmptyFn, rev |-> 0, cexp |-> DefaultExp, maxs |-> 0]

EffExp(x) == IF x = 0 THEN DefaultExp ELSE x      \* "exp == 0 -> 10 min" in Snapshot()

\* The operators take the log as a parameter L so that Apply can evaluate
\* them on log' (the entry is stored in the raft log before it is applied).
MarksOfL(L, S, s) == {m \in S.marks : L[m].sess = s}
RegisteredL(L, S, s) == s \in S.sess /\ Cardinality(MarksOfL(L, S, s)) >= 2   \* NICK and USER seen

Bump(S, s, c) == IF s \in S.sess THEN [S EXCEPT !.marker[s] = c] ELSE S

\* applying entry i (a PANIC from a registered session, not yet marked) panics
WouldPanicL(L, S, i) ==
    /\ L[i].kind = "cmd" /\ L[i].cls = "panic"
    /\ i \notin mod
    /\ RegisteredL(L, S, L[i].sess)

\* FSM.applyRobustMessage on an IRCServer in abstract state S (never called when WouldPanic)
ApplyAbsL(L, S, i) ==
    LET e == L[i] IN
    IF e.kind = "raft" THEN S
    ELSE IF i \in mod THEN Bump(S, e.sess, e.cmid)        \* MessageOfDeath: marker only
    ELSE CASE e.cls = "create" ->
                  IF S.maxs > 0 /\ Cardinality(S.sess) >= S.maxs
                  THEN S                                  \* ErrSessionLimitReached: refused, no effect
                  ELSE [S EXCEPT !.sess = @ \cup {i},
                                 !.marker = [t \in S.sess \cup {i} |-> IF t = i THEN 0 ELSE S.marker[t]]]
           [] e.cls = "line" ->
                  IF e.sess \in S.sess
                  THEN [S EXCEPT !.marks = @ \cup {i}, !.marker[e.sess] = e.cmid]
                  ELSE S                                  \* unknown session: dropped at the gate
           [] e.cls = "delete" ->
                  IF e.sess \in S.sess
                  THEN [S EXCEPT !.sess = @ \ {e.sess},
                                 !.marks = @ \ MarksOfL(L, S, e.sess),
                                 !.marker = [t \in S.sess \ {e.sess} |-> S.marker[t]]]
                  ELSE S
           [] e.cls = "config" -> [S EXCEPT !.rev = i, !.cexp = e.exp, !.maxs = e.ms]   \* the whole config is replaced
           [] e.cls = "badconfig" -> S                    \* re-parsed, invalid, skipped
           [] e.cls = "panic" -> Bump(S, e.sess, e.cmid)  \* unregistered: 451, no panic
           [] OTHER -> S

\* does applying entry i in state S add a batch to the output store
HasOutputL(L, S, i) ==
    LET e == L[i] IN
    /\ e.kind = "cmd" /\ i \notin mod
    /\ CASE e.cls = "line"   -> e.sess \in S.sess /\ MarksOfL(L, S, e.sess) # {}  \* the first line is a bare NICK
         [] e.cls = "delete" -> RegisteredL(L, S, e.sess)        \* QUIT/ERROR only for logged-in sessions
         [] e.cls = "panic"  -> e.sess \in S.sess
         [] OTHER -> FALSE

MarksOf(S, s)    == MarksOfL(log, S, s)
Registered(S, s) == RegisteredL(log, S, s)
ApplyAbs(S, i)   == ApplyAbsL(log, S, i)
HasOutput(S, i)  == HasOutputL(log, S, i)

RECURSIVE ReplayFrom(_, _, _)
ReplayFrom(S, i, n) == IF i > n THEN S ELSE ReplayFrom(ApplyAbs(S, i), i + 1, n)
\* the state of a node that applied log[1..n] and never snapshotted
Replay(n) == ReplayFrom(EMPTY, 1, n)

Cmd(n) == {i \in 1..n : i <= Len(log) /\ log[i].kind = "cmd"}
MinOf(S) == CHOOSE x \in S : \A y \in S : x <= y
MaxOf(S) == CHOOSE x \in S : \A y \in S : x >= y

---------------------------------------------------------------------------
(* Encodings (internal/raftstore/leveldb.go, internal/raftlog, robust.go). *)
(* env = the raft.Log envelope, data = the robust.Message payload ("none"  *)
(* for raft-internal entries, which carry no robust.Message).              *)
Encs == {"json", "proto"}
EncR(v, d) == [env |-> v, data |-> d]
PP == EncR("proto", "proto")

\* LevelDBStore.StoreLogs of a node living in encoding c, of an entry whose payload the
\* API (api.applyMessageWait, same flag) encoded in c
Written(c, e) == EncR(c, IF e.kind = "raft" THEN "none" ELSE c)
\* deferred recover() in applyProto: the payload is re-marshalled in ITS encoding
\* (l.Data[0] == 'p' decides), the envelope is always written by StoreLogProto
Marked(x) == EncR("proto", x.data)
\* FSM.Apply in life c copies the entry into the irclog: ircstore.StoreLogProto(&p) /
\* ircstore.StoreLog(l); the payload bytes are the raft log's
IrcCopy(c, x) == EncR(c, x.data)

\* LevelDBStore.ConvertToProto over a store whose values have the encodings f (a function
\* on a set of indices), in key order: a raft-internal value is re-encoded unless its
\* envelope is protobuf already; a command value whose envelope or payload is still JSON
\* is re-encoded (raftlog.FromBytes, NewMessageFromBytes, CopyToProtoMessage); the first
\* command value found fully converted ends the pass ("database already converted") and
\* the batch collected so far is NOT written (it is only flushed beyond 100 entries).
RECURSIVE ConvFrom(_, _, _)
ConvFrom(f0, f, K) ==
    IF K = {} THEN f
    ELSE LET i == CHOOSE x \in K : \A y \in K : x <= y IN
         IF f[i].data = "none" THEN ConvFrom(f0, [f EXCEPT ![i] = EncR("proto", "none")], K \ {i})
         ELSE IF f[i] = PP THEN f0
         ELSE ConvFrom(f0, [f EXCEPT ![i] = PP], K \ {i})
ConvertToProto(f) == ConvFrom(f, f, DOMAIN f)
\* raftstore.NewLevelDBStore(dir, _, useProtobuf)
OpenStore(c, f) == IF c = "proto" THEN ConvertToProto(f) ELSE f

---------------------------------------------------------------------------
(* Node-level effect of FSM.Apply(log[i]) on the volatile/durable pieces.  *)
NS(st, sv, ou, ex) == [store |-> st, srv |-> sv, outs |-> ou, exp |-> ex]

ApplyNSL(L, ns, i) ==
    LET e == L[i] IN
    IF e.kind = "raft" THEN ns                        \* "Skip all messages that are raft-related"
    ELSE NS(ns.store \cup {i},                        \* ircstore.StoreLog first
            ApplyAbsL(L, ns.srv, i),
            IF HasOutputL(L, ns.srv, i) THEN ns.outs \cup {i} ELSE ns.outs,
            \* pinned tree: applyRobustMessage sets it for a valid config; repaired:
            \* applyProto re-reads the live config after every config entry
            IF e.cls = "config" /\ i \notin mod THEN e.exp
            ELSE IF e.cls = "badconfig" /\ FixF3 THEN ns.srv.cexp
            ELSE ns.exp)
ApplyNS(ns, i) == ApplyNSL(log, ns, i)

RECURSIVE ApplySet(_, _)
ApplySet(ns, S) == IF S = {} THEN ns
                   ELSE LET m == MinOf(S) IN ApplySet(ApplyNS(ns, m), S \ {m})

\* fold a set of entries into an abstract state only (tmpServer in Snapshot())
RECURSIVE FoldAbs(_, _)
FoldAbs(S, X) == IF X = {} THEN S ELSE LET m == MinOf(X) IN FoldAbs(ApplyAbs(S, m), X \ {m})

\* FSM.Restore of snapshot s into an FSM whose lastSnapshotState is l0 and
\* whose sessionExpirationDur is e0
RestoreOf(s, l0, e0) ==
    LET ns0 == NS({}, s.base, {}, IF FixF3 THEN s.base.cexp ELSE e0)
        ns  == ApplySet(ns0, s.retained)
    IN [ns |-> ns,
        lss |-> [k \in DOMAIN l0 \cup {s.li} |-> IF k = s.li THEN s.base ELSE l0[k]]]

\* the irclog values after FSM.Restore of snapshot s by a node living in encoding c:
\* decodeProtobuf puts the snapshot's records into the fresh irclog as they are;
\* decodeJson hands every retained entry to FSM.Apply (envelope of life c around the
\* snapshot's payload bytes), then "if *useProtobuf { ircstore.ConvertToProto() }"
RestoredEnc(s, c) ==
    IF s.fmt = "proto" THEN s.renc
    ELSE OpenStore(c, [i \in s.retained |-> IrcCopy(c, s.renc[i])])

\* what a process start WITH ENCODING c produces from the durable state (raftlog incl.
\* mod, irclog, snapshot store): NewLevelDBStore of both stores (conversion), then raft's
\* start-up sequence.  Every command entry replayed from the raft log is copied into the
\* irclog again.
AfterRestart(c) ==
    LET R == OpenStore(c, renc)
        I == OpenStore(c, ienc)
    IN IF snaps = << >>
       THEN LET ns == ApplySet(NS(store, EMPTY, {}, 0), 1..Len(log))
            IN [ns |-> ns, lss |-> EmptyFn, renc |-> R,
                ienc |-> [i \in ns.store |-> IF i \in Cmd(Len(log)) THEN IrcCopy(c, R[i]) ELSE I[i]]]
       ELSE LET s  == snaps[Len(snaps)]
                r  == RestoreOf(s, EmptyFn, 0)
                ns == ApplySet(r.ns, (s.ridx + 1)..Len(log))
                J  == RestoredEnc(s, c)
            IN [ns |-> ns, lss |-> r.lss, renc |-> R,
                ienc |-> [i \in ns.store |-> IF i > s.ridx THEN IrcCopy(c, R[i]) ELSE J[i]]]

---------------------------------------------------------------------------
Init ==
    /\ log = Prelude /\ mod = {} /\ applied = 0
    /\ store = {} /\ outs = {} /\ srv = EMPTY /\ lss = EmptyFn /\ exp = 0
    /\ pending = None /\ snaps = << >> /\ up = TRUE /\ hmax = -1
    /\ enc = InitEnc /\ renc = [i \in 1..Len(Prelude) |-> Written(InitEnc, Prelude[i])] /\ ienc = EmptyFn
    /\ now = CHOOSE n \in Nows : \A m \in Nows : n <= m
    /\ cnt = [snap |-> 0, fail |-> 0, restart |-> 0, restore |-> 0, panic |-> 0, mig |-> 0]
    /\ hist = << >>

H(a, i, e) == [a |-> a, i |-> i, now |-> now, e |-> e]
NoE == E("none", "none", 0, 0, 0, 0)

\* the next entry: re-application of a known entry, or a fresh one from the environment
NextEntries ==
    IF applied < Len(log) THEN {log[applied + 1]}
    ELSE IF Len(log) >= MaxLen THEN {}
    ELSE {Resolve(t, ts, Len(log) + 1, log) : t \in
             {t \in Alphabet : t.kind = "raft" =>
                 Cardinality({j \in 1..Len(log) : log[j].kind = "raft"}) < MaxGaps},
           ts \in TS}

ApplyCommon(e) ==
    /\ up
    /\ applied < Len(log) => e = log[applied + 1]
    /\ log' = IF applied < Len(log) THEN log ELSE Append(log, e)
    /\ UNCHANGED <<lss, pending, snaps, now, hmax, enc>>

\* the raft log store when entry i is handed to FSM.Apply: raft has stored a fresh entry
RencWith(e) == IF applied < Len(log) THEN renc ELSE Append(renc, Written(enc, e))
\* "ircstore.StoreLog first": the irclog copy of a command entry
IencWith(R, i, e) == IF e.kind = "raft" THEN ienc
                     ELSE [k \in DOMAIN ienc \cup {i} |-> IF k = i THEN IrcCopy(enc, R[i]) ELSE ienc[k]]

ApplyE(e) ==
       LET i == applied + 1 IN
       /\ ApplyCommon(e)
       /\ ~ WouldPanicL(log', srv, i)
       /\ LET ns == ApplyNSL(log', NS(store, srv, outs, exp), i)
          IN /\ store' = ns.store /\ srv' = ns.srv /\ outs' = ns.outs /\ exp' = ns.exp
       /\ applied' = i
       /\ renc' = RencWith(e) /\ ienc' = IencWith(renc', i, e)
       /\ UNCHANGED <<mod, up, cnt>>
       /\ hist' = Append(hist, H("Apply", i, e))

Apply == \E e \in NextEntries : ApplyE(e)

\* the entry panics inside ircserver.ProcessMessage: it has been stored in the
\* irclog already; the deferred recover() rewrites it in the RAFT LOG STORE and
\* the process exits.  Nothing else changes; all volatile state is gone.
ApplyPanicsE(e) ==
       LET i == applied + 1 IN
       /\ ApplyCommon(e)
       /\ WouldPanicL(log', srv, i)
       /\ cnt.panic < MaxPanics
       /\ store' = store \cup {i}
       /\ mod' = mod \cup {i}
       \* the irclog keeps the copy made before the panic; the raft log store's value is rewritten
       /\ LET R == RencWith(e) IN /\ ienc' = IencWith(R, i, e)
                                  /\ renc' = [R EXCEPT ![i] = Marked(R[i])]
       /\ up' = FALSE
       /\ cnt' = [cnt EXCEPT !.panic = @ + 1]
       /\ UNCHANGED <<applied, outs, srv, exp>>
       /\ hist' = Append(hist, H("ApplyPanics", i, e))

ApplyPanics == \E e \in NextEntries : ApplyPanicsE(e)

---------------------------------------------------------------------------
(* FSM.Snapshot(), exactly as coded.                                       *)

\* base lookup.  Pinned tree: lastSnapshotState[first-1].  Repaired: the
\* newest state filed below first.
BaseKey(first) ==
    IF FixF2
    THEN LET K == {k \in DOMAIN lss : k < first} IN IF K = {} THEN -1 ELSE MaxOf(K)
    ELSE IF (first - 1) \in DOMAIN lss THEN first - 1 ELSE -1

Cutoff == now - (EffExp(exp) + Grace)          \* compactionEnd
Young(i) == log[i].ts > Cutoff                 \* parsed.Timestamp().After(compactionEnd)

SnapshotTake ==
    /\ up /\ pending = None /\ store # {} /\ cnt.snap < MaxSnaps
    /\ LET first  == MinOf(store)
           last   == MaxOf(store)
           key    == BaseKey(first)
           base   == IF key = -1 THEN EMPTY ELSE lss[key]     \* not found: glog.Errorf, empty server
           kept   == IF key = -1 THEN lss ELSE [k \in {key} |-> lss[k]]
           young  == {i \in store : Young(i)}
           stop   == IF young = {} THEN 0 ELSE MinOf(young)   \* the scan breaks here
           folded == IF stop = 0 THEN store ELSE {i \in store : i < stop}
           tmp    == FoldAbs(base, folded)
           fcfg   == {i \in folded : log[i].cls = "config" /\ i \notin mod}
           nfirst == IF stop # 0 THEN stop
                     ELSE IF FixF2 THEN last + 1 ELSE first   \* pinned tree: first never moves
       IN /\ store' = store \ folded                          \* ircstore.DeleteRange(i, i)
          /\ outs' = outs \ folded                            \* outputStream.Delete(id)
          /\ lss' = [k \in DOMAIN kept \cup {nfirst - 1} |-> IF k = nfirst - 1 THEN tmp ELSE kept[k]]
          /\ pending' = [first |-> nfirst, last |-> last, li |-> nfirst - 1, base |-> tmp, ridx |-> applied]
          \* pinned tree: applyRobustMessage(config) on the temporary server also
          \* overwrites the live FSM's sessionExpirationDur
          /\ exp' = IF FixF3 \/ fcfg = {} THEN exp ELSE log[MaxOf(fcfg)].exp
          \* the horizon the property allows: expiration in force (live config) + grace
          /\ hmax' = LET h == now - (EffExp(srv.cexp) + Grace) IN IF h > hmax THEN h ELSE hmax
    /\ ienc' = [i \in store' |-> ienc[i]]
    /\ cnt' = [cnt EXCEPT !.snap = @ + 1]
    /\ UNCHANGED <<log, mod, applied, srv, snaps, up, now, enc, renc>>
    \* i = 1 records that this snapshot folded every stored entry (used to select replays)
    /\ hist' = Append(hist, H("SnapshotTake", IF \A j \in store : ~Young(j) THEN 1 ELSE 0, NoE))

\* Persist: state message + the entries found in the irclog in [first, last] NOW.
\* *useProtobuf selects the container ('p' + length-prefixed records, or a stream of
\* JSON values); the irclog values are copied as they are.
PersistOK ==
    /\ up /\ pending # None
    /\ LET ret == {i \in store : pending.first <= i /\ i <= pending.last}
       IN snaps' = Append(snaps, [ridx |-> pending.ridx, li |-> pending.li, base |-> pending.base,
                                  retained |-> ret, fmt |-> enc, renc |-> [i \in ret |-> ienc[i]]])
    /\ pending' = None
    /\ UNCHANGED <<log, mod, applied, store, outs, srv, lss, exp, up, now, hmax, enc, renc, ienc, cnt>>
    /\ hist' = Append(hist, H("PersistOK", 0, NoE))

\* the sink fails; raft cancels it; the deletions of SnapshotTake stay
PersistFail ==
    /\ up /\ pending # None /\ cnt.fail < MaxFails
    /\ pending' = None
    /\ cnt' = [cnt EXCEPT !.fail = @ + 1]
    /\ UNCHANGED <<log, mod, applied, store, outs, srv, lss, exp, snaps, up, now, hmax, enc, renc, ienc>>
    /\ hist' = Append(hist, H("PersistFail", 0, NoE))

\* Restore of the newest snapshot on a running node (InstallSnapshot / user
\* restore); raft continues applying after the snapshot's index.  lss is NOT
\* cleared by Restore, sessionExpirationDur is not touched on the pinned tree.
Restore ==
    /\ up /\ pending = None /\ snaps # << >> /\ cnt.restore < MaxRestores
    /\ LET s == snaps[Len(snaps)]
           r == RestoreOf(s, lss, exp)
       IN /\ store' = r.ns.store /\ srv' = r.ns.srv /\ outs' = r.ns.outs /\ exp' = r.ns.exp
          /\ lss' = r.lss
          /\ applied' = s.ridx
          /\ ienc' = RestoredEnc(s, enc)
    /\ cnt' = [cnt EXCEPT !.restore = @ + 1]
    /\ UNCHANGED <<log, mod, pending, snaps, up, now, hmax, enc, renc>>
    /\ hist' = Append(hist, H("Restore", 0, NoE))

\* crash (if up) and process start with -pre1.0_protobuf = c
Start(c) ==
    /\ LET r == AfterRestart(c)
       IN /\ store' = r.ns.store /\ srv' = r.ns.srv /\ outs' = r.ns.outs /\ exp' = r.ns.exp
          /\ lss' = r.lss /\ renc' = r.renc /\ ienc' = r.ienc
    /\ enc' = c
    /\ applied' = Len(log)
    /\ pending' = None
    /\ up' = TRUE
    /\ UNCHANGED <<log, mod, snaps, now, hmax>>

Restart ==
    /\ cnt.restart < MaxRestarts
    /\ Start(enc)
    /\ cnt' = [cnt EXCEPT !.restart = @ + 1]
    /\ hist' = Append(hist, H("Restart", 0, NoE))

\* the encoding migration of a node: it is stopped (or has crashed) and is started with
\* the other value of -pre1.0_protobuf.  Both LevelDB stores are converted when they are
\* opened (every value re-encoded, contents unchanged), a JSON snapshot is restored by
\* decodeJson, the converted raft log is replayed through FSM.Apply.
RestartWithEncoding(c) ==
    /\ enc = "json" /\ c = "proto"               \* switched on, never off again
    /\ cnt.mig < MaxMigrations
    /\ Start(c)
    /\ cnt' = [cnt EXCEPT !.mig = @ + 1]
    /\ hist' = Append(hist, [a |-> "RestartEnc", i |-> 0, now |-> now, e |-> NoE, enc |-> c])

TickTo(n) ==
    /\ up /\ n # now
    /\ now' = n
    /\ UNCHANGED <<log, mod, applied, store, outs, srv, lss, exp, pending, snaps, up, hmax, enc, renc, ienc, cnt>>
    /\ hist' = Append(hist, [a |-> "Tick", i |-> 0, now |-> n, e |-> NoE])

Tick == \E n \in Nows : n > now /\ (\A m \in Nows : m > now => n <= m) /\ TickTo(n)

Migrate == \E c \in Encs : RestartWithEncoding(c)

Next == Apply \/ ApplyPanics \/ SnapshotTake \/ PersistOK \/ PersistFail \/ Restore \/ Restart \/ Migrate \/ Tick

Spec == Init /\ [][Next]_vars

---------------------------------------------------------------------------
(* Invariants.                                                             *)

TypeOK ==
    /\ applied \in 0..Len(log) /\ Len(log) <= MaxLen
    /\ mod \subseteq 1..Len(log) /\ store \subseteq 1..Len(log) /\ outs \subseteq 1..Len(log)
    /\ srv.sess \subseteq 1..Len(log) /\ srv.marks \subseteq 1..Len(log)
    /\ DOMAIN srv.marker = srv.sess
    /\ DOMAIN lss \subseteq 0..MaxLen
    /\ up \in BOOLEAN
    /\ enc \in Encs
    /\ DOMAIN renc = 1..Len(log) /\ DOMAIN ienc = store
    /\ \A i \in 1..Len(log) : renc[i].env \in Encs /\ renc[i].data \in Encs \cup {"none"}
    /\ \A j \in 1..Len(snaps) : snaps[j].fmt \in Encs /\ DOMAIN snaps[j].renc = snaps[j].retained

\* C02 P1 / C07: the live server equals plain replay of the log (entries in
\* mod contribute only their duplicate marker)
StateIsFullReplay == up => srv = Replay(applied)

\* C02 P4: whatever a process start would produce now equals plain replay
RestoreEqualsReplay ==
    /\ \A c \in Encs : (c = enc \/ c = "proto") => AfterRestart(c).ns.srv = Replay(Len(log))
    /\ snaps # << >> => RestoreOf(snaps[Len(snaps)], EmptyFn, 0).ns.srv = Replay(snaps[Len(snaps)].ridx)

\* every filed state is the replay up to its key (implementation level)
LssSound == \A k \in DOMAIN lss : lss[k] = Replay(k)

\* the base the next Snapshot() will start from is the fold of exactly the
\* command entries below the first stored one (implementation level)
NextBaseFound ==
    (up /\ store # {}) =>
        LET first == MinOf(store)
            key   == BaseKey(first)
        IN IF key = -1 THEN Cmd(first - 1) = {} ELSE lss[key] = Replay(first - 1)

\* C02 P3: every command entry <= applied is in the irclog XOR folded into a
\* state the node holds (whatever key it is filed under: the key discipline is
\* LssSound / NextBaseFound); same for every persisted snapshot
FoldedXorRetained ==
    /\ up => \/ store = Cmd(applied)                       \* nothing folded on this run
             \/ \E k \in DOMAIN lss : \E n \in 0..applied :
                    lss[k] = Replay(n) /\ store = Cmd(applied) \ Cmd(n)
    /\ \A j \in 1..Len(snaps) :
          LET s == snaps[j] IN
          \E n \in 0..s.ridx : s.base = Replay(n) /\ s.retained = Cmd(s.ridx) \ Cmd(n)

\* an output batch exists exactly for the retained entries that produced one
OutputIffRetained ==
    up => outs = {i \in store : i <= applied /\ HasOutput(Replay(i - 1), i)}

\* the model-independent half of OutputIffRetained (used on recorded traces)
OutputOnlyRetained == up => outs \subseteq store

\* C02 P2 (horizon part): nothing younger than the horizon the property
\* allows (expiration in force + grace at the compaction times so far) is gone
HorizonRespected ==
    up => \A i \in Cmd(applied) : log[i].ts > hmax => i \in store

\* the expiration the FSM will use is the one in force (implementation level, F3)
ExpInForce == up => EffExp(exp) = EffExp(srv.cexp)

\* C07: only entries that really panic are ever rewritten; each at most once
ModOnlyPanicking ==
    \A i \in mod : /\ log[i].kind = "cmd" /\ log[i].cls = "panic"
                   /\ Registered(Replay(i - 1), log[i].sess)
\* C07: a marked entry is skipped on the live node, in every filed state and in
\* every snapshot (no effect but the duplicate marker), and does not stop progress
ModSkippedEverywhere ==
    \A i \in mod :
       /\ (up /\ i <= applied) =>
             /\ i \notin srv.marks
             /\ (log[i].sess \in srv.sess /\ ~ \E j \in (i + 1)..applied :
                     log[j].kind = "cmd" /\ log[j].sess = log[i].sess /\ log[j].cls \in {"line", "panic"})
                 => srv.marker[log[i].sess] = log[i].cmid
       /\ \A j \in 1..Len(snaps) : i \notin snaps[j].base.marks
\* C07 progress: the process is down only because of the entry it just marked,
\* and a start passes that entry and ends in the replay of the whole log
ModProgress == (~up) => ((applied + 1) \in mod /\ AfterRestart(enc).ns.srv = Replay(Len(log))
                                               /\ AfterRestart("proto").ns.srv = Replay(Len(log)))

\* Encodings (implementation level).  A JSON life leaves JSON values, except the envelope
\* of a marked entry in the raft log store; from the migration on everything is protobuf
\* (so the "already converted" shortcut of ConvertToProto never cuts a conversion short).
EncUniform ==
    /\ \A i \in 1..Len(log) :
          IF enc = "proto" THEN renc[i] = Written("proto", log[i])
          ELSE /\ renc[i].data = Written("json", log[i]).data
               /\ renc[i].env = (IF i \in mod THEN "proto" ELSE "json")
    /\ \A i \in store : ienc[i] = EncR(enc, enc)
\* every snapshot can be read by the process that would restore it: a protobuf container
\* holds 'p' records only (decodeProtobuf: "unexpected first byte"), a JSON container
\* JSON values only (json.Decoder), and a JSON life never meets a protobuf snapshot
SnapshotsReadable ==
    \A j \in 1..Len(snaps) :
       /\ \A i \in snaps[j].retained : snaps[j].renc[i].env = snaps[j].fmt
       /\ (enc = "json") => snaps[j].fmt = "json"

---------------------------------------------------------------------------
(* Getting behaviours out of TLC: every generated transition prints the    *)
(* history that leads to it (ACTION_CONSTRAINT EmitEdge).                  *)
EmitEdge == PrintT(<<"EDGE", ToJson(hist')>>)
=============================================================================
