\* shortest witness of one feature (TrapFeature is rewritten at run time)
SPECIFICATION Spec
CONSTANTS
  CMIDs = {0, 1, 2}
  MaxSteps = 8
  MaxOrig = 2
  MaxRetries = 3
  MaxOther = 2
  MaxSnap = 1
  MaxRestart = 2
  TrapFeature = "retry1"
INVARIANTS Trap
CHECK_DEADLOCK FALSE
