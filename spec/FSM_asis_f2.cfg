\* Behaviour of the PINNED tree for the snapshot base bookkeeping (FixF2 = FALSE).
\* TLC is EXPECTED to report a counterexample to RestoreEqualsReplay here; the
\* check turns it into a schedule and replays it on the real code (a TLC
\* counterexample alone is never a verdict).  Only property-level invariants.
SPECIFICATION Spec
CONSTANTS
    Alphabet <- AlphaBook
    TS = {0, 3, 6}
    Nows = {61, 64, 70}
    Prelude <- PreludeSess
    DefaultExp = 60
    Grace = 1
    MaxLen = 4
    MaxGaps = 1
    MaxSnaps = 2
    MaxFails = 0
    MaxRestarts = 1
    MaxRestores = 0
    MaxPanics = 0
    FixF2 = FALSE
    FixF3 = TRUE
    InitEnc = "proto"
    MaxMigrations = 0
VIEW view
INVARIANTS
    StateIsFullReplay
    RestoreEqualsReplay
CHECK_DEADLOCK FALSE
