\* C04 exhaustive, thorough tier: repaired getMessages (Fixed = TRUE).
\* 2 nodes, 3 batches of 1..3 replies with every recipient pattern, every lag,
\* 4 connections, disconnect at every point.
CONSTANTS
  Nodes = {1, 2}
  MaxBatches = 3
  MaxReplies = 3
  MaxReconnects = 4
  Fixed = TRUE
  Hist = FALSE
SPECIFICATION Spec
VIEW View
INVARIANTS
  TypeOK
  DeliveredIsPrefix
  ClastOK
  InFlightOK
