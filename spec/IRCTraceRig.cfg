SPECIFICATION Spec
CONSTANT NetName = "rig.example"
POSTCONDITION Accepted
CHECK_DEADLOCK FALSE
