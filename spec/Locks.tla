------------------------------- MODULE Locks -------------------------------
(***************************************************************************)
(* C20 -- concurrent API use while entries are applied is free of data     *)
(* races.                                                                  *)
(*                                                                         *)
(* Every operation the running robustirc process executes (HTTP handlers,  *)
(* FSM.Apply/Snapshot/Restore, robustSnapshot.Persist, the expiry loop of  *)
(* main, the /metrics gauge callbacks, the text-log dumper, the raft       *)
(* library's use of the log store, and every public method of IRCServer,   *)
(* OutputStream, LevelDBStore and api.HTTP) is a step list                 *)
(*                                                                         *)
(*      acq(lock, mode)   rel(lock)   sec(rs, ws)                          *)
(*                                                                         *)
(* `sec' is one critical section: the shared storage classes the code only *)
(* reads (rs) and those it writes (ws) while holding exactly the locks     *)
(* acquired and not yet released at that point (must-held lockset); rall / *)
(* wall are the unions over an operation's sections.  The step lists are   *)
(* NOT written by hand: /verif/tools/lockextract computes them from the    *)
(* current source tree at check time and emits the root module (LocksOps)  *)
(* that defines OpsDef / LockNamesDef / ... and INSTANCEs this module.     *)
(*                                                                         *)
(* The model: NSlots goroutines each run one operation to completion under *)
(* sync.RWMutex semantics (sync.Mutex = only mode "W").  Which operations  *)
(* may be in flight together is the concurrency relation MayOverlap, built *)
(* from the thread classes the extractor derives from the call graph:      *)
(*   "fsm"  the raft FSM goroutine: Apply, Snapshot, Restore and every     *)
(*          method only they reach are mutually serial;                    *)
(*   "snap" robustSnapshot.Persist (raft's snapshot goroutine): concurrent *)
(*          with later Applies, serial with the Snapshot that created it;  *)
(*   "main" the expiry loop of main();  "bg" the text-log dumper;          *)
(*   "http" net/http handler goroutines and "raft" library goroutines:     *)
(*          any number at once, also the same operation twice.             *)
(*                                                                         *)
(* Invariant NoConflictingUnorderedAccess: no reachable state has two      *)
(* operations inside sections that contain a write(c) / read-or-write(c)   *)
(* pair on the same class c.  (If they held a common lock in conflicting   *)
(* modes the RW-mutex semantics would make that state unreachable.)        *)
(*                                                                         *)
(* A violation is only a CANDIDATE: the check confirms it on the real code *)
(* with the race detector (harness/race) before reporting anything.        *)
(***************************************************************************)
EXTENDS Integers, Sequences, FiniteSets, TLC

CONSTANTS Ops,          \* sequence of [name, threads, steps, rall, wall]
          LockNames,    \* set of lock classes
          MultiThreads, \* thread classes with any number of goroutines
          SerialPairs,  \* extra pairs of operation names that never overlap
          NSlots,       \* goroutines in flight (2 = all pairs, 3 = triples)
          OnlyOps,      \* {} or a set of operation indexes: restrict Init to them
          Report,       \* TRUE: print every conflict as a CANDIDATE line instead of failing
          Prune         \* TRUE: do not start operation sets that share no written class

VARIABLES op,    \* op[s]  : index into Ops of the operation goroutine s runs
          pc,    \* pc[s]  : index of its NEXT step (Len+1 = finished)
          rd,    \* rd[l]  : set of goroutines holding l in read mode
          wr     \* wr[l]  : goroutine holding l in write mode, or 0

vars == <<op, pc, rd, wr>>

Slots == 1..NSlots
N == Len(Ops)

Steps(s) == Ops[op[s]].steps
Done(s) == pc[s] > Len(Steps(s))
Cur(s) == Steps(s)[pc[s]]

(***************************************************************************)
(* Concurrency relation.                                                   *)
(***************************************************************************)
ThreadsOverlap(t1, t2) == t1 # t2 \/ t1 \in MultiThreads

MayOverlap(i, j) ==
    /\ \E t1 \in Ops[i].threads, t2 \in Ops[j].threads : ThreadsOverlap(t1, t2)
    /\ {Ops[i].name, Ops[j].name} \notin SerialPairs

(***************************************************************************)
(* Init: every multiset of NSlots pairwise-overlapping operations.         *)
(***************************************************************************)
\* Operations that never touch a common class with at least one of them
\* writing cannot violate the invariant in any interleaving; they are not
\* started together (sound reduction of the set of initial states).
CanConflict(i, j) ==
    \/ Ops[i].wall \cap (Ops[j].rall \cup Ops[j].wall) # {}
    \/ Ops[j].wall \cap Ops[i].rall # {}

Init ==
    /\ op \in [Slots -> 1..N]
    /\ \A s \in Slots : s + 1 \in Slots => op[s] <= op[s + 1]
    /\ \A s, t \in Slots : s < t => MayOverlap(op[s], op[t])
    /\ Prune => \E s, t \in Slots : s < t /\ CanConflict(op[s], op[t])
    /\ OnlyOps # {} => \A s \in Slots : op[s] \in OnlyOps
    /\ pc = [s \in Slots |-> 1]
    /\ rd = [l \in LockNames |-> {}]
    /\ wr = [l \in LockNames |-> 0]

(***************************************************************************)
(* One action per step kind.                                               *)
(***************************************************************************)
AcquireW(s) ==
    /\ ~Done(s) /\ Cur(s).k = "acq" /\ Cur(s).m = "W"
    /\ wr[Cur(s).l] = 0 /\ rd[Cur(s).l] = {}
    /\ wr' = [wr EXCEPT ![Cur(s).l] = s]
    /\ pc' = [pc EXCEPT ![s] = @ + 1]
    /\ UNCHANGED <<op, rd>>

\* Go's RWMutex additionally blocks new readers while a writer waits; that
\* only removes behaviours, so leaving it out is sound for a safety check.
AcquireR(s) ==
    /\ ~Done(s) /\ Cur(s).k = "acq" /\ Cur(s).m = "R"
    /\ wr[Cur(s).l] = 0
    /\ rd' = [rd EXCEPT ![Cur(s).l] = @ \cup {s}]
    /\ pc' = [pc EXCEPT ![s] = @ + 1]
    /\ UNCHANGED <<op, wr>>

Release(s) ==
    /\ ~Done(s) /\ Cur(s).k = "rel"
    /\ IF wr[Cur(s).l] = s
         THEN /\ wr' = [wr EXCEPT ![Cur(s).l] = 0]
              /\ UNCHANGED rd
         ELSE /\ rd' = [rd EXCEPT ![Cur(s).l] = @ \ {s}]
              /\ UNCHANGED wr
    /\ pc' = [pc EXCEPT ![s] = @ + 1]
    /\ UNCHANGED op

\* Leaving a critical section (the goroutine is INSIDE it while pc points at it).
Section(s) ==
    /\ ~Done(s) /\ Cur(s).k = "sec"
    /\ pc' = [pc EXCEPT ![s] = @ + 1]
    /\ UNCHANGED <<op, rd, wr>>

Next == \E s \in Slots : AcquireW(s) \/ AcquireR(s) \/ Release(s) \/ Section(s)

Spec == Init /\ [][Next]_vars

(***************************************************************************)
(* The property.                                                           *)
(***************************************************************************)
InSection(s) == ~Done(s) /\ Cur(s).k = "sec"

\* classes on which two sections conflict: written by one, read or written by
\* the other
ConflictClasses(a, b) ==
    (a.ws \cap (b.rs \cup b.ws)) \cup (b.ws \cap a.rs)

Conflicts(s, t) ==
    IF InSection(s) /\ InSection(t) THEN ConflictClasses(Cur(s), Cur(t)) ELSE {}

NoConflictingUnorderedAccess ==
    \A s, t \in Slots : s < t => Conflicts(s, t) = {}

\* Enumeration mode: never fails, prints each conflicting section pair once
\* (TLC evaluates an invariant once per distinct state).
CandidatesReported ==
    \A s, t \in Slots :
        (s < t /\ Conflicts(s, t) # {}) =>
            PrintT(<<"CANDIDATE", Ops[op[s]].name, Cur(s).seg, Ops[op[t]].name, Cur(t).seg, Conflicts(s, t)>>)

Inv == IF Report THEN CandidatesReported ELSE NoConflictingUnorderedAccess

(***************************************************************************)
(* Sanity: locks are used consistently (a violation would be an extractor  *)
(* bug, not a property violation).                                         *)
(***************************************************************************)
LocksWellFormed ==
    \A l \in LockNames : wr[l] # 0 => rd[l] \subseteq {wr[l]}

=============================================================================
