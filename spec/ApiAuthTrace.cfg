SPECIFICATION TSpec
INVARIANTS EffectNeedsSecret PrivateNeedsPassword PasswordIsNoSecret RefusedIsNot2xx
POSTCONDITION Accept
CHECK_DEADLOCK FALSE
