SPECIFICATION TSpec
INVARIANTS EffectNeedsSecret PrivateNeedsPassword PasswordIsNoSecret
POSTCONDITION Accept
CHECK_DEADLOCK FALSE
