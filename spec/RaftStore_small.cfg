\* C09 exhaustive configuration of the thorough tier (root module RaftStoreMC):
\* complete reachable graph (no depth bound) of the reference map for 3 index
\* ranks {1,3,5} (+ gap ranks 0,2,4,6 as DeleteRange bounds, all 28 pairs lo <= hi
\* + 2 inverted), the empty stable key with the empty byte value and uint64
\* 2^64-1, 6 StoreLog choices, 1 batch with 2 more shapes, 1 StoreLogProto shape,
\* both encodings, Close/Kill/Open/ConvertToProto in every state.
\* Above = {}: no index rank sorts after the "stablestore-" keys in this graph; checks/c09.py
\* derives the variants Above = {1,3,5}, {5}, {3,5} of the tiny config at run time (thorough tier)
\* and executes every tour/behaviour under concretisations below, above and across that boundary.
SPECIFICATION Spec
CONSTANTS
    Idx <- SmallIdx
    Bounds <- SmallBounds
    Keys = {4}
    BVals = {1}
    UVals = {5}
    EntryChoices <- SmallEntries
    SeqChoices <- SmallSeqs
    ProtoChoices <- SmallProtos
    RangeChoices <- SmallRanges
    EncChoices <- Encs
    Above = {}
    KeepHist = FALSE
    MaxOps = 0
VIEW SV
INVARIANTS TypeOK ObsConsistent ConvDiscipline
PROPERTIES StableNeverShadowsLog RestartKeepsEverything DeleteExact
ACTION_CONSTRAINT EdgePrint
