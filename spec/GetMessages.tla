--------------------------- MODULE GetMessages ---------------------------
(***************************************************************************)
(* C04 -- exactly-once, in-order delivery when a client resumes with       *)
(* lastseen.  Model of internal/api/getmessages.go (getMessages and the    *)
(* per-session filter of handleGetMessages) over two nodes that apply the  *)
(* same sequence of output batches at independent speeds.                  *)
(*                                                                         *)
(* Output of the replicated log: batches[k] (k = 1,2,...) is the batch of  *)
(* replies to input message k; batches[k][r] = TRUE iff reply k.r is       *)
(* addressed to THE client (InterestingFor[session]); replies are numbered *)
(* from 1 as in ircserver.send.  Id 0 stands for the session id (the       *)
(* CreateSession message has no output batch: Get misses, GetNext returns  *)
(* the first batch after it).  Node n has applied (outputstream.Add)       *)
(* batches 1..applied[n]; nothing is deleted (scope of the property:       *)
(* resume points newer than the compaction horizon).                       *)
(*                                                                         *)
(* Reader = one getMessages goroutine, split at the code's interaction     *)
(* points with the stream:                                                 *)
(*   G0   Get(lastSeen) and the remainder msgs[lastSeen.Reply:]            *)
(*        (pinned code only, Fixed = FALSE; evaluated at the instant the   *)
(*        reader starts -- the code has no observable point before it)     *)
(*   G1   GetNext(from): atomic w.r.t. the stream at one instant (C08):    *)
(*        smallest batch id > from if the node has one, otherwise the      *)
(*        successor of the node's tail at that instant (G1w waits for it)  *)
(*   G2   the guard msgs[0].Id.Id < lastSeen.Id and the 250 ms back-off    *)
(*        (pc = "G2": sleeping; Adds may happen)                           *)
(*   G3   send on the unbuffered channel; lastSeen = msgs[0].Id            *)
(* Fixed = TRUE models the repaired getMessages (proposed fix F6): no Get; *)
(* while the resume point is pending the reader asks GetNext for the       *)
(* successor of lastSeen.Id-1, i.e. the batch lastSeen.Id itself once the  *)
(* node has it, and trims the lastSeen.Reply messages the client has.      *)
(*                                                                         *)
(* Client: Recv consumes the JSON lines of a batch one at a time (the      *)
(* handler drops lines not addressed to the session), Disconnect at any    *)
(* point (also inside a batch), Reconnect(n) with lastseen = id of the     *)
(* last message it RECEIVED.                                               *)
(***************************************************************************)
EXTENDS Integers, Sequences, FiniteSets, TLC

CONSTANTS Nodes,          \* e.g. {1, 2}
          MaxBatches,     \* length of the batch sequence
          MaxReplies,     \* batch size 1..MaxReplies
          MaxReconnects,  \* number of connections of the client (incl. the first)
          Fixed,          \* TRUE: repaired getMessages; FALSE: pinned code
          Hist            \* TRUE: record the behaviour in hist (simulation / cover)

VARIABLES batches,    \* Seq(Seq(BOOLEAN)): output of the log so far (global)
          applied,    \* [Nodes -> Nat]: prefix of batches Added on each node
          conn,       \* node the client is connected to, 0 = none
          pc,         \* reader: "idle" "G0s" "G1" "G1w" "G2" "G3"
          ls,         \* reader's lastSeen <<id, reply>>
          pend,       \* Fixed: resume position not yet honoured
          want,       \* G1w: batch id GetNext is waiting for
          out,        \* messages about to be sent (pc \in {"G0s","G3"})
          wire,       \* messages of the batch handed to the handler, not yet consumed by the client
          clast,      \* client: id of the last message it received, <<0,0>> = none
          delivered,  \* history: everything the client received, in order
          nrec,       \* connections made so far
          hist        \* history of actions (only if Hist)

vars == <<batches, applied, conn, pc, ls, pend, want, out, wire, clast, delivered, nrec, hist>>

\* delivered is a function of (batches, clast) while the invariant holds;
\* hist is a pure history variable.
View == <<batches, applied, conn, pc, ls, pend, want, out, wire, clast, nrec>>

BatchSet == UNION {[1..n -> BOOLEAN] : n \in 1..MaxReplies}

\* contents a new batch may have (overridden by one random element in simulation)
NewBatches == BatchSet

Min(a, b) == IF a < b THEN a ELSE b

\* messages of batch k with reply number > from
Msgs(k, from) == [i \in 1..(Len(batches[k]) - Min(from, Len(batches[k]))) |-> <<k, from + i>>]

Addressed(m) == batches[m[1]][m[2]]

RECURSIVE Flat(_)
Flat(k) == IF k = 0 THEN <<>> ELSE Flat(k - 1) \o Msgs(k, 0)

\* the session's messages in id order (Id.Id, then Id.Reply)
Expected == SelectSeq(Flat(Len(batches)), Addressed)

IsPrefix(s, t) == Len(s) <= Len(t) /\ SubSeq(t, 1, Len(s)) = s

\* history record = action + the post-state the replay harness compares with
Rec(r) == IF Hist
            THEN hist' = Append(hist, r @@ [pc |-> pc', ls |-> ls', out |-> out', wire |-> wire',
                                            dl |-> Len(delivered'), want |-> want', cn |-> conn',
                                            ap |-> applied'])
            ELSE UNCHANGED hist

BStr(b) == [i \in 1..Len(b) |-> IF b[i] THEN 1 ELSE 0]

---------------------------------------------------------------------------
Init ==
  /\ batches = <<>>
  /\ applied = [n \in Nodes |-> 0]
  /\ conn = 0
  /\ pc = "idle"
  /\ ls = <<0, 0>>
  /\ pend = FALSE
  /\ want = 0
  /\ out = <<>>
  /\ wire = <<>>
  /\ clast = <<0, 0>>
  /\ delivered = <<>>
  /\ nrec = 0
  /\ hist = <<>>

\* outputstream.Add on node n: the next batch in id order.  The first node to
\* apply an entry fixes its content (raft: same log everywhere).
Add(n) ==
  /\ applied[n] < MaxBatches
  /\ IF applied[n] < Len(batches)
       THEN UNCHANGED batches
       ELSE \E b \in NewBatches : batches' = Append(batches, b)
  /\ applied' = [applied EXCEPT ![n] = @ + 1]
  /\ UNCHANGED <<conn, pc, ls, pend, want, out, wire, clast, delivered, nrec>>
  /\ Rec([a |-> "add", n |-> n, k |-> applied[n] + 1, b |-> BStr(batches'[applied[n] + 1])])

\* G0 of the pinned code: api.output().Get(lastSeen) at the start of getMessages
G0Hit(n, l) == l[1] \in 1..applied[n] /\ l[2] < Len(batches[l[1]])

\* handleGetMessages: lastseen "0.0"/"" -> lastSeen := session id (0 here)
Reconnect(n) ==
  /\ conn = 0
  /\ nrec < MaxReconnects
  /\ conn' = n
  /\ nrec' = nrec + 1
  /\ ls' = clast
  /\ want' = 0
  /\ wire' = <<>>
  /\ IF Fixed
       THEN /\ pend' = TRUE
            /\ out' = <<>>
            /\ pc' = "G1"
       ELSE /\ pend' = FALSE
            /\ IF G0Hit(n, clast)
                 THEN out' = Msgs(clast[1], clast[2]) /\ pc' = "G0s"
                 ELSE out' = <<>> /\ pc' = "G1"
  /\ UNCHANGED <<batches, applied, clast, delivered>>
  /\ Rec([a |-> "conn", n |-> n, id |-> clast[1], r |-> clast[2]])

\* argument of GetNext
From == IF Fixed /\ pend /\ ls[1] > 0 THEN ls[1] - 1 ELSE ls[1]

\* GetNext returned batch k: guard, bookkeeping, what will be sent
Return(k) ==
  IF k < ls[1]
    THEN \* client is ahead of this node: 250 ms back-off, then GetNext again
         /\ pc' = "G2"
         /\ UNCHANGED <<ls, pend, out>>
    ELSE LET o == IF Fixed /\ pend /\ k = ls[1] THEN Msgs(k, ls[2]) ELSE Msgs(k, 0)
         IN /\ ls' = <<k, 1>>      \* lastSeen = msgs[0].Id
            /\ pend' = FALSE
            /\ out' = o
            /\ pc' = IF o = <<>> THEN "G1" ELSE "G3"

\* GetNext is called; the outcome is fixed by the stream content at this instant
G1 ==
  /\ conn # 0 /\ pc = "G1"
  /\ LET a == applied[conn] IN
       IF a > From
         THEN Return(From + 1) /\ want' = 0
         ELSE /\ pc' = "G1w" /\ want' = a + 1    \* blocks on the tail's successor
              /\ UNCHANGED <<ls, pend, out>>
  /\ UNCHANGED <<batches, applied, conn, wire, clast, delivered, nrec>>
  /\ Rec([a |-> "g1"])

\* the blocked GetNext returns (newMessage.Broadcast after Add)
G1w ==
  /\ conn # 0 /\ pc = "G1w"
  /\ applied[conn] >= want
  /\ Return(want) /\ want' = 0
  /\ UNCHANGED <<batches, applied, conn, wire, clast, delivered, nrec>>
  /\ Rec([a |-> "wake"])

\* the back-off sleep ends
G2 ==
  /\ conn # 0 /\ pc = "G2"
  /\ pc' = "G1"
  /\ UNCHANGED <<batches, applied, conn, ls, pend, want, out, wire, clast, delivered, nrec>>
  /\ Rec([a |-> "g2"])

\* rendezvous on msgschan: the handler takes the batch (previous one written out)
G3 ==
  /\ conn # 0 /\ pc \in {"G0s", "G3"}
  /\ wire = <<>>
  /\ wire' = out
  /\ out' = <<>>
  /\ pc' = "G1"
  /\ UNCHANGED <<batches, applied, conn, ls, pend, want, clast, delivered, nrec>>
  /\ Rec([a |-> "send"])

\* the client consumes the next line; the handler has filtered by InterestingFor
Recv ==
  /\ conn # 0 /\ wire # <<>>
  /\ LET m == Head(wire) IN
       /\ wire' = Tail(wire)
       /\ IF Addressed(m)
            THEN delivered' = Append(delivered, m) /\ clast' = m
            ELSE UNCHANGED <<delivered, clast>>
  /\ UNCHANGED <<batches, applied, conn, pc, ls, pend, want, out, nrec>>
  /\ Rec([a |-> "recv"])

Disconnect ==
  /\ conn # 0
  /\ conn' = 0
  /\ pc' = "idle"
  /\ wire' = <<>>
  /\ out' = <<>>
  /\ want' = 0
  /\ UNCHANGED <<batches, applied, ls, pend, clast, delivered, nrec>>
  /\ Rec([a |-> "disc"])

Reader == G1 \/ G1w \/ G2 \/ G3

Next ==
  \/ \E n \in Nodes : Add(n) \/ Reconnect(n)
  \/ Reader
  \/ Recv
  \/ Disconnect

Spec == Init /\ [][Next]_vars

---------------------------------------------------------------------------
TypeOK ==
  /\ Len(batches) <= MaxBatches
  /\ \A n \in Nodes : applied[n] \in 0..Len(batches)
  /\ conn \in Nodes \cup {0}
  /\ pc \in {"idle", "G0s", "G1", "G1w", "G2", "G3"}
  /\ (conn = 0) <=> (pc = "idle")
  /\ nrec \in 0..MaxReconnects

\* C04: no gap, no duplicate, in id order, over all connections
DeliveredIsPrefix == IsPrefix(delivered, Expected)

\* clast is the last delivered message
ClastOK == clast = IF delivered = <<>> THEN <<0, 0>> ELSE delivered[Len(delivered)]

\* what is in flight continues the delivered sequence (strengthening; Fixed only)
InFlightOK ==
  LET fl == SelectSeq(wire, Addressed)
  IN IsPrefix(delivered \o fl, Expected)

---------------------------------------------------------------------------
\* Liveness (GetMessages_live.cfg): a client that stays connected to a node
\* which has applied everything receives everything.
Fairness ==
  /\ WF_vars(Reader)
  /\ WF_vars(Recv)
  /\ \A n \in Nodes : WF_vars(Add(n))

LiveSpec == Spec /\ Fairness

Complete ==
  (<>[](conn # 0)) => <>[](delivered = Expected /\ Len(batches) = MaxBatches)

=============================================================================
