\* Message-of-death model, thorough: <= 3 further entries, two crashes.
SPECIFICATION Spec
CONSTANTS
    Alphabet <- AlphaMod
    TS = {0, 6}
    Nows = {64}
    Prelude <- PreludeReg
    DefaultExp = 60
    Grace = 1
    MaxLen = 6
    MaxGaps = 0
    MaxSnaps = 1
    MaxFails = 0
    MaxRestarts = 2
    MaxRestores = 0
    MaxPanics = 2
    FixF2 = TRUE
    FixF3 = TRUE
    InitEnc = "proto"
    MaxMigrations = 0
VIEW view
INVARIANTS
    TypeOK
    StateIsFullReplay
    RestoreEqualsReplay
    LssSound
    NextBaseFound
    FoldedXorRetained
    OutputIffRetained
    HorizonRespected
    ExpInForce
    ModOnlyPanicking
    ModSkippedEverywhere
    ModProgress
    EncUniform
    SnapshotsReadable
ACTION_CONSTRAINT EmitEdge
CHECK_DEADLOCK FALSE
