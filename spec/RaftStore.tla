----------------------------- MODULE RaftStore -----------------------------
(***************************************************************************)
(* C09 -- the LevelDB store of robustirc (internal/raftstore/leveldb.go)   *)
(* seen as raft.LogStore + raft.StableStore.                               *)
(*                                                                         *)
(* The specification IS the reference "plain in-memory map":               *)
(*   logs   : partial function  index-rank -> stored entry                 *)
(*   stable : partial function  key        -> last value written           *)
(* plus the two pieces of implementation state that decide what the        *)
(* JSON -> protobuf migration does: the encoding the store was opened with *)
(* (enc) and, per entry, the encoding of the LevelDB value (venc).         *)
(*                                                                         *)
(* One action per public method of LevelDBStore:                           *)
(*   StoreLog / StoreLogs / StoreLogProto / DeleteRange / Set / SetUint64  *)
(*   ConvertToProto / Close / Open(enc) (= NewLevelDBStore) / Kill.        *)
(* CloseReopen(enc') of the design is Close;Open(enc'), Kill+Reopen is     *)
(* Kill;Open(enc').  Kill leaves the state exactly as it is: every write   *)
(* that returned is durable against SIGKILL of the process.                *)
(*                                                                         *)
(* Observations (FirstIndex, LastIndex, GetLog, Get, GetUint64) are        *)
(* operators over the state.                                               *)
(*                                                                         *)
(* Numbers are small model constants.  Indexes are RANKS in a sorted list  *)
(* of real uint64 values chosen by the harness (order preserving, logged   *)
(* in the trace), payloads / extensions / times / terms / keys / values    *)
(* are ids into fixed tables of the Go harness (tables_test.go).           *)
(*                                                                         *)
(* Domain assumptions (stated in the evidence):                            *)
(*  A1 index 0 is never stored (raft indexes start at 1); indexes and       *)
(*     DeleteRange bounds are <= 2^64-2 (max+1 overflows for 2^64-1).      *)
(*     Index keys above 0x737461626c657374 ("stablest") sort AFTER the     *)
(*     "stablestore-" keys in LevelDB: such ranks are listed in `above`;   *)
(*  A2 the data of a LogCommand entry is a robust.Message (JSON or         *)
(*     'p'-prefixed protobuf) -- ConvertToProto log.Panicf()s otherwise;   *)
(*  A3 fewer than 100 entries in the store when ConvertToProto runs (the   *)
(*     model does not describe the intermediate flush of its write batch); *)
(*  A4 GetUint64 is only meaningful on keys written by SetUint64.          *)
(***************************************************************************)
EXTENDS Integers, Sequences, FiniteSets, TLC, Json

CONSTANTS
    Idx,           \* ranks that may carry a log entry (positive integers)
    Bounds,        \* ranks usable as DeleteRange bounds (superset of Idx)
    Keys,          \* stable-store key ids
    BVals,         \* byte-string value ids for Set      (1 = empty string)
    UVals,         \* uint64 value ids for SetUint64     (1 = the value 0)
    EntryChoices,  \* entries  <<i,term,ty,d,x,at>>        offered to StoreLog
    SeqChoices,    \* sequences of such entries            offered to StoreLogs
    ProtoChoices,  \* <<i,term,ty,d,x,at,unset>>           offered to StoreLogProto
    RangeChoices,  \* <<lo,hi>>                            offered to DeleteRange
    EncChoices,    \* encodings offered to Open
    Above,         \* ranks whose 8-byte key sorts after the "stablestore-" keys
    KeepHist,      \* TRUE: hist is the whole op sequence; FALSE: only the last op
    MaxOps         \* bound on Len(hist) when KeepHist (simulation depth)

VARIABLES
    logs,    \* [subset of Idx -> StoredEntry]
    stable,  \* [subset of Keys -> [t : {"b","u"}, n : value id]]
    enc,     \* "json" | "proto" | "none" (closed)
    open,    \* BOOLEAN: a LevelDBStore object is open on the directory
    above,   \* = Above (a variable only so that the trace specification can take it
             \*   from the trace); never changes
    hist     \* history of operations (generator output, not implementation state)

vars == <<logs, stable, enc, open, hist, above>>
SV   == <<logs, stable, enc, open>>        \* the VIEW of the exhaustive config

---------------------------------------------------------------------------
(* Fixed tables, mirrored by harness/raftstore (checked at run time: the   *)
(* harness logs its classes in every Reset record).                        *)

PClass   == <<"empty", "jmsg", "jmsg", "pmsg0", "pmsg", "bin", "binp">>
Payloads == 1..7     \* 1 empty; 2 JSON msg (Id 0); 3 JSON msg (Id set);
                     \* 4 'p' proto msg with Id 0 (not canonical once an index is
                     \*   filled in); 5 'p' proto msg, canonical; 6 binary;
                     \* 7 binary starting with 'p'
Types    == 0..5     \* raft.LogCommand .. raft.LogConfiguration
Terms    == 1..4
Exts     == 0..2     \* 0 = absent
Times    == 0..5     \* 0 = time.Time{}; 1 = Unix epoch
ZeroT    == 0
EpochT   == 1
EmptyB   == 1
ZeroU    == 1

IsMsg(d) == PClass[d] \in {"jmsg", "pmsg0", "pmsg"}

EmptyFn == [x \in {} |-> 0]

ArgOK(e) ==
    /\ e[1] \in Idx /\ e[2] \in Terms /\ e[3] \in Types
    /\ e[4] \in Payloads /\ e[5] \in Exts /\ e[6] \in Times
    /\ (e[3] = 0 => IsMsg(e[4]))                              \* A2

StoredEntry ==
    [term : Terms, ty : Types, d : Payloads, x : Exts, at : Times,
     venc : {"json", "proto"},
     conv : BOOLEAN]   \* data bytes are no longer the bytes written: they are the
                       \* protobuf re-encoding of the same robust.Message

Val == [t : {"b"}, n : BVals] \cup [t : {"u"}, n : UVals]

TypeOK ==
    /\ DOMAIN logs \subseteq Idx
    /\ \A i \in DOMAIN logs : logs[i] \in StoredEntry
    /\ DOMAIN stable \subseteq Keys
    /\ \A k \in DOMAIN stable : stable[k] \in Val
    /\ open \in BOOLEAN
    /\ enc \in {"json", "proto", "none"}
    /\ open <=> enc # "none"
    /\ above \subseteq Idx

---------------------------------------------------------------------------
(* Observations.                                                           *)

Min(S) == CHOOSE m \in S : \A o \in S : m <= o
Max(S) == CHOOSE m \in S : \A o \in S : m >= o

FirstIndexOf(L) == IF DOMAIN L = {} THEN 0 ELSE Min(DOMAIN L)
LastIndexOf(L)  == IF DOMAIN L = {} THEN 0 ELSE Max(DOMAIN L)
FirstIndex == FirstIndexOf(logs)
LastIndex  == LastIndexOf(logs)

NotFound == [r |-> "ErrLogNotFound"]
GetLogOf(L, i) ==
    IF i \in DOMAIN L
    THEN [r |-> "ok", idx |-> i, term |-> L[i].term, ty |-> L[i].ty, d |-> L[i].d,
          conv |-> L[i].conv, x |-> L[i].x, at |-> L[i].at]
    ELSE NotFound
GetLog(i) == GetLogOf(logs, i)

\* Get: value, or "nothing" for a missing key (raft: "an empty byte slice if key
\* was not found") -- an empty value written by Set looks the same.
Nothing == [t |-> "none", n |-> 0]
GetOf(S, k) ==
    IF k \notin DOMAIN S \/ S[k] = [t |-> "b", n |-> EmptyB] THEN Nothing ELSE S[k]
Get(k) == GetOf(stable, k)

\* GetUint64: 0 for a missing key, the number for a key written by SetUint64,
\* undefined (A4) otherwise.
Undef == [t |-> "undef", n |-> 0]
GetUint64Of(S, k) ==
    IF k \notin DOMAIN S THEN [t |-> "u", n |-> ZeroU]
    ELSE IF S[k].t = "u" THEN S[k] ELSE Undef
GetUint64(k) == GetUint64Of(stable, k)

---------------------------------------------------------------------------
(* What is written.                                                        *)

\* StoreLogs: json.Marshal(raft.Log) in JSON mode, 'p'+proto(pb.RaftLog) in proto
\* mode; both keep all six fields.
Stored(e, ve) ==
    [term |-> e[2], ty |-> e[3], d |-> e[4], x |-> e[5], at |-> e[6],
     venc |-> ve, conv |-> FALSE]

RECURSIVE PutAll(_, _, _)
PutAll(L, es, ve) ==
    IF es = <<>> THEN L
    ELSE PutAll((es[1][1] :> Stored(es[1], ve)) @@ L, Tail(es), ve)

\* ConvertToProto (leveldb.go:70-157) walks the log keys in ascending order with
\* one write batch:
\*   non-command entry : JSON value -> re-encoded as 'p' value (data untouched);
\*   command entry, JSON value or data not starting with 'p' -> data becomes
\*       'p'+proto(robust.NewMessageFromBytes(data, index)), value 'p';
\*   command entry already converted -> "database already converted", return nil
\*       WITHOUT writing the batch: nothing at all changes (A3: the batch is
\*       only flushed early when it holds more than 100 entries).
DataStartsWithP(e) == e.conv \/ PClass[e.d] \in {"pmsg0", "pmsg", "binp"}
AlreadyConverted(e) ==
    /\ e.ty = 0
    /\ e.venc = "proto"
    /\ (PClass[e.d] = "empty" \/ DataStartsWithP(e))

\* The re-encoding is byte-identical for a canonical 'p' message whose Id is
\* set; it differs for JSON messages and for messages whose Id.Id is 0 (the
\* raft index gets filled in).
ConvChangesBytes(e) == ~e.conv /\ PClass[e.d] \in {"jmsg", "pmsg0"}

ConvertEntry(e) ==
    IF e.ty # 0 THEN [e EXCEPT !.venc = "proto"]
    ELSE [e EXCEPT !.venc = "proto", !.conv = e.conv \/ ConvChangesBytes(e)]

\* The walk starts at the first key, steps over leading "stablestore-" keys and
\* stops at the first "stablestore-" key after a log key.  So with a non-empty
\* stable store it sees the entries below the stable keys, or -- if there are
\* none -- the entries above them; never both.
Visited(L, S) ==
    IF DOMAIN S = {} THEN DOMAIN L
    ELSE LET below == DOMAIN L \ above IN
         IF below # {} THEN below ELSE DOMAIN L

Converted(L, S) ==
    IF \E i \in Visited(L, S) : AlreadyConverted(L[i])
    THEN L
    ELSE [i \in DOMAIN L |-> IF i \in Visited(L, S) THEN ConvertEntry(L[i]) ELSE L[i]]

---------------------------------------------------------------------------
(* Actions.                                                                *)

Record(op) ==
    /\ hist' = IF KeepHist THEN Append(hist, op) ELSE <<op>>
    /\ UNCHANGED above

Init ==
    /\ logs = EmptyFn
    /\ stable = EmptyFn
    /\ enc = "none"
    /\ open = FALSE
    /\ hist = <<>>
    /\ above = Above

\* NewLevelDBStore(dir, false, useProtobuf)
Open(e) ==
    /\ ~open
    /\ e \in {"json", "proto"}
    /\ open' = TRUE
    /\ enc' = e
    /\ logs' = IF e = "proto" THEN Converted(logs, stable) ELSE logs
    /\ UNCHANGED stable
    /\ Record([op |-> "Open", enc |-> IF e = "proto" THEN 1 ELSE 0])

Close ==
    /\ open
    /\ open' = FALSE
    /\ enc' = "none"
    /\ UNCHANGED <<logs, stable>>
    /\ Record([op |-> "Close"])

\* SIGKILL of the process that has the store open, after the last call returned.
Kill ==
    /\ open
    /\ open' = FALSE
    /\ enc' = "none"
    /\ UNCHANGED <<logs, stable>>
    /\ Record([op |-> "Kill"])

StoreLogs(es) ==
    /\ open
    /\ \A j \in 1..Len(es) : ArgOK(es[j])
    /\ logs' = PutAll(logs, es, enc)
    /\ UNCHANGED <<stable, enc, open>>
    /\ Record([op |-> "StoreLogs", es |-> es])

StoreLog(e) ==
    /\ open
    /\ ArgOK(e)
    /\ logs' = PutAll(logs, <<e>>, enc)
    /\ UNCHANGED <<stable, enc, open>>
    /\ Record([op |-> "StoreLog", es |-> <<e>>])

\* StoreLogProto(*pb.RaftLog): always a 'p' value, whatever the mode.  p[7] = 1:
\* AppendedAt unset in the message, which reads back as the Unix epoch.
StoreLogProto(p) ==
    /\ open
    /\ ArgOK(p)
    /\ p[7] \in {0, 1}
    /\ logs' = (p[1] :> [Stored(p, "proto") EXCEPT !.at = IF p[7] = 1 THEN EpochT ELSE p[6]])
               @@ logs
    /\ UNCHANGED <<stable, enc, open>>
    /\ Record([op |-> "StoreLogProto", p |-> p])

\* DeleteRange(min, max): every entry with min <= index <= max, nothing else.
\* Stable-store keys are never touched, also when the byte range of the index keys
\* spans them (finding F16b: the unrepaired code deleted them).
\* min > max is the empty range (finding F16: the unrepaired code panicked inside
\* goleveldb for such a call once the database had several table files; the
\* model describes the repaired behaviour).
DeleteRange(lo, hi) ==
    /\ open
    /\ lo \in Bounds /\ hi \in Bounds
    /\ logs' = [i \in {j \in DOMAIN logs : ~(lo <= j /\ j <= hi)} |-> logs[i]]
    /\ UNCHANGED <<stable, enc, open>>
    /\ Record([op |-> "DeleteRange", lo |-> lo, hi |-> hi])

Set(k, v) ==
    /\ open
    /\ k \in Keys /\ v \in BVals
    /\ stable' = (k :> [t |-> "b", n |-> v]) @@ stable
    /\ UNCHANGED <<logs, enc, open>>
    /\ Record([op |-> "Set", k |-> k, v |-> v])

SetUint64(k, v) ==
    /\ open
    /\ k \in Keys /\ v \in UVals
    /\ stable' = (k :> [t |-> "u", n |-> v]) @@ stable
    /\ UNCHANGED <<logs, enc, open>>
    /\ Record([op |-> "SetU", k |-> k, v |-> v])

ConvertToProto ==
    /\ open
    /\ logs' = Converted(logs, stable)
    /\ UNCHANGED <<stable, enc, open>>
    /\ Record([op |-> "Convert"])

Next ==
    \/ \E e \in EncChoices : Open(e)
    \/ Close
    \/ Kill
    \/ \E e \in EntryChoices : StoreLog(e)
    \/ \E es \in SeqChoices : StoreLogs(es)
    \/ \E p \in ProtoChoices : StoreLogProto(p)
    \/ \E r \in RangeChoices : DeleteRange(r[1], r[2])
    \/ \E k \in Keys, v \in BVals : Set(k, v)
    \/ \E k \in Keys, v \in UVals : SetUint64(k, v)
    \/ ConvertToProto

Spec == Init /\ [][Next]_vars

---------------------------------------------------------------------------
(* Properties of the reference map (design level).                         *)

\* What a client can see of one entry, up to the byte/semantic distinction.
Visible(e) == [term |-> e.term, ty |-> e.ty, d |-> e.d, x |-> e.x, at |-> e.at]

ObsConsistent ==
    /\ (DOMAIN logs = {}) <=> (FirstIndex = 0)
    /\ (DOMAIN logs = {}) <=> (LastIndex = 0)
    /\ DOMAIN logs # {} =>
         /\ FirstIndex <= LastIndex
         /\ GetLog(FirstIndex).r = "ok" /\ GetLog(LastIndex).r = "ok"
         /\ \A i \in Idx : (i < FirstIndex \/ i > LastIndex) => GetLog(i) = NotFound

\* Data only ever differs from what was written for command entries, in a 'p'
\* value, after a conversion pass.
ConvDiscipline ==
    \A i \in DOMAIN logs :
        /\ logs[i].conv => (logs[i].ty = 0 /\ logs[i].venc = "proto" /\ IsMsg(logs[i].d))
        /\ logs[i].venc = "json" => ~logs[i].conv

\* Log entries and stable keys never shadow each other: a step that changes one
\* map leaves every observation of the other one alone.
StableNeverShadowsLog ==
    [][ /\ (stable' # stable => \A i \in Idx : GetLogOf(logs', i) = GetLogOf(logs, i))
        /\ (stable' # stable => FirstIndexOf(logs') = FirstIndexOf(logs)
                                /\ LastIndexOf(logs') = LastIndexOf(logs))
        /\ (logs' # logs => \A k \in Keys : GetOf(stable', k) = GetOf(stable, k)) ]_vars

\* Close / Kill / Open / ConvertToProto lose nothing and invent nothing.
RestartKeepsEverything ==
    [][ (open' # open \/ hist'[Len(hist')].op = "Convert") =>
          /\ DOMAIN logs' = DOMAIN logs
          /\ \A i \in DOMAIN logs : Visible(logs'[i]) = Visible(logs[i])
          /\ stable' = stable ]_vars

\* DeleteRange removes exactly [lo, hi].
DeleteExact ==
    [][ hist'[Len(hist')].op = "DeleteRange" =>
          LET o == hist'[Len(hist')] IN
          /\ DOMAIN logs' = {i \in DOMAIN logs : i < o.lo \/ i > o.hi}
          /\ \A i \in DOMAIN logs' : logs'[i] = logs[i] ]_vars

---------------------------------------------------------------------------
(* Generator plumbing.                                                     *)

\* Exhaustive config: every generated transition is printed (before TLC's
\* duplicate detection), checks/c09.py builds an edge-covering tour from it.
\* (Canon: a printable canonical form of the state -- ToString of a function
\* value depends on how TLC happens to represent it.)
RECURSIVE SortedSeq(_)
SortedSeq(S) == IF S = {} THEN <<>> ELSE <<Min(S)>> \o SortedSeq(S \ {Min(S)})
IdxSeq == SortedSeq(Idx)
KeySeq == SortedSeq(Keys)
Canon(L, S, e, o) ==
    << [j \in 1..Len(IdxSeq) |->
          LET i == IdxSeq[j] IN
          IF i \in DOMAIN L
          THEN <<i, L[i].term, L[i].ty, L[i].d, L[i].x, L[i].at, L[i].venc, L[i].conv>>
          ELSE <<i>>],
       [j \in 1..Len(KeySeq) |->
          LET k == KeySeq[j] IN
          IF k \in DOMAIN S THEN <<k, S[k].t, S[k].n>> ELSE <<k>>],
       e, o >>
EdgePrint ==
    PrintT(<<"E", ToString(Canon(logs, stable, enc, open)), ToJson(hist'[Len(hist')]),
             ToString(Canon(logs', stable', enc', open'))>>)

\* Simulation config: print the behaviour when it has MaxOps operations.
SimBound == Len(hist) <= MaxOps
SimPrint == (Len(hist) = MaxOps) => PrintT(<<"B", ToJson(hist)>>)

=============================================================================
