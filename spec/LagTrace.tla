----------------------------- MODULE LagTrace -----------------------------
(* Validation of what REAL robustirc nodes answered (harness/lag) against   *)
(* Lag.tla.                                                                  *)
(*                                                                           *)
(* trace.ndjson:                                                             *)
(*   log    the replicated log as the FSMs applied it (hook fsm.apply), one  *)
(*          record per raft index 1..NLog: k = create|line|quit|delete|other *)
(*          and s = index of the session's CreateSession entry               *)
(*   probe  one request for the session id with index i sent to node n:      *)
(*          route, HTTP code, prox (Content-Location header: the request was *)
(*          handled by maybeProxyToLeader), by/eff (who proposed the entry   *)
(*          it became), what the node said about itself before/after         *)
(*          (role0/1 = raftNode.State(), lead0/1 = node named by             *)
(*          raftNode.Leader(), a0/a1 = last index its FSM has applied), clen *)
(*          = highest index committed before the request was sent, and the   *)
(*          same for the node it names as leader (tn, ta, trole, tup)        *)
(*   lp     IRCServer.lastProcessed of node n (as an index) at applied a0=a1 *)
(*                                                                           *)
(* PROPERTY predicates (a failure is a violation on the real code):          *)
(*   NeverGoneWhileAlive   no 404 for a session that is alive in the log     *)
(*                         committed before the request was sent             *)
(*   ServedOnlyByKnowing   no 2xx by a node ITSELF (not proxied) whose FSM   *)
(*                         has not applied the session's CreateSession entry *)
(*                         even after the request                            *)
(* CONFORMANCE (drift only): the status code is the one Lag!Decide predicts  *)
(* from (route, role, leader known, Lookup over the node's applied prefix),  *)
(* followed through one proxy hop; the proxy flag; lastProcessed = LPAt.     *)
(* A node in state Leader that finds "not yet seen" may answer 404 (code as  *)
(* pinned) or 500 (repaired) without drift - the property predicate decides  *)
(* whether that 404 hit a live session.                                      *)
EXTENDS Integers, Sequences, FiniteSets, TLC, Json

Trace == ndJsonDeserialize("trace.ndjson")
N     == Len(Trace)

\* the pure operators of Lag.tla (its variables and constants play no role in them)
L == INSTANCE Lag WITH Nodes <- {1, 2, 3}, MaxLog <- 0, MaxCrash <- 0, MaxSpurious <- 0, MaxHops <- 0, FixedLeaderLag <- TRUE,
                       log <- <<>>, have <- <<>>, applied <- <<>>, alive <- <<>>, role <- <<>>, leaderOf <- <<>>,
                       cur <- 0, req <- <<>>, ans <- <<>>, crashes <- 0, spurious <- 0

LogRecs == SelectSeq(Trace, LAMBDA e : e.ev = "log")
NLog    == Len(LogRecs)
Log     == [i \in 1..NLog |-> [k |-> LogRecs[i].k, s |-> LogRecs[i].s]]
Cap(a)  == IF a > NLog THEN NLog ELSE IF a < 0 THEN 0 ELSE a

VARIABLES l, viol, drift, seen
vars == <<l, viol, drift, seen>>

Rl(s) == CASE s = "Leader" -> "leader" [] s = "Follower" -> "follower" [] s = "Candidate" -> "candidate" [] OTHER -> "none"

\* status codes a decision may end in
Codes(d, rl, lk, route) ==
    IF rl = "leader" /\ lk = "notyet" /\ route \in {"post", "delete"} THEN {404, 500}     \* the leader-lag branch, see above
    ELSE CASE d = "404" -> {404}
           [] d = "500" -> {500}
           [] d \in {"canned", "stream", "apply"} -> {200}
           [] OTHER -> {500, 502}

Expected(e) ==
    LET rl == Rl(e.role0)
        lk == L!Lookup(Log, Cap(e.a0), e.i)
        d  == L!Decide(e.route, rl, e.lead0 # 0, lk, e.dup = 1, TRUE)
    IN  IF d # "proxy" THEN [prox |-> 0, codes |-> Codes(d, rl, lk, e.route)]
        ELSE IF e.tup = 0 THEN [prox |-> 1, codes |-> {502}]
        ELSE LET rt  == Rl(e.trole)
                 lkt == L!Lookup(Log, Cap(e.ta), e.i)
                 dt  == L!Decide(e.route, rt, TRUE, lkt, FALSE, TRUE)
             IN  [prox |-> 1, codes |-> Codes(dt, rt, lkt, e.route)]

Stable(e) == e.role0 = e.role1 /\ e.lead0 = e.lead1 /\ e.a0 = e.a1 /\ Rl(e.role0) # "none" /\ e.code # 0

ProbeStep(e) ==
    LET aliveC == e.i \in L!SessAt(Log, Cap(e.clen))
        v1 == IF e.code = 404 /\ aliveC THEN {<<"NeverGoneWhileAlive", e.q>>} ELSE {}
        v2 == IF e.code = 200 /\ e.prox = 0 /\ e.i > e.a1 /\ e.i > e.a0 THEN {<<"ServedOnlyByKnowing", e.q>>} ELSE {}
        x  == Expected(e)
        d1 == IF Stable(e) /\ e.code \notin x.codes THEN {<<"code", e.q>>} ELSE {}
        d2 == IF Stable(e) /\ e.prox # x.prox /\ e.code # 0 THEN {<<"proxy", e.q>>} ELSE {}
    IN  /\ viol' = viol \cup v1 \cup v2
        /\ drift' = drift \cup d1 \cup d2
        /\ seen' = seen + 1

LpStep(e) ==
    /\ drift' = drift \cup (IF e.a0 = e.a1 /\ L!LPAt(Log, Cap(e.a0)) # e.lp THEN {<<"lastProcessed", e.q>>} ELSE {})
    /\ UNCHANGED viol
    /\ seen' = seen + 1

Init == l = 1 /\ viol = {} /\ drift = {} /\ seen = 0 /\ TLCSet(1, 0)

Step ==
    /\ l <= N
    /\ l' = l + 1
    /\ LET e == Trace[l] IN
         CASE e.ev = "probe" -> ProbeStep(e)
           [] e.ev = "lp"    -> LpStep(e)
           [] OTHER          -> UNCHANGED <<viol, drift, seen>>

Next == Step
Spec == Init /\ [][Next]_vars

Mark ==
    /\ (l > TLCGet(1)) => TLCSet(1, l)
    /\ (l = N + 1) => PrintT(<<"RESULT", [viol |-> viol, drift |-> drift, seen |-> seen, nlog |-> NLog]>>)

Post == PrintT(<<"HWM", TLCGet(1), N>>)
=============================================================================
