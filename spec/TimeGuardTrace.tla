--------------------------- MODULE TimeGuardTrace ---------------------------
(***************************************************************************)
(* C19, code -> model: validates decisions recorded from the REAL          *)
(* synchronizedWithNetwork (harness/timesafeguard) against TimeGuard.      *)
(*                                                                         *)
(* trace.ndjson: one record per real call                                  *)
(*   {"id":k, "flag":b, "et":e,                                            *)
(*    "meas":[{"zero":b,"start":s,"end":e,"result":r,"delta":d}, ...],     *)
(*    "verdict":"join"|"refuse", "named":[slot,...],   (call, all slots)   *)
(*    "verdict2":..., "named2":[...]}   (second real call, the slots of    *)
(*                                       non-answering peers removed)      *)
(* All records of one file use the same time unit, hence the same et       *)
(* (ET is a constant of TimeGuard).  `delta` is the true offset the        *)
(* harness built the measurement from; the code never sees it.             *)
(*                                                                         *)
(* Per record: Load (the measurements the real code was given), then the   *)
(* logged outcome is adopted and                                           *)
(*   DecideMatch  it is a step of TimeGuard (DecideInSync / DecideDisabled *)
(*                / DecideRefuse), or                                      *)
(*   DecideDrift  it is not: counted and reported as DRIFT only.           *)
(* The PROPERTY predicates of TimeGuard are the INVARIANTS of the trace    *)
(* configuration, i.e. they are evaluated on every recorded decision of    *)
(* the real code, whether or not the model predicted it.                   *)
(***************************************************************************)
EXTENDS Integers, Sequences, FiniteSets, TLC, Json

Trace == ndJsonDeserialize("trace.ndjson")
TraceET == Trace[1].et

VARIABLES l, pc, flag, n, meas, verdict, named, other

tvars == <<l, pc, flag, n, meas, verdict, named, other>>

TG == INSTANCE TimeGuard WITH ET <- TraceET, Deltas <- {0}, Delays <- {0},
                              Starts <- {0}, MaxPeers <- 3

SeqToSet(s) == {s[i] : i \in DOMAIN s}

Rec == Trace[l]

Init ==
    /\ l = 1
    /\ pc = "idle"
    /\ flag = FALSE
    /\ n = 1
    /\ meas = <<>>
    /\ verdict = "none"
    /\ named = {}
    /\ other = [verdict |-> "none", named |-> {}]
    /\ TLCSet(1, 0)
    /\ TLCSet(2, 0)

\* the inputs of the next recorded call
Load ==
    /\ pc \in {"idle", "done"}
    /\ l <= Len(Trace)
    /\ Rec.et = TraceET
    /\ pc' = "collect"
    /\ flag' = Rec.flag
    /\ n' = Len(Rec.meas)
    /\ meas' = [i \in 1..Len(Rec.meas) |-> Rec.meas[i]]
    /\ verdict' = "none"
    /\ named' = {}
    /\ UNCHANGED <<l, other>>

AdoptLogged ==
    /\ pc = "collect"
    /\ pc' = "done"
    /\ verdict' = Rec.verdict
    /\ named' = SeqToSet(Rec.named)
    /\ other' = [verdict |-> Rec.verdict2, named |-> SeqToSet(Rec.named2)]
    /\ l' = l + 1
    /\ UNCHANGED <<flag, n, meas>>

IsModelStep == TG!DecideInSync \/ TG!DecideDisabled \/ TG!DecideRefuse

DecideMatch ==
    /\ AdoptLogged
    /\ IsModelStep
    /\ TLCSet(1, l)

DecideDrift ==
    /\ AdoptLogged
    /\ ~IsModelStep
    /\ TLCSet(1, l)
    /\ TLCSet(2, TLCGet(2) + 1)
    /\ PrintT(<<"C19DRIFTAT", Rec.id>>)

Next == Load \/ DecideMatch \/ DecideDrift

Spec == Init /\ [][Next]_tvars

Finished == pc = "done"

(***************************************************************************)
(* The property, on the recorded decisions of the real code                *)
(***************************************************************************)
TSound                 == Finished => TG!PSound(meas, flag, verdict, named)
TRefusalNamesOffenders == Finished => TG!PRefusalNamesOffenders(meas, flag, verdict, named)
TDisabledNeverRefuses  == Finished => TG!PDisabledNeverRefuses(meas, flag, verdict, named)

\* the second real call (without the non-answering peers' slots) decided the
\* same and named the same peers; nobody who did not answer is named
TNonAnsweringIgnored ==
    Finished => /\ verdict = other.verdict
                /\ named = other.named
                /\ \A i \in named : i \in 1..Len(meas) /\ ~meas[i].zero

(***************************************************************************)
(* Harness sanity (a failure is a machinery problem, not a verdict): every *)
(* recorded measurement is one the model can produce, i.e. there are       *)
(* delays d1, d2 >= 0 with Result = Start + d1 + delta, End = Start+d1+d2. *)
(***************************************************************************)
TInputsAreMeasurements ==
    (pc \in {"collect", "done"}) =>
        \A i \in 1..Len(meas) :
            \/ meas[i].zero
            \/ LET d1 == meas[i].result - meas[i].start - meas[i].delta
                   d2 == meas[i].end - meas[i].start - d1
               IN  d1 >= 0 /\ d2 >= 0

\* every record was consumed (high-water mark; run with -workers 1)
AllConsumed ==
    /\ PrintT(<<"C19TRACE", TLCGet(1), Len(Trace), TLCGet(2)>>)
    /\ TLCGet(1) = Len(Trace)
=============================================================================
