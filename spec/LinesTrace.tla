----------------------------- MODULE LinesTrace -----------------------------
(***************************************************************************)
(* Trace validation for C15 at REAL scale (MaxLen = 510, real widths of    *)
(* names, command words and reply texts).                                  *)
(*                                                                         *)
(* checks/c15.py concretises every model input (frame x free string x      *)
(* sender state, plus length-stretched variants that cross the 510 limit), *)
(* sends it as a real POST .../message or DELETE through the single-node   *)
(* rig and records, per request, what every session then received from     *)
(* GET .../messages, mapped byte by byte back to character classes:        *)
(*                                                                         *)
(*   {"ev":"Start","id","env":{widths...},"st":{sender state}}             *)
(*   {"ev":"Step","id","op","data":RLE,"skip":[names],"all":bool,          *)
(*    "opt":[recipients],"obs":{"self":[RLE...],"other":[...],"vic":[...]}}*)
(*                                                                         *)
(* Every Step must be RunStep of module Lines in the current sender state: *)
(* the delivered lines per recipient (minus the reply names in `skip`,     *)
(* which the model does not predict) must be equal, class by class, to the *)
(* model's. The C15 predicate OneLineOk is evaluated by TLC on every       *)
(* OBSERVED line (counter `bad`; the Python side evaluates the same        *)
(* predicate on the bytes and both counts must agree). Differences between *)
(* model and observation are counted as drift; the model state is kept.    *)
(***************************************************************************)
EXTENDS Lines, Json

VARIABLES l, st, env, drift, bad
tvars == <<vars, l, st, env, drift, bad>>

Trace == ndJsonDeserialize("Lines_trace.ndjson")

Unrle(r) == FoldLeft(LAMBDA acc, pr : acc \o Rep(pr[1], pr[2]), <<>>, r)
Rle(s) == FoldLeft(LAMBDA acc, c : IF acc # <<>> /\ acc[Len(acc)][1] = c
                                   THEN [acc EXCEPT ![Len(acc)] = <<c, acc[Len(acc)][2] + 1>>]
                                   ELSE Append(acc, <<c, 1>>), <<>>, s)

EnvOf(e) == [real |-> TRUE, self |-> e.self, bob |-> e.bob, vic |-> e.vic, chan |-> e.chan, srv |-> e.srv,
             host |-> e.host, bhost |-> e.bhost, vhost |-> e.vhost, buser |-> Unrle(e.buser), breal |-> Unrle(e.breal),
             vuser |-> Unrle(e.vuser), vreal |-> Unrle(e.vreal), bobop |-> e.bobop]
StateOf(s) == [reg |-> s.reg, oper |-> s.oper, inchan |-> s.inchan, chanop |-> s.chanop, bobin |-> s.bobin,
               vic |-> s.vic, vicin |-> s.vicin, invite |-> s.invite, user |-> Unrle(s.user), real |-> Unrle(s.real),
               away |-> Unrle(s.away), tset |-> s.tset, topic |-> Unrle(s.topic), gone |-> s.gone, hasnick |-> s.hasnick]

Rcpt == {"self", "other", "vic"}

TInit == /\ l = 0 /\ drift = 0 /\ bad = 0 /\ st = Init0 /\ env = SmallE
         /\ x = <<>> /\ stage = "client" /\ kind = "reg" /\ frame = "raw" /\ entries = <<>> /\ replies = <<>> /\ lines = <<>>
         /\ TLCSet(1, 0) /\ TLCSet(2, 0)

ModelFor(d, r, skip) ==
    LET idx == SelectSeq([i \in DOMAIN d |-> i], LAMBDA i : r \in d[i].to /\ d[i].name \notin skip)
    IN [k \in DOMAIN idx |-> d[idx[k]].line]

Step ==
    /\ l < Len(Trace)
    /\ l' = l + 1
    /\ UNCHANGED vars
    /\ LET e == Trace[l + 1] IN
       IF e.ev = "Start"
       THEN st' = StateOf(e.st) /\ env' = EnvOf(e.env) /\ UNCHANGED <<drift, bad>>
       ELSE LET step == [op |-> e.op, data |-> Unrle(e.data)]
                res == RunStep(env, st, step)
                d == Delivered(res.out)
                skip == {e.skip[i] : i \in DOMAIN e.skip}
                obs == [r \in Rcpt |-> [k \in DOMAIN e.obs[r] |-> Unrle(e.obs[r][k])]]
                opt == {e.opt[i] : i \in DOMAIN e.opt}        \* recipients whose session ends in this step: the
                                                              \* stream is cut with the session, its last batch may be missing
                ok == e.all \/ \A r \in Rcpt : ModelFor(d, r, skip) = obs[r] \/ (r \in opt /\ obs[r] = <<>>)
                nb(r) == Cardinality({k \in DOMAIN e.obs[r] : ~OneLineOk(Unrle(e.obs[r][k]))})
                nbad == nb("self") + nb("other") + nb("vic")
            IN /\ st' = res.st /\ UNCHANGED env
               /\ bad' = bad + nbad
               /\ (nbad > 0 => TLCSet(2, TLCGet(2) + nbad) /\ PrintT(<<"BADLINE", l + 1, e.id, nbad>>))
               /\ IF ok THEN UNCHANGED drift
                  ELSE /\ drift' = drift + 1 /\ TLCSet(1, TLCGet(1) + 1)
                       /\ PrintT(<<"DRIFT", l + 1, e.id,
                                   [r \in Rcpt |-> [k \in DOMAIN ModelFor(d, r, skip) |-> Rle(ModelFor(d, r, skip)[k])]]>>)

TSpec == TInit /\ [][Step]_tvars

Accept ==
    /\ TLCGet("distinct") = Len(Trace) + 1
    /\ PrintT(<<"TRACE-ACCEPTED", Len(Trace), "drift", TLCGet(1)>>)
    /\ PrintT(<<"BAD-LINES", TLCGet(2)>>)
=============================================================================
