---------------------------- MODULE TimeGuardApa ----------------------------
(***************************************************************************)
(* C19, cross-check of the unbounded lemma with Apalache (symbolic, SMT    *)
(* over unbounded integers): Init leaves start, delta, d1, d2, et          *)
(* unconstrained (d1, d2 >= 0); the lemma is a state invariant of the      *)
(* initial states.                                                         *)
(*                                                                         *)
(*   apalache-mc check --length=0 --inv=Lemma TimeGuardApa.tla             *)
(*   apalache-mc check --length=0 --inv=NoRoundTripTerm TimeGuardApa.tla   *)
(*        (must report a counterexample: without the round-trip term the   *)
(*         bound is wrong -- shows the check is not vacuous)               *)
(***************************************************************************)
EXTENDS Integers

VARIABLES
    \* @type: Int;
    start,
    \* @type: Int;
    delta,
    \* @type: Int;
    d1,
    \* @type: Int;
    d2,
    \* @type: Int;
    et

Abs(x) == IF x < 0 THEN 0 - x ELSE x

\* what the code sees
Result == start + d1 + delta
End    == start + d1 + d2

WorstCaseDrift == Abs(Result - start) + (End - start)
Accept == WorstCaseDrift < et

Init ==
    /\ start \in Int
    /\ delta \in Int
    /\ d1 \in Nat
    /\ d2 \in Nat
    /\ et \in Int

Next == UNCHANGED <<start, delta, d1, d2, et>>

Lemma == Accept => Abs(delta) < et

\* deliberately wrong variants (each must be refuted)
NoRoundTripTerm == (Abs(Result - start) < et) => Abs(delta) < et
NoAbs           == ((Result - start) + (End - start) < et) => Abs(delta) < et
Complete        == (Abs(delta) < et) => Accept
=============================================================================
