\* Trace validation, conformance + monitor (run with -workers 1, deadlock check off).
SPECIFICATION TSpec
CONSTANTS
  MaxId = 15
  Threads = {1, 2, 3, 4, 5}
  Adders = {1, 2, 3, 4, 5}
  Deleters = {1, 2, 3, 4, 5}
  Readers = {1, 2, 3, 4, 5}
  Getters = {1, 2, 3, 4, 5}
  Interrupters = {1, 2, 3, 4, 5}
  Fixed = TRUE
  LockedInterrupt = TRUE
  Contig = FALSE
  KeepHist = 1
  Conform = TRUE
INVARIANT TraceDesignInv
POSTCONDITION Accepted
CHECK_DEADLOCK FALSE
