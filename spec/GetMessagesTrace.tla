------------------------- MODULE GetMessagesTrace -------------------------
(***************************************************************************)
(* Trace validation for C04: events recorded from the REAL api.getMessages *)
(* (harness/getmessages: gated replays and the free-running random driver) *)
(* are checked to be a behaviour of GetMessages, and the property          *)
(* predicates are evaluated on every recorded state.                       *)
(*                                                                         *)
(* Recorded events (trace.ndjson, one JSON object per line):               *)
(*   AddBegin n k b   node n starts outputstream.Add of batch k, content b *)
(*   AddEnd n k       Add returned                                         *)
(*   Reconnect n id r client starts getMessages on node n, lastseen id.r   *)
(*   Recv id r        client consumed message id.r (addressed to it)       *)
(*   Disconnect       client cancelled the request                         *)
(*   Quiescent        harness observed: reader blocked inside GetNext,     *)
(*                    nothing in flight, node has applied everything       *)
(*   Reset            next trace starts                                    *)
(* Not recorded, left to TLC: the instant an Add takes effect between      *)
(* AddBegin and AddEnd, the reader's steps G1/G1w/G2/G3 and the handler    *)
(* dropping lines that are not addressed to the session.                   *)
(*                                                                         *)
(* mode = 0: the prefix so far is explained by the model (conformant).     *)
(* mode = 1: it is not; the model part is frozen and only the recorded     *)
(* observables (batches, delivered, clast) are advanced, so that the       *)
(* property predicates are still evaluated on every recorded state (a      *)
(* non-conformant trace is DRIFT unless a predicate fails).                *)
(***************************************************************************)
EXTENDS GetMessages, Json

VARIABLES l,         \* next trace line
          mode,      \* 0 conformant, 1 observables only
          inflight,  \* [Nodes -> 0 none | 1 AddBegin seen | 2 applied, AddEnd pending]
          quiet      \* Quiescent was recorded

tvars == <<l, mode, inflight, quiet>>
allvars == <<vars, tvars>>

Trace == ndJsonDeserialize("trace.ndjson")

Ev == Trace[l]
IsEvent(e) == l <= Len(Trace) /\ Ev.ev = e
Step == l' = l + 1

ToB(b) == [i \in 1..Len(b) |-> b[i] = 1]

TInit ==
  /\ Init
  /\ l = 1
  /\ mode = 0
  /\ inflight = [n \in Nodes |-> 0]
  /\ quiet = FALSE

ModelInit ==
  /\ applied' = [n \in Nodes |-> 0]
  /\ conn' = 0 /\ pc' = "idle" /\ ls' = <<0, 0>> /\ pend' = FALSE /\ want' = 0
  /\ out' = <<>> /\ wire' = <<>> /\ nrec' = 0 /\ hist' = <<>>
  /\ inflight' = [n \in Nodes |-> 0]

\* the log gets entry k when the first node starts applying it
Extend == IF Ev.k = Len(batches) + 1 THEN Append(batches, ToB(Ev.b)) ELSE batches

--------------------------------------------------------------------------
\* conformant steps (mode 0)

TrAddBegin ==
  /\ IsEvent("AddBegin") /\ mode = 0
  /\ inflight[Ev.n] = 0
  /\ Ev.k = applied[Ev.n] + 1
  /\ Ev.k <= Len(batches) + 1
  /\ Ev.k <= Len(batches) => batches[Ev.k] = ToB(Ev.b)
  /\ batches' = Extend
  /\ inflight' = [inflight EXCEPT ![Ev.n] = 1]
  /\ Step
  /\ UNCHANGED <<applied, conn, pc, ls, pend, want, out, wire, clast, delivered, nrec, hist, mode, quiet>>

\* silent: the Add takes effect (messagesMu held, Broadcast)
AddLin(n) ==
  /\ mode = 0 /\ inflight[n] = 1
  /\ Add(n)
  /\ inflight' = [inflight EXCEPT ![n] = 2]
  /\ UNCHANGED <<l, mode, quiet>>

TrAddEnd ==
  /\ IsEvent("AddEnd") /\ mode = 0
  /\ inflight[Ev.n] = 2 /\ applied[Ev.n] = Ev.k
  /\ inflight' = [inflight EXCEPT ![Ev.n] = 0]
  /\ Step
  /\ UNCHANGED <<vars, mode, quiet>>

TrReconnect ==
  /\ IsEvent("Reconnect") /\ mode = 0
  /\ clast = <<Ev.id, Ev.r>>
  /\ Reconnect(Ev.n)
  /\ Step
  /\ UNCHANGED <<mode, inflight, quiet>>

TrRecv ==
  /\ IsEvent("Recv") /\ mode = 0
  /\ wire # <<>> /\ Head(wire) = <<Ev.id, Ev.r>> /\ Addressed(Head(wire))
  /\ Recv
  /\ Step
  /\ UNCHANGED <<mode, inflight, quiet>>

\* silent: the handler drops a line that is not addressed to the session
Skip ==
  /\ mode = 0
  /\ wire # <<>> /\ ~Addressed(Head(wire))
  /\ Recv
  /\ UNCHANGED tvars

TrDisconnect ==
  /\ IsEvent("Disconnect") /\ mode = 0
  /\ Disconnect
  /\ Step
  /\ UNCHANGED <<mode, inflight, quiet>>

TrQuiescent ==
  /\ IsEvent("Quiescent") /\ mode = 0
  /\ conn # 0 /\ pc = "G1w" /\ applied[conn] < want
  /\ wire = <<>> /\ out = <<>>
  /\ applied[conn] = Len(batches)
  /\ quiet' = TRUE
  /\ Step
  /\ UNCHANGED <<vars, mode, inflight>>

\* silent: reader steps
Silent ==
  /\ mode = 0
  /\ Reader
  /\ UNCHANGED tvars

--------------------------------------------------------------------------
\* observables only (mode 1, or leaving mode 0 at any event)

Forced ==
  /\ l <= Len(Trace) /\ Ev.ev # "Reset"
  /\ mode' = 1
  /\ ModelInit
  /\ Step
  /\ CASE Ev.ev = "AddBegin" ->
            /\ batches' = Extend
            /\ UNCHANGED <<clast, delivered, quiet>>
       [] Ev.ev = "Recv" ->
            /\ delivered' = Append(delivered, <<Ev.id, Ev.r>>)
            /\ clast' = <<Ev.id, Ev.r>>
            /\ UNCHANGED <<batches, quiet>>
       [] Ev.ev = "Quiescent" ->
            /\ quiet' = TRUE
            /\ UNCHANGED <<batches, clast, delivered>>
       [] OTHER -> UNCHANGED <<batches, clast, delivered, quiet>>

\* registers: 1 = lines l at which a trace ended conformantly (mode 0),
\*            2 = lines at which a trace ended at all
TrReset ==
  /\ IsEvent("Reset")
  /\ \A n \in Nodes : mode = 0 => inflight[n] = 0
  /\ IF mode = 0 THEN TLCSet(1, TLCGet(1) \cup {l}) ELSE TRUE
  /\ TLCSet(2, TLCGet(2) \cup {l})
  /\ batches' = <<>> /\ clast' = <<0, 0>> /\ delivered' = <<>>
  /\ ModelInit
  /\ mode' = 0 /\ quiet' = FALSE
  /\ Step

TNext ==
  \/ TrAddBegin \/ TrAddEnd \/ TrReconnect \/ TrRecv \/ TrDisconnect \/ TrQuiescent
  \/ \E n \in Nodes : AddLin(n)
  \/ Skip \/ Silent
  \/ Forced
  \/ TrReset

TSpec == (TInit /\ TLCSet(1, {}) /\ TLCSet(2, {})) /\ [][TNext]_allvars

--------------------------------------------------------------------------
\* property predicates, evaluated on every recorded state

\* safe version of Expected for arbitrary recorded ids
DeliveredOK ==
  /\ \A i \in 1..Len(delivered) :
        /\ delivered[i][1] \in 1..Len(batches)
        /\ delivered[i][2] \in 1..Len(batches[delivered[i][1]])
  /\ IsPrefix(delivered, Expected)

TraceDeliveredIsPrefix == DeliveredOK

CompleteAtQuiescence == quiet => (DeliveredOK /\ delivered = Expected)

\* every trace of the file must have been read to its Reset line
Accepted == Cardinality(TLCGet(2)) = Cardinality({i \in 1..Len(Trace) : Trace[i].ev = "Reset"})

Report == /\ PrintT("CONFORMANT " \o ToJson(TLCGet(1)))
          /\ PrintT("ENDED " \o ToJson(TLCGet(2)))
          /\ Accepted
=============================================================================
