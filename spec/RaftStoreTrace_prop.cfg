\* C09 trace validation, property predicates only (used after a D_* invariant
\* fired: the implementation-level model drifted, the property is still judged).
SPECIFICATION Spec
INVARIANTS
    TypeOK M_Tables M_Shape
    P_OpOk P_FirstIndex P_LastIndex P_GetLogHole P_GetLogEntry
    P_ConvOnlyAfterConversion P_StableGet P_StableGetUint64 P_NoShadow
POSTCONDITION Accepted
CHECK_DEADLOCK TRUE
