---------------------------- MODULE ClusterTrace ----------------------------
(***************************************************************************)
(* Trace validation for C05: the history recorded from REAL robustirc      *)
(* binaries (harness/cluster) is replayed here and every property          *)
(* predicate of ClusterProps.tla is evaluated on the recorded states.      *)
(*                                                                         *)
(* Input "trace.ndjson": one record per event, tagged with its stream:     *)
(*   stream 1      the orchestrator process (clients, readers, faults)     *)
(*   stream 2..K   one per node incarnation (events written by the node    *)
(*                 itself from the verif hooks H2/H3)                      *)
(* Inside a stream the order is the per-process sequence number.  ACROSS   *)
(* streams no clock is consulted: the only cross-process facts used are    *)
(* the causal ones that hold by construction of the harness -              *)
(*   start(n,k)  is logged before the process of incarnation k exists,     *)
(*   killed(n,k) is logged after the process is gone (waitpid),            *)
(*   an entry cannot be applied before its first POST was sent.            *)
(* Node events are consumed as early as these facts allow, orchestrator    *)
(* events only when no node event is enabled.  All guards are monotone     *)
(* (consuming an event never disables another one), so this deterministic  *)
(* merge reaches the end of all streams iff any merge does; and all        *)
(* property predicates below are stable (once false they stay false), so   *)
(* their verdict does not depend on the chosen interleaving.               *)
(*                                                                         *)
(* MEMBERSHIP: the orchestrator records every request it makes (a process   *)
(* started with -join, a POST /part) and the configuration the LEADER then  *)
(* reports in its machine-readable /status (raft GetConfiguration).  The    *)
(* trace specification keeps the configuration `members`; a reported        *)
(* configuration must be explained by the requests made so far, one server  *)
(* at a time.  A node that joins late starts on an empty -raftdir, so every *)
(* "restored" record of its stream is an InstallSnapshot: its applications  *)
(* continue behind the snapshot (gaps are checked like everywhere else), a  *)
(* snapshot never takes a node backwards, and at quiescence every member -  *)
(* late joiners included - serves the same streams and holds the same       *)
(* serialised state; a removed node that still answers serves a prefix.     *)
(*                                                                         *)
(* The COMMIT POINTS are inferred: the first node that reports             *)
(* FSM.Apply(idx) fixes entry idx of the committed sequence `log`; every   *)
(* other application of idx (other nodes, replay after restart) must agree.*)
(***************************************************************************)
EXTENDS Integers, Sequences, FiniteSets, TLC, Json, ClusterProps

Trace == ndJsonDeserialize("trace.ndjson")

Meta == Trace[1]               \* [ev |-> "meta", streams, nodes, sessions]
Streams == 1..Meta.streams
NodeStreams == 2..Meta.streams
NodeIds == 1..Meta.nodes
Sessions == 1..Meta.sessions
Keys == NodeIds \X Sessions

T == [st \in Streams |-> SelectSeq(Trace, LAMBDA e : e.st = st)]

VARIABLES
  pos,        \* pos[st]: next unread event of stream st
  started,    \* node streams whose process exists (start consumed)
  log,        \* inferred committed sequence: Seq([idx, c, cmid, type]), idx increasing
  posted,     \* [c, cmid] ever sent by a client
  acked,      \* [c, cmid] answered with success (HTTP 200)
  last,       \* last[st]: highest index incarnation st has applied (or restored up to)
  gaps,       \* gaps[st]: index intervals <<a, b>> the incarnation jumped over
  conflicts,  \* indices on which two applications disagree / out of order / applied twice
  seqs,       \* seqs[<<n, s>>]: what node n delivered to session s (resumed long-poll)
  dups,       \* messages a node delivered twice to a session (not the resume shape of C04)
  redeliv,    \* number of re-deliveries of x.1..x.r after resuming at x.r (C04 / F6)
  mismatch,   \* delivered numbered lines that do not match the committed entry they claim
  finals,     \* finals[<<n, s>>]: complete stream read from node n after quiescence
  members,    \* the raft configuration (node numbers), as explained by the requests made
  cfgreq,     \* membership requests made whose effect has not been seen yet: [kind, n]
  nchanges,   \* number of configuration changes seen
  stales,     \* stales[<<n, s>>]: stream read after quiescence from a node that was removed
  states,     \* states[n]: hash of the serialised state of member n in the current round of
              \* readings (0: not read), taken when everything was applied everywhere
  sround,     \* the current round of readings
  chg         \* what the last step changed (invariants are evaluated where they can change)

mvars == <<members, cfgreq, nchanges, stales, states, sround>>
vars == <<pos, started, log, posted, acked, last, gaps, conflicts, seqs, dups, redeliv,
          mismatch, finals, members, cfgreq, nchanges, stales, states, sround, chg>>

NoKey == <<0, 0>>

Init ==
  /\ pos = [st \in Streams |-> IF st = 1 THEN 2 ELSE 1]     \* record 1 of stream 1 is Meta
  /\ started = {}
  /\ log = << >>
  /\ posted = {}
  /\ acked = {}
  /\ last = [st \in NodeStreams |-> 0]
  /\ gaps = [st \in NodeStreams |-> {}]
  /\ conflicts = {}
  /\ seqs = [k \in Keys |-> << >>]
  /\ dups = {}
  /\ redeliv = 0
  /\ mismatch = {}
  /\ finals = [k \in Keys |-> << >>]
  /\ members = {Meta.members[i] : i \in 1..Len(Meta.members)}
  /\ cfgreq = {}
  /\ nchanges = 0
  /\ stales = [k \in Keys |-> << >>]
  /\ states = [n \in NodeIds |-> 0]
  /\ sround = 0
  /\ chg = [kind |-> "init", key |-> NoKey]

More(st) == pos[st] <= Len(T[st])
HeadOf(st) == T[st][pos[st]]
Advance(st) == pos' = [pos EXCEPT ![st] = @ + 1]

LogIdx == {log[i].idx : i \in 1..Len(log)}
At(i) == log[CHOOSE j \in 1..Len(log) : log[j].idx = i]
MaxIdx == IF log = << >> THEN 0 ELSE log[Len(log)].idx

Entry(e) == [idx |-> e.idx, c |-> e.c, cmid |-> e.cmid, type |-> e.type]
IRCFromClient == 2

------------------------------------------------------------------------------
(* Node events (hooks H2, H3)                                               *)

\* FSM.Apply returned for entry e.idx on incarnation st
Apply(st, e) ==
  /\ e.ev = "apply"
  /\ (e.idx \notin LogIdx /\ e.type = IRCFromClient) => [c |-> e.c, cmid |-> e.cmid] \in posted
  /\ IF e.idx \in LogIdx
       THEN /\ log' = log
            /\ conflicts' = IF At(e.idx) = Entry(e) /\ e.idx > last[st]
                              THEN conflicts ELSE conflicts \cup {e.idx}
       ELSE /\ log' = Append(log, Entry(e))                  \* inferred commit point
            /\ conflicts' = IF e.idx > MaxIdx /\ e.idx > last[st]
                              THEN conflicts ELSE conflicts \cup {e.idx}
  /\ gaps' = IF e.idx > last[st] + 1
               THEN [gaps EXCEPT ![st] = @ \cup {<<last[st], e.idx>>}] ELSE gaps
  /\ last' = [last EXCEPT ![st] = IF e.idx > @ THEN e.idx ELSE @]
  /\ chg' = [kind |-> "log", key |-> NoKey]
  /\ UNCHANGED <<started, posted, acked, seqs, dups, redeliv, mismatch, finals, mvars>>

\* applyMessageWait returned on the proposing node: the entry is committed and
\* applied HERE (hook H3 sits after the raft future, before the HTTP reply)
AckPoint(st, e) ==
  /\ e.ev = "ackpoint"
  /\ e.idx \in LogIdx /\ At(e.idx).c = e.c /\ At(e.idx).cmid = e.cmid
  /\ last[st] >= e.idx
  /\ chg' = [kind |-> "none", key |-> NoKey]
  /\ UNCHANGED <<started, log, posted, acked, last, gaps, conflicts, seqs, dups, redeliv, mismatch, finals, mvars>>

\* FSM.Snapshot returned: only applied entries can be in it
Snapshot(st, e) ==
  /\ e.ev = "snapshot"
  /\ e.last <= last[st]
  /\ chg' = [kind |-> "none", key |-> NoKey]
  /\ UNCHANGED <<started, log, posted, acked, last, gaps, conflicts, seqs, dups, redeliv, mismatch, finals, mvars>>

\* FSM.Restore returned: the node's state is the snapshot, i.e. everything up to e.last
\* (at start-up from the node's own newest snapshot; later - InstallSnapshot - from the
\* leader's, which replaces a state that lags behind: a restore never goes backwards)
Restored(st, e) ==
  /\ e.ev = "restored"
  /\ last' = [last EXCEPT ![st] = e.last]
  /\ conflicts' = IF e.last < last[st] THEN conflicts \cup {e.last} ELSE conflicts
  /\ chg' = [kind |-> "log", key |-> NoKey]
  /\ UNCHANGED <<started, log, posted, acked, gaps, seqs, dups, redeliv, mismatch, finals, mvars>>

\* the enabling conditions of the node events, spelled out (all monotone)
NodeGuard(st, e) ==
  CASE e.ev = "apply"    -> (e.idx \notin LogIdx /\ e.type = IRCFromClient)
                               => [c |-> e.c, cmid |-> e.cmid] \in posted
    [] e.ev = "ackpoint" -> e.idx \in LogIdx /\ At(e.idx).c = e.c /\ At(e.idx).cmid = e.cmid
                               /\ last[st] >= e.idx
    [] e.ev = "snapshot" -> e.last <= last[st]
    [] e.ev = "restored" -> TRUE
    [] OTHER -> FALSE

NodeStep(st) ==
  LET e == HeadOf(st) IN
  /\ (Apply(st, e) \/ AckPoint(st, e) \/ Snapshot(st, e) \/ Restored(st, e))
  /\ Advance(st)

CanNode(st) == More(st) /\ st \in started /\ NodeGuard(st, HeadOf(st))

------------------------------------------------------------------------------
(* Orchestrator events (clients, readers, faults)                           *)

Msg(e) == [idx |-> e.idx, reply |-> e.reply, c |-> e.c, cmid |-> e.cmid, h |-> e.h]
Newer(m, l) == m.idx > l.idx \/ (m.idx = l.idx /\ m.reply > l.reply)
Matches(m) == m.c = 0 \/ (m.idx \in LogIdx /\ At(m.idx).c = m.c /\ At(m.idx).cmid = m.cmid)

Start(e) ==
  /\ e.ev = "start"
  /\ started' = started \cup {e.st2}
  /\ chg' = [kind |-> "none", key |-> NoKey]
  /\ UNCHANGED <<log, posted, acked, last, gaps, conflicts, seqs, dups, redeliv, mismatch, finals, mvars>>

\* logged after waitpid: every event of that incarnation happened before
Killed(e) ==
  /\ e.ev = "killed"
  /\ ~More(e.st2)
  /\ chg' = [kind |-> "none", key |-> NoKey]
  /\ UNCHANGED <<started, log, posted, acked, last, gaps, conflicts, seqs, dups, redeliv, mismatch, finals, mvars>>

Post(e) ==
  /\ e.ev = "post"
  /\ posted' = posted \cup {[c |-> e.c, cmid |-> e.cmid]}
  /\ chg' = [kind |-> "none", key |-> NoKey]
  /\ UNCHANGED <<started, log, acked, last, gaps, conflicts, seqs, dups, redeliv, mismatch, finals, mvars>>

Ack(e) ==
  /\ e.ev = "ack"
  /\ acked' = acked \cup {[c |-> e.c, cmid |-> e.cmid]}
  /\ chg' = [kind |-> "ack", key |-> NoKey]
  /\ UNCHANGED <<started, log, posted, last, gaps, conflicts, seqs, dups, redeliv, mismatch, finals, mvars>>

\* a long-poll reader of session e.s got message e.idx.e.reply from node e.n
Recv(e) ==
  /\ e.ev = "recv"
  /\ LET k == <<e.n, e.s>>
         m == Msg(e)
         fresh == seqs[k] = << >> \/ Newer(m, seqs[k][Len(seqs[k])])
     IN /\ seqs' = IF fresh THEN [seqs EXCEPT ![k] = Append(@, m)] ELSE seqs
        /\ redeliv' = IF ~fresh /\ e.idx <= e.resume THEN redeliv + 1 ELSE redeliv
        /\ dups' = IF ~fresh /\ e.idx > e.resume
                     THEN dups \cup {[n |-> e.n, s |-> e.s, idx |-> e.idx, reply |-> e.reply]} ELSE dups
        /\ mismatch' = IF Matches(m) THEN mismatch
                         ELSE mismatch \cup {[n |-> e.n, s |-> e.s, idx |-> e.idx, reply |-> e.reply]}
        /\ chg' = [kind |-> "seqs", key |-> k]
  /\ UNCHANGED <<started, log, posted, acked, last, gaps, conflicts, finals, mvars>>

\* the complete stream of session e.s read from node e.n after quiescence
Final(e) ==
  /\ e.ev = "final" /\ ~e.stale
  /\ finals' = [finals EXCEPT ![<<e.n, e.s>>] = e.msgs]
  /\ mismatch' = mismatch \cup {[n |-> e.n, s |-> e.s, idx |-> e.msgs[i].idx, reply |-> e.msgs[i].reply] :
                                   i \in {j \in 1..Len(e.msgs) : ~Matches(e.msgs[j])}}
  /\ chg' = [kind |-> "final", key |-> <<e.n, e.s>>]
  /\ UNCHANGED <<started, log, posted, acked, last, gaps, conflicts, seqs, dups, redeliv, mvars>>

\* ... and what a node that was removed from the network, but still answers, serves
StaleFinal(e) ==
  /\ e.ev = "final" /\ e.stale
  /\ stales' = [stales EXCEPT ![<<e.n, e.s>>] = e.msgs]
  /\ mismatch' = mismatch \cup {[n |-> e.n, s |-> e.s, idx |-> e.msgs[i].idx, reply |-> e.msgs[i].reply] :
                                   i \in {j \in 1..Len(e.msgs) : ~Matches(e.msgs[j])}}
  /\ chg' = [kind |-> "stale", key |-> <<e.n, e.s>>]
  /\ UNCHANGED <<started, log, posted, acked, last, gaps, conflicts, seqs, dups, redeliv, finals,
                 members, cfgreq, nchanges, states, sround>>

\* the serialised state (IRCServer.Marshal, read from /status/state) of member e.n
State(e) ==
  /\ e.ev = "state"
  /\ states' = [n \in NodeIds |-> IF n = e.n THEN e.h ELSE IF e.round = sround THEN states[n] ELSE 0]
  /\ sround' = e.round
  /\ chg' = [kind |-> "state", key |-> <<e.n, 0>>]
  /\ UNCHANGED <<started, log, posted, acked, last, gaps, conflicts, seqs, dups, redeliv, mismatch, finals,
                 members, cfgreq, nchanges, stales>>

\* a membership request goes out: a fresh process started with -join, or POST /part
CfgReq(e) ==
  /\ e.ev = "cfgreq"
  /\ (e.kind = "join" => e.n \notin members \/ [kind |-> "part", n |-> e.n] \in cfgreq)
  /\ (e.kind = "part" => e.n \in members \/ [kind |-> "join", n |-> e.n] \in cfgreq)
  /\ cfgreq' = cfgreq \cup {[kind |-> e.kind, n |-> e.n]}
  /\ chg' = [kind |-> "none", key |-> NoKey]
  /\ UNCHANGED <<started, log, posted, acked, last, gaps, conflicts, seqs, dups, redeliv, mismatch, finals,
                 members, nchanges, stales, states, sround>>

\* the configurations that the requests R explain, starting from M (any subset of them
\* may have taken effect; hashicorp/raft applies them one server at a time)
ApplyReqs(M, R) == (M \cup {r.n : r \in {x \in R : x.kind = "join"}}) \ {r.n : r \in {x \in R : x.kind = "part"}}
Explained(M, R) == {ApplyReqs(M, S) : S \in SUBSET R}
Visible(r, P) == IF r.kind = "join" THEN r.n \in P ELSE r.n \notin P

\* the leader reports its latest configuration (e.ok: the orchestrator saw the change it
\* had asked for; "observe": just looking, after the faults were healed)
Cfg(e) ==
  /\ e.ev = "cfg"
  /\ LET P == {e.peers[i] : i \in 1..Len(e.peers)} IN
       /\ P \in Explained(members, cfgreq)
       /\ (e.ok /\ e.kind # "observe") => /\ [kind |-> e.kind, n |-> e.n] \in cfgreq
                                           /\ Visible([kind |-> e.kind, n |-> e.n], P)
       /\ members' = P
       /\ nchanges' = nchanges + Cardinality((P \ members) \cup (members \ P))
       /\ cfgreq' = {r \in cfgreq : ~Visible(r, P)}
  /\ chg' = [kind |-> "cfg", key |-> NoKey]
  /\ UNCHANGED <<started, log, posted, acked, last, gaps, conflicts, seqs, dups, redeliv, mismatch, finals,
                 stales, states, sround>>

\* the run is over: every member was read
Done(e) ==
  /\ e.ev = "done"
  /\ \A n \in members : states[n] # 0
  /\ chg' = [kind |-> "none", key |-> NoKey]
  /\ UNCHANGED <<started, log, posted, acked, last, gaps, conflicts, seqs, dups, redeliv, mismatch, finals, mvars>>

OrchStep ==
  LET e == HeadOf(1) IN
  /\ (Start(e) \/ Killed(e) \/ Post(e) \/ Ack(e) \/ Recv(e) \/ Final(e) \/ StaleFinal(e) \/ State(e)
        \/ CfgReq(e) \/ Cfg(e) \/ Done(e))
  /\ Advance(1)

Finished == \A st \in Streams : ~More(st)

Next ==
  \/ \E st \in NodeStreams :
        /\ CanNode(st) /\ \A t \in NodeStreams : t < st => ~CanNode(t)
        /\ NodeStep(st)
  \/ /\ \A st \in NodeStreams : ~CanNode(st)
     /\ More(1)
     /\ OrchStep
  \/ /\ Finished /\ UNCHANGED vars           \* accepted: every stream consumed

Spec == Init /\ [][Next]_vars

------------------------------------------------------------------------------
(* Property predicates on the recorded history                              *)

Numbered(seq) == SelectSeq(seq, LAMBDA m : m.c # 0)
AckedLines == {a \in acked : a.cmid >= Meta.firstline}   \* numbered PRIVMSG lines

\* (A) an acknowledged POST is in the committed sequence, for good ...
AckedDurable == chg.kind \in {"ack", "log"} => AckedDurableP(log, acked)
\* ... exactly once (F7) ...
AckedExactlyOnce == chg.kind \in {"ack", "log"} => AckedExactlyOnceP(log, acked)
\* ... in the sender's order
AckedInOrder == chg.kind \in {"ack", "log"} => AckedInOrderP(log, acked)

\* every incarnation applied the one committed sequence, nothing skipped
AppliedPrefixAgreement ==
  /\ conflicts = {}
  /\ chg.kind = "log" =>
       \A st \in NodeStreams : \A g \in gaps[st] : ~\E i \in LogIdx : g[1] < i /\ i < g[2]

\* (B) for every session the sequences served by all nodes are prefix-compatible
StreamsAgree ==
  chg.kind = "seqs" =>
     \A n \in NodeIds : PrefixCompatible(seqs[chg.key], seqs[<<n, chg.key[2]>>])

\* exactly once, in the sender's order, under the sender's identity, per stream
DeliveredInSenderOrder == chg.kind = "seqs" => SenderOrderP(Numbered(seqs[chg.key]))
NoDuplicateDelivery == dups = {}
DeliveredMatchesLog == mismatch = {}

\* (A)(B)(C) at quiescence - after all kills, restarts, fail-overs, snapshots:
\* complete, exactly once, in order, equal on all nodes
FinalComplete ==
  chg.kind = "final" => CompleteP(Numbered(finals[chg.key]), chg.key[2], AckedLines)
FinalInSenderOrder == chg.kind = "final" => SenderOrderP(Numbered(finals[chg.key]))
FinalsEqual ==
  chg.kind = "final" =>
     \A n \in NodeIds : finals[<<n, chg.key[2]>>] # << >> => finals[<<n, chg.key[2]>>] = finals[chg.key]
ResumedIsPrefixOfFinal == chg.kind = "final" => IsPrefix(seqs[chg.key], finals[chg.key])

\* (B) for a node that was removed from the network and still answers: what it serves is
\* a prefix of what the members serve (read before it)
StaleIsPrefix ==
  chg.kind = "stale" =>
     \A n \in NodeIds : finals[<<n, chg.key[2]>>] # << >> => IsPrefix(stales[chg.key], finals[<<n, chg.key[2]>>])

\* C02-style, across nodes: whenever everything is applied everywhere, every member - whether it applied every entry
\* itself, restarted from its own snapshot, or got its state by InstallSnapshot - holds
\* the same serialised state
StatesEqual ==
  chg.kind = "state" => \A n \in NodeIds : states[n] # 0 => states[n] = states[chg.key[1]]

\* shown instead of the full state in error traces
Alias == [pos |-> pos, chg |-> chg, conflicts |-> conflicts, dups |-> dups, members |-> members, cfgreq |-> cfgreq,
          mismatch |-> mismatch, redeliv |-> redeliv, loglen |-> Len(log),
          heads |-> [st \in Streams |-> IF More(st) THEN HeadOf(st) ELSE [ev |-> "end"]]]

\* statistics for the evidence file, printed once at the end
Stats == Finished => PrintT(<<"STATS", ToJson([events |-> Len(Trace) - 1, log |-> Len(log),
                        acked |-> Cardinality(acked), redeliv |-> redeliv,
                        members |-> Cardinality(members), cfgchanges |-> nchanges,
                        delivered |-> [k \in Keys |-> Len(seqs[k])]])>>)
=============================================================================
