---------------------------- MODULE ClusterTrace ----------------------------
(***************************************************************************)
(* Trace validation for C05: the history recorded from REAL robustirc      *)
(* binaries (harness/cluster) is replayed here and every property          *)
(* predicate of ClusterProps.tla is evaluated on the recorded states.      *)
(*                                                                         *)
(* Input "trace.ndjson": one record per event, tagged with its stream:     *)
(*   stream 1      the orchestrator process (clients, readers, faults)     *)
(*   stream 2..K   one per node incarnation (events written by the node    *)
(*                 itself from the verif hooks H2/H3)                      *)
(* Inside a stream the order is the per-process sequence number.  ACROSS   *)
(* streams no clock is consulted: the only cross-process facts used are    *)
(* the causal ones that hold by construction of the harness -              *)
(*   start(n,k)  is logged before the process of incarnation k exists,     *)
(*   killed(n,k) is logged after the process is gone (waitpid),            *)
(*   an entry cannot be applied before its first POST was sent.            *)
(* Node events are consumed as early as these facts allow, orchestrator    *)
(* events only when no node event is enabled.  All guards are monotone     *)
(* (consuming an event never disables another one), so this deterministic  *)
(* merge reaches the end of all streams iff any merge does; and all        *)
(* property predicates below are stable (once false they stay false), so   *)
(* their verdict does not depend on the chosen interleaving.               *)
(*                                                                         *)
(* The COMMIT POINTS are inferred: the first node that reports             *)
(* FSM.Apply(idx) fixes entry idx of the committed sequence `log`; every   *)
(* other application of idx (other nodes, replay after restart) must agree.*)
(***************************************************************************)
EXTENDS Integers, Sequences, FiniteSets, TLC, Json, ClusterProps

Trace == ndJsonDeserialize("trace.ndjson")

Meta == Trace[1]               \* [ev |-> "meta", streams, nodes, sessions]
Streams == 1..Meta.streams
NodeStreams == 2..Meta.streams
NodeIds == 1..Meta.nodes
Sessions == 1..Meta.sessions
Keys == NodeIds \X Sessions

T == [st \in Streams |-> SelectSeq(Trace, LAMBDA e : e.st = st)]

VARIABLES
  pos,        \* pos[st]: next unread event of stream st
  started,    \* node streams whose process exists (start consumed)
  log,        \* inferred committed sequence: Seq([idx, c, cmid, type]), idx increasing
  posted,     \* [c, cmid] ever sent by a client
  acked,      \* [c, cmid] answered with success (HTTP 200)
  last,       \* last[st]: highest index incarnation st has applied (or restored up to)
  gaps,       \* gaps[st]: index intervals <<a, b>> the incarnation jumped over
  conflicts,  \* indices on which two applications disagree / out of order / applied twice
  seqs,       \* seqs[<<n, s>>]: what node n delivered to session s (resumed long-poll)
  dups,       \* messages a node delivered twice to a session (not the resume shape of C04)
  redeliv,    \* number of re-deliveries of x.1..x.r after resuming at x.r (C04 / F6)
  mismatch,   \* delivered numbered lines that do not match the committed entry they claim
  finals,     \* finals[<<n, s>>]: complete stream read from node n after quiescence
  chg         \* what the last step changed (invariants are evaluated where they can change)

vars == <<pos, started, log, posted, acked, last, gaps, conflicts, seqs, dups, redeliv,
          mismatch, finals, chg>>

NoKey == <<0, 0>>

Init ==
  /\ pos = [st \in Streams |-> IF st = 1 THEN 2 ELSE 1]     \* record 1 of stream 1 is Meta
  /\ started = {}
  /\ log = << >>
  /\ posted = {}
  /\ acked = {}
  /\ last = [st \in NodeStreams |-> 0]
  /\ gaps = [st \in NodeStreams |-> {}]
  /\ conflicts = {}
  /\ seqs = [k \in Keys |-> << >>]
  /\ dups = {}
  /\ redeliv = 0
  /\ mismatch = {}
  /\ finals = [k \in Keys |-> << >>]
  /\ chg = [kind |-> "init", key |-> NoKey]

More(st) == pos[st] <= Len(T[st])
HeadOf(st) == T[st][pos[st]]
Advance(st) == pos' = [pos EXCEPT ![st] = @ + 1]

LogIdx == {log[i].idx : i \in 1..Len(log)}
At(i) == log[CHOOSE j \in 1..Len(log) : log[j].idx = i]
MaxIdx == IF log = << >> THEN 0 ELSE log[Len(log)].idx

Entry(e) == [idx |-> e.idx, c |-> e.c, cmid |-> e.cmid, type |-> e.type]
IRCFromClient == 2

------------------------------------------------------------------------------
(* Node events (hooks H2, H3)                                               *)

\* FSM.Apply returned for entry e.idx on incarnation st
Apply(st, e) ==
  /\ e.ev = "apply"
  /\ (e.idx \notin LogIdx /\ e.type = IRCFromClient) => [c |-> e.c, cmid |-> e.cmid] \in posted
  /\ IF e.idx \in LogIdx
       THEN /\ log' = log
            /\ conflicts' = IF At(e.idx) = Entry(e) /\ e.idx > last[st]
                              THEN conflicts ELSE conflicts \cup {e.idx}
       ELSE /\ log' = Append(log, Entry(e))                  \* inferred commit point
            /\ conflicts' = IF e.idx > MaxIdx /\ e.idx > last[st]
                              THEN conflicts ELSE conflicts \cup {e.idx}
  /\ gaps' = IF e.idx > last[st] + 1
               THEN [gaps EXCEPT ![st] = @ \cup {<<last[st], e.idx>>}] ELSE gaps
  /\ last' = [last EXCEPT ![st] = IF e.idx > @ THEN e.idx ELSE @]
  /\ chg' = [kind |-> "log", key |-> NoKey]
  /\ UNCHANGED <<started, posted, acked, seqs, dups, redeliv, mismatch, finals>>

\* applyMessageWait returned on the proposing node: the entry is committed and
\* applied HERE (hook H3 sits after the raft future, before the HTTP reply)
AckPoint(st, e) ==
  /\ e.ev = "ackpoint"
  /\ e.idx \in LogIdx /\ At(e.idx).c = e.c /\ At(e.idx).cmid = e.cmid
  /\ last[st] >= e.idx
  /\ chg' = [kind |-> "none", key |-> NoKey]
  /\ UNCHANGED <<started, log, posted, acked, last, gaps, conflicts, seqs, dups, redeliv, mismatch, finals>>

\* FSM.Snapshot returned: only applied entries can be in it
Snapshot(st, e) ==
  /\ e.ev = "snapshot"
  /\ e.last <= last[st]
  /\ chg' = [kind |-> "none", key |-> NoKey]
  /\ UNCHANGED <<started, log, posted, acked, last, gaps, conflicts, seqs, dups, redeliv, mismatch, finals>>

\* FSM.Restore returned: the node's state is the snapshot, i.e. everything up to e.last
Restored(st, e) ==
  /\ e.ev = "restored"
  /\ last' = [last EXCEPT ![st] = e.last]
  /\ chg' = [kind |-> "none", key |-> NoKey]
  /\ UNCHANGED <<started, log, posted, acked, gaps, conflicts, seqs, dups, redeliv, mismatch, finals>>

\* the enabling conditions of the node events, spelled out (all monotone)
NodeGuard(st, e) ==
  CASE e.ev = "apply"    -> (e.idx \notin LogIdx /\ e.type = IRCFromClient)
                               => [c |-> e.c, cmid |-> e.cmid] \in posted
    [] e.ev = "ackpoint" -> e.idx \in LogIdx /\ At(e.idx).c = e.c /\ At(e.idx).cmid = e.cmid
                               /\ last[st] >= e.idx
    [] e.ev = "snapshot" -> e.last <= last[st]
    [] e.ev = "restored" -> TRUE
    [] OTHER -> FALSE

NodeStep(st) ==
  LET e == HeadOf(st) IN
  /\ (Apply(st, e) \/ AckPoint(st, e) \/ Snapshot(st, e) \/ Restored(st, e))
  /\ Advance(st)

CanNode(st) == More(st) /\ st \in started /\ NodeGuard(st, HeadOf(st))

------------------------------------------------------------------------------
(* Orchestrator events (clients, readers, faults)                           *)

Msg(e) == [idx |-> e.idx, reply |-> e.reply, c |-> e.c, cmid |-> e.cmid, h |-> e.h]
Newer(m, l) == m.idx > l.idx \/ (m.idx = l.idx /\ m.reply > l.reply)
Matches(m) == m.c = 0 \/ (m.idx \in LogIdx /\ At(m.idx).c = m.c /\ At(m.idx).cmid = m.cmid)

Start(e) ==
  /\ e.ev = "start"
  /\ started' = started \cup {e.st2}
  /\ chg' = [kind |-> "none", key |-> NoKey]
  /\ UNCHANGED <<log, posted, acked, last, gaps, conflicts, seqs, dups, redeliv, mismatch, finals>>

\* logged after waitpid: every event of that incarnation happened before
Killed(e) ==
  /\ e.ev = "killed"
  /\ ~More(e.st2)
  /\ chg' = [kind |-> "none", key |-> NoKey]
  /\ UNCHANGED <<started, log, posted, acked, last, gaps, conflicts, seqs, dups, redeliv, mismatch, finals>>

Post(e) ==
  /\ e.ev = "post"
  /\ posted' = posted \cup {[c |-> e.c, cmid |-> e.cmid]}
  /\ chg' = [kind |-> "none", key |-> NoKey]
  /\ UNCHANGED <<started, log, acked, last, gaps, conflicts, seqs, dups, redeliv, mismatch, finals>>

Ack(e) ==
  /\ e.ev = "ack"
  /\ acked' = acked \cup {[c |-> e.c, cmid |-> e.cmid]}
  /\ chg' = [kind |-> "ack", key |-> NoKey]
  /\ UNCHANGED <<started, log, posted, last, gaps, conflicts, seqs, dups, redeliv, mismatch, finals>>

\* a long-poll reader of session e.s got message e.idx.e.reply from node e.n
Recv(e) ==
  /\ e.ev = "recv"
  /\ LET k == <<e.n, e.s>>
         m == Msg(e)
         fresh == seqs[k] = << >> \/ Newer(m, seqs[k][Len(seqs[k])])
     IN /\ seqs' = IF fresh THEN [seqs EXCEPT ![k] = Append(@, m)] ELSE seqs
        /\ redeliv' = IF ~fresh /\ e.idx <= e.resume THEN redeliv + 1 ELSE redeliv
        /\ dups' = IF ~fresh /\ e.idx > e.resume
                     THEN dups \cup {[n |-> e.n, s |-> e.s, idx |-> e.idx, reply |-> e.reply]} ELSE dups
        /\ mismatch' = IF Matches(m) THEN mismatch
                         ELSE mismatch \cup {[n |-> e.n, s |-> e.s, idx |-> e.idx, reply |-> e.reply]}
        /\ chg' = [kind |-> "seqs", key |-> k]
  /\ UNCHANGED <<started, log, posted, acked, last, gaps, conflicts, finals>>

\* the complete stream of session e.s read from node e.n after quiescence
Final(e) ==
  /\ e.ev = "final"
  /\ finals' = [finals EXCEPT ![<<e.n, e.s>>] = e.msgs]
  /\ mismatch' = mismatch \cup {[n |-> e.n, s |-> e.s, idx |-> e.msgs[i].idx, reply |-> e.msgs[i].reply] :
                                   i \in {j \in 1..Len(e.msgs) : ~Matches(e.msgs[j])}}
  /\ chg' = [kind |-> "final", key |-> <<e.n, e.s>>]
  /\ UNCHANGED <<started, log, posted, acked, last, gaps, conflicts, seqs, dups, redeliv>>

OrchStep ==
  LET e == HeadOf(1) IN
  /\ (Start(e) \/ Killed(e) \/ Post(e) \/ Ack(e) \/ Recv(e) \/ Final(e))
  /\ Advance(1)

Finished == \A st \in Streams : ~More(st)

Next ==
  \/ \E st \in NodeStreams :
        /\ CanNode(st) /\ \A t \in NodeStreams : t < st => ~CanNode(t)
        /\ NodeStep(st)
  \/ /\ \A st \in NodeStreams : ~CanNode(st)
     /\ More(1)
     /\ OrchStep
  \/ /\ Finished /\ UNCHANGED vars           \* accepted: every stream consumed

Spec == Init /\ [][Next]_vars

------------------------------------------------------------------------------
(* Property predicates on the recorded history                              *)

Numbered(seq) == SelectSeq(seq, LAMBDA m : m.c # 0)
AckedLines == {a \in acked : a.cmid >= Meta.firstline}   \* numbered PRIVMSG lines

\* (A) an acknowledged POST is in the committed sequence, for good ...
AckedDurable == chg.kind \in {"ack", "log"} => AckedDurableP(log, acked)
\* ... exactly once (F7) ...
AckedExactlyOnce == chg.kind \in {"ack", "log"} => AckedExactlyOnceP(log, acked)
\* ... in the sender's order
AckedInOrder == chg.kind \in {"ack", "log"} => AckedInOrderP(log, acked)

\* every incarnation applied the one committed sequence, nothing skipped
AppliedPrefixAgreement ==
  /\ conflicts = {}
  /\ chg.kind = "log" =>
       \A st \in NodeStreams : \A g \in gaps[st] : ~\E i \in LogIdx : g[1] < i /\ i < g[2]

\* (B) for every session the sequences served by all nodes are prefix-compatible
StreamsAgree ==
  chg.kind = "seqs" =>
     \A n \in NodeIds : PrefixCompatible(seqs[chg.key], seqs[<<n, chg.key[2]>>])

\* exactly once, in the sender's order, under the sender's identity, per stream
DeliveredInSenderOrder == chg.kind = "seqs" => SenderOrderP(Numbered(seqs[chg.key]))
NoDuplicateDelivery == dups = {}
DeliveredMatchesLog == mismatch = {}

\* (A)(B)(C) at quiescence - after all kills, restarts, fail-overs, snapshots:
\* complete, exactly once, in order, equal on all nodes
FinalComplete ==
  chg.kind = "final" => CompleteP(Numbered(finals[chg.key]), chg.key[2], AckedLines)
FinalInSenderOrder == chg.kind = "final" => SenderOrderP(Numbered(finals[chg.key]))
FinalsEqual ==
  chg.kind = "final" =>
     \A n \in NodeIds : finals[<<n, chg.key[2]>>] # << >> => finals[<<n, chg.key[2]>>] = finals[chg.key]
ResumedIsPrefixOfFinal == chg.kind = "final" => IsPrefix(seqs[chg.key], finals[chg.key])

\* shown instead of the full state in error traces
Alias == [pos |-> pos, chg |-> chg, conflicts |-> conflicts, dups |-> dups,
          mismatch |-> mismatch, redeliv |-> redeliv, loglen |-> Len(log),
          heads |-> [st \in Streams |-> IF More(st) THEN HeadOf(st) ELSE [ev |-> "end"]]]

\* statistics for the evidence file, printed once at the end
Stats == Finished => PrintT(<<"STATS", ToJson([events |-> Len(Trace) - 1, log |-> Len(log),
                        acked |-> Cardinality(acked), redeliv |-> redeliv,
                        delivered |-> [k \in Keys |-> Len(seqs[k])]])>>)
=============================================================================
