\* Entries the state machine REFUSES (CreateSession at MaxSessions: applyRobustMessage
\* returns an error) inside the range Snapshot() folds.  Prelude CreateSession, then <= 3
\* entries over {CreateSession, config MaxSessions = 1} x timestamps {0, 4} (cutoff 3 at
\* now 64: every position of the refused entry relative to the horizon and to the cut),
\* <= 2 snapshots on the same irclog, live restore, restart.  Every transition is
\* replayed on the real FSM (21,482 edges, 11,401 states).
SPECIFICATION Spec
CONSTANTS
    Alphabet <- AlphaLimS
    TS = {0, 4}
    Nows = {64}
    Prelude <- PreludeSess
    DefaultExp = 60
    Grace = 1
    MaxLen = 4
    MaxGaps = 0
    MaxSnaps = 2
    MaxFails = 0
    MaxRestarts = 1
    MaxRestores = 1
    MaxPanics = 0
    FixF2 = TRUE
    FixF3 = TRUE
    InitEnc = "proto"
    MaxMigrations = 0
VIEW view
INVARIANTS
    TypeOK
    StateIsFullReplay
    RestoreEqualsReplay
    LssSound
    NextBaseFound
    FoldedXorRetained
    OutputIffRetained
    HorizonRespected
    ExpInForce
ACTION_CONSTRAINT EmitEdge
CHECK_DEADLOCK FALSE
