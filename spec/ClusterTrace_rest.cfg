\* Trace validation of a history in which a KNOWN double application (F7) was
\* found: the predicates that the double application implies are left out, all
\* others are still evaluated on the recorded states.
SPECIFICATION Spec
INVARIANTS
  AckedDurable
  AckedInOrder
  AppliedPrefixAgreement
  StreamsAgree
  NoDuplicateDelivery
  DeliveredMatchesLog
  FinalsEqual
  ResumedIsPrefixOfFinal
  StaleIsPrefix
  StatesEqual
  Stats
ALIAS Alias
CHECK_DEADLOCK TRUE
