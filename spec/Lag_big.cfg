\* exhaustive (thorough): log of up to 3 entries, one crash + restart
SPECIFICATION Spec
CONSTANTS
    Nodes = {1, 2, 3}
    MaxLog = 3
    MaxCrash = 1
    MaxSpurious = 0
    MaxHops = 2
    FixedLeaderLag = TRUE
INVARIANTS TypeOK NeverGoneWhileAlive GoneOnlyIfDeleted NotYetSeenIsRetryable ServedOnlyByKnowing LookupSound EffectOnlyByLeader
CHECK_DEADLOCK FALSE
