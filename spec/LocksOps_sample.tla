---- MODULE LocksOps_sample ----
\* SAMPLE of the module /verif/tools/lockextract generates at check time (kept only so that
\* setup can SANY-check Locks.tla together with a root module; checks/c20.py never reads it).
\* Root module for Locks.tla: the operations of the running system as step lists.
EXTENDS Integers, Sequences, FiniteSets, TLC

LockNamesDef == {"FSM.restoreMu", "FSM.sessionExpirationMu", "HTTP.getMessagesRequestsMu", "HTTP.mu", "HTTP.throttleMu", "IRCServer.ConfigMu", "IRCServer.lastProcessedMu", "IRCServer.sessionsMu", "LevelDBStore.mu", "LevelDBStore@log.mu", "OutputStream.cacheMu", "OutputStream.messagesMu", "api.nodeProxiesMu", "main.ircServerMu"}

OpsDef == <<
  \* 1  (*main.FSM).Apply
  [name |-> "FSM.Apply", threads |-> {"fsm"}, steps |-> <<
     [k |-> "sec", l |-> "", m |-> "", seg |-> 1, rs |-> {"FSM.ircstore", "FSM.store", "main.appliedMessages", "main.ircServer", "main.outputStream", "main.useProtobuf", "main.useProtobuf[]"}, ws |-> {}],
     [k |-> "acq", l |-> "LevelDBStore.mu", m |-> "W", seg |-> 0, rs |-> {}, ws |-> {}],
     [k |-> "sec", l |-> "", m |-> "", seg |-> 2, rs |-> {"LevelDBStore.db", "LevelDBStore.useProtobuf"}, ws |-> {}],
     [k |-> "rel", l |-> "LevelDBStore.mu", m |-> "", seg |-> 0, rs |-> {}, ws |-> {}],
     [k |-> "acq", l |-> "IRCServer.sessionsMu", m |-> "W", seg |-> 0, rs |-> {}, ws |-> {}],
     [k |-> "sec", l |-> "", m |-> "", seg |-> 3, rs |-> {"IRCServer.ServerCreation", "IRCServer.ServerCreation[]", "IRCServer.ServerPrefix", "IRCServer.ServerPrefix[]", "IRCServer.channels", "IRCServer.nicks", "IRCServer.serverSessions", "IRCServer.serverSessions[]", "IRCServer.sessions", "IRCServer.svsholds", "IRCServer.svsholds[][]", "Session.Channels", "Session.Created", "Session.Id", "Session.LastActivity[]", "Session.LastNonPing[]", "Session.LastSolvedCaptcha[]", "Session.Server", "Session.auth", "Session.invitedTo", "channel.name", "channel.nicks", "channel.topicTime[]", "ircCommand.Func", "ircCommand.MinParams", "ircserver.Commands", "ircserver.Commands[]", "ircserver.ErrSessionLimitReached", "ircserver.authOper", "ircserver.captchaChallengesSent", "ircserver.captchasFailed", "ircserver.captchasVerified", "ircserver.messagesProcessed", "ircserver.nickToLowerReplacer", "ircserver.validChannelRe", "ircserver.validNickRe", "modeCmd.Mode", "modeCmd.Param"}, ws |-> {"IRCServer.channels[]", "IRCServer.nicks[]", "IRCServer.sessions[]", "IRCServer.svsholds[]", "Session.AwayMsg", "Session.Channels[]", "Session.LastActivity", "Session.LastNonPing", "Session.LastSolvedCaptcha", "Session.Nick", "Session.Operator", "Session.Pass", "Session.Realname", "Session.RemoteAddr", "Session.Username", "Session.deleted", "Session.invitedTo[]", "Session.ircPrefix", "Session.lastClientMessageId", "Session.loggedIn", "Session.modes", "Session.svid", "channel.bans", "channel.bans[]", "channel.key", "channel.modes", "channel.nicks[]", "channel.nicks[][]", "channel.topic", "channel.topicNick", "channel.topicTime"}],
     [k |-> "acq", l |-> "IRCServer.lastProcessedMu", m |-> "R", seg |-> 0, rs |-> {}, ws |-> {}],
     [k |-> "sec", l |-> "", m |-> "", seg |-> 4, rs |-> {"IRCServer.lastProcessed", "ircserver.ErrNoSuchSession", "ircserver.ErrSessionNotYetSeen"}, ws |-> {}],
     [k |-> "rel", l |-> "IRCServer.lastProcessedMu", m |-> "", seg |-> 0, rs |-> {}, ws |-> {}],
     [k |-> "acq", l |-> "IRCServer.ConfigMu", m |-> "R", seg |-> 0, rs |-> {}, ws |-> {}],
     [k |-> "sec", l |-> "", m |-> "", seg |-> 5, rs |-> {"IRCServer.Config", "IRCServer.Config[]", "IRCServer.ServerPrefix", "IRCServer.ServerPrefix[]", "IRCServer.channels", "IRCServer.channels[]", "IRCServer.nicks", "IRCServer.nicks[]", "Session.Channels", "Session.Channels[]", "Session.Id", "Session.LastActivity", "Session.LastActivity[]", "Session.Nick", "Session.Pass", "Session.Realname", "Session.Username", "Session.loggedIn", "Session.modes", "Session.svid", "channel.name", "channel.nicks", "channel.nicks[]", "channel.nicks[][]", "ircserver.nickToLowerReplacer"}, ws |-> {"IRCServer.serverSessions", "IRCServer.serverSessions[]", "Session.Server", "Session.ircPrefix"}],
     [k |-> "rel", l |-> "IRCServer.ConfigMu", m |-> "", seg |-> 0, rs |-> {}, ws |-> {}],
     [k |-> "rel", l |-> "IRCServer.sessionsMu", m |-> "", seg |-> 0, rs |-> {}, ws |-> {}],
     [k |-> "acq", l |-> "IRCServer.sessionsMu", m |-> "R", seg |-> 0, rs |-> {}, ws |-> {}],
     [k |-> "sec", l |-> "", m |-> "", seg |-> 6, rs |-> {"IRCServer.sessions", "IRCServer.sessions[]"}, ws |-> {}],
     [k |-> "acq", l |-> "IRCServer.lastProcessedMu", m |-> "R", seg |-> 0, rs |-> {}, ws |-> {}],
     [k |-> "sec", l |-> "", m |-> "", seg |-> 7, rs |-> {"IRCServer.lastProcessed", "ircserver.ErrNoSuchSession", "ircserver.ErrSessionNotYetSeen"}, ws |-> {}],
     [k |-> "rel", l |-> "IRCServer.lastProcessedMu", m |-> "", seg |-> 0, rs |-> {}, ws |-> {}],
     [k |-> "rel", l |-> "IRCServer.sessionsMu", m |-> "", seg |-> 0, rs |-> {}, ws |-> {}],
     [k |-> "acq", l |-> "IRCServer.sessionsMu", m |-> "W", seg |-> 0, rs |-> {}, ws |-> {}],
     [k |-> "acq", l |-> "IRCServer.ConfigMu", m |-> "W", seg |-> 0, rs |-> {}, ws |-> {}],
     [k |-> "sec", l |-> "", m |-> "", seg |-> 8, rs |-> {"IRCServer.Config", "IRCServer.ServerPrefix", "IRCServer.channels", "IRCServer.nicks", "IRCServer.serverSessions", "IRCServer.serverSessions[]", "IRCServer.sessions", "IRCServer.sessions[]", "Session.Channels", "Session.Channels[]", "Session.Id", "Session.Nick", "Session.Operator", "Session.RemoteAddr", "Session.invitedTo", "Session.ircPrefix", "channel.name", "channel.nicks", "ircserver.nickToLowerReplacer"}, ws |-> {"IRCServer.Config[]", "IRCServer.channels[]", "IRCServer.nicks[]", "Session.deleted", "Session.invitedTo[]", "channel.nicks[]"}],
     [k |-> "rel", l |-> "IRCServer.ConfigMu", m |-> "", seg |-> 0, rs |-> {}, ws |-> {}],
     [k |-> "rel", l |-> "IRCServer.sessionsMu", m |-> "", seg |-> 0, rs |-> {}, ws |-> {}],
     [k |-> "acq", l |-> "IRCServer.lastProcessedMu", m |-> "W", seg |-> 0, rs |-> {}, ws |-> {}],
     [k |-> "sec", l |-> "", m |-> "", seg |-> 9, rs |-> {}, ws |-> {"IRCServer.lastProcessed"}],
     [k |-> "rel", l |-> "IRCServer.lastProcessedMu", m |-> "", seg |-> 0, rs |-> {}, ws |-> {}],
     [k |-> "acq", l |-> "OutputStream.messagesMu", m |-> "W", seg |-> 0, rs |-> {}, ws |-> {}],
     [k |-> "sec", l |-> "", m |-> "", seg |-> 10, rs |-> {"OutputStream.db", "OutputStream.lastseen[]", "OutputStream.lastseen[][]"}, ws |-> {"OutputStream.batch", "OutputStream.lastseen"}],
     [k |-> "acq", l |-> "OutputStream.cacheMu", m |-> "W", seg |-> 0, rs |-> {}, ws |-> {}],
     [k |-> "sec", l |-> "", m |-> "", seg |-> 11, rs |-> {"OutputStream.lastseen", "OutputStream.lastseen[]", "OutputStream.messagesCache"}, ws |-> {"OutputStream.messagesCache[]"}],
     [k |-> "rel", l |-> "OutputStream.cacheMu", m |-> "", seg |-> 0, rs |-> {}, ws |-> {}],
     [k |-> "rel", l |-> "OutputStream.messagesMu", m |-> "", seg |-> 0, rs |-> {}, ws |-> {}],
     [k |-> "acq", l |-> "IRCServer.ConfigMu", m |-> "W", seg |-> 0, rs |-> {}, ws |-> {}],
     [k |-> "sec", l |-> "", m |-> "", seg |-> 12, rs |-> {}, ws |-> {"IRCServer.Config"}],
     [k |-> "rel", l |-> "IRCServer.ConfigMu", m |-> "", seg |-> 0, rs |-> {}, ws |-> {}],
     [k |-> "acq", l |-> "IRCServer.ConfigMu", m |-> "R", seg |-> 0, rs |-> {}, ws |-> {}],
     [k |-> "sec", l |-> "", m |-> "", seg |-> 13, rs |-> {"IRCServer.Config", "main.ircServer"}, ws |-> {}],
     [k |-> "rel", l |-> "IRCServer.ConfigMu", m |-> "", seg |-> 0, rs |-> {}, ws |-> {}],
     [k |-> "acq", l |-> "FSM.sessionExpirationMu", m |-> "W", seg |-> 0, rs |-> {}, ws |-> {}],
     [k |-> "sec", l |-> "", m |-> "", seg |-> 14, rs |-> {}, ws |-> {"FSM.sessionExpirationDur"}],
     [k |-> "rel", l |-> "FSM.sessionExpirationMu", m |-> "", seg |-> 0, rs |-> {}, ws |-> {}]>>,
   rall |-> {"FSM.ircstore", "FSM.store", "IRCServer.Config", "IRCServer.Config[]", "IRCServer.ServerCreation", "IRCServer.ServerCreation[]", "IRCServer.ServerPrefix", "IRCServer.ServerPrefix[]", "IRCServer.channels", "IRCServer.channels[]", "IRCServer.lastProcessed", "IRCServer.nicks", "IRCServer.nicks[]", "IRCServer.serverSessions", "IRCServer.serverSessions[]", "IRCServer.sessions", "IRCServer.sessions[]", "IRCServer.svsholds", "IRCServer.svsholds[][]", "LevelDBStore.db", "LevelDBStore.useProtobuf", "OutputStream.db", "OutputStream.lastseen", "OutputStream.lastseen[]", "OutputStream.lastseen[][]", "OutputStream.messagesCache", "Session.Channels", "Session.Channels[]", "Session.Created", "Session.Id", "Session.LastActivity", "Session.LastActivity[]", "Session.LastNonPing[]", "Session.LastSolvedCaptcha[]", "Session.Nick", "Session.Operator", "Session.Pass", "Session.Realname", "Session.RemoteAddr", "Session.Server", "Session.Username", "Session.auth", "Session.invitedTo", "Session.ircPrefix", "Session.loggedIn", "Session.modes", "Session.svid", "channel.name", "channel.nicks", "channel.nicks[]", "channel.nicks[][]", "channel.topicTime[]", "ircCommand.Func", "ircCommand.MinParams", "ircserver.Commands", "ircserver.Commands[]", "ircserver.ErrNoSuchSession", "ircserver.ErrSessionLimitReached", "ircserver.ErrSessionNotYetSeen", "ircserver.authOper", "ircserver.captchaChallengesSent", "ircserver.captchasFailed", "ircserver.captchasVerified", "ircserver.messagesProcessed", "ircserver.nickToLowerReplacer", "ircserver.validChannelRe", "ircserver.validNickRe", "main.appliedMessages", "main.ircServer", "main.outputStream", "main.useProtobuf", "main.useProtobuf[]", "modeCmd.Mode", "modeCmd.Param"},
   wall |-> {"FSM.sessionExpirationDur", "IRCServer.Config", "IRCServer.Config[]", "IRCServer.channels[]", "IRCServer.lastProcessed", "IRCServer.nicks[]", "IRCServer.serverSessions", "IRCServer.serverSessions[]", "IRCServer.sessions[]", "IRCServer.svsholds[]", "OutputStream.batch", "OutputStream.lastseen", "OutputStream.messagesCache[]", "Session.AwayMsg", "Session.Channels[]", "Session.LastActivity", "Session.LastNonPing", "Session.LastSolvedCaptcha", "Session.Nick", "Session.Operator", "Session.Pass", "Session.Realname", "Session.RemoteAddr", "Session.Server", "Session.Username", "Session.deleted", "Session.invitedTo[]", "Session.ircPrefix", "Session.lastClientMessageId", "Session.loggedIn", "Session.modes", "Session.svid", "channel.bans", "channel.bans[]", "channel.key", "channel.modes", "channel.nicks[]", "channel.nicks[][]", "channel.topic", "channel.topicNick", "channel.topicTime"}],
  \* 2  (*main.FSM).Restore
  [name |-> "FSM.Restore", threads |-> {"fsm"}, steps |-> <<
     [k |-> "acq", l |-> "FSM.restoreMu", m |-> "W", seg |-> 0, rs |-> {}, ws |-> {}],
     [k |-> "sec", l |-> "", m |-> "", seg |-> 1, rs |-> {"(*raftstore.LevelDBStore).ConvertToProto.start", "(*raftstore.LevelDBStore).ConvertToProto.start[]", "FSM.ReplaceState", "FSM.lastSnapshotState", "FSM.store", "OutputStream.db", "OutputStream.dirname", "main.appliedMessages", "main.ircServer", "main.network", "main.network[]", "main.raftDir", "main.raftDir[]", "main.useProtobuf", "main.useProtobuf[]"}, ws |-> {"FSM.ircstore", "FSM.lastSnapshotState[]", "main.ircStore", "main.outputStream"}],
     [k |-> "acq", l |-> "LevelDBStore.mu", m |-> "W", seg |-> 0, rs |-> {}, ws |-> {}],
     [k |-> "sec", l |-> "", m |-> "", seg |-> 2, rs |-> {"(*raftstore.LevelDBStore).ConvertToProto.start", "(*raftstore.LevelDBStore).ConvertToProto.start[]", "LevelDBStore.dir", "LevelDBStore.useProtobuf"}, ws |-> {"LevelDBStore.db"}],
     [k |-> "rel", l |-> "LevelDBStore.mu", m |-> "", seg |-> 0, rs |-> {}, ws |-> {}],
     [k |-> "acq", l |-> "main.ircServerMu", m |-> "W", seg |-> 0, rs |-> {}, ws |-> {}],
     [k |-> "sec", l |-> "", m |-> "", seg |-> 3, rs |-> {}, ws |-> {"main.ircServer"}],
     [k |-> "rel", l |-> "main.ircServerMu", m |-> "", seg |-> 0, rs |-> {}, ws |-> {}],
     [k |-> "acq", l |-> "HTTP.mu", m |-> "W", seg |-> 0, rs |-> {}, ws |-> {}],
     [k |-> "sec", l |-> "", m |-> "", seg |-> 4, rs |-> {}, ws |-> {"HTTP.ircServerUnlocked", "HTTP.ircStoreUnlocked", "HTTP.outputUnlocked"}],
     [k |-> "rel", l |-> "HTTP.mu", m |-> "", seg |-> 0, rs |-> {}, ws |-> {}],
     [k |-> "acq", l |-> "IRCServer.sessionsMu", m |-> "W", seg |-> 0, rs |-> {}, ws |-> {}],
     [k |-> "acq", l |-> "IRCServer.lastProcessedMu", m |-> "W", seg |-> 0, rs |-> {}, ws |-> {}],
     [k |-> "sec", l |-> "", m |-> "", seg |-> 5, rs |-> {"IRCServer.channels", "IRCServer.nicks", "IRCServer.sessions", "IRCServer.svsholds", "ircserver.nickToLowerReplacer"}, ws |-> {"IRCServer.channels[]", "IRCServer.lastProcessed", "IRCServer.nicks[]", "IRCServer.serverSessions", "IRCServer.serverSessions[]", "IRCServer.sessions[]", "IRCServer.svsholds[]"}],
     [k |-> "rel", l |-> "IRCServer.lastProcessedMu", m |-> "", seg |-> 0, rs |-> {}, ws |-> {}],
     [k |-> "rel", l |-> "IRCServer.sessionsMu", m |-> "", seg |-> 0, rs |-> {}, ws |-> {}],
     [k |-> "acq", l |-> "IRCServer.ConfigMu", m |-> "W", seg |-> 0, rs |-> {}, ws |-> {}],
     [k |-> "sec", l |-> "", m |-> "", seg |-> 6, rs |-> {}, ws |-> {"IRCServer.Config"}],
     [k |-> "rel", l |-> "IRCServer.ConfigMu", m |-> "", seg |-> 0, rs |-> {}, ws |-> {}],
     [k |-> "acq", l |-> "IRCServer.ConfigMu", m |-> "R", seg |-> 0, rs |-> {}, ws |-> {}],
     [k |-> "sec", l |-> "", m |-> "", seg |-> 7, rs |-> {"IRCServer.Config", "main.ircServer"}, ws |-> {}],
     [k |-> "rel", l |-> "IRCServer.ConfigMu", m |-> "", seg |-> 0, rs |-> {}, ws |-> {}],
     [k |-> "acq", l |-> "FSM.sessionExpirationMu", m |-> "W", seg |-> 0, rs |-> {}, ws |-> {}],
     [k |-> "sec", l |-> "", m |-> "", seg |-> 8, rs |-> {}, ws |-> {"FSM.sessionExpirationDur"}],
     [k |-> "rel", l |-> "FSM.sessionExpirationMu", m |-> "", seg |-> 0, rs |-> {}, ws |-> {}],
     [k |-> "acq", l |-> "IRCServer.sessionsMu", m |-> "W", seg |-> 0, rs |-> {}, ws |-> {}],
     [k |-> "sec", l |-> "", m |-> "", seg |-> 9, rs |-> {"IRCServer.ServerCreation", "IRCServer.ServerCreation[]", "IRCServer.ServerPrefix", "IRCServer.ServerPrefix[]", "IRCServer.channels", "IRCServer.nicks", "IRCServer.serverSessions", "IRCServer.serverSessions[]", "IRCServer.sessions", "IRCServer.svsholds", "IRCServer.svsholds[][]", "Session.Channels", "Session.Created", "Session.Id", "Session.LastActivity[]", "Session.LastNonPing[]", "Session.LastSolvedCaptcha[]", "Session.Server", "Session.auth", "Session.invitedTo", "channel.name", "channel.nicks", "channel.topicTime[]", "ircCommand.Func", "ircCommand.MinParams", "ircserver.Commands", "ircserver.Commands[]", "ircserver.ErrSessionLimitReached", "ircserver.authOper", "ircserver.captchaChallengesSent", "ircserver.captchasFailed", "ircserver.captchasVerified", "ircserver.messagesProcessed", "ircserver.nickToLowerReplacer", "ircserver.validChannelRe", "ircserver.validNickRe", "modeCmd.Mode", "modeCmd.Param"}, ws |-> {"IRCServer.channels[]", "IRCServer.nicks[]", "IRCServer.sessions[]", "IRCServer.svsholds[]", "Session.AwayMsg", "Session.Channels[]", "Session.LastActivity", "Session.LastNonPing", "Session.LastSolvedCaptcha", "Session.Nick", "Session.Operator", "Session.Pass", "Session.Realname", "Session.RemoteAddr", "Session.Username", "Session.deleted", "Session.invitedTo[]", "Session.ircPrefix", "Session.lastClientMessageId", "Session.loggedIn", "Session.modes", "Session.svid", "channel.bans", "channel.bans[]", "channel.key", "channel.modes", "channel.nicks[]", "channel.nicks[][]", "channel.topic", "channel.topicNick", "channel.topicTime"}],
     [k |-> "acq", l |-> "IRCServer.lastProcessedMu", m |-> "R", seg |-> 0, rs |-> {}, ws |-> {}],
     [k |-> "sec", l |-> "", m |-> "", seg |-> 10, rs |-> {"IRCServer.lastProcessed", "ircserver.ErrNoSuchSession", "ircserver.ErrSessionNotYetSeen"}, ws |-> {}],
     [k |-> "rel", l |-> "IRCServer.lastProcessedMu", m |-> "", seg |-> 0, rs |-> {}, ws |-> {}],
     [k |-> "acq", l |-> "IRCServer.ConfigMu", m |-> "R", seg |-> 0, rs |-> {}, ws |-> {}],
     [k |-> "sec", l |-> "", m |-> "", seg |-> 11, rs |-> {"IRCServer.Config", "IRCServer.Config[]", "IRCServer.ServerPrefix", "IRCServer.ServerPrefix[]", "IRCServer.channels", "IRCServer.channels[]", "IRCServer.nicks", "IRCServer.nicks[]", "Session.Channels", "Session.Channels[]", "Session.Id", "Session.LastActivity", "Session.LastActivity[]", "Session.Nick", "Session.Pass", "Session.Realname", "Session.Username", "Session.loggedIn", "Session.modes", "Session.svid", "channel.name", "channel.nicks", "channel.nicks[]", "channel.nicks[][]", "ircserver.nickToLowerReplacer"}, ws |-> {"IRCServer.serverSessions", "IRCServer.serverSessions[]", "Session.Server", "Session.ircPrefix"}],
     [k |-> "rel", l |-> "IRCServer.ConfigMu", m |-> "", seg |-> 0, rs |-> {}, ws |-> {}],
     [k |-> "rel", l |-> "IRCServer.sessionsMu", m |-> "", seg |-> 0, rs |-> {}, ws |-> {}],
     [k |-> "acq", l |-> "IRCServer.sessionsMu", m |-> "R", seg |-> 0, rs |-> {}, ws |-> {}],
     [k |-> "sec", l |-> "", m |-> "", seg |-> 12, rs |-> {"IRCServer.sessions", "IRCServer.sessions[]"}, ws |-> {}],
     [k |-> "acq", l |-> "IRCServer.lastProcessedMu", m |-> "R", seg |-> 0, rs |-> {}, ws |-> {}],
     [k |-> "sec", l |-> "", m |-> "", seg |-> 13, rs |-> {"IRCServer.lastProcessed", "ircserver.ErrNoSuchSession", "ircserver.ErrSessionNotYetSeen"}, ws |-> {}],
     [k |-> "rel", l |-> "IRCServer.lastProcessedMu", m |-> "", seg |-> 0, rs |-> {}, ws |-> {}],
     [k |-> "rel", l |-> "IRCServer.sessionsMu", m |-> "", seg |-> 0, rs |-> {}, ws |-> {}],
     [k |-> "acq", l |-> "IRCServer.sessionsMu", m |-> "W", seg |-> 0, rs |-> {}, ws |-> {}],
     [k |-> "acq", l |-> "IRCServer.ConfigMu", m |-> "W", seg |-> 0, rs |-> {}, ws |-> {}],
     [k |-> "sec", l |-> "", m |-> "", seg |-> 14, rs |-> {"IRCServer.Config", "IRCServer.ServerPrefix", "IRCServer.channels", "IRCServer.nicks", "IRCServer.serverSessions", "IRCServer.serverSessions[]", "IRCServer.sessions", "IRCServer.sessions[]", "Session.Channels", "Session.Channels[]", "Session.Id", "Session.Nick", "Session.Operator", "Session.RemoteAddr", "Session.invitedTo", "Session.ircPrefix", "channel.name", "channel.nicks", "ircserver.nickToLowerReplacer"}, ws |-> {"IRCServer.Config[]", "IRCServer.channels[]", "IRCServer.nicks[]", "Session.deleted", "Session.invitedTo[]", "channel.nicks[]"}],
     [k |-> "rel", l |-> "IRCServer.ConfigMu", m |-> "", seg |-> 0, rs |-> {}, ws |-> {}],
     [k |-> "rel", l |-> "IRCServer.sessionsMu", m |-> "", seg |-> 0, rs |-> {}, ws |-> {}],
     [k |-> "acq", l |-> "IRCServer.lastProcessedMu", m |-> "W", seg |-> 0, rs |-> {}, ws |-> {}],
     [k |-> "sec", l |-> "", m |-> "", seg |-> 15, rs |-> {}, ws |-> {"IRCServer.lastProcessed"}],
     [k |-> "rel", l |-> "IRCServer.lastProcessedMu", m |-> "", seg |-> 0, rs |-> {}, ws |-> {}],
     [k |-> "acq", l |-> "OutputStream.messagesMu", m |-> "W", seg |-> 0, rs |-> {}, ws |-> {}],
     [k |-> "sec", l |-> "", m |-> "", seg |-> 16, rs |-> {"OutputStream.db", "OutputStream.lastseen[]", "OutputStream.lastseen[][]"}, ws |-> {"OutputStream.batch", "OutputStream.lastseen"}],
     [k |-> "acq", l |-> "OutputStream.cacheMu", m |-> "W", seg |-> 0, rs |-> {}, ws |-> {}],
     [k |-> "sec", l |-> "", m |-> "", seg |-> 17, rs |-> {"OutputStream.lastseen", "OutputStream.lastseen[]", "OutputStream.messagesCache"}, ws |-> {"OutputStream.messagesCache[]"}],
     [k |-> "rel", l |-> "OutputStream.cacheMu", m |-> "", seg |-> 0, rs |-> {}, ws |-> {}],
     [k |-> "rel", l |-> "OutputStream.messagesMu", m |-> "", seg |-> 0, rs |-> {}, ws |-> {}],
     [k |-> "rel", l |-> "FSM.restoreMu", m |-> "", seg |-> 0, rs |-> {}, ws |-> {}]>>,
   rall |-> {"(*raftstore.LevelDBStore).ConvertToProto.start", "(*raftstore.LevelDBStore).ConvertToProto.start[]", "FSM.ReplaceState", "FSM.lastSnapshotState", "FSM.store", "IRCServer.Config", "IRCServer.Config[]", "IRCServer.ServerCreation", "IRCServer.ServerCreation[]", "IRCServer.ServerPrefix", "IRCServer.ServerPrefix[]", "IRCServer.channels", "IRCServer.channels[]", "IRCServer.lastProcessed", "IRCServer.nicks", "IRCServer.nicks[]", "IRCServer.serverSessions", "IRCServer.serverSessions[]", "IRCServer.sessions", "IRCServer.sessions[]", "IRCServer.svsholds", "IRCServer.svsholds[][]", "LevelDBStore.dir", "LevelDBStore.useProtobuf", "OutputStream.db", "OutputStream.dirname", "OutputStream.lastseen", "OutputStream.lastseen[]", "OutputStream.lastseen[][]", "OutputStream.messagesCache", "Session.Channels", "Session.Channels[]", "Session.Created", "Session.Id", "Session.LastActivity", "Session.LastActivity[]", "Session.LastNonPing[]", "Session.LastSolvedCaptcha[]", "Session.Nick", "Session.Operator", "Session.Pass", "Session.Realname", "Session.RemoteAddr", "Session.Server", "Session.Username", "Session.auth", "Session.invitedTo", "Session.ircPrefix", "Session.loggedIn", "Session.modes", "Session.svid", "channel.name", "channel.nicks", "channel.nicks[]", "channel.nicks[][]", "channel.topicTime[]", "ircCommand.Func", "ircCommand.MinParams", "ircserver.Commands", "ircserver.Commands[]", "ircserver.ErrNoSuchSession", "ircserver.ErrSessionLimitReached", "ircserver.ErrSessionNotYetSeen", "ircserver.authOper", "ircserver.captchaChallengesSent", "ircserver.captchasFailed", "ircserver.captchasVerified", "ircserver.messagesProcessed", "ircserver.nickToLowerReplacer", "ircserver.validChannelRe", "ircserver.validNickRe", "main.appliedMessages", "main.ircServer", "main.network", "main.network[]", "main.raftDir", "main.raftDir[]", "main.useProtobuf", "main.useProtobuf[]", "modeCmd.Mode", "modeCmd.Param"},
   wall |-> {"FSM.ircstore", "FSM.lastSnapshotState[]", "FSM.sessionExpirationDur", "HTTP.ircServerUnlocked", "HTTP.ircStoreUnlocked", "HTTP.outputUnlocked", "IRCServer.Config", "IRCServer.Config[]", "IRCServer.channels[]", "IRCServer.lastProcessed", "IRCServer.nicks[]", "IRCServer.serverSessions", "IRCServer.serverSessions[]", "IRCServer.sessions[]", "IRCServer.svsholds[]", "LevelDBStore.db", "OutputStream.batch", "OutputStream.lastseen", "OutputStream.messagesCache[]", "Session.AwayMsg", "Session.Channels[]", "Session.LastActivity", "Session.LastNonPing", "Session.LastSolvedCaptcha", "Session.Nick", "Session.Operator", "Session.Pass", "Session.Realname", "Session.RemoteAddr", "Session.Server", "Session.Username", "Session.deleted", "Session.invitedTo[]", "Session.ircPrefix", "Session.lastClientMessageId", "Session.loggedIn", "Session.modes", "Session.svid", "channel.bans", "channel.bans[]", "channel.key", "channel.modes", "channel.nicks[]", "channel.nicks[][]", "channel.topic", "channel.topicNick", "channel.topicTime", "main.ircServer", "main.ircStore", "main.outputStream"}],
  \* 3  (*main.FSM).Snapshot
  [name |-> "FSM.Snapshot", threads |-> {"fsm"}, steps |-> <<
     [k |-> "sec", l |-> "", m |-> "", seg |-> 1, rs |-> {"FSM.ircstore", "FSM.lastSnapshotState", "FSM.lastSnapshotState[][]", "FSM.skipDeletionForCanary", "ircCommand.Func", "ircCommand.MinParams", "ircserver.Commands", "ircserver.Commands[]", "ircserver.ErrNoSuchSession", "ircserver.ErrSessionLimitReached", "ircserver.ErrSessionNotYetSeen", "ircserver.authOper", "ircserver.captchaChallengesSent", "ircserver.captchasFailed", "ircserver.captchasVerified", "ircserver.messagesProcessed", "ircserver.nickToLowerReplacer", "ircserver.validChannelRe", "ircserver.validNickRe", "main.canaryCompactionStart", "main.canaryCompactionStart[]", "main.outputStream", "modeCmd.Mode", "modeCmd.Param"}, ws |-> {"FSM.lastSnapshotState[]"}],
     [k |-> "acq", l |-> "LevelDBStore.mu", m |-> "R", seg |-> 0, rs |-> {}, ws |-> {}],
     [k |-> "sec", l |-> "", m |-> "", seg |-> 2, rs |-> {"LevelDBStore.db"}, ws |-> {}],
     [k |-> "rel", l |-> "LevelDBStore.mu", m |-> "", seg |-> 0, rs |-> {}, ws |-> {}],
     [k |-> "acq", l |-> "FSM.sessionExpirationMu", m |-> "R", seg |-> 0, rs |-> {}, ws |-> {}],
     [k |-> "sec", l |-> "", m |-> "", seg |-> 3, rs |-> {"FSM.sessionExpirationDur"}, ws |-> {}],
     [k |-> "rel", l |-> "FSM.sessionExpirationMu", m |-> "", seg |-> 0, rs |-> {}, ws |-> {}],
     [k |-> "acq", l |-> "OutputStream.messagesMu", m |-> "W", seg |-> 0, rs |-> {}, ws |-> {}],
     [k |-> "sec", l |-> "", m |-> "", seg |-> 4, rs |-> {"OutputStream.db", "OutputStream.lastseen[]", "OutputStream.lastseen[][]"}, ws |-> {"OutputStream.batch", "OutputStream.lastseen"}],
     [k |-> "acq", l |-> "OutputStream.cacheMu", m |-> "W", seg |-> 0, rs |-> {}, ws |-> {}],
     [k |-> "sec", l |-> "", m |-> "", seg |-> 5, rs |-> {"OutputStream.lastseen", "OutputStream.lastseen[]", "OutputStream.messagesCache"}, ws |-> {"OutputStream.messagesCache[]"}],
     [k |-> "rel", l |-> "OutputStream.cacheMu", m |-> "", seg |-> 0, rs |-> {}, ws |-> {}],
     [k |-> "rel", l |-> "OutputStream.messagesMu", m |-> "", seg |-> 0, rs |-> {}, ws |-> {}],
     [k |-> "acq", l |-> "LevelDBStore.mu", m |-> "W", seg |-> 0, rs |-> {}, ws |-> {}],
     [k |-> "sec", l |-> "", m |-> "", seg |-> 6, rs |-> {"LevelDBStore.db"}, ws |-> {}],
     [k |-> "rel", l |-> "LevelDBStore.mu", m |-> "", seg |-> 0, rs |-> {}, ws |-> {}]>>,
   rall |-> {"FSM.ircstore", "FSM.lastSnapshotState", "FSM.lastSnapshotState[][]", "FSM.sessionExpirationDur", "FSM.skipDeletionForCanary", "LevelDBStore.db", "OutputStream.db", "OutputStream.lastseen", "OutputStream.lastseen[]", "OutputStream.lastseen[][]", "OutputStream.messagesCache", "ircCommand.Func", "ircCommand.MinParams", "ircserver.Commands", "ircserver.Commands[]", "ircserver.ErrNoSuchSession", "ircserver.ErrSessionLimitReached", "ircserver.ErrSessionNotYetSeen", "ircserver.authOper", "ircserver.captchaChallengesSent", "ircserver.captchasFailed", "ircserver.captchasVerified", "ircserver.messagesProcessed", "ircserver.nickToLowerReplacer", "ircserver.validChannelRe", "ircserver.validNickRe", "main.canaryCompactionStart", "main.canaryCompactionStart[]", "main.outputStream", "modeCmd.Mode", "modeCmd.Param"},
   wall |-> {"FSM.lastSnapshotState[]", "OutputStream.batch", "OutputStream.lastseen", "OutputStream.messagesCache[]"}],
  \* 4  (*main.robustSnapshot).Persist
  [name |-> "robustSnapshot.Persist", threads |-> {"snap"}, steps |-> <<
     [k |-> "sec", l |-> "", m |-> "", seg |-> 1, rs |-> {"main.useProtobuf", "main.useProtobuf[]", "robustSnapshot.firstIndex", "robustSnapshot.lastIndex", "robustSnapshot.state", "robustSnapshot.state[]", "robustSnapshot.store"}, ws |-> {}],
     [k |-> "acq", l |-> "LevelDBStore.mu", m |-> "R", seg |-> 0, rs |-> {}, ws |-> {}],
     [k |-> "sec", l |-> "", m |-> "", seg |-> 2, rs |-> {"LevelDBStore.db"}, ws |-> {}],
     [k |-> "rel", l |-> "LevelDBStore.mu", m |-> "", seg |-> 0, rs |-> {}, ws |-> {}]>>,
   rall |-> {"LevelDBStore.db", "main.useProtobuf", "main.useProtobuf[]", "robustSnapshot.firstIndex", "robustSnapshot.lastIndex", "robustSnapshot.state", "robustSnapshot.state[]", "robustSnapshot.store"},
   wall |-> {}],
  \* 5  main.dumpLogToDisk1
  [name |-> "main.dumpLogToDisk1", threads |-> {"bg"}, steps |-> <<
     [k |-> "acq", l |-> "FSM.restoreMu", m |-> "W", seg |-> 0, rs |-> {}, ws |-> {}],
     [k |-> "sec", l |-> "", m |-> "", seg |-> 1, rs |-> {"FSM.ircstore", "main.outputStream", "messageBatch.Messages[]"}, ws |-> {}],
     [k |-> "acq", l |-> "LevelDBStore.mu", m |-> "R", seg |-> 0, rs |-> {}, ws |-> {}],
     [k |-> "sec", l |-> "", m |-> "", seg |-> 2, rs |-> {"LevelDBStore.db"}, ws |-> {}],
     [k |-> "rel", l |-> "LevelDBStore.mu", m |-> "", seg |-> 0, rs |-> {}, ws |-> {}],
     [k |-> "acq", l |-> "OutputStream.messagesMu", m |-> "R", seg |-> 0, rs |-> {}, ws |-> {}],
     [k |-> "acq", l |-> "OutputStream.cacheMu", m |-> "R", seg |-> 0, rs |-> {}, ws |-> {}],
     [k |-> "sec", l |-> "", m |-> "", seg |-> 3, rs |-> {"OutputStream.messagesCache", "OutputStream.messagesCache[]"}, ws |-> {}],
     [k |-> "rel", l |-> "OutputStream.cacheMu", m |-> "", seg |-> 0, rs |-> {}, ws |-> {}],
     [k |-> "sec", l |-> "", m |-> "", seg |-> 4, rs |-> {"OutputStream.db", "messageBatch.Messages"}, ws |-> {}],
     [k |-> "acq", l |-> "OutputStream.cacheMu", m |-> "W", seg |-> 0, rs |-> {}, ws |-> {}],
     [k |-> "sec", l |-> "", m |-> "", seg |-> 5, rs |-> {"OutputStream.messagesCache"}, ws |-> {"OutputStream.messagesCache[]"}],
     [k |-> "rel", l |-> "OutputStream.cacheMu", m |-> "", seg |-> 0, rs |-> {}, ws |-> {}],
     [k |-> "rel", l |-> "OutputStream.messagesMu", m |-> "", seg |-> 0, rs |-> {}, ws |-> {}],
     [k |-> "rel", l |-> "FSM.restoreMu", m |-> "", seg |-> 0, rs |-> {}, ws |-> {}]>>,
   rall |-> {"FSM.ircstore", "LevelDBStore.db", "OutputStream.db", "OutputStream.messagesCache", "OutputStream.messagesCache[]", "main.outputStream", "messageBatch.Messages", "messageBatch.Messages[]"},
   wall |-> {"OutputStream.messagesCache[]"}],
  \* 6  main.init$1
  [name |-> "main.init$1", threads |-> {"http"}, steps |-> <<
     [k |-> "sec", l |-> "", m |-> "", seg |-> 1, rs |-> {"main.node"}, ws |-> {}]>>,
   rall |-> {"main.node"},
   wall |-> {}],
  \* 7  main.init$2
  [name |-> "main.init$2", threads |-> {"http"}, steps |-> <<
     [k |-> "acq", l |-> "main.ircServerMu", m |-> "R", seg |-> 0, rs |-> {}, ws |-> {}],
     [k |-> "sec", l |-> "", m |-> "", seg |-> 1, rs |-> {"main.ircServer"}, ws |-> {}],
     [k |-> "rel", l |-> "main.ircServerMu", m |-> "", seg |-> 0, rs |-> {}, ws |-> {}],
     [k |-> "acq", l |-> "IRCServer.sessionsMu", m |-> "R", seg |-> 0, rs |-> {}, ws |-> {}],
     [k |-> "sec", l |-> "", m |-> "", seg |-> 2, rs |-> {"IRCServer.sessions", "IRCServer.sessions[]"}, ws |-> {}],
     [k |-> "rel", l |-> "IRCServer.sessionsMu", m |-> "", seg |-> 0, rs |-> {}, ws |-> {}]>>,
   rall |-> {"IRCServer.sessions", "IRCServer.sessions[]", "main.ircServer"},
   wall |-> {}],
  \* 8  main.init$3
  [name |-> "main.init$3", threads |-> {"http"}, steps |-> <<
     [k |-> "acq", l |-> "main.ircServerMu", m |-> "R", seg |-> 0, rs |-> {}, ws |-> {}],
     [k |-> "sec", l |-> "", m |-> "", seg |-> 1, rs |-> {"main.ircServer"}, ws |-> {}],
     [k |-> "rel", l |-> "main.ircServerMu", m |-> "", seg |-> 0, rs |-> {}, ws |-> {}],
     [k |-> "acq", l |-> "IRCServer.ConfigMu", m |-> "R", seg |-> 0, rs |-> {}, ws |-> {}],
     [k |-> "sec", l |-> "", m |-> "", seg |-> 2, rs |-> {"IRCServer.Config"}, ws |-> {}],
     [k |-> "rel", l |-> "IRCServer.ConfigMu", m |-> "", seg |-> 0, rs |-> {}, ws |-> {}]>>,
   rall |-> {"IRCServer.Config", "main.ircServer"},
   wall |-> {}],
  \* 9  main.init$4
  [name |-> "main.init$4", threads |-> {"http"}, steps |-> <<
     [k |-> "acq", l |-> "main.ircServerMu", m |-> "R", seg |-> 0, rs |-> {}, ws |-> {}],
     [k |-> "sec", l |-> "", m |-> "", seg |-> 1, rs |-> {"main.ircServer"}, ws |-> {}],
     [k |-> "rel", l |-> "main.ircServerMu", m |-> "", seg |-> 0, rs |-> {}, ws |-> {}],
     [k |-> "acq", l |-> "IRCServer.sessionsMu", m |-> "R", seg |-> 0, rs |-> {}, ws |-> {}],
     [k |-> "sec", l |-> "", m |-> "", seg |-> 2, rs |-> {"IRCServer.channels", "IRCServer.channels[]"}, ws |-> {}],
     [k |-> "rel", l |-> "IRCServer.sessionsMu", m |-> "", seg |-> 0, rs |-> {}, ws |-> {}]>>,
   rall |-> {"IRCServer.channels", "IRCServer.channels[]", "main.ircServer"},
   wall |-> {}],
  \* 10  main.init$5
  [name |-> "main.init$5", threads |-> {"http"}, steps |-> <<
     [k |-> "acq", l |-> "main.ircServerMu", m |-> "R", seg |-> 0, rs |-> {}, ws |-> {}],
     [k |-> "sec", l |-> "", m |-> "", seg |-> 1, rs |-> {"main.ircServer"}, ws |-> {}],
     [k |-> "rel", l |-> "main.ircServerMu", m |-> "", seg |-> 0, rs |-> {}, ws |-> {}],
     [k |-> "acq", l |-> "IRCServer.ConfigMu", m |-> "R", seg |-> 0, rs |-> {}, ws |-> {}],
     [k |-> "sec", l |-> "", m |-> "", seg |-> 2, rs |-> {"IRCServer.Config"}, ws |-> {}],
     [k |-> "rel", l |-> "IRCServer.ConfigMu", m |-> "", seg |-> 0, rs |-> {}, ws |-> {}]>>,
   rall |-> {"IRCServer.Config", "main.ircServer"},
   wall |-> {}],
  \* 11  main.main
  [name |-> "main.mainLoop", threads |-> {"main"}, steps |-> <<
     [k |-> "sec", l |-> "", m |-> "", seg |-> 1, rs |-> {"main.node"}, ws |-> {}],
     [k |-> "acq", l |-> "main.ircServerMu", m |-> "R", seg |-> 0, rs |-> {}, ws |-> {}],
     [k |-> "sec", l |-> "", m |-> "", seg |-> 2, rs |-> {"main.ircServer"}, ws |-> {}],
     [k |-> "rel", l |-> "main.ircServerMu", m |-> "", seg |-> 0, rs |-> {}, ws |-> {}],
     [k |-> "acq", l |-> "IRCServer.ConfigMu", m |-> "R", seg |-> 0, rs |-> {}, ws |-> {}],
     [k |-> "sec", l |-> "", m |-> "", seg |-> 3, rs |-> {"IRCServer.Config"}, ws |-> {}],
     [k |-> "acq", l |-> "IRCServer.sessionsMu", m |-> "R", seg |-> 0, rs |-> {}, ws |-> {}],
     [k |-> "sec", l |-> "", m |-> "", seg |-> 4, rs |-> {"IRCServer.sessions", "IRCServer.sessions[]", "Session.LastActivity", "Session.LastActivity[]"}, ws |-> {}],
     [k |-> "rel", l |-> "IRCServer.sessionsMu", m |-> "", seg |-> 0, rs |-> {}, ws |-> {}],
     [k |-> "rel", l |-> "IRCServer.ConfigMu", m |-> "", seg |-> 0, rs |-> {}, ws |-> {}]>>,
   rall |-> {"IRCServer.Config", "IRCServer.sessions", "IRCServer.sessions[]", "Session.LastActivity", "Session.LastActivity[]", "main.ircServer", "main.node"},
   wall |-> {}],
  \* 12  (*api.HTTP).DispatchPrivate
  [name |-> "HTTP.DispatchPrivate", threads |-> {"http"}, steps |-> <<
     [k |-> "acq", l |-> "HTTP.throttleMu", m |-> "W", seg |-> 0, rs |-> {}, ws |-> {}],
     [k |-> "sec", l |-> "", m |-> "", seg |-> 1, rs |-> {"HTTP.lastWrongPassword[]"}, ws |-> {"HTTP.lastWrongPassword", "HTTP.throttlingExponent"}],
     [k |-> "rel", l |-> "HTTP.throttleMu", m |-> "", seg |-> 0, rs |-> {}, ws |-> {}],
     [k |-> "sec", l |-> "", m |-> "", seg |-> 2, rs |-> {"HTTP.networkPassword", "HTTP.transport"}, ws |-> {}]>>,
   rall |-> {"HTTP.lastWrongPassword[]", "HTTP.networkPassword", "HTTP.transport"},
   wall |-> {"HTTP.lastWrongPassword", "HTTP.throttlingExponent"}],
  \* 13  (*api.HTTP).DispatchPrivateWithoutAuth
  [name |-> "HTTP.DispatchPrivateWithoutAuth", threads |-> {"http"}, steps |-> <<
     [k |-> "sec", l |-> "", m |-> "", seg |-> 1, rs |-> {"HTTP.transport"}, ws |-> {}]>>,
   rall |-> {"HTTP.transport"},
   wall |-> {}],
  \* 14  (*api.HTTP).DispatchPublic
  [name |-> "HTTP.DispatchPublic", threads |-> {"http"}, steps |-> <<
     [k |-> "acq", l |-> "HTTP.mu", m |-> "W", seg |-> 0, rs |-> {}, ws |-> {}],
     [k |-> "sec", l |-> "", m |-> "", seg |-> 1, rs |-> {"HTTP.ircServerUnlocked"}, ws |-> {}],
     [k |-> "rel", l |-> "HTTP.mu", m |-> "", seg |-> 0, rs |-> {}, ws |-> {}],
     [k |-> "acq", l |-> "IRCServer.ConfigMu", m |-> "R", seg |-> 0, rs |-> {}, ws |-> {}],
     [k |-> "sec", l |-> "", m |-> "", seg |-> 2, rs |-> {"IRCServer.Config", "IRCServer.Config[]"}, ws |-> {}],
     [k |-> "rel", l |-> "IRCServer.ConfigMu", m |-> "", seg |-> 0, rs |-> {}, ws |-> {}],
     [k |-> "acq", l |-> "IRCServer.sessionsMu", m |-> "R", seg |-> 0, rs |-> {}, ws |-> {}],
     [k |-> "sec", l |-> "", m |-> "", seg |-> 3, rs |-> {"IRCServer.sessions", "IRCServer.sessions[]"}, ws |-> {}],
     [k |-> "acq", l |-> "IRCServer.lastProcessedMu", m |-> "R", seg |-> 0, rs |-> {}, ws |-> {}],
     [k |-> "sec", l |-> "", m |-> "", seg |-> 4, rs |-> {"IRCServer.lastProcessed", "ircserver.ErrNoSuchSession", "ircserver.ErrSessionNotYetSeen"}, ws |-> {}],
     [k |-> "rel", l |-> "IRCServer.lastProcessedMu", m |-> "", seg |-> 0, rs |-> {}, ws |-> {}],
     [k |-> "rel", l |-> "IRCServer.sessionsMu", m |-> "", seg |-> 0, rs |-> {}, ws |-> {}],
     [k |-> "sec", l |-> "", m |-> "", seg |-> 5, rs |-> {"HTTP.raftNode", "Session.auth", "ircserver.ErrSessionNotYetSeen"}, ws |-> {}],
     [k |-> "acq", l |-> "api.nodeProxiesMu", m |-> "R", seg |-> 0, rs |-> {}, ws |-> {}],
     [k |-> "sec", l |-> "", m |-> "", seg |-> 6, rs |-> {"api.nodeProxies", "api.nodeProxies[]"}, ws |-> {}],
     [k |-> "rel", l |-> "api.nodeProxiesMu", m |-> "", seg |-> 0, rs |-> {}, ws |-> {}],
     [k |-> "acq", l |-> "api.nodeProxiesMu", m |-> "W", seg |-> 0, rs |-> {}, ws |-> {}],
     [k |-> "sec", l |-> "", m |-> "", seg |-> 7, rs |-> {"api.nodeProxies"}, ws |-> {"api.nodeProxies[]"}],
     [k |-> "rel", l |-> "api.nodeProxiesMu", m |-> "", seg |-> 0, rs |-> {}, ws |-> {}]>>,
   rall |-> {"HTTP.ircServerUnlocked", "HTTP.raftNode", "IRCServer.Config", "IRCServer.Config[]", "IRCServer.lastProcessed", "IRCServer.sessions", "IRCServer.sessions[]", "Session.auth", "api.nodeProxies", "api.nodeProxies[]", "ircserver.ErrNoSuchSession", "ircserver.ErrSessionNotYetSeen"},
   wall |-> {"api.nodeProxies[]"}],
  \* 15  (*api.HTTP).getMessages
  [name |-> "HTTP.getMessages", threads |-> {"http"}, steps |-> <<
     [k |-> "acq", l |-> "HTTP.mu", m |-> "W", seg |-> 0, rs |-> {}, ws |-> {}],
     [k |-> "sec", l |-> "", m |-> "", seg |-> 1, rs |-> {"HTTP.outputUnlocked"}, ws |-> {}],
     [k |-> "rel", l |-> "HTTP.mu", m |-> "", seg |-> 0, rs |-> {}, ws |-> {}],
     [k |-> "acq", l |-> "OutputStream.messagesMu", m |-> "R", seg |-> 0, rs |-> {}, ws |-> {}],
     [k |-> "acq", l |-> "OutputStream.cacheMu", m |-> "R", seg |-> 0, rs |-> {}, ws |-> {}],
     [k |-> "sec", l |-> "", m |-> "", seg |-> 2, rs |-> {"OutputStream.messagesCache", "OutputStream.messagesCache[]"}, ws |-> {}],
     [k |-> "rel", l |-> "OutputStream.cacheMu", m |-> "", seg |-> 0, rs |-> {}, ws |-> {}],
     [k |-> "sec", l |-> "", m |-> "", seg |-> 3, rs |-> {"OutputStream.db", "messageBatch.NextID"}, ws |-> {}],
     [k |-> "acq", l |-> "OutputStream.cacheMu", m |-> "W", seg |-> 0, rs |-> {}, ws |-> {}],
     [k |-> "sec", l |-> "", m |-> "", seg |-> 4, rs |-> {"OutputStream.messagesCache"}, ws |-> {"OutputStream.messagesCache[]"}],
     [k |-> "rel", l |-> "OutputStream.cacheMu", m |-> "", seg |-> 0, rs |-> {}, ws |-> {}],
     [k |-> "rel", l |-> "OutputStream.messagesMu", m |-> "", seg |-> 0, rs |-> {}, ws |-> {}],
     [k |-> "sec", l |-> "", m |-> "", seg |-> 5, rs |-> {"messageBatch.Messages", "messageBatch.Messages[]"}, ws |-> {}],
     [k |-> "acq", l |-> "OutputStream.messagesMu", m |-> "W", seg |-> 0, rs |-> {}, ws |-> {}],
     [k |-> "sec", l |-> "", m |-> "", seg |-> 6, rs |-> {"OutputStream.db", "messageBatch.Messages", "messageBatch.Messages[]", "messageBatch.NextID"}, ws |-> {}],
     [k |-> "acq", l |-> "OutputStream.cacheMu", m |-> "R", seg |-> 0, rs |-> {}, ws |-> {}],
     [k |-> "sec", l |-> "", m |-> "", seg |-> 7, rs |-> {"OutputStream.messagesCache", "OutputStream.messagesCache[]"}, ws |-> {}],
     [k |-> "rel", l |-> "OutputStream.cacheMu", m |-> "", seg |-> 0, rs |-> {}, ws |-> {}],
     [k |-> "acq", l |-> "OutputStream.cacheMu", m |-> "W", seg |-> 0, rs |-> {}, ws |-> {}],
     [k |-> "sec", l |-> "", m |-> "", seg |-> 8, rs |-> {"OutputStream.messagesCache"}, ws |-> {"OutputStream.messagesCache[]"}],
     [k |-> "rel", l |-> "OutputStream.cacheMu", m |-> "", seg |-> 0, rs |-> {}, ws |-> {}],
     [k |-> "rel", l |-> "OutputStream.messagesMu", m |-> "", seg |-> 0, rs |-> {}, ws |-> {}]>>,
   rall |-> {"HTTP.outputUnlocked", "OutputStream.db", "OutputStream.messagesCache", "OutputStream.messagesCache[]", "messageBatch.Messages", "messageBatch.Messages[]", "messageBatch.NextID"},
   wall |-> {"OutputStream.messagesCache[]"}],
  \* 16  (*api.HTTP).handleCreateSession
  [name |-> "HTTP.handleCreateSession", threads |-> {"http"}, steps |-> <<
     [k |-> "sec", l |-> "", m |-> "", seg |-> 1, rs |-> {"HTTP.network", "HTTP.raftNode", "HTTP.useProtobuf", "ircserver.ErrSessionLimitReached"}, ws |-> {}],
     [k |-> "acq", l |-> "api.nodeProxiesMu", m |-> "R", seg |-> 0, rs |-> {}, ws |-> {}],
     [k |-> "sec", l |-> "", m |-> "", seg |-> 2, rs |-> {"api.nodeProxies", "api.nodeProxies[]"}, ws |-> {}],
     [k |-> "rel", l |-> "api.nodeProxiesMu", m |-> "", seg |-> 0, rs |-> {}, ws |-> {}],
     [k |-> "acq", l |-> "api.nodeProxiesMu", m |-> "W", seg |-> 0, rs |-> {}, ws |-> {}],
     [k |-> "sec", l |-> "", m |-> "", seg |-> 3, rs |-> {"api.nodeProxies"}, ws |-> {"api.nodeProxies[]"}],
     [k |-> "rel", l |-> "api.nodeProxiesMu", m |-> "", seg |-> 0, rs |-> {}, ws |-> {}]>>,
   rall |-> {"HTTP.network", "HTTP.raftNode", "HTTP.useProtobuf", "api.nodeProxies", "api.nodeProxies[]", "ircserver.ErrSessionLimitReached"},
   wall |-> {"api.nodeProxies[]"}],
  \* 17  (*api.HTTP).handleDeleteSession
  [name |-> "HTTP.handleDeleteSession", threads |-> {"http"}, steps |-> <<
     [k |-> "sec", l |-> "", m |-> "", seg |-> 1, rs |-> {"HTTP.raftNode", "HTTP.useProtobuf"}, ws |-> {}],
     [k |-> "acq", l |-> "api.nodeProxiesMu", m |-> "R", seg |-> 0, rs |-> {}, ws |-> {}],
     [k |-> "sec", l |-> "", m |-> "", seg |-> 2, rs |-> {"api.nodeProxies", "api.nodeProxies[]"}, ws |-> {}],
     [k |-> "rel", l |-> "api.nodeProxiesMu", m |-> "", seg |-> 0, rs |-> {}, ws |-> {}],
     [k |-> "acq", l |-> "api.nodeProxiesMu", m |-> "W", seg |-> 0, rs |-> {}, ws |-> {}],
     [k |-> "sec", l |-> "", m |-> "", seg |-> 3, rs |-> {"api.nodeProxies"}, ws |-> {"api.nodeProxies[]"}],
     [k |-> "rel", l |-> "api.nodeProxiesMu", m |-> "", seg |-> 0, rs |-> {}, ws |-> {}]>>,
   rall |-> {"HTTP.raftNode", "HTTP.useProtobuf", "api.nodeProxies", "api.nodeProxies[]"},
   wall |-> {"api.nodeProxies[]"}],
  \* 18  (*api.HTTP).handleGetConfig
  [name |-> "HTTP.handleGetConfig", threads |-> {"http"}, steps |-> <<
     [k |-> "acq", l |-> "HTTP.mu", m |-> "W", seg |-> 0, rs |-> {}, ws |-> {}],
     [k |-> "sec", l |-> "", m |-> "", seg |-> 1, rs |-> {"HTTP.ircServerUnlocked"}, ws |-> {}],
     [k |-> "rel", l |-> "HTTP.mu", m |-> "", seg |-> 0, rs |-> {}, ws |-> {}],
     [k |-> "acq", l |-> "IRCServer.ConfigMu", m |-> "R", seg |-> 0, rs |-> {}, ws |-> {}],
     [k |-> "sec", l |-> "", m |-> "", seg |-> 2, rs |-> {"IRCServer.Config"}, ws |-> {}],
     [k |-> "rel", l |-> "IRCServer.ConfigMu", m |-> "", seg |-> 0, rs |-> {}, ws |-> {}]>>,
   rall |-> {"HTTP.ircServerUnlocked", "IRCServer.Config"},
   wall |-> {}],
  \* 19  (*api.HTTP).handleGetMessages
  [name |-> "HTTP.handleGetMessages", threads |-> {"http"}, steps |-> <<
     [k |-> "acq", l |-> "HTTP.mu", m |-> "W", seg |-> 0, rs |-> {}, ws |-> {}],
     [k |-> "sec", l |-> "", m |-> "", seg |-> 1, rs |-> {"HTTP.ircServerUnlocked", "HTTP.outputUnlocked"}, ws |-> {}],
     [k |-> "rel", l |-> "HTTP.mu", m |-> "", seg |-> 0, rs |-> {}, ws |-> {}],
     [k |-> "acq", l |-> "IRCServer.sessionsMu", m |-> "R", seg |-> 0, rs |-> {}, ws |-> {}],
     [k |-> "sec", l |-> "", m |-> "", seg |-> 2, rs |-> {"IRCServer.sessions", "IRCServer.sessions[]", "Session.Nick"}, ws |-> {}],
     [k |-> "acq", l |-> "IRCServer.lastProcessedMu", m |-> "R", seg |-> 0, rs |-> {}, ws |-> {}],
     [k |-> "sec", l |-> "", m |-> "", seg |-> 3, rs |-> {"IRCServer.lastProcessed", "ircserver.ErrNoSuchSession", "ircserver.ErrSessionNotYetSeen"}, ws |-> {}],
     [k |-> "rel", l |-> "IRCServer.lastProcessedMu", m |-> "", seg |-> 0, rs |-> {}, ws |-> {}],
     [k |-> "rel", l |-> "IRCServer.sessionsMu", m |-> "", seg |-> 0, rs |-> {}, ws |-> {}],
     [k |-> "sec", l |-> "", m |-> "", seg |-> 4, rs |-> {"(*api.HTTP).handleGetMessages.cancel", "(*api.HTTP).handleGetMessages.sessionId", "HTTP.raftNode", "Session.auth", "ircserver.ErrSessionNotYetSeen"}, ws |-> {}],
     [k |-> "acq", l |-> "HTTP.getMessagesRequestsMu", m |-> "W", seg |-> 0, rs |-> {}, ws |-> {}],
     [k |-> "sec", l |-> "", m |-> "", seg |-> 5, rs |-> {"(*api.HTTP).handleGetMessages.cancel", "(*api.HTTP).handleGetMessages.sessionId", "HTTP.getMessagesRequests"}, ws |-> {"HTTP.getMessagesRequests[]"}],
     [k |-> "rel", l |-> "HTTP.getMessagesRequestsMu", m |-> "", seg |-> 0, rs |-> {}, ws |-> {}],
     [k |-> "acq", l |-> "IRCServer.ConfigMu", m |-> "R", seg |-> 0, rs |-> {}, ws |-> {}],
     [k |-> "sec", l |-> "", m |-> "", seg |-> 6, rs |-> {"IRCServer.Config", "IRCServer.Config[]"}, ws |-> {}],
     [k |-> "rel", l |-> "IRCServer.ConfigMu", m |-> "", seg |-> 0, rs |-> {}, ws |-> {}],
     [k |-> "acq", l |-> "HTTP.getMessagesRequestsMu", m |-> "W", seg |-> 0, rs |-> {}, ws |-> {}],
     [k |-> "acq", l |-> "HTTP.mu", m |-> "W", seg |-> 0, rs |-> {}, ws |-> {}],
     [k |-> "sec", l |-> "", m |-> "", seg |-> 7, rs |-> {"HTTP.outputUnlocked"}, ws |-> {}],
     [k |-> "rel", l |-> "HTTP.mu", m |-> "", seg |-> 0, rs |-> {}, ws |-> {}],
     [k |-> "rel", l |-> "HTTP.getMessagesRequestsMu", m |-> "", seg |-> 0, rs |-> {}, ws |-> {}]>>,
   rall |-> {"(*api.HTTP).handleGetMessages.cancel", "(*api.HTTP).handleGetMessages.sessionId", "HTTP.getMessagesRequests", "HTTP.ircServerUnlocked", "HTTP.outputUnlocked", "HTTP.raftNode", "IRCServer.Config", "IRCServer.Config[]", "IRCServer.lastProcessed", "IRCServer.sessions", "IRCServer.sessions[]", "Session.Nick", "Session.auth", "ircserver.ErrNoSuchSession", "ircserver.ErrSessionNotYetSeen"},
   wall |-> {"HTTP.getMessagesRequests[]"}],
  \* 20  (*api.HTTP).handleIrclog
  [name |-> "HTTP.handleIrclog", threads |-> {"http"}, steps |-> <<
     [k |-> "acq", l |-> "HTTP.mu", m |-> "W", seg |-> 0, rs |-> {}, ws |-> {}],
     [k |-> "sec", l |-> "", m |-> "", seg |-> 1, rs |-> {"HTTP.ircStoreUnlocked", "HTTP.outputUnlocked"}, ws |-> {}],
     [k |-> "rel", l |-> "HTTP.mu", m |-> "", seg |-> 0, rs |-> {}, ws |-> {}],
     [k |-> "acq", l |-> "LevelDBStore.mu", m |-> "R", seg |-> 0, rs |-> {}, ws |-> {}],
     [k |-> "sec", l |-> "", m |-> "", seg |-> 2, rs |-> {"LevelDBStore.db"}, ws |-> {}],
     [k |-> "rel", l |-> "LevelDBStore.mu", m |-> "", seg |-> 0, rs |-> {}, ws |-> {}],
     [k |-> "acq", l |-> "OutputStream.messagesMu", m |-> "R", seg |-> 0, rs |-> {}, ws |-> {}],
     [k |-> "acq", l |-> "OutputStream.cacheMu", m |-> "R", seg |-> 0, rs |-> {}, ws |-> {}],
     [k |-> "sec", l |-> "", m |-> "", seg |-> 3, rs |-> {"OutputStream.messagesCache", "OutputStream.messagesCache[]"}, ws |-> {}],
     [k |-> "rel", l |-> "OutputStream.cacheMu", m |-> "", seg |-> 0, rs |-> {}, ws |-> {}],
     [k |-> "sec", l |-> "", m |-> "", seg |-> 4, rs |-> {"OutputStream.db", "messageBatch.Messages"}, ws |-> {}],
     [k |-> "acq", l |-> "OutputStream.cacheMu", m |-> "W", seg |-> 0, rs |-> {}, ws |-> {}],
     [k |-> "sec", l |-> "", m |-> "", seg |-> 5, rs |-> {"OutputStream.messagesCache"}, ws |-> {"OutputStream.messagesCache[]"}],
     [k |-> "rel", l |-> "OutputStream.cacheMu", m |-> "", seg |-> 0, rs |-> {}, ws |-> {}],
     [k |-> "rel", l |-> "OutputStream.messagesMu", m |-> "", seg |-> 0, rs |-> {}, ws |-> {}],
     [k |-> "sec", l |-> "", m |-> "", seg |-> 6, rs |-> {"api.templates", "messageBatch.Messages[]"}, ws |-> {}]>>,
   rall |-> {"HTTP.ircStoreUnlocked", "HTTP.outputUnlocked", "LevelDBStore.db", "OutputStream.db", "OutputStream.messagesCache", "OutputStream.messagesCache[]", "api.templates", "messageBatch.Messages", "messageBatch.Messages[]"},
   wall |-> {"OutputStream.messagesCache[]"}],
  \* 21  (*api.HTTP).handleJoin
  [name |-> "HTTP.handleJoin", threads |-> {"http"}, steps |-> <<
     [k |-> "sec", l |-> "", m |-> "", seg |-> 1, rs |-> {"HTTP.raftNode", "HTTP.raftProtocolVersion"}, ws |-> {}],
     [k |-> "acq", l |-> "api.nodeProxiesMu", m |-> "R", seg |-> 0, rs |-> {}, ws |-> {}],
     [k |-> "sec", l |-> "", m |-> "", seg |-> 2, rs |-> {"api.nodeProxies", "api.nodeProxies[]"}, ws |-> {}],
     [k |-> "rel", l |-> "api.nodeProxiesMu", m |-> "", seg |-> 0, rs |-> {}, ws |-> {}],
     [k |-> "acq", l |-> "api.nodeProxiesMu", m |-> "W", seg |-> 0, rs |-> {}, ws |-> {}],
     [k |-> "sec", l |-> "", m |-> "", seg |-> 3, rs |-> {"api.nodeProxies"}, ws |-> {"api.nodeProxies[]"}],
     [k |-> "rel", l |-> "api.nodeProxiesMu", m |-> "", seg |-> 0, rs |-> {}, ws |-> {}]>>,
   rall |-> {"HTTP.raftNode", "HTTP.raftProtocolVersion", "api.nodeProxies", "api.nodeProxies[]"},
   wall |-> {"api.nodeProxies[]"}],
  \* 22  (*api.HTTP).handleKill
  [name |-> "HTTP.handleKill", threads |-> {"http"}, steps |-> <<
     [k |-> "sec", l |-> "", m |-> "", seg |-> 1, rs |-> {"HTTP.raftNode", "HTTP.useProtobuf"}, ws |-> {}],
     [k |-> "acq", l |-> "api.nodeProxiesMu", m |-> "R", seg |-> 0, rs |-> {}, ws |-> {}],
     [k |-> "sec", l |-> "", m |-> "", seg |-> 2, rs |-> {"api.nodeProxies", "api.nodeProxies[]"}, ws |-> {}],
     [k |-> "rel", l |-> "api.nodeProxiesMu", m |-> "", seg |-> 0, rs |-> {}, ws |-> {}],
     [k |-> "acq", l |-> "api.nodeProxiesMu", m |-> "W", seg |-> 0, rs |-> {}, ws |-> {}],
     [k |-> "sec", l |-> "", m |-> "", seg |-> 3, rs |-> {"api.nodeProxies"}, ws |-> {"api.nodeProxies[]"}],
     [k |-> "rel", l |-> "api.nodeProxiesMu", m |-> "", seg |-> 0, rs |-> {}, ws |-> {}]>>,
   rall |-> {"HTTP.raftNode", "HTTP.useProtobuf", "api.nodeProxies", "api.nodeProxies[]"},
   wall |-> {"api.nodeProxies[]"}],
  \* 23  (*api.HTTP).handleLeader
  [name |-> "HTTP.handleLeader", threads |-> {"http"}, steps |-> <<
     [k |-> "sec", l |-> "", m |-> "", seg |-> 1, rs |-> {"HTTP.raftNode"}, ws |-> {}]>>,
   rall |-> {"HTTP.raftNode"},
   wall |-> {}],
  \* 24  (*api.HTTP).handlePart
  [name |-> "HTTP.handlePart", threads |-> {"http"}, steps |-> <<
     [k |-> "sec", l |-> "", m |-> "", seg |-> 1, rs |-> {"HTTP.raftNode", "HTTP.raftProtocolVersion"}, ws |-> {}],
     [k |-> "acq", l |-> "api.nodeProxiesMu", m |-> "R", seg |-> 0, rs |-> {}, ws |-> {}],
     [k |-> "sec", l |-> "", m |-> "", seg |-> 2, rs |-> {"api.nodeProxies", "api.nodeProxies[]"}, ws |-> {}],
     [k |-> "rel", l |-> "api.nodeProxiesMu", m |-> "", seg |-> 0, rs |-> {}, ws |-> {}],
     [k |-> "acq", l |-> "api.nodeProxiesMu", m |-> "W", seg |-> 0, rs |-> {}, ws |-> {}],
     [k |-> "sec", l |-> "", m |-> "", seg |-> 3, rs |-> {"api.nodeProxies"}, ws |-> {"api.nodeProxies[]"}],
     [k |-> "rel", l |-> "api.nodeProxiesMu", m |-> "", seg |-> 0, rs |-> {}, ws |-> {}]>>,
   rall |-> {"HTTP.raftNode", "HTTP.raftProtocolVersion", "api.nodeProxies", "api.nodeProxies[]"},
   wall |-> {"api.nodeProxies[]"}],
  \* 25  (*api.HTTP).handlePostConfig
  [name |-> "HTTP.handlePostConfig", threads |-> {"http"}, steps |-> <<
     [k |-> "sec", l |-> "", m |-> "", seg |-> 1, rs |-> {"HTTP.raftNode", "HTTP.useProtobuf"}, ws |-> {}],
     [k |-> "acq", l |-> "api.nodeProxiesMu", m |-> "R", seg |-> 0, rs |-> {}, ws |-> {}],
     [k |-> "sec", l |-> "", m |-> "", seg |-> 2, rs |-> {"api.nodeProxies", "api.nodeProxies[]"}, ws |-> {}],
     [k |-> "rel", l |-> "api.nodeProxiesMu", m |-> "", seg |-> 0, rs |-> {}, ws |-> {}],
     [k |-> "acq", l |-> "api.nodeProxiesMu", m |-> "W", seg |-> 0, rs |-> {}, ws |-> {}],
     [k |-> "sec", l |-> "", m |-> "", seg |-> 3, rs |-> {"api.nodeProxies"}, ws |-> {"api.nodeProxies[]"}],
     [k |-> "rel", l |-> "api.nodeProxiesMu", m |-> "", seg |-> 0, rs |-> {}, ws |-> {}],
     [k |-> "acq", l |-> "HTTP.mu", m |-> "W", seg |-> 0, rs |-> {}, ws |-> {}],
     [k |-> "sec", l |-> "", m |-> "", seg |-> 4, rs |-> {"HTTP.ircServerUnlocked"}, ws |-> {}],
     [k |-> "rel", l |-> "HTTP.mu", m |-> "", seg |-> 0, rs |-> {}, ws |-> {}],
     [k |-> "acq", l |-> "IRCServer.ConfigMu", m |-> "R", seg |-> 0, rs |-> {}, ws |-> {}],
     [k |-> "sec", l |-> "", m |-> "", seg |-> 5, rs |-> {"IRCServer.Config"}, ws |-> {}],
     [k |-> "rel", l |-> "IRCServer.ConfigMu", m |-> "", seg |-> 0, rs |-> {}, ws |-> {}]>>,
   rall |-> {"HTTP.ircServerUnlocked", "HTTP.raftNode", "HTTP.useProtobuf", "IRCServer.Config", "api.nodeProxies", "api.nodeProxies[]"},
   wall |-> {"api.nodeProxies[]"}],
  \* 26  (*api.HTTP).handlePostMessage
  [name |-> "HTTP.handlePostMessage", threads |-> {"http"}, steps |-> <<
     [k |-> "acq", l |-> "HTTP.mu", m |-> "W", seg |-> 0, rs |-> {}, ws |-> {}],
     [k |-> "sec", l |-> "", m |-> "", seg |-> 1, rs |-> {"HTTP.ircServerUnlocked"}, ws |-> {}],
     [k |-> "rel", l |-> "HTTP.mu", m |-> "", seg |-> 0, rs |-> {}, ws |-> {}],
     [k |-> "acq", l |-> "IRCServer.ConfigMu", m |-> "R", seg |-> 0, rs |-> {}, ws |-> {}],
     [k |-> "sec", l |-> "", m |-> "", seg |-> 2, rs |-> {"IRCServer.Config", "IRCServer.Config[]"}, ws |-> {}],
     [k |-> "acq", l |-> "IRCServer.sessionsMu", m |-> "W", seg |-> 0, rs |-> {}, ws |-> {}],
     [k |-> "sec", l |-> "", m |-> "", seg |-> 3, rs |-> {"IRCServer.sessions", "IRCServer.sessions[]", "Session.LastActivity", "Session.LastActivity[]", "Session.Server"}, ws |-> {"Session.throttlingExponent"}],
     [k |-> "rel", l |-> "IRCServer.sessionsMu", m |-> "", seg |-> 0, rs |-> {}, ws |-> {}],
     [k |-> "rel", l |-> "IRCServer.ConfigMu", m |-> "", seg |-> 0, rs |-> {}, ws |-> {}],
     [k |-> "acq", l |-> "IRCServer.sessionsMu", m |-> "R", seg |-> 0, rs |-> {}, ws |-> {}],
     [k |-> "sec", l |-> "", m |-> "", seg |-> 4, rs |-> {"IRCServer.sessions", "IRCServer.sessions[]", "Session.lastClientMessageId"}, ws |-> {}],
     [k |-> "rel", l |-> "IRCServer.sessionsMu", m |-> "", seg |-> 0, rs |-> {}, ws |-> {}],
     [k |-> "sec", l |-> "", m |-> "", seg |-> 5, rs |-> {"HTTP.raftNode", "HTTP.useProtobuf"}, ws |-> {}],
     [k |-> "acq", l |-> "api.nodeProxiesMu", m |-> "R", seg |-> 0, rs |-> {}, ws |-> {}],
     [k |-> "sec", l |-> "", m |-> "", seg |-> 6, rs |-> {"api.nodeProxies", "api.nodeProxies[]"}, ws |-> {}],
     [k |-> "rel", l |-> "api.nodeProxiesMu", m |-> "", seg |-> 0, rs |-> {}, ws |-> {}],
     [k |-> "acq", l |-> "api.nodeProxiesMu", m |-> "W", seg |-> 0, rs |-> {}, ws |-> {}],
     [k |-> "sec", l |-> "", m |-> "", seg |-> 7, rs |-> {"api.nodeProxies"}, ws |-> {"api.nodeProxies[]"}],
     [k |-> "rel", l |-> "api.nodeProxiesMu", m |-> "", seg |-> 0, rs |-> {}, ws |-> {}]>>,
   rall |-> {"HTTP.ircServerUnlocked", "HTTP.raftNode", "HTTP.useProtobuf", "IRCServer.Config", "IRCServer.Config[]", "IRCServer.sessions", "IRCServer.sessions[]", "Session.LastActivity", "Session.LastActivity[]", "Session.Server", "Session.lastClientMessageId", "api.nodeProxies", "api.nodeProxies[]"},
   wall |-> {"Session.throttlingExponent", "api.nodeProxies[]"}],
  \* 27  (*api.HTTP).handleQuit
  [name |-> "HTTP.handleQuit", threads |-> {"http"}, steps |-> <<
     [k |-> "sec", l |-> "", m |-> "", seg |-> 1, rs |-> {"HTTP.raftDir"}, ws |-> {}]>>,
   rall |-> {"HTTP.raftDir"},
   wall |-> {}],
  \* 28  (*api.HTTP).handleSnapshot
  [name |-> "HTTP.handleSnapshot", threads |-> {"http"}, steps |-> <<
     [k |-> "sec", l |-> "", m |-> "", seg |-> 1, rs |-> {"HTTP.raftNode"}, ws |-> {}]>>,
   rall |-> {"HTTP.raftNode"},
   wall |-> {}],
  \* 29  (*api.HTTP).handleStatus
  [name |-> "HTTP.handleStatus", threads |-> {"http"}, steps |-> <<
     [k |-> "sec", l |-> "", m |-> "", seg |-> 1, rs |-> {"HTTP.raftNode", "api.executablehash"}, ws |-> {}],
     [k |-> "acq", l |-> "HTTP.mu", m |-> "W", seg |-> 0, rs |-> {}, ws |-> {}],
     [k |-> "sec", l |-> "", m |-> "", seg |-> 2, rs |-> {"HTTP.ircServerUnlocked"}, ws |-> {}],
     [k |-> "rel", l |-> "HTTP.mu", m |-> "", seg |-> 0, rs |-> {}, ws |-> {}],
     [k |-> "acq", l |-> "IRCServer.ConfigMu", m |-> "R", seg |-> 0, rs |-> {}, ws |-> {}],
     [k |-> "sec", l |-> "", m |-> "", seg |-> 3, rs |-> {"HTTP.peerAddr", "HTTP.raftNode", "IRCServer.Config", "IRCServer.Config[]", "api.templates"}, ws |-> {}],
     [k |-> "acq", l |-> "IRCServer.sessionsMu", m |-> "R", seg |-> 0, rs |-> {}, ws |-> {}],
     [k |-> "sec", l |-> "", m |-> "", seg |-> 4, rs |-> {"IRCServer.sessions", "IRCServer.sessions[]", "Session.AwayMsg", "Session.Channels", "Session.Channels[]", "Session.Created", "Session.Id", "Session.LastActivity", "Session.LastNonPing", "Session.LastSolvedCaptcha", "Session.Nick", "Session.Operator", "Session.Pass", "Session.Realname", "Session.RemoteAddr", "Session.Server", "Session.Username", "Session.auth", "Session.deleted", "Session.invitedTo", "Session.invitedTo[]", "Session.ircPrefix", "Session.lastClientMessageId", "Session.loggedIn", "Session.modes", "Session.svid", "Session.throttlingExponent"}, ws |-> {}],
     [k |-> "rel", l |-> "IRCServer.sessionsMu", m |-> "", seg |-> 0, rs |-> {}, ws |-> {}],
     [k |-> "acq", l |-> "HTTP.getMessagesRequestsMu", m |-> "R", seg |-> 0, rs |-> {}, ws |-> {}],
     [k |-> "sec", l |-> "", m |-> "", seg |-> 5, rs |-> {"HTTP.getMessagesRequests", "HTTP.getMessagesRequests[]"}, ws |-> {}],
     [k |-> "rel", l |-> "HTTP.getMessagesRequestsMu", m |-> "", seg |-> 0, rs |-> {}, ws |-> {}],
     [k |-> "rel", l |-> "IRCServer.ConfigMu", m |-> "", seg |-> 0, rs |-> {}, ws |-> {}]>>,
   rall |-> {"HTTP.getMessagesRequests", "HTTP.getMessagesRequests[]", "HTTP.ircServerUnlocked", "HTTP.peerAddr", "HTTP.raftNode", "IRCServer.Config", "IRCServer.Config[]", "IRCServer.sessions", "IRCServer.sessions[]", "Session.AwayMsg", "Session.Channels", "Session.Channels[]", "Session.Created", "Session.Id", "Session.LastActivity", "Session.LastNonPing", "Session.LastSolvedCaptcha", "Session.Nick", "Session.Operator", "Session.Pass", "Session.Realname", "Session.RemoteAddr", "Session.Server", "Session.Username", "Session.auth", "Session.deleted", "Session.invitedTo", "Session.invitedTo[]", "Session.ircPrefix", "Session.lastClientMessageId", "Session.loggedIn", "Session.modes", "Session.svid", "Session.throttlingExponent", "api.executablehash", "api.templates"},
   wall |-> {}],
  \* 30  (*api.HTTP).handleStatusGetMessage
  [name |-> "HTTP.handleStatusGetMessage", threads |-> {"http"}, steps |-> <<
     [k |-> "sec", l |-> "", m |-> "", seg |-> 1, rs |-> {"HTTP.getMessagesRequests[][]", "HTTP.peerAddr", "api.templates"}, ws |-> {}],
     [k |-> "acq", l |-> "HTTP.getMessagesRequestsMu", m |-> "R", seg |-> 0, rs |-> {}, ws |-> {}],
     [k |-> "sec", l |-> "", m |-> "", seg |-> 2, rs |-> {"HTTP.getMessagesRequests", "HTTP.getMessagesRequests[]"}, ws |-> {}],
     [k |-> "rel", l |-> "HTTP.getMessagesRequestsMu", m |-> "", seg |-> 0, rs |-> {}, ws |-> {}],
     [k |-> "acq", l |-> "HTTP.mu", m |-> "W", seg |-> 0, rs |-> {}, ws |-> {}],
     [k |-> "sec", l |-> "", m |-> "", seg |-> 3, rs |-> {"HTTP.ircServerUnlocked"}, ws |-> {}],
     [k |-> "rel", l |-> "HTTP.mu", m |-> "", seg |-> 0, rs |-> {}, ws |-> {}],
     [k |-> "acq", l |-> "IRCServer.sessionsMu", m |-> "R", seg |-> 0, rs |-> {}, ws |-> {}],
     [k |-> "sec", l |-> "", m |-> "", seg |-> 4, rs |-> {"IRCServer.sessions", "IRCServer.sessions[]", "Session.AwayMsg", "Session.Channels", "Session.Channels[]", "Session.Created", "Session.Id", "Session.LastActivity", "Session.LastNonPing", "Session.LastSolvedCaptcha", "Session.Nick", "Session.Operator", "Session.Pass", "Session.Realname", "Session.RemoteAddr", "Session.Server", "Session.Username", "Session.auth", "Session.deleted", "Session.invitedTo", "Session.invitedTo[]", "Session.ircPrefix", "Session.lastClientMessageId", "Session.loggedIn", "Session.modes", "Session.svid", "Session.throttlingExponent"}, ws |-> {}],
     [k |-> "rel", l |-> "IRCServer.sessionsMu", m |-> "", seg |-> 0, rs |-> {}, ws |-> {}]>>,
   rall |-> {"HTTP.getMessagesRequests", "HTTP.getMessagesRequests[]", "HTTP.getMessagesRequests[][]", "HTTP.ircServerUnlocked", "HTTP.peerAddr", "IRCServer.sessions", "IRCServer.sessions[]", "Session.AwayMsg", "Session.Channels", "Session.Channels[]", "Session.Created", "Session.Id", "Session.LastActivity", "Session.LastNonPing", "Session.LastSolvedCaptcha", "Session.Nick", "Session.Operator", "Session.Pass", "Session.Realname", "Session.RemoteAddr", "Session.Server", "Session.Username", "Session.auth", "Session.deleted", "Session.invitedTo", "Session.invitedTo[]", "Session.ircPrefix", "Session.lastClientMessageId", "Session.loggedIn", "Session.modes", "Session.svid", "Session.throttlingExponent", "api.templates"},
   wall |-> {}],
  \* 31  (*api.HTTP).handleStatusIrclog
  [name |-> "HTTP.handleStatusIrclog", threads |-> {"http"}, steps |-> <<
     [k |-> "acq", l |-> "HTTP.mu", m |-> "W", seg |-> 0, rs |-> {}, ws |-> {}],
     [k |-> "sec", l |-> "", m |-> "", seg |-> 1, rs |-> {"HTTP.ircServerUnlocked", "HTTP.ircStoreUnlocked"}, ws |-> {}],
     [k |-> "rel", l |-> "HTTP.mu", m |-> "", seg |-> 0, rs |-> {}, ws |-> {}],
     [k |-> "acq", l |-> "LevelDBStore.mu", m |-> "R", seg |-> 0, rs |-> {}, ws |-> {}],
     [k |-> "sec", l |-> "", m |-> "", seg |-> 2, rs |-> {"LevelDBStore.db"}, ws |-> {}],
     [k |-> "rel", l |-> "LevelDBStore.mu", m |-> "", seg |-> 0, rs |-> {}, ws |-> {}],
     [k |-> "sec", l |-> "", m |-> "", seg |-> 3, rs |-> {"HTTP.peerAddr", "api.templates"}, ws |-> {}],
     [k |-> "acq", l |-> "IRCServer.sessionsMu", m |-> "R", seg |-> 0, rs |-> {}, ws |-> {}],
     [k |-> "sec", l |-> "", m |-> "", seg |-> 4, rs |-> {"IRCServer.sessions", "IRCServer.sessions[]", "Session.AwayMsg", "Session.Channels", "Session.Channels[]", "Session.Created", "Session.Id", "Session.LastActivity", "Session.LastNonPing", "Session.LastSolvedCaptcha", "Session.Nick", "Session.Operator", "Session.Pass", "Session.Realname", "Session.RemoteAddr", "Session.Server", "Session.Username", "Session.auth", "Session.deleted", "Session.invitedTo", "Session.invitedTo[]", "Session.ircPrefix", "Session.lastClientMessageId", "Session.loggedIn", "Session.modes", "Session.svid", "Session.throttlingExponent"}, ws |-> {}],
     [k |-> "rel", l |-> "IRCServer.sessionsMu", m |-> "", seg |-> 0, rs |-> {}, ws |-> {}],
     [k |-> "acq", l |-> "HTTP.getMessagesRequestsMu", m |-> "R", seg |-> 0, rs |-> {}, ws |-> {}],
     [k |-> "sec", l |-> "", m |-> "", seg |-> 5, rs |-> {"HTTP.getMessagesRequests", "HTTP.getMessagesRequests[]"}, ws |-> {}],
     [k |-> "rel", l |-> "HTTP.getMessagesRequestsMu", m |-> "", seg |-> 0, rs |-> {}, ws |-> {}]>>,
   rall |-> {"HTTP.getMessagesRequests", "HTTP.getMessagesRequests[]", "HTTP.ircServerUnlocked", "HTTP.ircStoreUnlocked", "HTTP.peerAddr", "IRCServer.sessions", "IRCServer.sessions[]", "LevelDBStore.db", "Session.AwayMsg", "Session.Channels", "Session.Channels[]", "Session.Created", "Session.Id", "Session.LastActivity", "Session.LastNonPing", "Session.LastSolvedCaptcha", "Session.Nick", "Session.Operator", "Session.Pass", "Session.Realname", "Session.RemoteAddr", "Session.Server", "Session.Username", "Session.auth", "Session.deleted", "Session.invitedTo", "Session.invitedTo[]", "Session.ircPrefix", "Session.lastClientMessageId", "Session.loggedIn", "Session.modes", "Session.svid", "Session.throttlingExponent", "api.templates"},
   wall |-> {}],
  \* 32  (*api.HTTP).handleStatusSessions
  [name |-> "HTTP.handleStatusSessions", threads |-> {"http"}, steps |-> <<
     [k |-> "sec", l |-> "", m |-> "", seg |-> 1, rs |-> {"HTTP.peerAddr", "api.templates"}, ws |-> {}],
     [k |-> "acq", l |-> "HTTP.mu", m |-> "W", seg |-> 0, rs |-> {}, ws |-> {}],
     [k |-> "sec", l |-> "", m |-> "", seg |-> 2, rs |-> {"HTTP.ircServerUnlocked"}, ws |-> {}],
     [k |-> "rel", l |-> "HTTP.mu", m |-> "", seg |-> 0, rs |-> {}, ws |-> {}],
     [k |-> "acq", l |-> "IRCServer.sessionsMu", m |-> "R", seg |-> 0, rs |-> {}, ws |-> {}],
     [k |-> "sec", l |-> "", m |-> "", seg |-> 3, rs |-> {"IRCServer.sessions", "IRCServer.sessions[]", "Session.AwayMsg", "Session.Channels", "Session.Channels[]", "Session.Created", "Session.Id", "Session.LastActivity", "Session.LastNonPing", "Session.LastSolvedCaptcha", "Session.Nick", "Session.Operator", "Session.Pass", "Session.Realname", "Session.RemoteAddr", "Session.Server", "Session.Username", "Session.auth", "Session.deleted", "Session.invitedTo", "Session.invitedTo[]", "Session.ircPrefix", "Session.lastClientMessageId", "Session.loggedIn", "Session.modes", "Session.svid", "Session.throttlingExponent"}, ws |-> {}],
     [k |-> "rel", l |-> "IRCServer.sessionsMu", m |-> "", seg |-> 0, rs |-> {}, ws |-> {}],
     [k |-> "acq", l |-> "HTTP.getMessagesRequestsMu", m |-> "R", seg |-> 0, rs |-> {}, ws |-> {}],
     [k |-> "sec", l |-> "", m |-> "", seg |-> 4, rs |-> {"HTTP.getMessagesRequests", "HTTP.getMessagesRequests[]"}, ws |-> {}],
     [k |-> "rel", l |-> "HTTP.getMessagesRequestsMu", m |-> "", seg |-> 0, rs |-> {}, ws |-> {}]>>,
   rall |-> {"HTTP.getMessagesRequests", "HTTP.getMessagesRequests[]", "HTTP.ircServerUnlocked", "HTTP.peerAddr", "IRCServer.sessions", "IRCServer.sessions[]", "Session.AwayMsg", "Session.Channels", "Session.Channels[]", "Session.Created", "Session.Id", "Session.LastActivity", "Session.LastNonPing", "Session.LastSolvedCaptcha", "Session.Nick", "Session.Operator", "Session.Pass", "Session.Realname", "Session.RemoteAddr", "Session.Server", "Session.Username", "Session.auth", "Session.deleted", "Session.invitedTo", "Session.invitedTo[]", "Session.ircPrefix", "Session.lastClientMessageId", "Session.loggedIn", "Session.modes", "Session.svid", "Session.throttlingExponent", "api.templates"},
   wall |-> {}],
  \* 33  (*api.HTTP).handleStatusState
  [name |-> "HTTP.handleStatusState", threads |-> {"http"}, steps |-> <<
     [k |-> "acq", l |-> "HTTP.mu", m |-> "W", seg |-> 0, rs |-> {}, ws |-> {}],
     [k |-> "sec", l |-> "", m |-> "", seg |-> 1, rs |-> {"HTTP.ircServerUnlocked"}, ws |-> {}],
     [k |-> "rel", l |-> "HTTP.mu", m |-> "", seg |-> 0, rs |-> {}, ws |-> {}],
     [k |-> "acq", l |-> "IRCServer.sessionsMu", m |-> "R", seg |-> 0, rs |-> {}, ws |-> {}],
     [k |-> "acq", l |-> "IRCServer.ConfigMu", m |-> "R", seg |-> 0, rs |-> {}, ws |-> {}],
     [k |-> "acq", l |-> "IRCServer.lastProcessedMu", m |-> "R", seg |-> 0, rs |-> {}, ws |-> {}],
     [k |-> "sec", l |-> "", m |-> "", seg |-> 2, rs |-> {"IRCServer.Config", "IRCServer.Config[]", "IRCServer.channels", "IRCServer.channels[]", "IRCServer.lastProcessed", "IRCServer.sessions", "IRCServer.sessions[]", "IRCServer.svsholds", "IRCServer.svsholds[]", "IRCServer.svsholds[][]", "Session.AwayMsg", "Session.Channels", "Session.Channels[]", "Session.Created", "Session.LastActivity", "Session.LastActivity[]", "Session.LastNonPing", "Session.LastNonPing[]", "Session.LastSolvedCaptcha", "Session.LastSolvedCaptcha[]", "Session.Nick", "Session.Operator", "Session.Pass", "Session.Realname", "Session.RemoteAddr", "Session.Server", "Session.Username", "Session.auth", "Session.invitedTo", "Session.invitedTo[]", "Session.ircPrefix", "Session.lastClientMessageId", "Session.loggedIn", "Session.modes", "Session.svid", "Session.throttlingExponent", "channel.bans", "channel.bans[]", "channel.key", "channel.modes", "channel.name", "channel.nicks", "channel.nicks[]", "channel.nicks[][]", "channel.topic", "channel.topicNick", "channel.topicTime", "channel.topicTime[]"}, ws |-> {}],
     [k |-> "rel", l |-> "IRCServer.lastProcessedMu", m |-> "", seg |-> 0, rs |-> {}, ws |-> {}],
     [k |-> "rel", l |-> "IRCServer.ConfigMu", m |-> "", seg |-> 0, rs |-> {}, ws |-> {}],
     [k |-> "rel", l |-> "IRCServer.sessionsMu", m |-> "", seg |-> 0, rs |-> {}, ws |-> {}],
     [k |-> "sec", l |-> "", m |-> "", seg |-> 3, rs |-> {"HTTP.peerAddr", "api.templates"}, ws |-> {}],
     [k |-> "acq", l |-> "IRCServer.sessionsMu", m |-> "R", seg |-> 0, rs |-> {}, ws |-> {}],
     [k |-> "sec", l |-> "", m |-> "", seg |-> 4, rs |-> {"IRCServer.sessions", "IRCServer.sessions[]", "Session.AwayMsg", "Session.Channels", "Session.Channels[]", "Session.Created", "Session.Id", "Session.LastActivity", "Session.LastNonPing", "Session.LastSolvedCaptcha", "Session.Nick", "Session.Operator", "Session.Pass", "Session.Realname", "Session.RemoteAddr", "Session.Server", "Session.Username", "Session.auth", "Session.deleted", "Session.invitedTo", "Session.invitedTo[]", "Session.ircPrefix", "Session.lastClientMessageId", "Session.loggedIn", "Session.modes", "Session.svid", "Session.throttlingExponent"}, ws |-> {}],
     [k |-> "rel", l |-> "IRCServer.sessionsMu", m |-> "", seg |-> 0, rs |-> {}, ws |-> {}],
     [k |-> "acq", l |-> "HTTP.getMessagesRequestsMu", m |-> "R", seg |-> 0, rs |-> {}, ws |-> {}],
     [k |-> "sec", l |-> "", m |-> "", seg |-> 5, rs |-> {"HTTP.getMessagesRequests", "HTTP.getMessagesRequests[]"}, ws |-> {}],
     [k |-> "rel", l |-> "HTTP.getMessagesRequestsMu", m |-> "", seg |-> 0, rs |-> {}, ws |-> {}]>>,
   rall |-> {"HTTP.getMessagesRequests", "HTTP.getMessagesRequests[]", "HTTP.ircServerUnlocked", "HTTP.peerAddr", "IRCServer.Config", "IRCServer.Config[]", "IRCServer.channels", "IRCServer.channels[]", "IRCServer.lastProcessed", "IRCServer.sessions", "IRCServer.sessions[]", "IRCServer.svsholds", "IRCServer.svsholds[]", "IRCServer.svsholds[][]", "Session.AwayMsg", "Session.Channels", "Session.Channels[]", "Session.Created", "Session.Id", "Session.LastActivity", "Session.LastActivity[]", "Session.LastNonPing", "Session.LastNonPing[]", "Session.LastSolvedCaptcha", "Session.LastSolvedCaptcha[]", "Session.Nick", "Session.Operator", "Session.Pass", "Session.Realname", "Session.RemoteAddr", "Session.Server", "Session.Username", "Session.auth", "Session.deleted", "Session.invitedTo", "Session.invitedTo[]", "Session.ircPrefix", "Session.lastClientMessageId", "Session.loggedIn", "Session.modes", "Session.svid", "Session.throttlingExponent", "api.templates", "channel.bans", "channel.bans[]", "channel.key", "channel.modes", "channel.name", "channel.nicks", "channel.nicks[]", "channel.nicks[][]", "channel.topic", "channel.topicNick", "channel.topicTime", "channel.topicTime[]"},
   wall |-> {}],
  \* 34  (*api.HTTP).pingTicker
  [name |-> "HTTP.pingTicker", threads |-> {"http"}, steps |-> <<
     [k |-> "sec", l |-> "", m |-> "", seg |-> 1, rs |-> {"HTTP.raftNode"}, ws |-> {}]>>,
   rall |-> {"HTTP.raftNode"},
   wall |-> {}],
  \* 35  (api.GetMessagesStats).NickWithFallback
  [name |-> "GetMessagesStats.NickWithFallback", threads |-> {"http"}, steps |-> <<
     [k |-> "acq", l |-> "HTTP.mu", m |-> "W", seg |-> 0, rs |-> {}, ws |-> {}],
     [k |-> "sec", l |-> "", m |-> "", seg |-> 1, rs |-> {"HTTP.ircServerUnlocked"}, ws |-> {}],
     [k |-> "rel", l |-> "HTTP.mu", m |-> "", seg |-> 0, rs |-> {}, ws |-> {}],
     [k |-> "acq", l |-> "IRCServer.sessionsMu", m |-> "R", seg |-> 0, rs |-> {}, ws |-> {}],
     [k |-> "sec", l |-> "", m |-> "", seg |-> 2, rs |-> {"IRCServer.sessions", "IRCServer.sessions[]", "Session.Nick"}, ws |-> {}],
     [k |-> "rel", l |-> "IRCServer.sessionsMu", m |-> "", seg |-> 0, rs |-> {}, ws |-> {}]>>,
   rall |-> {"HTTP.ircServerUnlocked", "IRCServer.sessions", "IRCServer.sessions[]", "Session.Nick"},
   wall |-> {}],
  \* 36  (api.GetMessagesStats).StartedAndRelative
  [name |-> "GetMessagesStats.StartedAndRelative", threads |-> {"http"}, steps |-> <<
     [k |-> "sec", l |-> "", m |-> "", seg |-> 1, rs |-> {"GetMessagesStats.Started[]"}, ws |-> {}]>>,
   rall |-> {"GetMessagesStats.Started[]"},
   wall |-> {}],
  \* 37  (*api.HTTP).ApplyMessageWait
  [name |-> "HTTP.ApplyMessageWait", threads |-> {"main"}, steps |-> <<
     [k |-> "sec", l |-> "", m |-> "", seg |-> 1, rs |-> {"HTTP.raftNode", "HTTP.useProtobuf"}, ws |-> {}]>>,
   rall |-> {"HTTP.raftNode", "HTTP.useProtobuf"},
   wall |-> {}],
  \* 38  (*api.HTTP).ReplaceState
  [name |-> "HTTP.ReplaceState", threads |-> {"fsm"}, steps |-> <<
     [k |-> "acq", l |-> "HTTP.mu", m |-> "W", seg |-> 0, rs |-> {}, ws |-> {}],
     [k |-> "sec", l |-> "", m |-> "", seg |-> 1, rs |-> {}, ws |-> {"HTTP.ircServerUnlocked", "HTTP.ircStoreUnlocked", "HTTP.outputUnlocked"}],
     [k |-> "rel", l |-> "HTTP.mu", m |-> "", seg |-> 0, rs |-> {}, ws |-> {}]>>,
   rall |-> {},
   wall |-> {"HTTP.ircServerUnlocked", "HTTP.ircStoreUnlocked", "HTTP.outputUnlocked"}],
  \* 39  (*api.HTTP).applyConfig
  [name |-> "HTTP.applyConfig", threads |-> {"http"}, steps |-> <<
     [k |-> "acq", l |-> "HTTP.mu", m |-> "W", seg |-> 0, rs |-> {}, ws |-> {}],
     [k |-> "sec", l |-> "", m |-> "", seg |-> 1, rs |-> {"HTTP.ircServerUnlocked"}, ws |-> {}],
     [k |-> "rel", l |-> "HTTP.mu", m |-> "", seg |-> 0, rs |-> {}, ws |-> {}],
     [k |-> "acq", l |-> "IRCServer.ConfigMu", m |-> "R", seg |-> 0, rs |-> {}, ws |-> {}],
     [k |-> "sec", l |-> "", m |-> "", seg |-> 2, rs |-> {"IRCServer.Config"}, ws |-> {}],
     [k |-> "rel", l |-> "IRCServer.ConfigMu", m |-> "", seg |-> 0, rs |-> {}, ws |-> {}],
     [k |-> "sec", l |-> "", m |-> "", seg |-> 3, rs |-> {"HTTP.raftNode", "HTTP.useProtobuf"}, ws |-> {}]>>,
   rall |-> {"HTTP.ircServerUnlocked", "HTTP.raftNode", "HTTP.useProtobuf", "IRCServer.Config"},
   wall |-> {}],
  \* 40  (*api.HTTP).applyMessageWait
  [name |-> "HTTP.applyMessageWait", threads |-> {"http", "main"}, steps |-> <<
     [k |-> "sec", l |-> "", m |-> "", seg |-> 1, rs |-> {"HTTP.raftNode", "HTTP.useProtobuf"}, ws |-> {}]>>,
   rall |-> {"HTTP.raftNode", "HTTP.useProtobuf"},
   wall |-> {}],
  \* 41  (*api.HTTP).configRevision
  [name |-> "HTTP.configRevision", threads |-> {"http"}, steps |-> <<
     [k |-> "acq", l |-> "HTTP.mu", m |-> "W", seg |-> 0, rs |-> {}, ws |-> {}],
     [k |-> "sec", l |-> "", m |-> "", seg |-> 1, rs |-> {"HTTP.ircServerUnlocked"}, ws |-> {}],
     [k |-> "rel", l |-> "HTTP.mu", m |-> "", seg |-> 0, rs |-> {}, ws |-> {}],
     [k |-> "acq", l |-> "IRCServer.ConfigMu", m |-> "R", seg |-> 0, rs |-> {}, ws |-> {}],
     [k |-> "sec", l |-> "", m |-> "", seg |-> 2, rs |-> {"IRCServer.Config"}, ws |-> {}],
     [k |-> "rel", l |-> "IRCServer.ConfigMu", m |-> "", seg |-> 0, rs |-> {}, ws |-> {}]>>,
   rall |-> {"HTTP.ircServerUnlocked", "IRCServer.Config"},
   wall |-> {}],
  \* 42  (*api.HTTP).copyGetMessagesRequests
  [name |-> "HTTP.copyGetMessagesRequests", threads |-> {"http"}, steps |-> <<
     [k |-> "acq", l |-> "HTTP.getMessagesRequestsMu", m |-> "R", seg |-> 0, rs |-> {}, ws |-> {}],
     [k |-> "sec", l |-> "", m |-> "", seg |-> 1, rs |-> {"HTTP.getMessagesRequests", "HTTP.getMessagesRequests[]"}, ws |-> {}],
     [k |-> "rel", l |-> "HTTP.getMessagesRequestsMu", m |-> "", seg |-> 0, rs |-> {}, ws |-> {}]>>,
   rall |-> {"HTTP.getMessagesRequests", "HTTP.getMessagesRequests[]"},
   wall |-> {}],
  \* 43  (*api.HTTP).deleteGetMessagesRequests
  [name |-> "HTTP.deleteGetMessagesRequests", threads |-> {"http"}, steps |-> <<
     [k |-> "acq", l |-> "HTTP.getMessagesRequestsMu", m |-> "W", seg |-> 0, rs |-> {}, ws |-> {}],
     [k |-> "sec", l |-> "", m |-> "", seg |-> 1, rs |-> {"HTTP.getMessagesRequests"}, ws |-> {"HTTP.getMessagesRequests[]"}],
     [k |-> "rel", l |-> "HTTP.getMessagesRequestsMu", m |-> "", seg |-> 0, rs |-> {}, ws |-> {}]>>,
   rall |-> {"HTTP.getMessagesRequests"},
   wall |-> {"HTTP.getMessagesRequests[]"}],
  \* 44  (*api.HTTP).ircServer
  [name |-> "HTTP.ircServer", threads |-> {"http"}, steps |-> <<
     [k |-> "acq", l |-> "HTTP.mu", m |-> "W", seg |-> 0, rs |-> {}, ws |-> {}],
     [k |-> "sec", l |-> "", m |-> "", seg |-> 1, rs |-> {"HTTP.ircServerUnlocked"}, ws |-> {}],
     [k |-> "rel", l |-> "HTTP.mu", m |-> "", seg |-> 0, rs |-> {}, ws |-> {}]>>,
   rall |-> {"HTTP.ircServerUnlocked"},
   wall |-> {}],
  \* 45  (*api.HTTP).ircStore
  [name |-> "HTTP.ircStore", threads |-> {"http"}, steps |-> <<
     [k |-> "acq", l |-> "HTTP.mu", m |-> "W", seg |-> 0, rs |-> {}, ws |-> {}],
     [k |-> "sec", l |-> "", m |-> "", seg |-> 1, rs |-> {"HTTP.ircStoreUnlocked"}, ws |-> {}],
     [k |-> "rel", l |-> "HTTP.mu", m |-> "", seg |-> 0, rs |-> {}, ws |-> {}]>>,
   rall |-> {"HTTP.ircStoreUnlocked"},
   wall |-> {}],
  \* 46  (*api.HTTP).maybeProxyToLeader
  [name |-> "HTTP.maybeProxyToLeader", threads |-> {"http"}, steps |-> <<
     [k |-> "sec", l |-> "", m |-> "", seg |-> 1, rs |-> {"HTTP.raftNode"}, ws |-> {}],
     [k |-> "acq", l |-> "api.nodeProxiesMu", m |-> "R", seg |-> 0, rs |-> {}, ws |-> {}],
     [k |-> "sec", l |-> "", m |-> "", seg |-> 2, rs |-> {"api.nodeProxies", "api.nodeProxies[]"}, ws |-> {}],
     [k |-> "rel", l |-> "api.nodeProxiesMu", m |-> "", seg |-> 0, rs |-> {}, ws |-> {}],
     [k |-> "acq", l |-> "api.nodeProxiesMu", m |-> "W", seg |-> 0, rs |-> {}, ws |-> {}],
     [k |-> "sec", l |-> "", m |-> "", seg |-> 3, rs |-> {"api.nodeProxies"}, ws |-> {"api.nodeProxies[]"}],
     [k |-> "rel", l |-> "api.nodeProxiesMu", m |-> "", seg |-> 0, rs |-> {}, ws |-> {}]>>,
   rall |-> {"HTTP.raftNode", "api.nodeProxies", "api.nodeProxies[]"},
   wall |-> {"api.nodeProxies[]"}],
  \* 47  (*api.HTTP).output
  [name |-> "HTTP.output", threads |-> {"http"}, steps |-> <<
     [k |-> "acq", l |-> "HTTP.mu", m |-> "W", seg |-> 0, rs |-> {}, ws |-> {}],
     [k |-> "sec", l |-> "", m |-> "", seg |-> 1, rs |-> {"HTTP.outputUnlocked"}, ws |-> {}],
     [k |-> "rel", l |-> "HTTP.mu", m |-> "", seg |-> 0, rs |-> {}, ws |-> {}]>>,
   rall |-> {"HTTP.outputUnlocked"},
   wall |-> {}],
  \* 48  (*api.HTTP).partitioned
  [name |-> "HTTP.partitioned", threads |-> {"http"}, steps |-> <<
     [k |-> "sec", l |-> "", m |-> "", seg |-> 1, rs |-> {"HTTP.raftNode"}, ws |-> {}]>>,
   rall |-> {"HTTP.raftNode"},
   wall |-> {}],
  \* 49  (*api.HTTP).pingMessage
  [name |-> "HTTP.pingMessage", threads |-> {"http"}, steps |-> <<
     [k |-> "sec", l |-> "", m |-> "", seg |-> 1, rs |-> {"HTTP.raftNode"}, ws |-> {}]>>,
   rall |-> {"HTTP.raftNode"},
   wall |-> {}],
  \* 50  (*api.HTTP).session
  [name |-> "HTTP.session", threads |-> {"http"}, steps |-> <<
     [k |-> "acq", l |-> "HTTP.mu", m |-> "W", seg |-> 0, rs |-> {}, ws |-> {}],
     [k |-> "sec", l |-> "", m |-> "", seg |-> 1, rs |-> {"HTTP.ircServerUnlocked"}, ws |-> {}],
     [k |-> "rel", l |-> "HTTP.mu", m |-> "", seg |-> 0, rs |-> {}, ws |-> {}],
     [k |-> "acq", l |-> "IRCServer.sessionsMu", m |-> "R", seg |-> 0, rs |-> {}, ws |-> {}],
     [k |-> "sec", l |-> "", m |-> "", seg |-> 2, rs |-> {"IRCServer.sessions", "IRCServer.sessions[]"}, ws |-> {}],
     [k |-> "acq", l |-> "IRCServer.lastProcessedMu", m |-> "R", seg |-> 0, rs |-> {}, ws |-> {}],
     [k |-> "sec", l |-> "", m |-> "", seg |-> 3, rs |-> {"IRCServer.lastProcessed", "ircserver.ErrNoSuchSession", "ircserver.ErrSessionNotYetSeen"}, ws |-> {}],
     [k |-> "rel", l |-> "IRCServer.lastProcessedMu", m |-> "", seg |-> 0, rs |-> {}, ws |-> {}],
     [k |-> "rel", l |-> "IRCServer.sessionsMu", m |-> "", seg |-> 0, rs |-> {}, ws |-> {}],
     [k |-> "sec", l |-> "", m |-> "", seg |-> 4, rs |-> {"Session.auth"}, ws |-> {}]>>,
   rall |-> {"HTTP.ircServerUnlocked", "IRCServer.lastProcessed", "IRCServer.sessions", "IRCServer.sessions[]", "Session.auth", "ircserver.ErrNoSuchSession", "ircserver.ErrSessionNotYetSeen"},
   wall |-> {}],
  \* 51  (*api.HTTP).sessionOrProxy
  [name |-> "HTTP.sessionOrProxy", threads |-> {"http"}, steps |-> <<
     [k |-> "acq", l |-> "HTTP.mu", m |-> "W", seg |-> 0, rs |-> {}, ws |-> {}],
     [k |-> "sec", l |-> "", m |-> "", seg |-> 1, rs |-> {"HTTP.ircServerUnlocked"}, ws |-> {}],
     [k |-> "rel", l |-> "HTTP.mu", m |-> "", seg |-> 0, rs |-> {}, ws |-> {}],
     [k |-> "acq", l |-> "IRCServer.sessionsMu", m |-> "R", seg |-> 0, rs |-> {}, ws |-> {}],
     [k |-> "sec", l |-> "", m |-> "", seg |-> 2, rs |-> {"IRCServer.sessions", "IRCServer.sessions[]"}, ws |-> {}],
     [k |-> "acq", l |-> "IRCServer.lastProcessedMu", m |-> "R", seg |-> 0, rs |-> {}, ws |-> {}],
     [k |-> "sec", l |-> "", m |-> "", seg |-> 3, rs |-> {"IRCServer.lastProcessed", "ircserver.ErrNoSuchSession", "ircserver.ErrSessionNotYetSeen"}, ws |-> {}],
     [k |-> "rel", l |-> "IRCServer.lastProcessedMu", m |-> "", seg |-> 0, rs |-> {}, ws |-> {}],
     [k |-> "rel", l |-> "IRCServer.sessionsMu", m |-> "", seg |-> 0, rs |-> {}, ws |-> {}],
     [k |-> "sec", l |-> "", m |-> "", seg |-> 4, rs |-> {"HTTP.raftNode", "Session.auth", "ircserver.ErrSessionNotYetSeen"}, ws |-> {}],
     [k |-> "acq", l |-> "api.nodeProxiesMu", m |-> "R", seg |-> 0, rs |-> {}, ws |-> {}],
     [k |-> "sec", l |-> "", m |-> "", seg |-> 5, rs |-> {"api.nodeProxies", "api.nodeProxies[]"}, ws |-> {}],
     [k |-> "rel", l |-> "api.nodeProxiesMu", m |-> "", seg |-> 0, rs |-> {}, ws |-> {}],
     [k |-> "acq", l |-> "api.nodeProxiesMu", m |-> "W", seg |-> 0, rs |-> {}, ws |-> {}],
     [k |-> "sec", l |-> "", m |-> "", seg |-> 6, rs |-> {"api.nodeProxies"}, ws |-> {"api.nodeProxies[]"}],
     [k |-> "rel", l |-> "api.nodeProxiesMu", m |-> "", seg |-> 0, rs |-> {}, ws |-> {}]>>,
   rall |-> {"HTTP.ircServerUnlocked", "HTTP.raftNode", "IRCServer.lastProcessed", "IRCServer.sessions", "IRCServer.sessions[]", "Session.auth", "api.nodeProxies", "api.nodeProxies[]", "ircserver.ErrNoSuchSession", "ircserver.ErrSessionNotYetSeen"},
   wall |-> {"api.nodeProxies[]"}],
  \* 52  (*api.HTTP).setGetMessagesRequests
  [name |-> "HTTP.setGetMessagesRequests", threads |-> {"http"}, steps |-> <<
     [k |-> "acq", l |-> "HTTP.getMessagesRequestsMu", m |-> "W", seg |-> 0, rs |-> {}, ws |-> {}],
     [k |-> "sec", l |-> "", m |-> "", seg |-> 1, rs |-> {"(*api.HTTP).handleGetMessages.cancel", "(*api.HTTP).handleGetMessages.sessionId", "HTTP.getMessagesRequests"}, ws |-> {"HTTP.getMessagesRequests[]"}],
     [k |-> "acq", l |-> "HTTP.mu", m |-> "W", seg |-> 0, rs |-> {}, ws |-> {}],
     [k |-> "sec", l |-> "", m |-> "", seg |-> 2, rs |-> {"HTTP.outputUnlocked"}, ws |-> {}],
     [k |-> "rel", l |-> "HTTP.mu", m |-> "", seg |-> 0, rs |-> {}, ws |-> {}],
     [k |-> "rel", l |-> "HTTP.getMessagesRequestsMu", m |-> "", seg |-> 0, rs |-> {}, ws |-> {}]>>,
   rall |-> {"(*api.HTTP).handleGetMessages.cancel", "(*api.HTTP).handleGetMessages.sessionId", "HTTP.getMessagesRequests", "HTTP.outputUnlocked"},
   wall |-> {"HTTP.getMessagesRequests[]"}],
  \* 53  (*ircserver.IRCServer).Banned
  [name |-> "IRCServer.Banned", threads |-> {"fsm"}, steps |-> <<
     [k |-> "acq", l |-> "IRCServer.ConfigMu", m |-> "R", seg |-> 0, rs |-> {}, ws |-> {}],
     [k |-> "sec", l |-> "", m |-> "", seg |-> 1, rs |-> {"IRCServer.Config", "IRCServer.Config[]"}, ws |-> {}],
     [k |-> "rel", l |-> "IRCServer.ConfigMu", m |-> "", seg |-> 0, rs |-> {}, ws |-> {}]>>,
   rall |-> {"IRCServer.Config", "IRCServer.Config[]"},
   wall |-> {}],
  \* 54  (*ircserver.IRCServer).ChannelLimit
  [name |-> "IRCServer.ChannelLimit", threads |-> {"fsm", "http"}, steps |-> <<
     [k |-> "acq", l |-> "IRCServer.ConfigMu", m |-> "R", seg |-> 0, rs |-> {}, ws |-> {}],
     [k |-> "sec", l |-> "", m |-> "", seg |-> 1, rs |-> {"IRCServer.Config"}, ws |-> {}],
     [k |-> "rel", l |-> "IRCServer.ConfigMu", m |-> "", seg |-> 0, rs |-> {}, ws |-> {}]>>,
   rall |-> {"IRCServer.Config"},
   wall |-> {}],
  \* 55  (*ircserver.IRCServer).CreateSession
  [name |-> "IRCServer.CreateSession", threads |-> {"fsm"}, steps |-> <<
     [k |-> "acq", l |-> "IRCServer.sessionsMu", m |-> "W", seg |-> 0, rs |-> {}, ws |-> {}],
     [k |-> "sec", l |-> "", m |-> "", seg |-> 1, rs |-> {"IRCServer.sessions", "ircserver.ErrSessionLimitReached"}, ws |-> {"IRCServer.sessions[]"}],
     [k |-> "acq", l |-> "IRCServer.ConfigMu", m |-> "R", seg |-> 0, rs |-> {}, ws |-> {}],
     [k |-> "sec", l |-> "", m |-> "", seg |-> 2, rs |-> {"IRCServer.Config"}, ws |-> {}],
     [k |-> "rel", l |-> "IRCServer.ConfigMu", m |-> "", seg |-> 0, rs |-> {}, ws |-> {}],
     [k |-> "rel", l |-> "IRCServer.sessionsMu", m |-> "", seg |-> 0, rs |-> {}, ws |-> {}]>>,
   rall |-> {"IRCServer.Config", "IRCServer.sessions", "ircserver.ErrSessionLimitReached"},
   wall |-> {"IRCServer.sessions[]"}],
  \* 56  (*ircserver.IRCServer).ExpireSessions
  [name |-> "IRCServer.ExpireSessions", threads |-> {"main"}, steps |-> <<
     [k |-> "acq", l |-> "IRCServer.ConfigMu", m |-> "R", seg |-> 0, rs |-> {}, ws |-> {}],
     [k |-> "sec", l |-> "", m |-> "", seg |-> 1, rs |-> {"IRCServer.Config"}, ws |-> {}],
     [k |-> "acq", l |-> "IRCServer.sessionsMu", m |-> "R", seg |-> 0, rs |-> {}, ws |-> {}],
     [k |-> "sec", l |-> "", m |-> "", seg |-> 2, rs |-> {"IRCServer.sessions", "IRCServer.sessions[]", "Session.LastActivity", "Session.LastActivity[]"}, ws |-> {}],
     [k |-> "rel", l |-> "IRCServer.sessionsMu", m |-> "", seg |-> 0, rs |-> {}, ws |-> {}],
     [k |-> "rel", l |-> "IRCServer.ConfigMu", m |-> "", seg |-> 0, rs |-> {}, ws |-> {}]>>,
   rall |-> {"IRCServer.Config", "IRCServer.sessions", "IRCServer.sessions[]", "Session.LastActivity", "Session.LastActivity[]"},
   wall |-> {}],
  \* 57  (*ircserver.IRCServer).GetAuth
  [name |-> "IRCServer.GetAuth", threads |-> {"http"}, steps |-> <<
     [k |-> "acq", l |-> "IRCServer.sessionsMu", m |-> "R", seg |-> 0, rs |-> {}, ws |-> {}],
     [k |-> "sec", l |-> "", m |-> "", seg |-> 1, rs |-> {"IRCServer.sessions", "IRCServer.sessions[]"}, ws |-> {}],
     [k |-> "acq", l |-> "IRCServer.lastProcessedMu", m |-> "R", seg |-> 0, rs |-> {}, ws |-> {}],
     [k |-> "sec", l |-> "", m |-> "", seg |-> 2, rs |-> {"IRCServer.lastProcessed", "ircserver.ErrNoSuchSession", "ircserver.ErrSessionNotYetSeen"}, ws |-> {}],
     [k |-> "rel", l |-> "IRCServer.lastProcessedMu", m |-> "", seg |-> 0, rs |-> {}, ws |-> {}],
     [k |-> "rel", l |-> "IRCServer.sessionsMu", m |-> "", seg |-> 0, rs |-> {}, ws |-> {}],
     [k |-> "sec", l |-> "", m |-> "", seg |-> 3, rs |-> {"Session.auth"}, ws |-> {}]>>,
   rall |-> {"IRCServer.lastProcessed", "IRCServer.sessions", "IRCServer.sessions[]", "Session.auth", "ircserver.ErrNoSuchSession", "ircserver.ErrSessionNotYetSeen"},
   wall |-> {}],
  \* 58  (*ircserver.IRCServer).GetNick
  [name |-> "IRCServer.GetNick", threads |-> {"http"}, steps |-> <<
     [k |-> "acq", l |-> "IRCServer.sessionsMu", m |-> "R", seg |-> 0, rs |-> {}, ws |-> {}],
     [k |-> "sec", l |-> "", m |-> "", seg |-> 1, rs |-> {"IRCServer.sessions", "IRCServer.sessions[]", "Session.Nick"}, ws |-> {}],
     [k |-> "rel", l |-> "IRCServer.sessionsMu", m |-> "", seg |-> 0, rs |-> {}, ws |-> {}]>>,
   rall |-> {"IRCServer.sessions", "IRCServer.sessions[]", "Session.Nick"},
   wall |-> {}],
  \* 59  (*ircserver.IRCServer).GetSession
  [name |-> "IRCServer.GetSession", threads |-> {"fsm", "http"}, steps |-> <<
     [k |-> "acq", l |-> "IRCServer.sessionsMu", m |-> "R", seg |-> 0, rs |-> {}, ws |-> {}],
     [k |-> "sec", l |-> "", m |-> "", seg |-> 1, rs |-> {"IRCServer.sessions", "IRCServer.sessions[]"}, ws |-> {}],
     [k |-> "acq", l |-> "IRCServer.lastProcessedMu", m |-> "R", seg |-> 0, rs |-> {}, ws |-> {}],
     [k |-> "sec", l |-> "", m |-> "", seg |-> 2, rs |-> {"IRCServer.lastProcessed", "ircserver.ErrNoSuchSession", "ircserver.ErrSessionNotYetSeen"}, ws |-> {}],
     [k |-> "rel", l |-> "IRCServer.lastProcessedMu", m |-> "", seg |-> 0, rs |-> {}, ws |-> {}],
     [k |-> "rel", l |-> "IRCServer.sessionsMu", m |-> "", seg |-> 0, rs |-> {}, ws |-> {}]>>,
   rall |-> {"IRCServer.lastProcessed", "IRCServer.sessions", "IRCServer.sessions[]", "ircserver.ErrNoSuchSession", "ircserver.ErrSessionNotYetSeen"},
   wall |-> {}],
  \* 60  (*ircserver.IRCServer).GetSessions
  [name |-> "IRCServer.GetSessions", threads |-> {"http"}, steps |-> <<
     [k |-> "acq", l |-> "IRCServer.sessionsMu", m |-> "R", seg |-> 0, rs |-> {}, ws |-> {}],
     [k |-> "sec", l |-> "", m |-> "", seg |-> 1, rs |-> {"IRCServer.sessions", "IRCServer.sessions[]", "Session.AwayMsg", "Session.Channels", "Session.Channels[]", "Session.Created", "Session.Id", "Session.LastActivity", "Session.LastNonPing", "Session.LastSolvedCaptcha", "Session.Nick", "Session.Operator", "Session.Pass", "Session.Realname", "Session.RemoteAddr", "Session.Server", "Session.Username", "Session.auth", "Session.deleted", "Session.invitedTo", "Session.invitedTo[]", "Session.ircPrefix", "Session.lastClientMessageId", "Session.loggedIn", "Session.modes", "Session.svid", "Session.throttlingExponent"}, ws |-> {}],
     [k |-> "rel", l |-> "IRCServer.sessionsMu", m |-> "", seg |-> 0, rs |-> {}, ws |-> {}]>>,
   rall |-> {"IRCServer.sessions", "IRCServer.sessions[]", "Session.AwayMsg", "Session.Channels", "Session.Channels[]", "Session.Created", "Session.Id", "Session.LastActivity", "Session.LastNonPing", "Session.LastSolvedCaptcha", "Session.Nick", "Session.Operator", "Session.Pass", "Session.Realname", "Session.RemoteAddr", "Session.Server", "Session.Username", "Session.auth", "Session.deleted", "Session.invitedTo", "Session.invitedTo[]", "Session.ircPrefix", "Session.lastClientMessageId", "Session.loggedIn", "Session.modes", "Session.svid", "Session.throttlingExponent"},
   wall |-> {}],
  \* 61  (*ircserver.IRCServer).LastPostMessage
  [name |-> "IRCServer.LastPostMessage", threads |-> {"http"}, steps |-> <<
     [k |-> "acq", l |-> "IRCServer.sessionsMu", m |-> "R", seg |-> 0, rs |-> {}, ws |-> {}],
     [k |-> "sec", l |-> "", m |-> "", seg |-> 1, rs |-> {"IRCServer.sessions", "IRCServer.sessions[]", "Session.lastClientMessageId"}, ws |-> {}],
     [k |-> "rel", l |-> "IRCServer.sessionsMu", m |-> "", seg |-> 0, rs |-> {}, ws |-> {}]>>,
   rall |-> {"IRCServer.sessions", "IRCServer.sessions[]", "Session.lastClientMessageId"},
   wall |-> {}],
  \* 62  (*ircserver.IRCServer).Marshal
  [name |-> "IRCServer.Marshal", threads |-> {"fsm", "http"}, steps |-> <<
     [k |-> "acq", l |-> "IRCServer.sessionsMu", m |-> "R", seg |-> 0, rs |-> {}, ws |-> {}],
     [k |-> "acq", l |-> "IRCServer.ConfigMu", m |-> "R", seg |-> 0, rs |-> {}, ws |-> {}],
     [k |-> "acq", l |-> "IRCServer.lastProcessedMu", m |-> "R", seg |-> 0, rs |-> {}, ws |-> {}],
     [k |-> "sec", l |-> "", m |-> "", seg |-> 1, rs |-> {"IRCServer.Config", "IRCServer.Config[]", "IRCServer.channels", "IRCServer.channels[]", "IRCServer.lastProcessed", "IRCServer.sessions", "IRCServer.sessions[]", "IRCServer.svsholds", "IRCServer.svsholds[]", "IRCServer.svsholds[][]", "Session.AwayMsg", "Session.Channels", "Session.Channels[]", "Session.Created", "Session.LastActivity", "Session.LastActivity[]", "Session.LastNonPing", "Session.LastNonPing[]", "Session.LastSolvedCaptcha", "Session.LastSolvedCaptcha[]", "Session.Nick", "Session.Operator", "Session.Pass", "Session.Realname", "Session.RemoteAddr", "Session.Server", "Session.Username", "Session.auth", "Session.invitedTo", "Session.invitedTo[]", "Session.ircPrefix", "Session.lastClientMessageId", "Session.loggedIn", "Session.modes", "Session.svid", "Session.throttlingExponent", "channel.bans", "channel.bans[]", "channel.key", "channel.modes", "channel.name", "channel.nicks", "channel.nicks[]", "channel.nicks[][]", "channel.topic", "channel.topicNick", "channel.topicTime", "channel.topicTime[]"}, ws |-> {}],
     [k |-> "rel", l |-> "IRCServer.lastProcessedMu", m |-> "", seg |-> 0, rs |-> {}, ws |-> {}],
     [k |-> "rel", l |-> "IRCServer.ConfigMu", m |-> "", seg |-> 0, rs |-> {}, ws |-> {}],
     [k |-> "rel", l |-> "IRCServer.sessionsMu", m |-> "", seg |-> 0, rs |-> {}, ws |-> {}]>>,
   rall |-> {"IRCServer.Config", "IRCServer.Config[]", "IRCServer.channels", "IRCServer.channels[]", "IRCServer.lastProcessed", "IRCServer.sessions", "IRCServer.sessions[]", "IRCServer.svsholds", "IRCServer.svsholds[]", "IRCServer.svsholds[][]", "Session.AwayMsg", "Session.Channels", "Session.Channels[]", "Session.Created", "Session.LastActivity", "Session.LastActivity[]", "Session.LastNonPing", "Session.LastNonPing[]", "Session.LastSolvedCaptcha", "Session.LastSolvedCaptcha[]", "Session.Nick", "Session.Operator", "Session.Pass", "Session.Realname", "Session.RemoteAddr", "Session.Server", "Session.Username", "Session.auth", "Session.invitedTo", "Session.invitedTo[]", "Session.ircPrefix", "Session.lastClientMessageId", "Session.loggedIn", "Session.modes", "Session.svid", "Session.throttlingExponent", "channel.bans", "channel.bans[]", "channel.key", "channel.modes", "channel.name", "channel.nicks", "channel.nicks[]", "channel.nicks[][]", "channel.topic", "channel.topicNick", "channel.topicTime", "channel.topicTime[]"},
   wall |-> {}],
  \* 63  (*ircserver.IRCServer).MaybeDeleteSession
  [name |-> "IRCServer.MaybeDeleteSession", threads |-> {"fsm"}, steps |-> <<
     [k |-> "acq", l |-> "IRCServer.sessionsMu", m |-> "W", seg |-> 0, rs |-> {}, ws |-> {}],
     [k |-> "sec", l |-> "", m |-> "", seg |-> 1, rs |-> {"IRCServer.sessions", "Session.Operator", "Session.Server", "Session.deleted"}, ws |-> {"IRCServer.sessions[]"}],
     [k |-> "rel", l |-> "IRCServer.sessionsMu", m |-> "", seg |-> 0, rs |-> {}, ws |-> {}]>>,
   rall |-> {"IRCServer.sessions", "Session.Operator", "Session.Server", "Session.deleted"},
   wall |-> {"IRCServer.sessions[]"}],
  \* 64  (*ircserver.IRCServer).NumChannels
  [name |-> "IRCServer.NumChannels", threads |-> {"http"}, steps |-> <<
     [k |-> "acq", l |-> "IRCServer.sessionsMu", m |-> "R", seg |-> 0, rs |-> {}, ws |-> {}],
     [k |-> "sec", l |-> "", m |-> "", seg |-> 1, rs |-> {"IRCServer.channels", "IRCServer.channels[]"}, ws |-> {}],
     [k |-> "rel", l |-> "IRCServer.sessionsMu", m |-> "", seg |-> 0, rs |-> {}, ws |-> {}]>>,
   rall |-> {"IRCServer.channels", "IRCServer.channels[]"},
   wall |-> {}],
  \* 65  (*ircserver.IRCServer).NumSessions
  [name |-> "IRCServer.NumSessions", threads |-> {"http"}, steps |-> <<
     [k |-> "acq", l |-> "IRCServer.sessionsMu", m |-> "R", seg |-> 0, rs |-> {}, ws |-> {}],
     [k |-> "sec", l |-> "", m |-> "", seg |-> 1, rs |-> {"IRCServer.sessions", "IRCServer.sessions[]"}, ws |-> {}],
     [k |-> "rel", l |-> "IRCServer.sessionsMu", m |-> "", seg |-> 0, rs |-> {}, ws |-> {}]>>,
   rall |-> {"IRCServer.sessions", "IRCServer.sessions[]"},
   wall |-> {}],
  \* 66  (*ircserver.IRCServer).OriginWhitelisted
  [name |-> "IRCServer.OriginWhitelisted", threads |-> {"http"}, steps |-> <<
     [k |-> "acq", l |-> "IRCServer.ConfigMu", m |-> "R", seg |-> 0, rs |-> {}, ws |-> {}],
     [k |-> "sec", l |-> "", m |-> "", seg |-> 1, rs |-> {"IRCServer.Config", "IRCServer.Config[]"}, ws |-> {}],
     [k |-> "rel", l |-> "IRCServer.ConfigMu", m |-> "", seg |-> 0, rs |-> {}, ws |-> {}]>>,
   rall |-> {"IRCServer.Config", "IRCServer.Config[]"},
   wall |-> {}],
  \* 67  (*ircserver.IRCServer).ProcessMessage
  [name |-> "IRCServer.ProcessMessage", threads |-> {"fsm"}, steps |-> <<
     [k |-> "acq", l |-> "IRCServer.sessionsMu", m |-> "W", seg |-> 0, rs |-> {}, ws |-> {}],
     [k |-> "sec", l |-> "", m |-> "", seg |-> 1, rs |-> {"IRCServer.ServerCreation", "IRCServer.ServerCreation[]", "IRCServer.ServerPrefix", "IRCServer.ServerPrefix[]", "IRCServer.channels", "IRCServer.nicks", "IRCServer.serverSessions", "IRCServer.serverSessions[]", "IRCServer.sessions", "IRCServer.svsholds", "IRCServer.svsholds[][]", "Session.Channels", "Session.Created", "Session.Id", "Session.LastActivity", "Session.LastActivity[]", "Session.LastNonPing", "Session.LastNonPing[]", "Session.LastSolvedCaptcha[]", "Session.Server", "Session.auth", "Session.invitedTo", "channel.name", "channel.nicks", "channel.topicTime[]", "ircCommand.Func", "ircCommand.MinParams", "ircserver.Commands", "ircserver.Commands[]", "ircserver.ErrSessionLimitReached", "ircserver.authOper", "ircserver.captchaChallengesSent", "ircserver.captchasFailed", "ircserver.captchasVerified", "ircserver.messagesProcessed", "ircserver.nickToLowerReplacer", "ircserver.validChannelRe", "ircserver.validNickRe", "modeCmd.Mode", "modeCmd.Param"}, ws |-> {"IRCServer.channels[]", "IRCServer.nicks[]", "IRCServer.sessions[]", "IRCServer.svsholds[]", "Session.AwayMsg", "Session.Channels[]", "Session.LastSolvedCaptcha", "Session.Nick", "Session.Operator", "Session.Pass", "Session.Realname", "Session.RemoteAddr", "Session.Username", "Session.deleted", "Session.invitedTo[]", "Session.ircPrefix", "Session.loggedIn", "Session.modes", "Session.svid", "channel.bans", "channel.bans[]", "channel.key", "channel.modes", "channel.nicks[]", "channel.nicks[][]", "channel.topic", "channel.topicNick", "channel.topicTime"}],
     [k |-> "acq", l |-> "IRCServer.ConfigMu", m |-> "R", seg |-> 0, rs |-> {}, ws |-> {}],
     [k |-> "sec", l |-> "", m |-> "", seg |-> 2, rs |-> {"IRCServer.Config", "IRCServer.Config[]", "IRCServer.ServerPrefix", "IRCServer.ServerPrefix[]", "IRCServer.channels", "IRCServer.channels[]", "IRCServer.nicks", "IRCServer.nicks[]", "Session.Channels", "Session.Channels[]", "Session.Id", "Session.LastActivity", "Session.LastActivity[]", "Session.Nick", "Session.Pass", "Session.Realname", "Session.Username", "Session.loggedIn", "Session.modes", "Session.svid", "channel.name", "channel.nicks", "channel.nicks[]", "channel.nicks[][]", "ircserver.nickToLowerReplacer"}, ws |-> {"IRCServer.serverSessions", "IRCServer.serverSessions[]", "Session.Server", "Session.ircPrefix"}],
     [k |-> "rel", l |-> "IRCServer.ConfigMu", m |-> "", seg |-> 0, rs |-> {}, ws |-> {}],
     [k |-> "acq", l |-> "IRCServer.ConfigMu", m |-> "W", seg |-> 0, rs |-> {}, ws |-> {}],
     [k |-> "sec", l |-> "", m |-> "", seg |-> 3, rs |-> {"IRCServer.Config", "IRCServer.ServerPrefix", "IRCServer.channels", "IRCServer.nicks", "IRCServer.serverSessions", "IRCServer.serverSessions[]", "IRCServer.sessions", "IRCServer.sessions[]", "Session.Channels", "Session.Channels[]", "Session.Id", "Session.Nick", "Session.Operator", "Session.RemoteAddr", "Session.invitedTo", "Session.ircPrefix", "channel.name", "channel.nicks", "ircserver.nickToLowerReplacer"}, ws |-> {"IRCServer.Config[]", "IRCServer.channels[]", "IRCServer.nicks[]", "Session.deleted", "Session.invitedTo[]", "channel.nicks[]"}],
     [k |-> "rel", l |-> "IRCServer.ConfigMu", m |-> "", seg |-> 0, rs |-> {}, ws |-> {}],
     [k |-> "rel", l |-> "IRCServer.sessionsMu", m |-> "", seg |-> 0, rs |-> {}, ws |-> {}]>>,
   rall |-> {"IRCServer.Config", "IRCServer.Config[]", "IRCServer.ServerCreation", "IRCServer.ServerCreation[]", "IRCServer.ServerPrefix", "IRCServer.ServerPrefix[]", "IRCServer.channels", "IRCServer.channels[]", "IRCServer.nicks", "IRCServer.nicks[]", "IRCServer.serverSessions", "IRCServer.serverSessions[]", "IRCServer.sessions", "IRCServer.sessions[]", "IRCServer.svsholds", "IRCServer.svsholds[][]", "Session.Channels", "Session.Channels[]", "Session.Created", "Session.Id", "Session.LastActivity", "Session.LastActivity[]", "Session.LastNonPing", "Session.LastNonPing[]", "Session.LastSolvedCaptcha[]", "Session.Nick", "Session.Operator", "Session.Pass", "Session.Realname", "Session.RemoteAddr", "Session.Server", "Session.Username", "Session.auth", "Session.invitedTo", "Session.ircPrefix", "Session.loggedIn", "Session.modes", "Session.svid", "channel.name", "channel.nicks", "channel.nicks[]", "channel.nicks[][]", "channel.topicTime[]", "ircCommand.Func", "ircCommand.MinParams", "ircserver.Commands", "ircserver.Commands[]", "ircserver.ErrSessionLimitReached", "ircserver.authOper", "ircserver.captchaChallengesSent", "ircserver.captchasFailed", "ircserver.captchasVerified", "ircserver.messagesProcessed", "ircserver.nickToLowerReplacer", "ircserver.validChannelRe", "ircserver.validNickRe", "modeCmd.Mode", "modeCmd.Param"},
   wall |-> {"IRCServer.Config[]", "IRCServer.channels[]", "IRCServer.nicks[]", "IRCServer.serverSessions", "IRCServer.serverSessions[]", "IRCServer.sessions[]", "IRCServer.svsholds[]", "Session.AwayMsg", "Session.Channels[]", "Session.LastSolvedCaptcha", "Session.Nick", "Session.Operator", "Session.Pass", "Session.Realname", "Session.RemoteAddr", "Session.Server", "Session.Username", "Session.deleted", "Session.invitedTo[]", "Session.ircPrefix", "Session.loggedIn", "Session.modes", "Session.svid", "channel.bans", "channel.bans[]", "channel.key", "channel.modes", "channel.nicks[]", "channel.nicks[][]", "channel.topic", "channel.topicNick", "channel.topicTime"}],
  \* 68  (*ircserver.IRCServer).SessionLimit
  [name |-> "IRCServer.SessionLimit", threads |-> {"fsm", "http"}, steps |-> <<
     [k |-> "acq", l |-> "IRCServer.ConfigMu", m |-> "R", seg |-> 0, rs |-> {}, ws |-> {}],
     [k |-> "sec", l |-> "", m |-> "", seg |-> 1, rs |-> {"IRCServer.Config"}, ws |-> {}],
     [k |-> "rel", l |-> "IRCServer.ConfigMu", m |-> "", seg |-> 0, rs |-> {}, ws |-> {}]>>,
   rall |-> {"IRCServer.Config"},
   wall |-> {}],
  \* 69  (*ircserver.IRCServer).SetLastProcessed
  [name |-> "IRCServer.SetLastProcessed", threads |-> {"fsm"}, steps |-> <<
     [k |-> "acq", l |-> "IRCServer.lastProcessedMu", m |-> "W", seg |-> 0, rs |-> {}, ws |-> {}],
     [k |-> "sec", l |-> "", m |-> "", seg |-> 1, rs |-> {}, ws |-> {"IRCServer.lastProcessed"}],
     [k |-> "rel", l |-> "IRCServer.lastProcessedMu", m |-> "", seg |-> 0, rs |-> {}, ws |-> {}]>>,
   rall |-> {},
   wall |-> {"IRCServer.lastProcessed"}],
  \* 70  (*ircserver.IRCServer).ThrottleUntil
  [name |-> "IRCServer.ThrottleUntil", threads |-> {"http"}, steps |-> <<
     [k |-> "acq", l |-> "IRCServer.ConfigMu", m |-> "R", seg |-> 0, rs |-> {}, ws |-> {}],
     [k |-> "sec", l |-> "", m |-> "", seg |-> 1, rs |-> {"IRCServer.Config"}, ws |-> {}],
     [k |-> "acq", l |-> "IRCServer.sessionsMu", m |-> "W", seg |-> 0, rs |-> {}, ws |-> {}],
     [k |-> "sec", l |-> "", m |-> "", seg |-> 2, rs |-> {"IRCServer.sessions", "IRCServer.sessions[]", "Session.LastActivity", "Session.LastActivity[]", "Session.Server"}, ws |-> {"Session.throttlingExponent"}],
     [k |-> "rel", l |-> "IRCServer.sessionsMu", m |-> "", seg |-> 0, rs |-> {}, ws |-> {}],
     [k |-> "rel", l |-> "IRCServer.ConfigMu", m |-> "", seg |-> 0, rs |-> {}, ws |-> {}]>>,
   rall |-> {"IRCServer.Config", "IRCServer.sessions", "IRCServer.sessions[]", "Session.LastActivity", "Session.LastActivity[]", "Session.Server"},
   wall |-> {"Session.throttlingExponent"}],
  \* 71  (*ircserver.IRCServer).TrustedBridge
  [name |-> "IRCServer.TrustedBridge", threads |-> {"http"}, steps |-> <<
     [k |-> "acq", l |-> "IRCServer.ConfigMu", m |-> "R", seg |-> 0, rs |-> {}, ws |-> {}],
     [k |-> "sec", l |-> "", m |-> "", seg |-> 1, rs |-> {"IRCServer.Config", "IRCServer.Config[]"}, ws |-> {}],
     [k |-> "rel", l |-> "IRCServer.ConfigMu", m |-> "", seg |-> 0, rs |-> {}, ws |-> {}]>>,
   rall |-> {"IRCServer.Config", "IRCServer.Config[]"},
   wall |-> {}],
  \* 72  (*ircserver.IRCServer).Unmarshal
  [name |-> "IRCServer.Unmarshal", threads |-> {"fsm"}, steps |-> <<
     [k |-> "acq", l |-> "IRCServer.sessionsMu", m |-> "W", seg |-> 0, rs |-> {}, ws |-> {}],
     [k |-> "acq", l |-> "IRCServer.lastProcessedMu", m |-> "W", seg |-> 0, rs |-> {}, ws |-> {}],
     [k |-> "sec", l |-> "", m |-> "", seg |-> 1, rs |-> {"IRCServer.channels", "IRCServer.nicks", "IRCServer.sessions", "IRCServer.svsholds", "ircserver.nickToLowerReplacer"}, ws |-> {"IRCServer.channels[]", "IRCServer.lastProcessed", "IRCServer.nicks[]", "IRCServer.serverSessions", "IRCServer.serverSessions[]", "IRCServer.sessions[]", "IRCServer.svsholds[]"}],
     [k |-> "rel", l |-> "IRCServer.lastProcessedMu", m |-> "", seg |-> 0, rs |-> {}, ws |-> {}],
     [k |-> "rel", l |-> "IRCServer.sessionsMu", m |-> "", seg |-> 0, rs |-> {}, ws |-> {}],
     [k |-> "acq", l |-> "IRCServer.ConfigMu", m |-> "W", seg |-> 0, rs |-> {}, ws |-> {}],
     [k |-> "sec", l |-> "", m |-> "", seg |-> 2, rs |-> {}, ws |-> {"IRCServer.Config"}],
     [k |-> "rel", l |-> "IRCServer.ConfigMu", m |-> "", seg |-> 0, rs |-> {}, ws |-> {}]>>,
   rall |-> {"IRCServer.channels", "IRCServer.nicks", "IRCServer.sessions", "IRCServer.svsholds", "ircserver.nickToLowerReplacer"},
   wall |-> {"IRCServer.Config", "IRCServer.channels[]", "IRCServer.lastProcessed", "IRCServer.nicks[]", "IRCServer.serverSessions", "IRCServer.serverSessions[]", "IRCServer.sessions[]", "IRCServer.svsholds[]"}],
  \* 73  (*ircserver.IRCServer).UpdateLastClientMessageID
  [name |-> "IRCServer.UpdateLastClientMessageID", threads |-> {"fsm"}, steps |-> <<
     [k |-> "acq", l |-> "IRCServer.sessionsMu", m |-> "W", seg |-> 0, rs |-> {}, ws |-> {}],
     [k |-> "sec", l |-> "", m |-> "", seg |-> 1, rs |-> {"IRCServer.sessions", "IRCServer.sessions[]"}, ws |-> {"Session.LastActivity", "Session.LastNonPing", "Session.lastClientMessageId"}],
     [k |-> "acq", l |-> "IRCServer.lastProcessedMu", m |-> "R", seg |-> 0, rs |-> {}, ws |-> {}],
     [k |-> "sec", l |-> "", m |-> "", seg |-> 2, rs |-> {"IRCServer.lastProcessed", "ircserver.ErrNoSuchSession", "ircserver.ErrSessionNotYetSeen"}, ws |-> {}],
     [k |-> "rel", l |-> "IRCServer.lastProcessedMu", m |-> "", seg |-> 0, rs |-> {}, ws |-> {}],
     [k |-> "rel", l |-> "IRCServer.sessionsMu", m |-> "", seg |-> 0, rs |-> {}, ws |-> {}]>>,
   rall |-> {"IRCServer.lastProcessed", "IRCServer.sessions", "IRCServer.sessions[]", "ircserver.ErrNoSuchSession", "ircserver.ErrSessionNotYetSeen"},
   wall |-> {"Session.LastActivity", "Session.LastNonPing", "Session.lastClientMessageId"}],
  \* 74  (*outputstream.OutputStream).Add
  [name |-> "OutputStream.Add", threads |-> {"fsm"}, steps |-> <<
     [k |-> "acq", l |-> "OutputStream.messagesMu", m |-> "W", seg |-> 0, rs |-> {}, ws |-> {}],
     [k |-> "sec", l |-> "", m |-> "", seg |-> 1, rs |-> {"Message.Id", "OutputStream.db", "OutputStream.lastseen[]", "OutputStream.lastseen[][]"}, ws |-> {"OutputStream.batch", "OutputStream.lastseen"}],
     [k |-> "acq", l |-> "OutputStream.cacheMu", m |-> "W", seg |-> 0, rs |-> {}, ws |-> {}],
     [k |-> "sec", l |-> "", m |-> "", seg |-> 2, rs |-> {"OutputStream.lastseen", "OutputStream.lastseen[]", "OutputStream.messagesCache"}, ws |-> {"OutputStream.messagesCache[]"}],
     [k |-> "rel", l |-> "OutputStream.cacheMu", m |-> "", seg |-> 0, rs |-> {}, ws |-> {}],
     [k |-> "rel", l |-> "OutputStream.messagesMu", m |-> "", seg |-> 0, rs |-> {}, ws |-> {}]>>,
   rall |-> {"Message.Id", "OutputStream.db", "OutputStream.lastseen", "OutputStream.lastseen[]", "OutputStream.lastseen[][]", "OutputStream.messagesCache"},
   wall |-> {"OutputStream.batch", "OutputStream.lastseen", "OutputStream.messagesCache[]"}],
  \* 75  (*outputstream.OutputStream).Close
  [name |-> "OutputStream.Close", threads |-> {"fsm"}, steps |-> <<
     [k |-> "sec", l |-> "", m |-> "", seg |-> 1, rs |-> {"OutputStream.db", "OutputStream.dirname"}, ws |-> {}]>>,
   rall |-> {"OutputStream.db", "OutputStream.dirname"},
   wall |-> {}],
  \* 76  (*outputstream.OutputStream).Delete
  [name |-> "OutputStream.Delete", threads |-> {"fsm"}, steps |-> <<
     [k |-> "acq", l |-> "OutputStream.messagesMu", m |-> "W", seg |-> 0, rs |-> {}, ws |-> {}],
     [k |-> "sec", l |-> "", m |-> "", seg |-> 1, rs |-> {"OutputStream.db", "OutputStream.lastseen[]", "OutputStream.lastseen[][]"}, ws |-> {"OutputStream.lastseen"}],
     [k |-> "acq", l |-> "OutputStream.cacheMu", m |-> "W", seg |-> 0, rs |-> {}, ws |-> {}],
     [k |-> "sec", l |-> "", m |-> "", seg |-> 2, rs |-> {"OutputStream.messagesCache"}, ws |-> {"OutputStream.messagesCache[]"}],
     [k |-> "rel", l |-> "OutputStream.cacheMu", m |-> "", seg |-> 0, rs |-> {}, ws |-> {}],
     [k |-> "rel", l |-> "OutputStream.messagesMu", m |-> "", seg |-> 0, rs |-> {}, ws |-> {}]>>,
   rall |-> {"OutputStream.db", "OutputStream.lastseen[]", "OutputStream.lastseen[][]", "OutputStream.messagesCache"},
   wall |-> {"OutputStream.lastseen", "OutputStream.messagesCache[]"}],
  \* 77  (*outputstream.OutputStream).Get
  [name |-> "OutputStream.Get", threads |-> {"bg", "http"}, steps |-> <<
     [k |-> "acq", l |-> "OutputStream.messagesMu", m |-> "R", seg |-> 0, rs |-> {}, ws |-> {}],
     [k |-> "acq", l |-> "OutputStream.cacheMu", m |-> "R", seg |-> 0, rs |-> {}, ws |-> {}],
     [k |-> "sec", l |-> "", m |-> "", seg |-> 1, rs |-> {"OutputStream.messagesCache", "OutputStream.messagesCache[]"}, ws |-> {}],
     [k |-> "rel", l |-> "OutputStream.cacheMu", m |-> "", seg |-> 0, rs |-> {}, ws |-> {}],
     [k |-> "sec", l |-> "", m |-> "", seg |-> 2, rs |-> {"OutputStream.db", "messageBatch.Messages"}, ws |-> {}],
     [k |-> "acq", l |-> "OutputStream.cacheMu", m |-> "W", seg |-> 0, rs |-> {}, ws |-> {}],
     [k |-> "sec", l |-> "", m |-> "", seg |-> 3, rs |-> {"OutputStream.messagesCache"}, ws |-> {"OutputStream.messagesCache[]"}],
     [k |-> "rel", l |-> "OutputStream.cacheMu", m |-> "", seg |-> 0, rs |-> {}, ws |-> {}],
     [k |-> "rel", l |-> "OutputStream.messagesMu", m |-> "", seg |-> 0, rs |-> {}, ws |-> {}]>>,
   rall |-> {"OutputStream.db", "OutputStream.messagesCache", "OutputStream.messagesCache[]", "messageBatch.Messages"},
   wall |-> {"OutputStream.messagesCache[]"}],
  \* 78  (*outputstream.OutputStream).GetNext
  [name |-> "OutputStream.GetNext", threads |-> {"http"}, steps |-> <<
     [k |-> "acq", l |-> "OutputStream.messagesMu", m |-> "R", seg |-> 0, rs |-> {}, ws |-> {}],
     [k |-> "acq", l |-> "OutputStream.cacheMu", m |-> "R", seg |-> 0, rs |-> {}, ws |-> {}],
     [k |-> "sec", l |-> "", m |-> "", seg |-> 1, rs |-> {"OutputStream.messagesCache", "OutputStream.messagesCache[]"}, ws |-> {}],
     [k |-> "rel", l |-> "OutputStream.cacheMu", m |-> "", seg |-> 0, rs |-> {}, ws |-> {}],
     [k |-> "sec", l |-> "", m |-> "", seg |-> 2, rs |-> {"OutputStream.db", "messageBatch.NextID"}, ws |-> {}],
     [k |-> "acq", l |-> "OutputStream.cacheMu", m |-> "W", seg |-> 0, rs |-> {}, ws |-> {}],
     [k |-> "sec", l |-> "", m |-> "", seg |-> 3, rs |-> {"OutputStream.messagesCache"}, ws |-> {"OutputStream.messagesCache[]"}],
     [k |-> "rel", l |-> "OutputStream.cacheMu", m |-> "", seg |-> 0, rs |-> {}, ws |-> {}],
     [k |-> "rel", l |-> "OutputStream.messagesMu", m |-> "", seg |-> 0, rs |-> {}, ws |-> {}],
     [k |-> "sec", l |-> "", m |-> "", seg |-> 4, rs |-> {"messageBatch.Messages"}, ws |-> {}],
     [k |-> "acq", l |-> "OutputStream.messagesMu", m |-> "W", seg |-> 0, rs |-> {}, ws |-> {}],
     [k |-> "sec", l |-> "", m |-> "", seg |-> 5, rs |-> {"OutputStream.db", "messageBatch.Messages", "messageBatch.Messages[]", "messageBatch.NextID"}, ws |-> {}],
     [k |-> "acq", l |-> "OutputStream.cacheMu", m |-> "R", seg |-> 0, rs |-> {}, ws |-> {}],
     [k |-> "sec", l |-> "", m |-> "", seg |-> 6, rs |-> {"OutputStream.messagesCache", "OutputStream.messagesCache[]"}, ws |-> {}],
     [k |-> "rel", l |-> "OutputStream.cacheMu", m |-> "", seg |-> 0, rs |-> {}, ws |-> {}],
     [k |-> "acq", l |-> "OutputStream.cacheMu", m |-> "W", seg |-> 0, rs |-> {}, ws |-> {}],
     [k |-> "sec", l |-> "", m |-> "", seg |-> 7, rs |-> {"OutputStream.messagesCache"}, ws |-> {"OutputStream.messagesCache[]"}],
     [k |-> "rel", l |-> "OutputStream.cacheMu", m |-> "", seg |-> 0, rs |-> {}, ws |-> {}],
     [k |-> "rel", l |-> "OutputStream.messagesMu", m |-> "", seg |-> 0, rs |-> {}, ws |-> {}]>>,
   rall |-> {"OutputStream.db", "OutputStream.messagesCache", "OutputStream.messagesCache[]", "messageBatch.Messages", "messageBatch.Messages[]", "messageBatch.NextID"},
   wall |-> {"OutputStream.messagesCache[]"}],
  \* 79  (*outputstream.OutputStream).InterruptGetNext
  [name |-> "OutputStream.InterruptGetNext", threads |-> {"http"}, steps |-> <<>>,
   rall |-> {},
   wall |-> {}],
  \* 80  (*raftstore.LevelDBStore).Close
  [name |-> "LevelDBStore.Close", threads |-> {"fsm"}, steps |-> <<
     [k |-> "acq", l |-> "LevelDBStore.mu", m |-> "W", seg |-> 0, rs |-> {}, ws |-> {}],
     [k |-> "sec", l |-> "", m |-> "", seg |-> 1, rs |-> {}, ws |-> {"LevelDBStore.db"}],
     [k |-> "rel", l |-> "LevelDBStore.mu", m |-> "", seg |-> 0, rs |-> {}, ws |-> {}]>>,
   rall |-> {},
   wall |-> {"LevelDBStore.db"}],
  \* 81  (*raftstore.LevelDBStore).ConvertToProto
  [name |-> "LevelDBStore.ConvertToProto", threads |-> {"fsm"}, steps |-> <<
     [k |-> "acq", l |-> "LevelDBStore.mu", m |-> "W", seg |-> 0, rs |-> {}, ws |-> {}],
     [k |-> "sec", l |-> "", m |-> "", seg |-> 1, rs |-> {"(*raftstore.LevelDBStore).ConvertToProto.start", "(*raftstore.LevelDBStore).ConvertToProto.start[]", "LevelDBStore.db", "LevelDBStore.dir"}, ws |-> {}],
     [k |-> "rel", l |-> "LevelDBStore.mu", m |-> "", seg |-> 0, rs |-> {}, ws |-> {}]>>,
   rall |-> {"(*raftstore.LevelDBStore).ConvertToProto.start", "(*raftstore.LevelDBStore).ConvertToProto.start[]", "LevelDBStore.db", "LevelDBStore.dir"},
   wall |-> {}],
  \* 82  (*raftstore.LevelDBStore).DeleteRange
  [name |-> "LevelDBStore.DeleteRange", threads |-> {"fsm"}, steps |-> <<
     [k |-> "acq", l |-> "LevelDBStore.mu", m |-> "R", seg |-> 0, rs |-> {}, ws |-> {}],
     [k |-> "sec", l |-> "", m |-> "", seg |-> 1, rs |-> {"LevelDBStore.db"}, ws |-> {}],
     [k |-> "rel", l |-> "LevelDBStore.mu", m |-> "", seg |-> 0, rs |-> {}, ws |-> {}],
     [k |-> "acq", l |-> "LevelDBStore.mu", m |-> "W", seg |-> 0, rs |-> {}, ws |-> {}],
     [k |-> "sec", l |-> "", m |-> "", seg |-> 2, rs |-> {"LevelDBStore.db"}, ws |-> {}],
     [k |-> "rel", l |-> "LevelDBStore.mu", m |-> "", seg |-> 0, rs |-> {}, ws |-> {}]>>,
   rall |-> {"LevelDBStore.db"},
   wall |-> {}],
  \* 83  (*raftstore.LevelDBStore).FirstIndex
  [name |-> "LevelDBStore.FirstIndex", threads |-> {"bg", "fsm", "http"}, steps |-> <<
     [k |-> "acq", l |-> "LevelDBStore.mu", m |-> "R", seg |-> 0, rs |-> {}, ws |-> {}],
     [k |-> "sec", l |-> "", m |-> "", seg |-> 1, rs |-> {"LevelDBStore.db"}, ws |-> {}],
     [k |-> "rel", l |-> "LevelDBStore.mu", m |-> "", seg |-> 0, rs |-> {}, ws |-> {}]>>,
   rall |-> {"LevelDBStore.db"},
   wall |-> {}],
  \* 84  (*raftstore.LevelDBStore).GetBulkIterator
  [name |-> "LevelDBStore.GetBulkIterator", threads |-> {"bg", "fsm", "http", "snap"}, steps |-> <<
     [k |-> "acq", l |-> "LevelDBStore.mu", m |-> "R", seg |-> 0, rs |-> {}, ws |-> {}],
     [k |-> "sec", l |-> "", m |-> "", seg |-> 1, rs |-> {"LevelDBStore.db"}, ws |-> {}],
     [k |-> "rel", l |-> "LevelDBStore.mu", m |-> "", seg |-> 0, rs |-> {}, ws |-> {}]>>,
   rall |-> {"LevelDBStore.db"},
   wall |-> {}],
  \* 85  (*raftstore.LevelDBStore).GetLog
  [name |-> "LevelDBStore.GetLog", threads |-> {"http"}, steps |-> <<
     [k |-> "acq", l |-> "LevelDBStore.mu", m |-> "R", seg |-> 0, rs |-> {}, ws |-> {}],
     [k |-> "sec", l |-> "", m |-> "", seg |-> 1, rs |-> {"LevelDBStore.db"}, ws |-> {}],
     [k |-> "rel", l |-> "LevelDBStore.mu", m |-> "", seg |-> 0, rs |-> {}, ws |-> {}]>>,
   rall |-> {"LevelDBStore.db"},
   wall |-> {}],
  \* 86  (*raftstore.LevelDBStore).LastIndex
  [name |-> "LevelDBStore.LastIndex", threads |-> {"bg", "fsm", "http"}, steps |-> <<
     [k |-> "acq", l |-> "LevelDBStore.mu", m |-> "R", seg |-> 0, rs |-> {}, ws |-> {}],
     [k |-> "sec", l |-> "", m |-> "", seg |-> 1, rs |-> {"LevelDBStore.db"}, ws |-> {}],
     [k |-> "rel", l |-> "LevelDBStore.mu", m |-> "", seg |-> 0, rs |-> {}, ws |-> {}]>>,
   rall |-> {"LevelDBStore.db"},
   wall |-> {}],
  \* 87  (*raftstore.LevelDBStore).StoreLog
  [name |-> "LevelDBStore.StoreLog", threads |-> {"fsm"}, steps |-> <<
     [k |-> "acq", l |-> "LevelDBStore.mu", m |-> "W", seg |-> 0, rs |-> {}, ws |-> {}],
     [k |-> "sec", l |-> "", m |-> "", seg |-> 1, rs |-> {"LevelDBStore.db", "LevelDBStore.useProtobuf"}, ws |-> {}],
     [k |-> "rel", l |-> "LevelDBStore.mu", m |-> "", seg |-> 0, rs |-> {}, ws |-> {}]>>,
   rall |-> {"LevelDBStore.db", "LevelDBStore.useProtobuf"},
   wall |-> {}],
  \* 88  (*raftstore.LevelDBStore).StoreLogProto
  [name |-> "LevelDBStore.StoreLogProto", threads |-> {"fsm"}, steps |-> <<
     [k |-> "acq", l |-> "LevelDBStore.mu", m |-> "W", seg |-> 0, rs |-> {}, ws |-> {}],
     [k |-> "sec", l |-> "", m |-> "", seg |-> 1, rs |-> {"LevelDBStore.db"}, ws |-> {}],
     [k |-> "rel", l |-> "LevelDBStore.mu", m |-> "", seg |-> 0, rs |-> {}, ws |-> {}]>>,
   rall |-> {"LevelDBStore.db"},
   wall |-> {}],
  \* 89  (*raftstore.LevelDBStore).StoreLogs
  [name |-> "LevelDBStore.StoreLogs", threads |-> {"fsm"}, steps |-> <<
     [k |-> "acq", l |-> "LevelDBStore.mu", m |-> "W", seg |-> 0, rs |-> {}, ws |-> {}],
     [k |-> "sec", l |-> "", m |-> "", seg |-> 1, rs |-> {"LevelDBStore.db", "LevelDBStore.useProtobuf"}, ws |-> {}],
     [k |-> "rel", l |-> "LevelDBStore.mu", m |-> "", seg |-> 0, rs |-> {}, ws |-> {}]>>,
   rall |-> {"LevelDBStore.db", "LevelDBStore.useProtobuf"},
   wall |-> {}],
  \* 90  (*raftstore.LevelDBStore).WriteBatch
  [name |-> "LevelDBStore.WriteBatch", threads |-> {"fsm"}, steps |-> <<
     [k |-> "acq", l |-> "LevelDBStore.mu", m |-> "W", seg |-> 0, rs |-> {}, ws |-> {}],
     [k |-> "sec", l |-> "", m |-> "", seg |-> 1, rs |-> {"LevelDBStore.db"}, ws |-> {}],
     [k |-> "rel", l |-> "LevelDBStore.mu", m |-> "", seg |-> 0, rs |-> {}, ws |-> {}]>>,
   rall |-> {"LevelDBStore.db"},
   wall |-> {}],
  \* 91  (*raftstore.LevelDBStore).DeleteRange
  [name |-> "LevelDBStore@log.DeleteRange", threads |-> {"raft"}, steps |-> <<
     [k |-> "acq", l |-> "LevelDBStore@log.mu", m |-> "R", seg |-> 0, rs |-> {}, ws |-> {}],
     [k |-> "sec", l |-> "", m |-> "", seg |-> 1, rs |-> {"LevelDBStore@log.db"}, ws |-> {}],
     [k |-> "rel", l |-> "LevelDBStore@log.mu", m |-> "", seg |-> 0, rs |-> {}, ws |-> {}],
     [k |-> "acq", l |-> "LevelDBStore@log.mu", m |-> "W", seg |-> 0, rs |-> {}, ws |-> {}],
     [k |-> "sec", l |-> "", m |-> "", seg |-> 2, rs |-> {"LevelDBStore@log.db"}, ws |-> {}],
     [k |-> "rel", l |-> "LevelDBStore@log.mu", m |-> "", seg |-> 0, rs |-> {}, ws |-> {}]>>,
   rall |-> {"LevelDBStore@log.db"},
   wall |-> {}],
  \* 92  (*raftstore.LevelDBStore).FirstIndex
  [name |-> "LevelDBStore@log.FirstIndex", threads |-> {"raft"}, steps |-> <<
     [k |-> "acq", l |-> "LevelDBStore@log.mu", m |-> "R", seg |-> 0, rs |-> {}, ws |-> {}],
     [k |-> "sec", l |-> "", m |-> "", seg |-> 1, rs |-> {"LevelDBStore@log.db"}, ws |-> {}],
     [k |-> "rel", l |-> "LevelDBStore@log.mu", m |-> "", seg |-> 0, rs |-> {}, ws |-> {}]>>,
   rall |-> {"LevelDBStore@log.db"},
   wall |-> {}],
  \* 93  (*raftstore.LevelDBStore).Get
  [name |-> "LevelDBStore@log.Get", threads |-> {"raft"}, steps |-> <<
     [k |-> "sec", l |-> "", m |-> "", seg |-> 1, rs |-> {"LevelDBStore@log.db"}, ws |-> {}]>>,
   rall |-> {"LevelDBStore@log.db"},
   wall |-> {}],
  \* 94  (*raftstore.LevelDBStore).GetLog
  [name |-> "LevelDBStore@log.GetLog", threads |-> {"raft"}, steps |-> <<
     [k |-> "acq", l |-> "LevelDBStore@log.mu", m |-> "R", seg |-> 0, rs |-> {}, ws |-> {}],
     [k |-> "sec", l |-> "", m |-> "", seg |-> 1, rs |-> {"LevelDBStore@log.db"}, ws |-> {}],
     [k |-> "rel", l |-> "LevelDBStore@log.mu", m |-> "", seg |-> 0, rs |-> {}, ws |-> {}]>>,
   rall |-> {"LevelDBStore@log.db"},
   wall |-> {}],
  \* 95  (*raftstore.LevelDBStore).GetUint64
  [name |-> "LevelDBStore@log.GetUint64", threads |-> {"raft"}, steps |-> <<
     [k |-> "sec", l |-> "", m |-> "", seg |-> 1, rs |-> {"LevelDBStore@log.db"}, ws |-> {}]>>,
   rall |-> {"LevelDBStore@log.db"},
   wall |-> {}],
  \* 96  (*raftstore.LevelDBStore).LastIndex
  [name |-> "LevelDBStore@log.LastIndex", threads |-> {"raft"}, steps |-> <<
     [k |-> "acq", l |-> "LevelDBStore@log.mu", m |-> "R", seg |-> 0, rs |-> {}, ws |-> {}],
     [k |-> "sec", l |-> "", m |-> "", seg |-> 1, rs |-> {"LevelDBStore@log.db"}, ws |-> {}],
     [k |-> "rel", l |-> "LevelDBStore@log.mu", m |-> "", seg |-> 0, rs |-> {}, ws |-> {}]>>,
   rall |-> {"LevelDBStore@log.db"},
   wall |-> {}],
  \* 97  (*raftstore.LevelDBStore).Set
  [name |-> "LevelDBStore@log.Set", threads |-> {"raft"}, steps |-> <<
     [k |-> "sec", l |-> "", m |-> "", seg |-> 1, rs |-> {"LevelDBStore@log.db"}, ws |-> {}]>>,
   rall |-> {"LevelDBStore@log.db"},
   wall |-> {}],
  \* 98  (*raftstore.LevelDBStore).SetUint64
  [name |-> "LevelDBStore@log.SetUint64", threads |-> {"raft"}, steps |-> <<
     [k |-> "sec", l |-> "", m |-> "", seg |-> 1, rs |-> {"LevelDBStore@log.db"}, ws |-> {}]>>,
   rall |-> {"LevelDBStore@log.db"},
   wall |-> {}],
  \* 99  (*raftstore.LevelDBStore).StoreLog
  [name |-> "LevelDBStore@log.StoreLog", threads |-> {"raft"}, steps |-> <<
     [k |-> "acq", l |-> "LevelDBStore@log.mu", m |-> "W", seg |-> 0, rs |-> {}, ws |-> {}],
     [k |-> "sec", l |-> "", m |-> "", seg |-> 1, rs |-> {"LevelDBStore@log.db", "LevelDBStore@log.useProtobuf"}, ws |-> {}],
     [k |-> "rel", l |-> "LevelDBStore@log.mu", m |-> "", seg |-> 0, rs |-> {}, ws |-> {}]>>,
   rall |-> {"LevelDBStore@log.db", "LevelDBStore@log.useProtobuf"},
   wall |-> {}],
  \* 100  (*raftstore.LevelDBStore).StoreLogs
  [name |-> "LevelDBStore@log.StoreLogs", threads |-> {"raft"}, steps |-> <<
     [k |-> "acq", l |-> "LevelDBStore@log.mu", m |-> "W", seg |-> 0, rs |-> {}, ws |-> {}],
     [k |-> "sec", l |-> "", m |-> "", seg |-> 1, rs |-> {"LevelDBStore@log.db", "LevelDBStore@log.useProtobuf"}, ws |-> {}],
     [k |-> "rel", l |-> "LevelDBStore@log.mu", m |-> "", seg |-> 0, rs |-> {}, ws |-> {}]>>,
   rall |-> {"LevelDBStore@log.db", "LevelDBStore@log.useProtobuf"},
   wall |-> {}]
>>

\* concurrency relation (see Locks.tla)
MultiThreadsDef == {"http", "raft"}
SerialPairsDef == {{"FSM.Snapshot", "robustSnapshot.Persist"}}

\* run parameters (rewritten by checks/c20.py for the individual TLC runs)
NSlotsDef == 2
OnlyOpsDef == {}
ReportDef == TRUE
PruneDef == FALSE

VARIABLES op, pc, rd, wr

\* (substitution by INSTANCE, not by the cfg: TLC caches these definitions)
INSTANCE Locks WITH Ops <- OpsDef, LockNames <- LockNamesDef, MultiThreads <- MultiThreadsDef,
                    SerialPairs <- SerialPairsDef, NSlots <- NSlotsDef, OnlyOps <- OnlyOpsDef,
                    Report <- ReportDef, Prune <- PruneDef

====
