\* C11 decision table, exhaustive: 3 victim states x every request of the finite
\* domain (public: 4 methods x 6 path shapes x 5 targets x 5 credentials x 2 basic;
\* private: 3 methods x 22 paths x 4 basic (+ session secret without password)).
SPECIFICATION Spec
INVARIANTS TypeOK EffectNeedsSecret PrivateNeedsPassword PasswordIsNoSecret RefusedIsNot2xx
POSTCONDITION Export
CHECK_DEADLOCK FALSE
