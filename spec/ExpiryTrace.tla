---------------------------- MODULE ExpiryTrace ----------------------------
(* Validation of what REAL robustirc processes did (harness/expiry) against  *)
(* the session-expiry specification.                                         *)
(*                                                                           *)
(* trace.ndjson - the sequential part, ordered by raft index:                *)
(*     entry    one applied raft entry as the nodes stored it (kind, session,*)
(*              Reply flag, timestamp taken by the proposer, quit text class,*)
(*              SessionExpiration of a Config entry), who proposed it (hook  *)
(*              api.applied), and when the orchestrator sent / got           *)
(*              acknowledged the request that became this entry              *)
(*     line     one line a long poll delivered (recipient, causing index)    *)
(*     probe    the HTTP status of a request for a session, made to a node   *)
(*              that is known to have applied index i                        *)
(*     pollend  the server ended a long poll                                 *)
(* aux.ndjson   - raft state of the nodes over time (fol / lead intervals),  *)
(*     the lines the nodes' sweeps logged (sweeplog), faults, end, and the   *)
(*     run-time restores of nodes (restore: FSM.Restore replaced the node's  *)
(*     server object while its timer loop went on).                          *)
(*                                                                           *)
(* All times are milliseconds of ONE clock (same machine).  The tick times   *)
(* of the sweeps are not recorded anywhere: TLC infers them.  For a          *)
(* DeleteSession entry D that no client asked for, a tick (T, j) explains it *)
(* when the sweeping node can have been, at time T, in the state after the   *)
(* entries 1..j:  every entry <= j was proposed before T, no entry in j+1..  *)
(* had been acknowledged to its client before T, T is not after D's own      *)
(* timestamp and not long before it.  The PROPERTY predicates are evaluated  *)
(* existentially over all such ticks (a violation needs that NO tick makes   *)
(* the predicate true) and do not depend on the search; the search for one   *)
(* consistent sequence of ticks (batches, >= Interval apart, each sweeping   *)
(* exactly its idle set) is the CONFORMANCE part, accepted by the high-water *)
(* mark in TLCGet(2) and reported as drift only.                             *)
EXTENDS Integers, Sequences, FiniteSets, FiniteSetsExt, TLC, Json, ExpiryProps

CONSTANTS
    Interval,       \* expireSessionsInterval in ms
    Eps,            \* rounding of the recorded times
    ProposeSlack,   \* tick -> timestamp of the first proposal of that sweep (when the sweep's log line is missing)
    LogSlack,       \* idle test of a session -> time stamp of its "Expiring session" log line
    ClusterGap,     \* sweep entries closer than this may stem from one tick
    LiveBound,      \* an idle session must be gone this long after it became due (leader in office)
    Margin,         \* safety margin around the sampled raft-state intervals
    DefaultExp      \* config.DefaultConfig.SessionExpiration

Trace == ndJsonDeserialize("trace.ndjson")
Aux   == ndJsonDeserialize("aux.ndjson")
N     == Len(Trace)
Inf   == 1073741823

VARIABLES
    l,        \* next record of Trace
    alive,    \* sessions (Reply = 0) alive after the entries processed so far
    ended,    \* session -> [i: raft index of the entry that ended it, q: its position]
    nick,     \* session -> nickname
    pnicks,   \* <<link, nickname>> of the pseudo-clients
    cur,      \* the sweep in progress as inferred: [T, by, todo, last]   (conformance)
    conf,     \* FALSE once the model could not explain a record          (conformance)
    viol,     \* property predicates found false: <<name, position>>
    notes     \* conformance remarks: <<what, position>>

vars == <<l, alive, ended, nick, pnicks, cur, conf, viol, notes>>

NoTick == [T |-> -1, by |-> 0, todo |-> {}, last |-> 0]

(* ------------------------------------------------ the log as a function of position *)
IsEntry(k) == Trace[k].ev = "entry"
EPos == {k \in 1..N : IsEntry(k)}
IsActivity(k, s) == IsEntry(k) /\ Trace[k].s = s /\ Trace[k].r = 0 /\ Trace[k].k \in {"create", "line"}

\* Session.LastActivity of s after the entries at positions 1..j
LA(s, j) == LET P == {k \in 1..j : IsActivity(k, s)} IN IF P = {} THEN -Inf ELSE Trace[Max(P)].ts
\* Config.SessionExpiration after the entries 1..j
ExpAt(j) == LET P == {k \in 1..j : IsEntry(k) /\ Trace[k].k = "config"} IN IF P = {} THEN DefaultExp ELSE Trace[Max(P)].exp
MaxTs(j) == LET P == {Trace[k].ts : k \in {k \in 1..j : IsEntry(k)}} IN IF P = {} THEN -Inf ELSE Max(P)
MinAck(j, d) == LET P == {Trace[k].ack : k \in {k \in (j+1)..(d-1) : IsEntry(k) /\ Trace[k].ack >= 0}} IN IF P = {} THEN Inf ELSE Min(P)
Created(s, j) == \E k \in 1..j : IsEntry(k) /\ Trace[k].k = "create" /\ Trace[k].s = s

SweepPos == {k \in EPos : Trace[k].k = "delete" /\ Trace[k].sweep = 1}
RECURSIVE ClusterStart(_)
ClusterStart(d) == LET P == {k \in SweepPos : k < d} IN
                   IF P = {} THEN Trace[d].ts
                   ELSE IF Trace[d].ts - Trace[Max(P)].ts <= ClusterGap THEN ClusterStart(Max(P)) ELSE Trace[d].ts

(* ------------------------------------------------------------ inferring the tick *)
AuxSet == {Aux[k] : k \in 1..Len(Aux)}
SweepLogs == {a \in AuxSet : a.ev = "sweeplog"}
\* The window [TLo, THi] of the tick that produced the sweep entry at d.  ExpireSessions logs
\* "Expiring session <id>" right after it found the session idle: that line (of the proposing
\* node, for this session, shortly before the entry) dates the tick.  Without it (another log
\* format) the tick lies between "ProposeSlack before the first entry of the cluster" and the
\* entry's own timestamp.
LogOf(d) == {a.t : a \in {a \in SweepLogs : a.s = Trace[d].s /\ a.r = Trace[d].r /\ (Trace[d].by = 0 \/ a.n = Trace[d].by)
                                            /\ a.t <= Trace[d].ts + Eps /\ a.t + 15000 >= Trace[d].ts}}
TLo(d) == IF LogOf(d) # {} THEN Max(LogOf(d)) - LogSlack ELSE ClusterStart(d) - ProposeSlack
THi(d) == IF LogOf(d) # {} THEN Min2(Max(LogOf(d)) + Eps, Trace[d].ts) ELSE Trace[d].ts
TLoNew(d) == IF LogOf(d) # {} THEN Max(LogOf(d)) - LogSlack ELSE Trace[d].ts - ProposeSlack
\* candidates for j: a j below the last entry that was acknowledged before lb makes TOf(j, d) < lb
JMin(d, lb) == Max({0} \cup {k \in EPos : k < d /\ Trace[k].ack >= 0 /\ Trace[k].ack < lb})
Cand(d, lb) == {j \in {0} \cup {k \in EPos : k < d} : j >= JMin(d, lb)}
\* the latest time at which the sweeping node can still have been in the state after 1..j
TOf(j, d) == Min2(THi(d), MinAck(j, d))
Feasible(j, d, lb) == TOf(j, d) + Eps >= MaxTs(j) /\ TOf(j, d) >= lb

\* OnlyIdleExpire for the sweep entry at position d: SOME tick that can have produced it found
\* the session idle for longer than the expiration then in force (ExpiryProps!SweepRecOK)
Good(d) ==
    LET s == Trace[d].s
        lb == TLo(d)
    IN  \E j \in Cand(d, lb) :
           /\ Feasible(j, d, lb)
           /\ Created(s, j)
           /\ SweepRecOK([reply |-> Trace[d].r, la |-> LA(s, j), T |-> TOf(j, d) + Eps, exp |-> ExpAt(j)])

\* ActiveNeverExpires: no line of the session that was acknowledged before the earliest possible
\* tick is younger, at the entry's own timestamp, than every expiration that can have been in force
ConfigsIn(a, b) == {Trace[k].exp : k \in {k \in a..b : IsEntry(k) /\ Trace[k].k = "config"}}
MinExpFrom(k, d) == Min({ExpAt(k)} \cup ConfigsIn(k + 1, d - 1))      \* = Min {ExpAt(j) : j \in k..d-1}
ActiveOK(d) ==
    LET s == Trace[d].s
        lb == TLo(d)
    IN  ~ \E k \in 1..(d-1) :
            /\ IsActivity(k, s) /\ Trace[k].ack >= 0 /\ Trace[k].ack + Eps < lb
            /\ ProtectedBy(Trace[k].ts, THi(d) - Eps, MinExpFrom(k, d), 0)

\* SweepsAllIdle ("exactly"): when a sweep is evidenced by its first entry at position d, every other
\* session that was idle for longer than the expiration at EVERY tick that can have produced d -
\* its last line acknowledged before the earliest such tick, older than the largest expiration
\* that can have been in force - is ended before the next sweep can run.  Judged only when the
\* proposer was observed as leader throughout and the recording goes on long enough.
FirstOfCluster(d) == ClusterStart(d) = Trace[d].ts /\ ~ \E k \in SweepPos : k < d /\ Trace[k].ts = Trace[d].ts
BatchEnd(d) == TLo(d) + Interval - 1000
MaxExpFrom(d) == LET tmin == TLo(d)
                     C == {k \in 1..(d-1) : IsEntry(k) /\ Trace[k].k = "config" /\ Trace[k].ack >= 0 /\ Trace[k].ack + Eps < tmin}
                     lo == IF C = {} THEN 0 ELSE Max(C)
                 IN  Max({ExpAt(lo)} \cup ConfigsIn(lo + 1, d - 1))              \* = Max {ExpAt(j) : j \in lo..d-1}
CertainlyIdle(s, d) ==
    LET P == {k \in 1..(d-1) : IsActivity(k, s)}
        tmin == TLo(d)
    IN  /\ P # {}
        /\ Trace[Max(P)].ack >= 0 /\ Trace[Max(P)].ack + Eps < tmin
        /\ TooIdle(Trace[Max(P)].ts, tmin - Eps, MaxExpFrom(d))
EndedBy(s, d, t) == \E k \in EPos : k > d /\ Trace[k].s = s /\ Trace[k].r = 0 /\ Trace[k].ts <= t
                                      /\ (Trace[k].k = "delete" \/ (Trace[k].k = "line" /\ Trace[k].cmd = "QUIT"))
Judgeable(d) == /\ Trace[d].by # 0
                /\ \E f \in AuxSet : f.ev = "lead" /\ f.n = Trace[d].by /\ f.t <= TLo(d) /\ f.t2 >= BatchEnd(d)
Missed(d, live) == IF FirstOfCluster(d) /\ Judgeable(d)
                      THEN {s \in live \ {Trace[d].s} : CertainlyIdle(s, d) /\ ~ EndedBy(s, d, BatchEnd(d))}
                      ELSE {}

(* ------------------------------------------------------------ run-time restores *)
\* aux record "restore": node n replaced its server object at run time (raft InstallSnapshot ->
\* FSM.Restore; the node's own hook trace says fsm.restored) between t and t2; i = the last index its
\* FSM.Apply had finished before (what the ORPHANED object holds, for ever), s = the last index of the
\* irclog the restore left.  In the specification (Expiry!Restore) the new object holds the applied
\* prefix, so a restore changes nothing of what a later tick of n may see: the predicates above judge
\* n's sweeps like everybody's, against the log.  What the event adds:
\*   - RestoredSweeps, the sweep entries n proposed after its restore: the witness that "expiry after a
\*     run-time restore" was observed at all (the caller insists on it for the scenario made for it);
\*   - a diagnosis for a sweep entry that violates OnlyIdleExpire: does the orphaned object (the prefix
\*     up to i, frozen) explain it?  Then the sweep read a reference taken before the restore
\*     (Expiry_stale.cfg is that variant of the design).  Likewise for a session that is never swept
\*     and was created after i.  Diagnoses accompany violations; they are not verdicts.
Restores == {a \in AuxSet : a.ev = "restore"}
RestoredSweeps == {k \in SweepPos : \E r \in Restores : Trace[k].by = r.n /\ Trace[k].ts > r.t2}
PrefixAt(idx) == Max({0} \cup {k \in EPos : Trace[k].i <= idx})
StaleExplains(d) ==
    \E r \in Restores :
       /\ Trace[d].by \in {0, r.n} /\ r.t2 <= Trace[d].ts
       /\ LET j == PrefixAt(r.i) IN
            /\ Created(Trace[d].s, j)
            /\ SweepRecOK([reply |-> Trace[d].r, la |-> LA(Trace[d].s, j), T |-> THi(d) + Eps, exp |-> ExpAt(j)])

(* ------------------------------------------------------------------ small model *)
NickOf(a) == IF a \in DOMAIN nick THEN nick[a] ELSE ""
Held(x, except) == (\E a \in alive \ except : NickOf(a) = x) \/ (\E p \in pnicks : p[2] = x)
EndedBefore(idx) == {s \in DOMAIN ended : ended[s].i < idx}

End(S, e) ==
    /\ alive' = alive \ S
    /\ ended' = ended @@ [s \in S |-> [i |-> e.i, q |-> l]]
    /\ pnicks' = {p \in pnicks : p[1] \notin S}

AliveAt(j) == {s \in alive \cup DOMAIN ended : Created(s, j) /\ (s \in alive \/ ended[s].q > j)}
MustSet(j, T) == {s \in AliveAt(j) : TooIdle(LA(s, j), T, ExpAt(j) + Eps)}

(* conformance: one consistent sequence of sweeps *)
ContinueOK(e) == cur.T >= 0 /\ (cur.by = e.by \/ e.by = 0 \/ cur.by = 0) /\ e.s \in cur.todo /\ e.ts + Eps >= cur.last
NewTickOK(j, d) ==
    LET e == Trace[d]
        T == TOf(j, d)
    IN  /\ Feasible(j, d, TLoNew(d))
        /\ Created(e.s, j)
        /\ TooIdle(LA(e.s, j), T + Eps, ExpAt(j))
        /\ (cur.T < 0 \/ cur.by # e.by \/ (T + Eps >= cur.T + Interval /\ cur.todo \cap alive = {}))
        /\ (e.named < 0 \/ e.named = ExpAt(j))
Infer(e) ==
    \/ /\ ContinueOK(e)
       /\ cur' = [cur EXCEPT !.todo = @ \ {e.s}, !.last = e.ts]
       /\ conf' = conf
    \/ \E j \in Cand(l, TLoNew(l)) :
          /\ NewTickOK(j, l)
          /\ cur' = [T |-> TOf(j, l), by |-> e.by, todo |-> MustSet(j, TOf(j, l)) \ {e.s}, last |-> e.ts]
          /\ conf' = conf
    \/ /\ ~ ContinueOK(e) /\ ~ \E j \in Cand(l, TLoNew(l)) : NewTickOK(j, l)
       /\ cur' = NoTick
       /\ conf' = FALSE

(* --------------------------------------------------------------------- entries *)
DeleteEntry(e) ==
    IF e.r # 0
       THEN \* PseudoNeverSwept: a sweep never proposes a session with Reply # 0
            /\ viol' = viol \cup (IF e.sweep = 1 THEN {<<"PseudoNeverSwept", l>>} ELSE {})
            /\ UNCHANGED <<alive, ended, nick, pnicks, cur, conf, notes>>
       ELSE IF e.s \notin alive
       THEN /\ notes' = notes \cup (IF e.sweep = 1 THEN {<<"sweep entry for a session that is not alive", l>>} ELSE {})
            /\ UNCHANGED <<alive, ended, nick, pnicks, cur, conf, viol>>
       ELSE /\ End({e.s}, e)
            /\ IF e.sweep = 1
                  THEN /\ viol' = viol \cup (IF Good(l) THEN {} ELSE {<<"OnlyIdleExpire", l>>})
                                     \cup (IF ActiveOK(l) THEN {} ELSE {<<"ActiveNeverExpires", l>>})
                                     \cup (IF Missed(l, alive) = {} THEN {} ELSE {<<"SweepsAllIdle", l>>})
                       /\ notes' = notes \cup (IF e.named < 0 THEN {<<"the quit text of a sweep entry names no timeout", l>>} ELSE {})
                                          \cup (IF ~ Good(l) /\ StaleExplains(l)
                                                   THEN {<<"DIAG the server object the proposing node's run-time restore had orphaned explains this sweep entry", l>>} ELSE {})
                       /\ Infer(e)
                  ELSE UNCHANGED <<viol, notes, cur, conf>>
            /\ UNCHANGED nick

LineEntry(e) ==
    IF e.r # 0 \/ e.s \notin alive
       THEN UNCHANGED <<alive, ended, nick, pnicks>>
       ELSE CASE e.cmd = "NICK" ->
                   /\ nick' = IF Held(e.arg, {e.s}) THEN nick ELSE [x \in DOMAIN nick \cup {e.s} |-> IF x = e.s THEN e.arg ELSE nick[x]]
                   /\ UNCHANGED <<alive, ended, pnicks>>
              [] e.cmd = "SNICK" ->
                   /\ pnicks' = IF Held(e.arg, {}) THEN pnicks ELSE pnicks \cup {<<e.s, e.arg>>}
                   /\ UNCHANGED <<alive, ended, nick>>
              [] e.cmd = "QUIT" ->
                   /\ End({e.s}, e) /\ UNCHANGED nick
              [] OTHER -> UNCHANGED <<alive, ended, nick, pnicks>>

EntryStep(e) ==
    CASE e.k = "create" -> /\ alive' = alive \cup {e.s}
                           /\ UNCHANGED <<ended, nick, pnicks, cur, conf, viol, notes>>
      [] e.k = "line"   -> LineEntry(e) /\ UNCHANGED <<cur, conf, viol, notes>>
      [] e.k = "delete" -> DeleteEntry(e)
      [] OTHER          -> UNCHANGED <<alive, ended, nick, pnicks, cur, conf, viol, notes>>

(* -------------------------------------------------- what the clients saw *)
\* a nickname of a session that has ended, not taken by anybody since
Stale(x, idx) == (\E s \in EndedBefore(idx) : NickOf(s) = x) /\ ~ Held(x, {})

\* A services link: its id stays in IRCServer.serverSessions after its end (that list never shrinks),
\* so later lines for "the services" are still addressed to it; if its long poll is still open (its
\* own QUIT produced no output that would have ended the poll) the next such line is delivered.
\* Tolerated here as in the other C17 stages (DESIGN 6, C17), but noted.
IsLink(s) == \E k \in EPos : Trace[k].s = s /\ Trace[k].k = "line" /\ Trace[k].cmd = "SERVER"

\* ExpiredSessionGone on one delivered line
LineObs(e) ==
    /\ viol' = viol
         \cup (IF e.s \in EndedBefore(e.i) /\ ~ IsLink(e.s) THEN {<<"ExpiredSessionGone:line-delivered-after-the-end", l>>} ELSE {})
         \cup (IF e.k = "353" /\ \E x \in Range(e.names) : Stale(x, e.i) THEN {<<"ExpiredSessionGone:still-listed-in-the-channel", l>>} ELSE {})
         \cup (IF e.k = "433" /\ (\E s \in EndedBefore(e.i) : NickOf(s) = e.arg) /\ ~ Held(e.arg, {e.s})
                  THEN {<<"ExpiredSessionGone:nickname-not-free", l>>} ELSE {})
    /\ notes' = notes \cup (IF \E k \in EPos : Trace[k].i = e.i THEN {} ELSE {<<"a delivered line names an entry that is not in the log", l>>})
                      \cup (IF e.s \in EndedBefore(e.i) /\ IsLink(e.s) THEN {<<"a line was delivered to a services link after its end (stale id in serverSessions)", l>>} ELSE {})
    /\ UNCHANGED <<alive, ended, nick, pnicks, cur, conf>>

NeverEnds(s) == ~ \E k \in EPos : Trace[k].s = s /\ Trace[k].r = 0 /\ (Trace[k].k = "delete" \/ (Trace[k].k = "line" /\ Trace[k].cmd = "QUIT"))

ProbeObs(e) ==
    /\ viol' = viol
         \cup (IF e.st = 200 /\ e.s \in DOMAIN ended /\ ended[e.s].i <= e.i THEN {<<"ExpiredSessionGone:request-still-served", l>>} ELSE {})
         \cup (IF e.st = 404 /\ e.s \in alive /\ NeverEnds(e.s) THEN {<<"LookupSound:live-session-reported-gone", l>>} ELSE {})
    /\ UNCHANGED <<alive, ended, nick, pnicks, cur, conf, notes>>

\* the server ends the long poll of a session the sweep deleted after the ERROR line (conformance);
\* a services link gets no ERROR line (its QUIT is the server's)
PollEndObs(e) ==
    /\ notes' = notes \cup
         (IF e.s \in DOMAIN ended /\ ended[e.s].i <= e.i /\ Trace[ended[e.s].q].sweep = 1 /\ ~ IsLink(e.s)
             /\ ~ \E k \in 1..(l-1) : Trace[k].ev = "line" /\ Trace[k].s = e.s /\ Trace[k].i = ended[e.s].i /\ Trace[k].k = "ERROR" /\ Trace[k].pt = 1
          THEN {<<"poll of a swept session ended without the ERROR ... Ping timeout line", l>>} ELSE {})
    /\ UNCHANGED <<alive, ended, nick, pnicks, cur, conf, viol>>

(* ------------------------------------------------ the time-based predicates *)
Fol == {a \in AuxSet : a.ev = "fol"}
Lead == {a \in AuxSet : a.ev = "lead"}
EndT == LET E == {a.t : a \in {a \in AuxSet : a.ev = "end"}} IN IF E = {} THEN -Inf ELSE Max(E)

\* node n was a follower (same term before and after) throughout a window around t
FollowerAt(n, t) == \E f \in Fol : f.n = n /\ f.t + Margin <= t /\ t + Margin <= f.t2

\* FollowersNeverPropose: no sweep found sessions on a node that was a follower at that moment,
\* no sweep entry was proposed by such a node
FollowerSweeps == {<<"FollowersNeverPropose:sweep-ran-on-a-follower", a.t>> : a \in {a \in SweepLogs : FollowerAt(a.n, a.t)}}
              \cup {<<"FollowersNeverPropose:sweep-entry-proposed-by-a-follower", k>> :
                        k \in {k \in SweepPos : Trace[k].by # 0 /\ FollowerAt(Trace[k].by, Trace[k].ts)}}
\* the sweep logged a pseudo-client as expiring
PseudoSweeps == {<<"PseudoNeverSwept", a.t>> : a \in {a \in SweepLogs : a.r = 1}}

\* IdleEventuallyExpires, bounded: at the end no session is left that has been idle for longer than
\* the expiration AND a leader that answered all the time has been in office for LiveBound since
DueAt(s) == LA(s, N) + ExpAt(N)
Overdue(s) == \E f \in Lead : f.t2 + 3000 >= EndT /\ EndT - Max2(DueAt(s), f.t) > LiveBound
Undecided(s) == EndT - DueAt(s) > LiveBound /\ ~ Overdue(s)
\* FSM.Snapshot keeps the entries younger than "expiration in force + sweep interval" (conformance:
\* fsm.setSessionExpiration follows the Config entries): the first index it kept, for a snapshot
\* taken between a.t and a.t2
Snapshots == {a \in AuxSet : a.ev = "snapshot"}
FirstAfter(x) == LET P == {Trace[k].i : k \in {k \in EPos : Trace[k].ts > x}} IN IF P = {} THEN Inf ELSE Min(P)
FoldOK(a) == LET w == ExpAt(N) + Interval
                 lo == FirstAfter(a.t - w - Eps)
                 hi == FirstAfter(a.t2 - w + Eps)
             IN  lo <= a.i /\ (a.i <= hi \/ (hi = Inf /\ a.i = a.s + 1))
Finish ==
    /\ viol' = viol \cup FollowerSweeps \cup PseudoSweeps
                    \cup {<<"IdleEventuallyExpires", s>> : s \in {s \in alive : EndT > -Inf /\ Overdue(s)}}
    /\ notes' = notes \cup {<<"UNDECIDED idle session, leader not continuously observed", s>> : s \in {s \in alive : EndT > -Inf /\ Undecided(s)}}
                      \cup {<<"a snapshot did not fold the window 'expiration in force + sweep interval'", a.i>> : a \in {a \in Snapshots : ~ FoldOK(a)}}
                      \cup (IF cur.T >= 0 /\ cur.todo \cap alive # {} /\ EndT - cur.T > Interval + ProposeSlack
                               THEN {<<"a sweep left an idle session out", cur.T>>} ELSE {})
                      \cup (IF Restores # {} THEN {<<"WITNESS sweep entries proposed by a node after its run-time restore", Cardinality(RestoredSweeps)>>} ELSE {})
                      \cup {<<"DIAG the overdue session was created after the run-time restore of the node in office: the orphaned server object does not hold it", s>> :
                               s \in {s \in alive : EndT > -Inf /\ Overdue(s)
                                                    /\ \E r \in Restores : s > r.i /\ \E f \in Lead : f.n = r.n /\ f.t >= r.t /\ f.t2 + 3000 >= EndT}}
    /\ UNCHANGED <<alive, ended, nick, pnicks, cur, conf>>

(* ---------------------------------------------------------------------- steps *)
Init ==
    /\ l = 1 /\ alive = {} /\ ended = <<>> /\ nick = <<>> /\ pnicks = {}
    /\ cur = NoTick /\ conf = TRUE /\ viol = {} /\ notes = {}
    /\ TLCSet(1, 0) /\ TLCSet(2, 0)

Step ==
    /\ l <= N
    /\ l' = l + 1
    /\ LET e == Trace[l] IN
         CASE e.ev = "entry"   -> EntryStep(e)
           [] e.ev = "line"    -> LineObs(e)
           [] e.ev = "probe"   -> ProbeObs(e)
           [] e.ev = "pollend" -> PollEndObs(e)
           [] OTHER            -> UNCHANGED <<alive, ended, nick, pnicks, cur, conf, viol, notes>>

Last ==
    /\ l = N + 1
    /\ l' = N + 2
    /\ Finish

Next == Step \/ Last
Spec == Init /\ [][Next]_vars

\* high-water marks: 1 = furthest record reached at all, 2 = furthest reached with everything explained
Mark ==
    /\ (l > TLCGet(1)) => TLCSet(1, l)
    /\ (conf /\ l > TLCGet(2)) => TLCSet(2, l)
    /\ (l = N + 2) => PrintT(<<"RESULT", [viol |-> viol, notes |-> notes, conf |-> conf]>>)

Post == PrintT(<<"HWM", TLCGet(1), TLCGet(2), N>>)
=============================================================================
