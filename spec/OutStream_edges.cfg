\* C08 edge cover: one behaviour per transition of the complete state graph of a
\* tiny instance (ids 1..2, one adder, one deleter, one reader, one thread for
\* Get / Interrupt / cancel); every behaviour is replayed on the real code and
\* compared step by step with the projected post states.
SPECIFICATION Spec
CONSTANTS
  MaxId = 2
  Threads = {1, 2, 3, 5}
  Adders = {1}
  Deleters = {2}
  Readers = {3}
  Getters = {5}
  Interrupters = {5}
  Fixed = TRUE
  LockedInterrupt = TRUE
  Contig = TRUE
  KeepHist = 2
VIEW NoHistView
ACTION_CONSTRAINT EdgeOut
CHECK_DEADLOCK FALSE
