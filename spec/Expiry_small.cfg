\* thorough: two nodes, one client, a services link with one pseudo-client, longer horizon; safety, exhaustive
SPECIFICATION Spec
CONSTANTS
    n1 = n1  n2 = n2  n3 = n3  c1 = c1  c2 = c2  k1 = k1  p1 = p1
    Nodes = {n1, n2}
    Clients = {c1}
    Links = {k1}
    Pseudo = {p1}
    Owner <- MCOwner
    Interval = 2
    Exps = {1, 2}
    InitExp = 1
    MaxTime = 4
    MaxLag = 1
    MaxChanges = 1
    MaxPend = 1
    MaxConfigs = 1
    MaxRestores = 0
    StaleRef = FALSE
    None = None
SYMMETRY SymNodes2
INVARIANTS TypeOK OnlyIdleExpire ActiveNeverExpires SweepsAllIdle ExpiredSessionGone NickUnique
PROPERTIES FollowersNeverPropose
CHECK_DEADLOCK FALSE
