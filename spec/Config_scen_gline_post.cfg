\* C16 scenario (exhaustive over the arguments): operator config, two sessions,
\* GLINE, an accepted post of every [Banned] kind (absent / empty / listed / re-post),
\* battery on the live node, snapshot folding the post, restart (+ observer replicas).
SPECIFICATION SpecGlineThenPost
CONSTANTS
  Users = {"u1", "u2"}
  Chans = {}
  Bodies = {"A", "Ae", "Ab", "R"}
  HdrKinds = {"cur"}
  Vias = {"d", "b1:a1"}
  Creds = {"o1"}
  InjectRevs = {"same"}
  MaxSteps = 11
  MaxRej = 0
  MaxSnap = 1
  MaxRestart = 1
  MaxInject = 0
  MaxBattery = 1
  MaxCfg = 2
  FixedF5 = FALSE
  RecordHist = TRUE
INVARIANTS ReplicasSameConfig ExpirationFollowsConfig GlineIsConfig ExportBehaviours
CHECK_DEADLOCK FALSE
