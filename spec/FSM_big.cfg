\* Exhaustive bookkeeping model, thorough tier: <= 4 entries after the CreateSession,
\* timestamps {0, 3, 4}, <= 2 raft-internal gaps, <= 3 snapshots (measured: 2,543,543
\* distinct states, 3 min 12 s with 4 workers).
SPECIFICATION Spec
CONSTANTS
    Alphabet <- AlphaBook
    TS = {0, 3, 4}
    Nows = {61, 64, 70}
    Prelude <- PreludeSess
    DefaultExp = 60
    Grace = 1
    MaxLen = 5
    MaxGaps = 2
    MaxSnaps = 3
    MaxFails = 1
    MaxRestarts = 1
    MaxRestores = 1
    MaxPanics = 0
    FixF2 = TRUE
    FixF3 = TRUE
    InitEnc = "proto"
    MaxMigrations = 0
VIEW view
INVARIANTS
    TypeOK
    StateIsFullReplay
    RestoreEqualsReplay
    LssSound
    NextBaseFound
    FoldedXorRetained
    OutputIffRetained
    HorizonRespected
    ExpInForce
    ModOnlyPanicking
    ModSkippedEverywhere
    ModProgress
    EncUniform
    SnapshotsReadable
CHECK_DEADLOCK FALSE
