\* liveness of catching up (quick): weak fairness of raft, the FSMs, restarts and the request handling
SPECIFICATION FairSpec
CONSTANTS
    Nodes = {1, 2, 3}
    MaxLog = 1
    MaxCrash = 1
    MaxSpurious = 0
    MaxHops = 2
    FixedLeaderLag = TRUE
INVARIANTS TypeOK
PROPERTIES EventuallyCaughtUp
CHECK_DEADLOCK FALSE
