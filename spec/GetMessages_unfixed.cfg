\* C04 exhaustive: PINNED getMessages (Fixed = FALSE): DeliveredIsPrefix is EXPECTED to be violated (F6);
\* documents the defect at design level, not used for verdicts.
\* 2 nodes, 3 batches of 1..3 replies with every recipient pattern (14^3 batch
\* sequences), every lag, 3 connections, disconnect at every point.
CONSTANTS
  Nodes = {1, 2}
  MaxBatches = 3
  MaxReplies = 3
  MaxReconnects = 3
  Fixed = FALSE
  Hist = FALSE
SPECIFICATION Spec
VIEW View
INVARIANTS
  TypeOK
  DeliveredIsPrefix
  ClastOK

