\* C09 trace validation: property predicates (P_*), implementation-model
\* predicates (D_*) and machinery checks (M_*) on every recorded state.
\* Run with -workers 1 (POSTCONDITION uses TLCGet("distinct")).
SPECIFICATION Spec
INVARIANTS
    TypeOK M_Tables M_Shape
    P_OpOk P_FirstIndex P_LastIndex P_GetLogHole P_GetLogEntry
    P_ConvOnlyAfterConversion P_StableGet P_StableGetUint64 P_NoShadow
    D_ConvExact D_ValueEnc
POSTCONDITION Accepted
CHECK_DEADLOCK TRUE
