\* Trace validation: the recorded history of real binaries - membership changes,
\* late joiners and their InstallSnapshot included - (trace.ndjson next to
\* the spec) must be a behaviour of ClusterTrace, and every predicate below is
\* evaluated on the recorded states. Run with -workers 1. A deadlock = the
\* recorded streams cannot be merged (the trace is not explained by the spec).
SPECIFICATION Spec
INVARIANTS
  AckedDurable
  AckedExactlyOnce
  AckedInOrder
  AppliedPrefixAgreement
  StreamsAgree
  DeliveredInSenderOrder
  NoDuplicateDelivery
  DeliveredMatchesLog
  FinalComplete
  FinalInSenderOrder
  FinalsEqual
  ResumedIsPrefixOfFinal
  StaleIsPrefix
  StatesEqual
  Stats
ALIAS Alias
CHECK_DEADLOCK TRUE
