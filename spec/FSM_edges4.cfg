\* Edge cover, thorough tier: <= 3 entries after the CreateSession (46,010 edges).
SPECIFICATION Spec
CONSTANTS
    Alphabet <- AlphaBook
    TS = {0, 4}
    Nows = {64, 70}
    Prelude <- PreludeSess
    DefaultExp = 60
    Grace = 1
    MaxLen = 4
    MaxGaps = 1
    MaxSnaps = 2
    MaxFails = 1
    MaxRestarts = 1
    MaxRestores = 1
    MaxPanics = 0
    FixF2 = TRUE
    FixF3 = TRUE
    InitEnc = "proto"
    MaxMigrations = 0
VIEW view
INVARIANTS
    TypeOK
    StateIsFullReplay
    RestoreEqualsReplay
    LssSound
    NextBaseFound
    FoldedXorRetained
    OutputIffRetained
    HorizonRespected
    ExpInForce
    ModOnlyPanicking
    ModSkippedEverywhere
    ModProgress
    EncUniform
    SnapshotsReadable
ACTION_CONSTRAINT EmitEdge
CHECK_DEADLOCK FALSE
