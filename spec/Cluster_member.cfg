\* membership (a): 3 nodes, ONE initial member, 3 joins (one of them a re-join after the part), 1 part, 1 kill, 1 compacting snapshot (TrailingLogs = 0: late joiners need InstallSnapshot), 1 client x 2 posts
\* Exhaustive, idealised duplicate test (F7 = FALSE): every invariant must hold.
\* Nodes are model values and symmetric; the history variable is outside the VIEW.
SPECIFICATION Spec
CONSTANTS
  Nodes = {n1, n2, n3}
  Clients = {1}
  MaxCmid = 2
  MaxKills = 1
  MaxSnaps = 1
  MaxLeaderChanges = 0
  MaxPauses = 0
  MaxFails = 0
  F7 = FALSE
  InitSize = 1
  MaxJoins = 3
  MaxParts = 1
  Trailing = 0
VIEW view
SYMMETRY NodeSymmetry
INVARIANTS
  TypeOK
  LeaderComplete
  CommittedOnMajority
  AckedDurable
  AppliedPrefixAgreement
  StreamsAgree
  AckedExactlyOnce
  AckedInOrder
  EqualAtQuiescence
PROPERTIES
  LogGrows
  AckOnlyAfterApply
  SingleServerChanges
  RestoredStateIsPrefix
CHECK_DEADLOCK FALSE
