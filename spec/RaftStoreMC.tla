---------------------------- MODULE RaftStoreMC ----------------------------
(***************************************************************************)
(* Model-checking front end of RaftStore.tla: the finite choice sets the   *)
(* configurations RaftStore_tiny.cfg / RaftStore_small.cfg (exhaustive)    *)
(* and RaftStore_sim.cfg (simulation) substitute for the CONSTANTS (a cfg  *)
(* file cannot write tuples).  Kept apart from RaftStore.tla so that the   *)
(* trace specification does not pay for evaluating them.                   *)
(***************************************************************************)
EXTENDS RaftStore

Succ(i) == IF \E j \in Idx : j > i THEN Min({j \in Idx : j > i}) ELSE i

Encs == {"json", "proto"}
NoChoice == {}

---------------------------------------------------------------------------
\* tiny (quick tier): 3 index ranks 1,3,5 with the gap ranks 0,2,4,6 as
\* DeleteRange bounds
TinyIdx    == {1, 3, 5}
TinyBounds == 0..6
TinyCmd(i)  == <<i, 1, 0, 2, 0, 0>>                \* command, JSON message (Id 0)
TinyNoop(i) == <<i, 2, 1, 6, 1, 2>>                \* noop, binary, ext, time
TinyEntries == {TinyCmd(i) : i \in TinyIdx} \cup {TinyNoop(3)}
TinySeqs    == { <<TinyCmd(1), TinyNoop(3)>> }
TinyProtos  == { <<5, 2, 0, 3, 1, 0, 1>> }         \* message-of-death path: JSON data
                                                   \* in a 'p' value, AppendedAt unset
\* all lo <= hi with lo on/below and hi on/above an index rank, + two inverted
TinyRanges  == {r \in {0, 1, 2, 3, 5} \X {1, 3, 4, 5, 6} : r[1] <= r[2]}
               \cup {<<4, 2>>, <<5, 1>>}

---------------------------------------------------------------------------
\* small (thorough tier): same ranks; both shapes at every index, a batch with
\* two further shapes ('p' message with Id 0; configuration entry without data),
\* every lo <= hi bound pair
SmallIdx    == {1, 3, 5}
SmallBounds == 0..6
SmallEntries == {TinyCmd(i) : i \in SmallIdx} \cup {TinyNoop(i) : i \in SmallIdx}
SmallSeqs    == { << <<1, 4, 0, 4, 2, 5>>, <<3, 3, 5, 1, 0, 4>> >> }
SmallProtos  == { <<5, 2, 0, 3, 1, 0, 1>> }
SmallRanges  == {r \in SmallBounds \X SmallBounds : r[1] <= r[2]} \cup {<<4, 2>>, <<6, 0>>}

---------------------------------------------------------------------------
\* sim (see RaftStoreSim.tla): 5 index ranks, 1,2 and 6,7 adjacent
SimIdx    == {1, 2, 4, 6, 7}
SimBounds == 0..8

=============================================================================
