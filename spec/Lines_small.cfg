\* C15 exhaustive, repaired pipeline: every input x up to MaxX symbols in every frame x sender state.
\* Scaled down: fixed runs 1-2 bytes, MaxLen 10 (real: 510), MaxUser 2 (real: see LinesTrace.cfg).
SPECIFICATION Spec
CONSTANTS
  MaxLen = 10
  FixSanitise = TRUE
  MaxUser = 2
  FixUtf8 = TRUE
  MaxX = 3
INVARIANTS TypeOK OneLine NoInjection EntryClean
CHECK_DEADLOCK FALSE
