-------------------------- MODULE TimeGuard_proof --------------------------
(***************************************************************************)
(* C19, unbounded part: the soundness argument of the time safeguard for   *)
(* ALL integers (every offset of either sign, every pair of delays, every  *)
(* start time, every election timeout), proved with TLAPS about the very   *)
(* definitions TLC enumerates on the grid (module TimeGuard).              *)
(*                                                                         *)
(*   tlapm --cleanfp -I <dir of TimeGuard.tla> TimeGuard_proof.tla         *)
(***************************************************************************)
EXTENDS TimeGuard, TLAPS

(***************************************************************************)
(* The arithmetic core.  For a peer that answered, the measured worst-case *)
(* drift |d1 + delta| + (d1 + d2) bounds the true offset |delta|.          *)
(***************************************************************************)
LEMMA DriftBoundsOffset ==
    ASSUME NEW delta \in Int, NEW d1 \in Int, NEW d2 \in Int,
           d1 >= 0, d2 >= 0
    PROVE  Abs(delta) <= Abs(d1 + delta) + (d1 + d2)
<1>1. CASE d1 + delta < 0
    <2>1. CASE delta < 0
        BY <1>1, <2>1, Z3 DEF Abs
    <2>2. CASE ~(delta < 0)
        BY <1>1, <2>2, Z3 DEF Abs
    <2>3. QED BY <2>1, <2>2
<1>2. CASE ~(d1 + delta < 0)
    <2>1. CASE delta < 0
        BY <1>2, <2>1, Z3 DEF Abs
    <2>2. CASE ~(delta < 0)
        BY <1>2, <2>2, Z3 DEF Abs
    <2>3. QED BY <2>1, <2>2
<1>3. QED BY <1>1, <1>2

(***************************************************************************)
(* The lemma of DESIGN.md:  Accept => Abs(delta) < ET                      *)
(***************************************************************************)
LEMMA AcceptImpliesSmallOffset ==
    ASSUME NEW delta \in Int, NEW d1 \in Int, NEW d2 \in Int, NEW et \in Int,
           d1 >= 0, d2 >= 0,
           Abs(d1 + delta) + (d1 + d2) < et
    PROVE  Abs(delta) < et
<1>1. Abs(delta) <= Abs(d1 + delta) + (d1 + d2)
    BY DriftBoundsOffset
<1>2. Abs(delta) \in Int /\ Abs(d1 + delta) \in Int
    BY Z3 DEF Abs
<1>3. QED BY <1>1, <1>2, Z3

(***************************************************************************)
(* The same statement about the operators of the specification: the        *)
(* worst-case drift of Measurement(start, delta, d1, d2) is the expression *)
(* of the lemma, whatever the start time.                                  *)
(***************************************************************************)
LEMMA MeasuredDrift ==
    ASSUME NEW start \in Int, NEW delta \in Int, NEW d1 \in Int, NEW d2 \in Int
    PROVE  WorstCaseDrift(Measurement(start, delta, d1, d2))
             = Abs(d1 + delta) + (d1 + d2)
<1> DEFINE m == Measurement(start, delta, d1, d2)
<1>1. m.result - m.start = d1 + delta
    BY Z3 DEF Measurement
<1>2. m.end - m.start = d1 + d2
    BY Z3 DEF Measurement
<1>3. QED BY <1>1, <1>2 DEF WorstCaseDrift

THEOREM MeasurementSound ==
    ASSUME ET \in Int,
           NEW start \in Int, NEW delta \in Int, NEW d1 \in Int, NEW d2 \in Int,
           d1 >= 0, d2 >= 0,
           ~TooFar(Measurement(start, delta, d1, d2))
    PROVE  Abs(Measurement(start, delta, d1, d2).delta) < ET
<1>1. WorstCaseDrift(Measurement(start, delta, d1, d2)) = Abs(d1 + delta) + (d1 + d2)
    BY MeasuredDrift
<1>2. Abs(d1 + delta) \in Int
    BY Z3 DEF Abs
<1>3. Abs(d1 + delta) + (d1 + d2) < ET
    BY <1>1, <1>2, Z3 DEF TooFar
<1>4. Abs(delta) < ET
    BY <1>3, AcceptImpliesSmallOffset
<1>5. Measurement(start, delta, d1, d2).delta = delta
    BY DEF Measurement
<1>6. QED BY <1>4, <1>5

(***************************************************************************)
(* The decision: for a call with ANY number of peers, if                   *)
(* synchronizedWithNetwork lets the node join with the safeguard active,   *)
(* every peer that answered is truly closer than ET (the predicate PSound  *)
(* that TLC checks as the invariant Sound and that the trace specification *)
(* evaluates on the decisions of the real code).                           *)
(***************************************************************************)
IsMeasurement(m) ==
    \/ m = NoAnswer
    \/ \E start \in Int, delta \in Int, d1 \in Nat, d2 \in Nat :
          m = Measurement(start, delta, d1, d2)

THEOREM DecisionSound ==
    ASSUME ET \in Int,
           NEW ms, NEW disabled \in BOOLEAN,
           \A i \in 1..Len(ms) : IsMeasurement(ms[i])
    PROVE  PSound(ms, disabled, Decision(ms, disabled).verdict,
                                Decision(ms, disabled).named)
<1> SUFFICES ASSUME Decision(ms, disabled).verdict = "join", ~disabled,
                    NEW i \in NonZero(ms)
             PROVE  Abs(ms[i].delta) < ET
    BY DEF PSound
<1>1. TimeInSync(ms, NonZero(ms))
    BY DEF Decision
<1>2. ~TooFar(ms[i])
    BY <1>1 DEF TimeInSync
<1>3. i \in 1..Len(ms) /\ ~ms[i].zero
    BY DEF NonZero
<1>4. ms[i] # NoAnswer
    BY <1>3 DEF NoAnswer
<1>5. PICK start \in Int, delta \in Int, d1 \in Nat, d2 \in Nat :
          ms[i] = Measurement(start, delta, d1, d2)
    BY <1>3, <1>4 DEF IsMeasurement
<1>6. d1 \in Int /\ d2 \in Int /\ d1 >= 0 /\ d2 >= 0
    BY Z3
<1>7. QED BY <1>2, <1>5, <1>6, MeasurementSound

(***************************************************************************)
(* -disable_timesafeguard never refuses; a refusal names exactly the       *)
(* offenders and at least one (propositional, any number of peers).        *)
(***************************************************************************)
THEOREM DecisionDisabled ==
    ASSUME NEW ms, NEW disabled \in BOOLEAN
    PROVE  PDisabledNeverRefuses(ms, disabled, Decision(ms, disabled).verdict,
                                               Decision(ms, disabled).named)
BY DEF PDisabledNeverRefuses, Decision

THEOREM DecisionNames ==
    ASSUME NEW ms, NEW disabled \in BOOLEAN
    PROVE  PRefusalNamesOffenders(ms, disabled, Decision(ms, disabled).verdict,
                                                Decision(ms, disabled).named)
<1> SUFFICES ASSUME Decision(ms, disabled).verdict = "refuse"
             PROVE  /\ Decision(ms, disabled).named = Offenders(ms)
                    /\ Decision(ms, disabled).named # {}
    BY DEF PRefusalNamesOffenders
<1>1. ~TimeInSync(ms, NonZero(ms)) /\ Decision(ms, disabled).named = Offenders(ms)
    BY DEF Decision
<1>2. PICK i \in NonZero(ms) : TooFar(ms[i])
    BY <1>1 DEF TimeInSync
<1>3. i \in Offenders(ms)
    BY <1>2 DEF Offenders
<1>4. QED BY <1>1, <1>3
=============================================================================
