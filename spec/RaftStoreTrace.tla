-------------------------- MODULE RaftStoreTrace --------------------------
(***************************************************************************)
(* Trace validation for C09.                                               *)
(*                                                                         *)
(* trace.ndjson holds the records written by harness/raftstore while it    *)
(* drove the REAL LevelDBStore: one record per operation (arguments,       *)
(* result code, and ALL observations made right after the operation), many *)
(* programs separated by Reset records.  Every record is consumed by the   *)
(* action of RaftStore.tla with the logged arguments -- the specification  *)
(* is the reference "plain in-memory map" -- and the predicates of         *)
(* property C09 are INVARIANTS of this module, so each of them is          *)
(* evaluated on every recorded state of the implementation:                *)
(*                                                                         *)
(*   P_OpOk        the operation returned no error and did not panic       *)
(*   P_FirstIndex  FirstIndex = least stored index, 0 for the empty log    *)
(*   P_LastIndex   LastIndex  = greatest stored index, 0 for the empty log *)
(*   P_GetLogHole  GetLog of a missing entry is raft.ErrLogNotFound        *)
(*   P_GetLogEntry GetLog of a stored entry returns index, term, type,     *)
(*                 extensions, append time and data as stored (data        *)
(*                 byte-identical, or -- conv -- the same robust.Message)  *)
(*   P_ConvOnlyAfterConversion  conv only for command entries over which a *)
(*                 JSON->proto conversion pass has run since the write     *)
(*   P_StableGet / P_StableGetUint64  last value written (nothing / 0 for  *)
(*                 a key never written)                                    *)
(*   P_NoShadow    a stable-store write changes no log observation and a   *)
(*                 log write changes no stable-store observation           *)
(*                                                                         *)
(* and, at the level of the implementation model only (reported as DRIFT,  *)
(* never as a violation):                                                  *)
(*   D_ConvExact   exactly the entries the model converts were converted   *)
(*   D_ValueEnc    the LevelDB value encoding ('p' or JSON) is the model's *)
(*   M_Tables      the harness tables have the classes the model assumes   *)
(*                                                                         *)
(* The behaviour is a single line (every action is a function of the       *)
(* record), so the trace is accepted iff TLC reaches l = Len(Trace) + 1    *)
(* without invariant violation (POSTCONDITION Accepted, run with 1 worker).*)
(***************************************************************************)
EXTENDS Integers, Sequences, FiniteSets, TLC, Json

VARIABLES logs, stable, enc, open, hist, above,
          l,       \* next record to consume
          dom,     \* index ranks observed by the current program (from its Reset record)
          kdom,    \* key ids observed by the current program
          cpass    \* set of index ranks holding a command entry over which a
                   \* conversion pass (ConvertToProto / Open in proto mode) has run
                   \* since the entry was written

RS == INSTANCE RaftStore WITH
        Idx <- 1..62, Bounds <- 0..63, Keys <- 1..15, BVals <- 1..15, UVals <- 1..15,
        EntryChoices <- {}, SeqChoices <- {}, ProtoChoices <- {}, RangeChoices <- {}, EncChoices <- {}, Above <- {},
        KeepHist <- FALSE, MaxOps <- 0

Trace == ndJsonDeserialize("trace.ndjson")

tvars == <<logs, stable, enc, open, hist, above, l, dom, kdom, cpass>>

LogWrites    == {"StoreLog", "StoreLogs", "StoreLogProto", "DeleteRange"}
StableWrites == {"Set", "SetU"}

EncOf(n) == IF n = 1 THEN "proto" ELSE "json"

Init ==
    /\ RS!Init
    /\ l = 1
    /\ dom = <<>>
    /\ kdom = <<>>
    /\ cpass = {}

Written(ev) ==
    IF ev.ev \in {"StoreLog", "StoreLogs"} THEN {ev.es[j][1] : j \in 1..Len(ev.es)}
    ELSE IF ev.ev = "StoreLogProto" THEN {ev.p[1]}
    ELSE {}

Step ==
    /\ l <= Len(Trace)
    /\ l' = l + 1
    /\ LET ev == Trace[l] IN
       /\ CASE ev.ev = "Reset" ->
                 /\ logs' = RS!EmptyFn /\ stable' = RS!EmptyFn
                 /\ enc' = "none" /\ open' = FALSE /\ hist' = <<>>
            [] ev.ev = "Open"          -> RS!Open(EncOf(ev.enc))
            [] ev.ev = "Close"         -> RS!Close
            [] ev.ev = "Kill"          -> RS!Kill
            [] ev.ev = "StoreLog"      -> RS!StoreLog(ev.es[1])
            [] ev.ev = "StoreLogs"     -> RS!StoreLogs(ev.es)
            [] ev.ev = "StoreLogProto" -> RS!StoreLogProto(ev.p)
            [] ev.ev = "DeleteRange"   -> RS!DeleteRange(ev.lo, ev.hi)
            [] ev.ev = "Set"           -> RS!Set(ev.k, ev.v)
            [] ev.ev = "SetU"          -> RS!SetUint64(ev.k, ev.v)
            [] ev.ev = "Convert"       -> RS!ConvertToProto
       /\ above' = IF ev.ev = "Reset" THEN {ev.above[j] : j \in 1..Len(ev.above)} ELSE above
       /\ dom'  = IF ev.ev = "Reset" THEN ev.dom ELSE dom
       /\ kdom' = IF ev.ev = "Reset" THEN ev.kdom ELSE kdom
       /\ cpass' =
            IF ev.ev = "Reset" THEN {}
            ELSE IF ev.ev = "Convert" \/ (ev.ev = "Open" /\ ev.enc = 1)
                 THEN {i \in DOMAIN logs : logs[i].ty = 0}
            ELSE (cpass \ Written(ev)) \cap DOMAIN logs'

Done == l > Len(Trace) /\ UNCHANGED tvars

Next == Step \/ Done

Spec == Init /\ [][Next]_tvars

---------------------------------------------------------------------------
(* The record just consumed and the domain of its program.                 *)

Cur == Trace[l - 1]
HasObs == l > 1 /\ Cur.ev # "Reset" /\ Cur.o = 1
Obs == Cur.obs

Dom  == dom
KDom == kdom

TypeCode(v) == IF v.t = "b" THEN 1 ELSE IF v.t = "u" THEN 2 ELSE 0

---------------------------------------------------------------------------
(* Property predicates, evaluated on implementation observations.          *)

P_OpOk == (l > 1 /\ Cur.ev # "Reset") => Cur.res = 0

P_FirstIndex == HasObs => (Obs.fr = 0 /\ Obs.first = RS!FirstIndex)
P_LastIndex  == HasObs => (Obs.lr = 0 /\ Obs.last = RS!LastIndex)

P_GetLogHole ==
    HasObs => \A j \in 1..Len(Dom) :
        Dom[j] \notin DOMAIN logs => Obs.gl[j][1] = 1

P_GetLogEntry ==
    HasObs => \A j \in 1..Len(Dom) :
        Dom[j] \in DOMAIN logs =>
            LET g == Obs.gl[j]  e == logs[Dom[j]] IN
            /\ g[1] = 0
            /\ g[2] = Dom[j]      \* Index
            /\ g[3] = e.term      \* Term
            /\ g[4] = e.ty        \* Type
            /\ g[5] = e.d         \* Data: these bytes, or (conv) this message
            /\ g[7] = e.x         \* Extensions
            /\ g[8] = e.at        \* AppendedAt

P_ConvOnlyAfterConversion ==
    HasObs => \A j \in 1..Len(Dom) :
        (Dom[j] \in DOMAIN logs /\ Obs.gl[j][1] = 0 /\ Obs.gl[j][6] = 1) =>
            (Dom[j] \in cpass /\ RS!IsMsg(logs[Dom[j]].d))

P_StableGet ==
    HasObs => \A j \in 1..Len(KDom) :
        LET v == RS!Get(KDom[j]) IN Obs.get[j] = <<TypeCode(v), v.n>>

P_StableGetUint64 ==
    HasObs => \A j \in 1..Len(KDom) :
        LET v == RS!GetUint64(KDom[j]) IN
        v.t = "u" => Obs.getu[j] = <<0, v.n>>

\* the previous record of the same program, if it carries observations
HasPrev == l > 2 /\ Trace[l - 2].ev # "Reset" /\ Trace[l - 2].o = 1
Prev == Trace[l - 2].obs
Vis(g) == <<g[1], g[2], g[3], g[4], g[5], g[6], g[7], g[8]>>

P_NoShadow ==
    (HasObs /\ HasPrev) =>
        /\ Cur.ev \in StableWrites =>
             /\ Obs.first = Prev.first /\ Obs.last = Prev.last
             /\ \A j \in 1..Len(Dom) : Vis(Obs.gl[j]) = Vis(Prev.gl[j])
        /\ Cur.ev \in LogWrites =>
             /\ Obs.get = Prev.get
             /\ Obs.getu = Prev.getu

---------------------------------------------------------------------------
(* Implementation-model level (drift) and machinery.                       *)

D_ConvExact ==
    HasObs => \A j \in 1..Len(Dom) :
        (Dom[j] \in DOMAIN logs /\ Obs.gl[j][1] = 0) =>
            Obs.gl[j][6] = (IF logs[Dom[j]].conv THEN 1 ELSE 0)

D_ValueEnc ==
    HasObs => \A j \in 1..Len(Dom) :
        (Dom[j] \in DOMAIN logs /\ Obs.gl[j][1] = 0) =>
            Obs.gl[j][9] = (IF logs[Dom[j]].venc = "proto" THEN 1 ELSE 0)

M_Tables ==
    (l > 1 /\ Cur.ev = "Reset") =>
        /\ Cur.pclass = RS!PClass
        /\ \A j \in 1..Len(Cur.dom) : Cur.dom[j] \in 1..62
        /\ \A j \in 1..Len(Cur.kdom) : Cur.kdom[j] \in 1..15

M_Shape ==
    HasObs => (Len(Obs.gl) = Len(Dom) /\ Len(Obs.get) = Len(KDom) /\ Len(Obs.getu) = Len(KDom))

TypeOK == RS!TypeOK

Accepted ==
    /\ TLCGet("distinct") = Len(Trace) + 1
    /\ PrintT(<<"ACCEPTED", Len(Trace)>>)

=============================================================================
