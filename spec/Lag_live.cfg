\* liveness of catching up under weak fairness of raft, the FSMs, restarts and the request handling
SPECIFICATION FairSpec
CONSTANTS
    Nodes = {1, 2, 3}
    MaxLog = 2
    MaxCrash = 1
    MaxSpurious = 1
    MaxHops = 2
    FixedLeaderLag = TRUE
INVARIANTS TypeOK
PROPERTIES EventuallyCaughtUp
CHECK_DEADLOCK FALSE
