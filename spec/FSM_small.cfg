\* Exhaustive bookkeeping model (C02), quick tier: one session (CreateSession is the
\* prelude), every log of <= 3 further entries over {line, raft-internal} x
\* timestamps {0, 3, 4} in any order, <= 1 raft-internal gap, all interleavings of
\* Apply / SnapshotTake / PersistOK / PersistFail / Restore / Restart / Tick,
\* <= 2 snapshots, <= 1 persist failure, <= 1 restart, <= 1 live restore.
\* Repaired behaviour (FixF2 = FixF3 = TRUE).  Measured: 109,434 distinct states.
\* Cutoffs (now - 60 - 1): now 61 -> 0, 64 -> 3, 70 -> everything old.
SPECIFICATION Spec
CONSTANTS
    Alphabet <- AlphaBook
    TS = {0, 3, 4}
    Nows = {61, 64, 70}
    Prelude <- PreludeSess
    DefaultExp = 60
    Grace = 1
    MaxLen = 4
    MaxGaps = 1
    MaxSnaps = 2
    MaxFails = 1
    MaxRestarts = 1
    MaxRestores = 1
    MaxPanics = 0
    FixF2 = TRUE
    FixF3 = TRUE
    InitEnc = "proto"
    MaxMigrations = 0
VIEW view
INVARIANTS
    TypeOK
    StateIsFullReplay
    RestoreEqualsReplay
    LssSound
    NextBaseFound
    FoldedXorRetained
    OutputIffRetained
    HorizonRespected
    ExpInForce
    ModOnlyPanicking
    ModSkippedEverywhere
    ModProgress
    EncUniform
    SnapshotsReadable
CHECK_DEADLOCK FALSE
