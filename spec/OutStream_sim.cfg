\* C08 behaviour generation: tlc -simulate num=N -depth D; every behaviour is
\* printed with the projected post state of each step (KeepHist = 2) and
\* replayed on the real code.  Same scope as OutStream_small.cfg but ids 1..4
\* with gaps allowed.
SPECIFICATION Spec
CONSTANTS
  MaxId = 4
  Threads = {1, 2, 3, 4, 5}
  Adders = {1}
  Deleters = {2}
  Readers = {3, 4}
  Getters = {5}
  Interrupters = {5}
  Fixed = TRUE
  LockedInterrupt = TRUE
  Contig = FALSE
  KeepHist = 2
INVARIANTS
  DbInv
  NoCrash
  NextCorrect
  EmptyOnlyCancelled
  EmptyMeansNone
  GetExact
  QuiescentLive
  ParkedNoSucc
  ParkedNotCw
  BehaviourOut
CHECK_DEADLOCK FALSE
