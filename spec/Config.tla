------------------------------ MODULE Config ------------------------------
(***************************************************************************)
(* C16 -- network configuration: only valid current-revision updates take  *)
(* effect, the same on every node; GLINE bans are replicated configuration. *)
(*                                                                         *)
(* Structure follows the code, one action per linearisation point:         *)
(*   PostConfig   internal/api/postconfig.go handlePostConfig + applyConfig *)
(*                (header parse -> TOML check -> [leader] -> revision test  *)
(*                against the HANDLING node's applied config -> propose)    *)
(*   ApplyEntry   statemachine.go applyRobustMessage: the pure transition   *)
(*                function every node runs for every log entry -- the live  *)
(*                node (FSM.Apply), a follower replaying the log, and       *)
(*                FSM.Snapshot folding old entries into a temporary server  *)
(*   Commit       FSM.Apply/applyProto on the live node, incl. the update   *)
(*                of FSM.sessionExpirationDur (REPAIRED behaviour, F3/F18:  *)
(*                always the expiration of the config in force on the node) *)
(*   Snapshot     FSM.Snapshot: fold all-but-last / nothing, Marshal        *)
(*   Restart      FSM.Restore of the newest snapshot + replay of the tail   *)
(*   Create/Msg/Delete  client traffic whose outcome depends on the config  *)
(*                (session limit, trusted bridge -> effective address ->    *)
(*                ban, captcha-for-login, OPER, channel limit, GLINE)       *)
(*   Inject       a Config entry that did not pass the handler (invalid     *)
(*                body, arbitrary revision)                                 *)
(*                                                                         *)
(* Three copies of the replicated state are carried along:                 *)
(*   live  the node that serves the API                                     *)
(*   full  what a follower that applied every entry from the start has      *)
(*   base, fold, lastE   the snapshot lineage: `base` = the state the       *)
(*         newest snapshot serialised (FSM.lastSnapshotState), `fold` =     *)
(*         base with every later entry but the newest (`lastE`) applied; a  *)
(*         node that is restored from the snapshot and replays the tail     *)
(*         ends in ApplyEntry(fold, lastE)                                  *)
(* F5 (known finding) is modelled in Marshal: WhitelistedOrigins are not    *)
(* serialised (FixedF5 = FALSE).  Repaired behaviour is modelled for        *)
(*   F3   Restore re-establishes FSM.sessionExpirationDur,                   *)
(*   F18  folding an old Config entry in Snapshot leaves it alone,           *)
(*   F19  capKey = "" stands for a nil AND for an empty CaptchaHMACSecret    *)
(*        (Unmarshal and the GET/POST round trip turn nil into empty;        *)
(*        captchaConfigured() must treat both alike).                        *)
(* The model has no process-global state: on the unchanged tree only the    *)
(* servers that never got a Config entry share the Banned map of             *)
(* config.DefaultConfig (NewIRCServer copies the struct), and GLINE needs an *)
(* operator, hence a posted config with its own fresh map.  State that leaks *)
(* through such a shared map shows up as bans/fields that survive an         *)
(* accepted update or as replicas that disagree (scenario specifications).   *)
(***************************************************************************)
EXTENDS Integers, Sequences, FiniteSets, TLC, Json

CONSTANTS Users,        \* session aliases
          Chans,        \* channel names
          Bodies,       \* ids of the POST /config bodies in play (subset of AllBodies)
          HdrKinds,     \* spellings of X-RobustIRC-Config-Revision in play
          Vias,         \* how a client reaches the node: "d" | "<bridge>:<addr>"
          Creds,        \* OPER credentials tried
          InjectRevs,   \* "same" | "zero" | "plus3"
          MaxSteps, MaxRej, MaxSnap, MaxRestart, MaxInject, MaxCfg, MaxBattery,
          FixedF5,      \* TRUE: Marshal keeps WhitelistedOrigins
          RecordHist    \* TRUE: keep the history for behaviour export

VARIABLES live, fsmExp, base, fold, lastE, full, home, last, hist, n, cnt
vars == <<live, fsmExp, base, fold, lastE, full, home, last, hist, n, cnt>>

None == [none |-> TRUE]

(* ----------------------------- config bodies ---------------------------- *)
(* Abstract projection of config.Network (what FromString yields).         *)
Base == [ops |-> {}, svc |-> {}, maxS |-> 0, maxC |-> 0, exp |-> 0,
         capUrl |-> "", capKey |-> "", capLogin |-> FALSE,
         bridges |-> {}, origins |-> {}, banned |-> {}]

ValidBodies   == {"P", "A", "Ae", "Ab", "Ah", "Af", "B", "Bu", "C", "Cn", "Ce", "D", "E", "Z"}
InvalidBodies == {"Xsyn", "Xtype", "Xdur", "Xhex", "Xbig"}
AllBodies     == ValidBodies \cup InvalidBodies \cup {"R"}   \* "R" = re-post of what GET /config returned

ProjA == [Base EXCEPT !.exp = 30, !.ops = {"o1"}, !.svc = {"s1"}, !.maxS = 2, !.maxC = 1,
                      !.bridges = {"b1"}, !.origins = {"g1"}]
ProjC == [Base EXCEPT !.exp = 60, !.ops = {"o2"}, !.maxS = 1, !.origins = {"g2"}, !.banned = {"a1"}]

Proj(b) ==
    CASE b = "P" -> [Base EXCEPT !.exp = 30]
      [] b = "A" -> ProjA
      [] b = "Ae" -> ProjA                                      \* A + an empty [Banned] table
      [] b = "Ab" -> [ProjA EXCEPT !.banned = {"a1"}]           \* A + [Banned] listing a1
      [] b = "Af" -> ProjA                                      \* A + a second origin listed with the value false
      [] b = "Ah" -> ProjA                                      \* A with > 1 MiB of comments in front of its tables
      [] b = "Bu" -> [Base EXCEPT !.exp = 60, !.ops = {"o1", "o2"}, !.svc = {"s2"}, !.maxC = 2,
                                  !.capUrl = "u2", !.capKey = "k1",   \* B with a CaptchaURL that net/url rejects
                                  !.bridges = {"b1"}, !.origins = {"g1", "g2"}, !.banned = {"a2"}]
      [] b = "B" -> [Base EXCEPT !.exp = 60, !.ops = {"o1", "o2"}, !.svc = {"s2"}, !.maxC = 2,
                                 !.capUrl = "u1", !.capKey = "k1",
                                 !.bridges = {"b1"}, !.origins = {"g1", "g2"}, !.banned = {"a2"}]
      [] b = "C" -> ProjC
      [] b = "Cn" -> [ProjC EXCEPT !.banned = {}]               \* C without any [Banned] table
      [] b = "Ce" -> [ProjC EXCEPT !.banned = {}]               \* C with an empty [Banned] table
      [] b = "D" -> [Base EXCEPT !.exp = 30, !.ops = {"o1"}, !.svc = {"s1", "s2"}, !.capUrl = "u1",
                                 !.bridges = {"b1"}, !.banned = {"l"}]
      [] b = "E" -> [Base EXCEPT !.exp = 45, !.ops = {"o1"}, !.capUrl = "u1", !.capKey = "k1", !.capLogin = TRUE,
                                 !.origins = {"g1"}]
      [] b = "Z" -> Base
      [] OTHER   -> Base

(* The [Banned] table of a body is an explicit dimension: config.FromString *)
(* starts from a zero Network and makes a fresh empty map when the TOML has *)
(* none, so "absent", "empty" and "listed" all REPLACE the bans in force     *)
(* (GLINE'd or listed earlier); only "same" (the re-post of GET /config)     *)
(* carries them over.  Otherwise-identical bodies: A/Ae/Ab, Cn/Ce/C.         *)
BannedKind(b) ==
    CASE b \in {"P", "A", "Ah", "Af", "Cn", "E", "Z"} -> "absent"
      [] b \in {"Ae", "Ce"}              -> "empty"
      [] b \in {"Ab", "B", "Bu", "C", "D"} -> "listed"
      [] b = "R"                         -> "same"
      [] OTHER                           -> "invalid"

(* handlePostConfig: toml.DecodeReader into config.Network; the FSM:        *)
(* config.FromString -- the same decoder, kept as two predicates.           *)
HandlerValid(b) == b \in ValidBodies \cup {"R"}
FsmValid(b)     == b \in ValidBodies \cup {"R"}

(* strconv.ParseUint(header, 0, 64): -1 = error. "curHex" 0x.., "curOct"    *)
(* 0.. (base 0!) denote the current revision (revisions stay below 8).      *)
HdrVal(kind, rev) ==
    CASE kind \in {"cur", "curHex", "curOct", "lead"} -> rev    \* "lead": leading blank, trimmed by net/http
      [] kind = "stale"  -> rev - 1           \* "-1" for rev 0: a syntax error
      [] kind = "future" -> rev + 1
      [] kind = "far"    -> rev + 7
      [] OTHER -> -1                          \* missing garbage neg float space (inner blank) plus huge

(* ------------------------ the replicated state -------------------------- *)
NoSess == [st |-> "none", oper |-> FALSE, addr |-> "", chans |-> {}]
LiveSt == {"fresh", "in", "stuck"}
S0 == [cfg |-> [Base EXCEPT !.exp = 10], rev |-> 0, sess |-> [u \in Users |-> NoSess]]

Alive(S)    == {u \in Users : S.sess[u].st \in LiveSt}
Existing(S) == UNION {S.sess[u].chans : u \in Alive(S)}
Gone(S, u)  == [S EXCEPT !.sess[u] = [@ EXCEPT !.st = "gone", !.oper = FALSE, !.chans = {}]]

ViaBr(v)   == CASE v = "b1:a1" -> "b1" [] v = "b1:a2" -> "b1" [] v = "bx:a1" -> "bx" [] OTHER -> ""
ViaAddr(v) == CASE v = "b1:a1" -> "a1" [] v = "b1:a2" -> "a2" [] v = "bx:a1" -> "a1" [] OTHER -> "l"
(* postmessage.go: X-Forwarded-For counts only behind a bridge the HANDLING *)
(* node's config trusts; the result travels in the log entry.               *)
EffAddr(v, cfg) == IF ViaBr(v) \in cfg.bridges THEN ViaAddr(v) ELSE "l"

ApplyMsg(S, e) ==
    LET u == e.s
        x == S.sess[u]
    IN  IF x.st \notin LiveSt THEN S
        ELSE LET moved == e.addr # x.addr
                 S1 == [S EXCEPT !.sess[u].addr = e.addr]
             IN  IF moved /\ e.addr \in S.cfg.banned THEN Gone(S1, u)     \* ProcessMessage: ERROR :Closing Link
                 ELSE CASE e.cmd = "login" ->
                             IF x.st = "fresh"
                             THEN [S1 EXCEPT !.sess[u].st = IF S.cfg.capLogin THEN "stuck" ELSE "in"]
                             ELSE S1
                        [] e.cmd = "oper" ->
                             IF x.st = "in" /\ e.arg \in S.cfg.ops THEN [S1 EXCEPT !.sess[u].oper = TRUE] ELSE S1
                        [] e.cmd = "join" ->
                             IF x.st = "in" /\ (e.arg \in Existing(S1) \/ S.cfg.maxC = 0
                                                 \/ Cardinality(Existing(S1)) < S.cfg.maxC)
                             THEN [S1 EXCEPT !.sess[u].chans = @ \cup {e.arg}] ELSE S1
                        [] e.cmd = "gline" ->
                             LET y == S1.sess[e.arg] IN
                             IF x.st = "in" /\ x.oper /\ y.st \in {"in", "stuck"} /\ y.addr # ""
                             THEN Gone([S1 EXCEPT !.cfg.banned = @ \cup {y.addr}], e.arg)   \* cmd_gline.go, then KILL
                             ELSE S1
                        [] OTHER -> S1

(* applyRobustMessage *)
ApplyEntry(S, e) ==
    CASE e.t = "create" ->
           IF S.cfg.maxS > 0 /\ Cardinality(Alive(S)) >= S.cfg.maxS THEN S     \* ErrSessionLimitReached
           ELSE [S EXCEPT !.sess[e.s] = [NoSess EXCEPT !.st = "fresh"]]
      [] e.t = "delete" -> IF S.sess[e.s].st \in LiveSt THEN Gone(S, e.s) ELSE S
      [] e.t = "msg"    -> ApplyMsg(S, e)
      [] e.t = "config" -> IF e.valid THEN [S EXCEPT !.cfg = e.proj, !.rev = e.rev]
                           ELSE S                                              \* "Skipping unexpectedly invalid configuration"
      [] OTHER -> S

(* IRCServer.Marshal + Unmarshal *)
Marshal(S) == [S EXCEPT !.cfg.origins = IF FixedF5 THEN @ ELSE {}]

Restored == IF lastE = None THEN fold ELSE ApplyEntry(fold, lastE)

(* what GET /config and the config-dependent behaviour show *)
View(S) == [cfg |-> S.cfg, rev |-> S.rev]

(* ------------------------------- actions -------------------------------- *)
Record(r) ==
    /\ last' = r
    /\ hist' = IF RecordHist THEN Append(hist, r) ELSE hist
    /\ n' = n + 1

(* FSM.Apply on the live node; every other copy applies the same entry.    *)
Commit(e) ==
    /\ live' = ApplyEntry(live, e)
    /\ full' = ApplyEntry(full, e)
    /\ fold' = IF lastE = None THEN fold ELSE ApplyEntry(fold, lastE)
    /\ lastE' = e
    /\ fsmExp' = IF e.t = "config" THEN ApplyEntry(live, e).cfg.exp ELSE fsmExp
    /\ UNCHANGED base

NoCommit == UNCHANGED <<live, full, base, fold, lastE, fsmExp>>

ConfigEntry(rev, b) == [t |-> "config", rev |-> rev, body |-> b, valid |-> FsmValid(b),
                        proj |-> IF b = "R" THEN live.cfg ELSE Proj(b)]

PostResult(hv, b) ==
    IF hv = -1 THEN "badhdr"
    ELSE IF ~HandlerValid(b) THEN "badtoml"
    ELSE IF hv # live.rev THEN "mismatch"
    ELSE "ok"

(* hv: value of the header as ParseUint reads it (-1: error) *)
PostConfigV(kind, hv, b) ==
    LET res == PostResult(hv, b) IN
    /\ IF res = "ok"
       THEN Commit(ConfigEntry(hv + 1, b)) /\ cnt' = [cnt EXCEPT !.cfg = @ + 1]
       ELSE NoCommit /\ cnt' = [cnt EXCEPT !.rej = @ + 1]
    /\ UNCHANGED home
    /\ Record([a |-> "PostConfig", hdr |-> kind, hv |-> hv, body |-> b, res |-> res, prerev |-> live.rev])

PostConfig(kind, b) ==
    /\ PostResult(HdrVal(kind, live.rev), b) = "ok" => cnt.cfg < MaxCfg
    /\ PostResult(HdrVal(kind, live.rev), b) # "ok" => cnt.rej < MaxRej
    /\ PostConfigV(kind, HdrVal(kind, live.rev), b)

InjectRev(k) == CASE k = "same" -> live.rev [] k = "zero" -> 0 [] OTHER -> live.rev + 3

InjectV(rev, b) ==
    /\ Commit(ConfigEntry(rev, b))
    /\ cnt' = [cnt EXCEPT !.inject = @ + 1]
    /\ UNCHANGED home
    /\ Record([a |-> "Inject", rev |-> rev, body |-> b, res |-> IF FsmValid(b) THEN "ok" ELSE "skipped",
               prerev |-> live.rev])

Inject(k, b) == cnt.inject < MaxInject /\ b # "R" /\ InjectV(InjectRev(k), b)

CreateV(u) ==
    /\ Commit([t |-> "create", s |-> u])
    /\ UNCHANGED <<cnt, home>>
    /\ Record([a |-> "Create", s |-> u,
               res |-> IF live.cfg.maxS > 0 /\ Cardinality(Alive(live)) >= live.cfg.maxS THEN "limit" ELSE "ok"])

Create(u) == live.sess[u].st = "none" /\ CreateV(u)

MsgResult(S, e, T) ==
    IF T.sess[e.s].st = "gone" THEN "banned"
    ELSE CASE e.cmd = "login" -> T.sess[e.s].st
           [] e.cmd = "oper"  -> IF e.arg \in S.cfg.ops THEN "ok" ELSE "no"
           [] e.cmd = "join"  -> IF e.arg \in T.sess[e.s].chans THEN "ok" ELSE "limit"
           [] e.cmd = "gline" -> IF ~S.sess[e.s].oper THEN "noprivs"
                                 ELSE IF T.sess[e.arg].st = "gone" /\ S.sess[e.arg].st # "gone" THEN "ok" ELSE "nosuchnick"
           [] OTHER -> "ok"

Msg(u, cmd, arg, via) ==
    LET e == [t |-> "msg", s |-> u, cmd |-> cmd, arg |-> arg, addr |-> EffAddr(via, live.cfg)] IN
    /\ Commit(e)
    /\ home' = [home EXCEPT ![u] = via]
    /\ cnt' = IF cmd = "gline" /\ MsgResult(live, e, ApplyEntry(live, e)) = "ok" THEN [cnt EXCEPT !.g = live.rev] ELSE cnt
    /\ Record([a |-> "Msg", s |-> u, cmd |-> cmd, arg |-> arg, via |-> via, addr |-> e.addr,
               res |-> MsgResult(live, e, ApplyEntry(live, e))])

Login(u, via) == live.sess[u].st = "fresh" /\ Msg(u, "login", "", via)
Oper(u, c)    == live.sess[u].st = "in" /\ ~live.sess[u].oper /\ Msg(u, "oper", c, home[u])
Join(u, ch)   == live.sess[u].st = "in" /\ ch \notin live.sess[u].chans /\ Msg(u, "join", ch, home[u])
Gline(u, t)   == live.sess[u].st = "in" /\ u # t /\ live.sess[t].st # "none" /\ Msg(u, "gline", t, home[u])
Ping(u, via)  == live.sess[u].st = "in" /\ Msg(u, "ping", "", via)

DeleteV(u) ==
    /\ Commit([t |-> "delete", s |-> u])
    /\ UNCHANGED <<cnt, home>>
    /\ Record([a |-> "Delete", s |-> u, res |-> "ok"])

Delete(u) == live.sess[u].st \in LiveSt /\ DeleteV(u)

(* FSM.Snapshot. allButLast: every stored entry but the newest is folded   *)
(* into the base and the base is serialised; none: nothing is old enough.  *)
(* REPAIRED (F18): folding never touches the live FSM's expiration.         *)
SnapshotV(mode, via) ==
    /\ fold' = IF mode = "allButLast" THEN Marshal(fold) ELSE fold
    /\ base' = IF mode = "allButLast" THEN Marshal(fold) ELSE base
    /\ UNCHANGED <<live, full, lastE, fsmExp, home>>
    /\ cnt' = [cnt EXCEPT !.snap = @ + 1]
    /\ Record([a |-> "Snapshot", mode |-> mode, via |-> via, res |-> "ok"])

Snapshot(mode, via) == cnt.snap < MaxSnap /\ SnapshotV(mode, via)

(* New process on the same raft directory: FSM.Restore + replay of the     *)
(* tail. `observe`: two further replicas are built from a copy of the      *)
(* directory first (log replay / snapshot restore) and looked at.          *)
(* REPAIRED (F3): Restore re-establishes the FSM's expiration.              *)
RestartV(observe) ==
    /\ live' = Restored
    /\ fsmExp' = Restored.cfg.exp
    /\ UNCHANGED <<full, base, fold, lastE, home>>
    /\ cnt' = [cnt EXCEPT !.restart = @ + 1]
    /\ Record([a |-> "Restart", observe |-> observe, res |-> "ok"])

Restart(observe) == cnt.restart < MaxRestart /\ RestartV(observe)

Cnt0 == [rej |-> 0, snap |-> 0, restart |-> 0, inject |-> 0, cfg |-> 0, bat |-> 0, g |-> 0]   \* g: revision at the latest successful GLINE
Prelude == [t |-> "config", rev |-> 1, body |-> "P", valid |-> TRUE, proj |-> Proj("P")]

(* Behaviour battery on the live node (harness step cfgbattery): throw-away *)
(* sessions are created, probe OPER / limits / bans / services and are       *)
(* deleted again -- a run of log entries with no net effect on the state     *)
(* (one abstract entry; it moves what a later snapshot folds).               *)
BatteryV ==
    /\ Commit([t |-> "probe"])
    /\ cnt' = [cnt EXCEPT !.bat = @ + 1]
    /\ UNCHANGED home
    /\ Record([a |-> "Battery", res |-> "ok"])

Battery == cnt.bat < MaxBattery /\ BatteryV

Init ==
    LET e == [t |-> "config", rev |-> 1, body |-> "P", valid |-> TRUE, proj |-> Proj("P")] IN
    /\ live = ApplyEntry(S0, e)
    /\ full = ApplyEntry(S0, e)
    /\ base = S0
    /\ fold = S0
    /\ lastE = e
    /\ fsmExp = 30
    /\ home = [u \in Users |-> "d"]
    /\ last = None
    /\ hist = <<>>
    /\ n = 0
    /\ cnt = Cnt0

Next ==
    /\ n < MaxSteps
    /\ \/ \E k \in HdrKinds, b \in Bodies : PostConfig(k, b)
       \/ \E k \in InjectRevs, b \in Bodies : Inject(k, b)
       \/ \E u \in Users : Create(u) \/ Delete(u)
       \/ \E u \in Users, v \in Vias : Login(u, v) \/ Ping(u, v)
       \/ \E u \in Users, c \in Creds : Oper(u, c)
       \/ \E u \in Users, ch \in Chans : Join(u, ch)
       \/ \E u, t \in Users : Gline(u, t)
       \/ \E m \in {"allButLast", "none"}, v \in {"direct", "http"} : Snapshot(m, v)
       \/ \E o \in BOOLEAN : Restart(o)
       \/ Battery

Spec == Init /\ [][Next]_vars

(* ------------------------------ scenarios ------------------------------- *)
(* A scenario fixes WHICH action (and, where given, which command/mode and  *)
(* result) the k-th step is and leaves every argument free; TLC enumerates   *)
(* all behaviours of that shape (Config_scen_*.cfg, RecordHist = TRUE,       *)
(* MaxSteps = length).  Pattern "a", "a:x" (x = cmd or mode), "a:x:res",     *)
(* "a::res".  The shapes are those the random generator rarely reaches and   *)
(* that must always be replayed: state that an accepted update has to        *)
(* REPLACE (bans -- listed or GLINE'd --, operators, services, limits,       *)
(* bridges, origins), looked at on the live node and on both replicas.       *)
Sub(r) == IF "cmd" \in DOMAIN r THEN r.cmd ELSE IF "mode" \in DOMAIN r THEN r.mode ELSE ""
Pats(r) == {r.a, r.a \o ":" \o Sub(r), r.a \o ":" \o Sub(r) \o ":" \o r.res, r.a \o "::" \o r.res}
ScenOK(sc) == n' \in DOMAIN sc /\ (Pats(last') \cap sc[n']) # {}

(* GLINE, then an accepted post (any [Banned] kind), battery on the live     *)
(* node, snapshot that folds the post, restart with observer replicas        *)
ScenGlineThenPost ==
    << {"PostConfig::ok"}, {"Create::ok"}, {"Create::ok"}, {"Msg:login:in"}, {"Msg:login:in"}, {"Msg:oper:ok"},
       {"Msg:gline:ok"}, {"PostConfig::ok"}, {"Battery"}, {"Snapshot:allButLast"}, {"Restart"} >>
(* the post first, the GLINE after it *)
ScenPostThenGline ==
    << {"PostConfig::ok"}, {"Create::ok"}, {"Create::ok"}, {"Msg:login:in"}, {"Msg:login:in"}, {"Msg:oper:ok"},
       {"PostConfig::ok"}, {"Msg:gline:ok"}, {"Battery"}, {"Snapshot:allButLast"}, {"Restart"} >>
(* set X, post a body without X, look *)
ScenReplace ==
    << {"PostConfig::ok"}, {"PostConfig::ok"}, {"Battery"}, {"Create"}, {"Snapshot:allButLast"}, {"Restart"} >>

SpecGlineThenPost == Init /\ [][Next /\ ScenOK(ScenGlineThenPost)]_vars
SpecPostThenGline == Init /\ [][Next /\ ScenOK(ScenPostThenGline)]_vars
SpecReplace       == Init /\ [][Next /\ ScenOK(ScenReplace)]_vars

(* ----------------------------- properties ------------------------------- *)
(* On the model the three copies and the FSM expiration are compared in    *)
(* every reachable state; on the real code the same predicates are         *)
(* evaluated on recorded observations (ConfigTrace.tla).                    *)
CfgKeys == {"ops", "svc", "maxS", "maxC", "exp", "capUrl", "capKey", "capLogin", "bridges", "banned"}
SameButOrigins(c, d) == \A k \in CfgKeys : c[k] = d[k]
SameConfig(c, d, strict) == SameButOrigins(c, d) /\ (strict => c.origins = d.origins)

(* equal applied index => equal config projection *)
ReplicasSameConfig ==
    /\ SameConfig(live.cfg, full.cfg, FixedF5) /\ live.rev = full.rev
    /\ SameConfig(live.cfg, Restored.cfg, FixedF5) /\ live.rev = Restored.rev
    /\ live.sess = full.sess /\ live.sess = Restored.sess

(* the same with WhitelistedOrigins: false while F5 is open (Config_f5.cfg  *)
(* lets TLC exhibit the candidate; the verdict comes from the replay)      *)
ReplicasSameOrigins == live.cfg.origins = full.cfg.origins /\ live.cfg.origins = Restored.cfg.origins

(* F5 only ever LOSES origins *)
OriginsOnlyLost == live.cfg.origins \subseteq full.cfg.origins /\ Restored.cfg.origins \subseteq live.cfg.origins

ExpirationFollowsConfig == fsmExp = live.cfg.exp

(* an accepted post names the revision in force, parses, and raises the   *)
(* revision by exactly one; anything else changes nothing                  *)
ConfigRevisionStep ==
    [][(last'.a = "PostConfig" /\ last'.res = "ok")
         => (live'.rev = live.rev + 1 /\ last'.hv = live.rev /\ FsmValid(last'.body)
             /\ live'.cfg = (IF last'.body = "R" THEN live.cfg ELSE Proj(last'.body)))]_vars
RejectedChangesNothing ==
    [][((last'.a = "PostConfig" /\ last'.res # "ok") \/ (last'.a = "Inject" /\ last'.res = "skipped"))
         => (View(live') = View(live) /\ fsmExp' = fsmExp /\ full' = full /\ Restored' = Restored)]_vars

TypeOK ==
    /\ live.rev \in Nat /\ n \in 0..MaxSteps
    /\ \A u \in Users : live.sess[u].st \in LiveSt \cup {"none", "gone"}
    /\ live.cfg.banned \subseteq {"l", "a1", "a2"}

(* every ban a GLINE added is in the projection of every copy *)
GlineIsConfig ==
    (last # None /\ last.a = "Msg" /\ last.cmd = "gline" /\ last.res = "ok")
        => \E ad \in live.cfg.banned : ad \in full.cfg.banned /\ ad \in Restored.cfg.banned

(* Traps: negated state predicates; TLC's shortest counterexample is a     *)
(* behaviour with a shape the random generator rarely reaches (Config_trap_ *)
(* *.cfg; every body of those configurations is free of bans).              *)
TrapGlineFolded == ~(last # None /\ last.a = "Restart" /\ last.observe /\ base.cfg.banned # {})
TrapGlineRepost == ~(last # None /\ last.a = "Restart" /\ cnt.g > 0 /\ base.rev > cnt.g /\ base.cfg.banned # {})

(* the body table, for the cross-check against the TOML texts of the check *)
ExportTable ==
    /\ TLCGet("distinct") > 0
    /\ JsonSerialize("Config_bodies.json",
          [valid |-> [b \in ValidBodies |-> Proj(b)], invalid |-> InvalidBodies,
           bannedKind |-> [b \in ValidBodies |-> BannedKind(b)]])

(* behaviour export: complete behaviours are printed for the replay *)
ExportBehaviours == (RecordHist /\ n = MaxSteps) => PrintT(<<"BEHAVIOUR", ToJson(hist)>>)
=============================================================================
