\* validation of one recorded scenario (trace.ndjson next to the spec); workers = 1
SPECIFICATION Spec
INVARIANT Mark
POSTCONDITION Post
CHECK_DEADLOCK FALSE
