\* C16 behaviour generation (simulation): all bodies, all header spellings,
\* three sessions, two channels, bridge claims for two addresses and an
\* untrusted bridge, GLINE, injection, snapshots and restarts. Complete
\* behaviours are printed (ExportBehaviours) and replayed on the rig.
SPECIFICATION Spec
CONSTANTS
  Users = {"u1", "u2", "u3"}
  Chans = {"c1", "c2"}
  Bodies = {"A", "Ae", "Ab", "B", "C", "Cn", "Ce", "D", "E", "Z", "R", "Xsyn", "Xtype", "Xdur", "Xhex", "Ah", "Af", "Bu", "Xbig"}
  HdrKinds = {"cur", "curHex", "curOct", "stale", "future", "far", "missing", "garbage", "neg", "float", "space", "lead", "plus", "huge"}
  Vias = {"d", "b1:a1", "b1:a2", "bx:a1"}
  Creds = {"o1", "o2", "ox"}
  InjectRevs = {"same", "zero", "plus3"}
  MaxSteps = 14
  MaxRej = 2
  MaxSnap = 2
  MaxRestart = 2
  MaxInject = 1
  MaxBattery = 2
  MaxCfg = 4
  FixedF5 = FALSE
  RecordHist = TRUE
INVARIANTS TypeOK ReplicasSameConfig OriginsOnlyLost ExpirationFollowsConfig GlineIsConfig ExportBehaviours
PROPERTIES ConfigRevisionStep RejectedChangesNothing
CHECK_DEADLOCK FALSE
