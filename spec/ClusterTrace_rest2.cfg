\* Like ClusterTrace_rest.cfg, for the known shape in which the second copy is a STALE
\* request applied behind newer posts of the same sender (signature
\* stale-retry-after-newer-post): that duplicate is out of the sender's order by its
\* nature, so AckedInOrder is left out as well.
\* Trace validation of a history in which a KNOWN double application (F7) was
\* found: the predicates that the double application implies are left out, all
\* others are still evaluated on the recorded states.
SPECIFICATION Spec
INVARIANTS
  AckedDurable
  AppliedPrefixAgreement
  StreamsAgree
  NoDuplicateDelivery
  DeliveredMatchesLog
  FinalsEqual
  ResumedIsPrefixOfFinal
  StaleIsPrefix
  StatesEqual
  Stats
ALIAS Alias
CHECK_DEADLOCK TRUE
