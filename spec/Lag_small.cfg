\* exhaustive: three nodes, log of up to 4 entries, one crash + restart, one spurious timeout; repaired leader branch
SPECIFICATION Spec
CONSTANTS
    Nodes = {1, 2, 3}
    MaxLog = 4
    MaxCrash = 1
    MaxSpurious = 1
    MaxHops = 2
    FixedLeaderLag = TRUE
INVARIANTS TypeOK NeverGoneWhileAlive GoneOnlyIfDeleted NotYetSeenIsRetryable ServedOnlyByKnowing LookupSound EffectOnlyByLeader
CHECK_DEADLOCK FALSE
