\* C16 behaviour generation, client-traffic focus: every post names the current
\* revision, so the budget goes into sessions, OPER, JOIN, bridge claims, GLINE.
SPECIFICATION Spec
CONSTANTS
  Users = {"u1", "u2", "u3"}
  Chans = {"c1", "c2"}
  Bodies = {"A", "Ae", "Ab", "B", "C", "Cn", "D", "R"}
  HdrKinds = {"cur"}
  Vias = {"d", "b1:a1", "b1:a2", "bx:a1"}
  Creds = {"o1", "o2", "ox"}
  InjectRevs = {"same"}
  MaxSteps = 14
  MaxRej = 0
  MaxSnap = 1
  MaxRestart = 1
  MaxInject = 0
  MaxBattery = 2
  MaxCfg = 2
  FixedF5 = FALSE
  RecordHist = TRUE
INVARIANTS TypeOK ReplicasSameConfig OriginsOnlyLost ExpirationFollowsConfig GlineIsConfig ExportBehaviours
PROPERTIES ConfigRevisionStep RejectedChangesNothing
CHECK_DEADLOCK FALSE
