----------------------------- MODULE ApiAuth -----------------------------
(***************************************************************************)
(* C11 -- Session routes need the session secret; admin routes the network *)
(* password.                                                               *)
(*                                                                         *)
(* The module is the decision procedure of the two HTTP dispatchers of    *)
(* internal/api/api.go, written operator by operator like the code:       *)
(*                                                                         *)
(*   SessionCheck    = HTTP.session(): parse the id, require a             *)
(*                     non-empty X-Session-Auth, GetAuth(id) (ErrNoSuch-   *)
(*                     Session / ErrSessionNotYetSeen), compare.           *)
(*   DecidePublic    = DispatchPublic + sessionOrProxy + the three         *)
(*                     handlers' first decision (single node = leader).    *)
(*   DecidePrivate   = DispatchPrivate (basic auth gate) followed by       *)
(*                     DispatchPrivateWithoutAuth (method/path switch).    *)
(*                                                                         *)
(* One victim session V walks through its life cycle (fresh -> loggedIn -> *)
(* deleted) under correctly authenticated requests; every request of the   *)
(* finite request domain is possible in every state.  TLC enumerates       *)
(* (state x request) exhaustively, checks the two invariants on the        *)
(* decision, and exports the whole table (POSTCONDITION Export); the check *)
(* replays every row against the real dispatchers and validates the        *)
(* recorded responses back with ApiAuthTrace.tla.                          *)
(***************************************************************************)
EXTENDS Integers, Sequences, FiniteSets, TLC, Json, SequencesExt

Methods == {"GET", "POST", "DELETE", "PUT"}
Creds   == {"none", "empty", "wrong", "otherLive", "correct"}
Basics  == {"none", "wrongUser", "wrongPw", "correct"}
(* Life cycle of the victim session V.  An ENDED session is looked up in two *)
(* different ways (ircserver.getSessionLocked compares the id with the last  *)
(* processed message): "quitLast" = V ended with its own QUIT line and       *)
(* nothing newer has been processed since -> ErrSessionNotYetSeen;           *)
(* "deleted" = V ended and a later entry was processed (or it was ended by a *)
(* DeleteSession entry, which is newer than V itself) -> ErrNoSuchSession.   *)
VStates == {"fresh", "loggedIn", "quitLast", "deleted"}
(* The session N that gets the NEXT session id (ids are predictable: raft    *)
(* last index + 1): absent while a request naming it arrives, possibly       *)
(* created -- and given traffic -- while that request is in flight.          *)
NStates == {"absent", "live"}

(* Whom a public request addresses: the victim V, an id that never was a    *)
(* session and is older than the last processed message, an id from the     *)
(* future, or something ParseUint rejects.                                  *)
Targets == {"V", "never", "notyet", "garbage", "next"}

SessStateOf(target, vs, ns) ==
    CASE target = "V"       -> vs
      [] target = "never"   -> "neverExisted"
      [] target = "notyet"  -> "notYetSeen"
      [] target = "next"    -> IF ns = "absent" THEN "notYetSeen" ELSE "fresh"
      [] OTHER              -> "unparsable"

(* Path shapes below the public prefix /robustirc/v1/ (<sid> = target).     *)
PublicShapes == {"session", "sid", "sid/message", "sid/messages", "sid/other", "sid/x/message"}

(* ----- the route table; every literal of the code must be listed here --- *)
PrivateGet        == {"/", "/status", "/status/getmessage", "/status/sessions",
                      "/status/irclog", "/status/state", "/irclog", "/snapshot",
                      "/leader", "/config", "/metrics"}
(* net/http/pprof and expvar (/debug/vars), reachable only through the      *)
(* private dispatcher (fix F15; on the unfixed tree the default mux serves  *)
(* them without any check)                                                  *)
PrivateGetPrefix  == {"/debug/"}
PrivatePost       == {"/join", "/part", "/quit", "/config", "/kill"}
PrivatePostPrefix == {"/raft/"}
PublicPrefix      == "/robustirc/v1/"
PublicLiterals    == {PublicPrefix, "session", "/message", "/messages", "/"}
MuxLiterals       == {PublicPrefix, "/"}
(* literals that appear in path-like positions but are not routes          *)
NonRouteLiterals  == {}
KnownLiterals     == PrivateGet \cup PrivateGetPrefix \cup PrivatePost \cup PrivatePostPrefix \cup PublicLiterals
                     \cup MuxLiterals \cup NonRouteLiterals

(* (literal, enclosing `case http.MethodX`) of every routing decision        *)
RouteMethods ==
    { <<p, "http.MethodGet">> : p \in PrivateGet \cup PrivateGetPrefix }
    \cup { <<p, "http.MethodPost">> : p \in PrivatePost \cup PrivatePostPrefix }
    \cup { <<"session", "http.MethodPost">>, <<"/message", "http.MethodPost">>,
           <<"/messages", "http.MethodGet">>,
           \* strings.Index(sessionId, "/") == -1 in all three public branches
           <<"/", "http.MethodPost">>, <<"/", "http.MethodGet">>, <<"/", "http.MethodDelete">> }

PrivatePaths == PrivateGet \cup PrivatePost \cup {"/raft/AppendEntries", "/raft/Nope", "/nope",
                                                  "/debug/pprof/", "/debug/pprof/cmdline", "/debug/vars"}

(* ------------------------------ requests -------------------------------- *)
PublicReq ==
    { r \in [disp : {"public"}, method : Methods, shape : PublicShapes, target : Targets,
             cred : Creds, basic : {"none", "correct"}] :
        /\ (r.target # "V" => r.cred # "correct")      \* no such secret exists / is known
        /\ (r.shape = "session" => r.target = "V") }   \* target is irrelevant there

PrivateReq ==
    { r \in [disp : {"private"}, method : {"GET", "POST", "DELETE"}, path : PrivatePaths,
             cred : {"none", "correct"}, basic : Basics] :
        r.cred = "correct" => r.basic = "none" }

Requests == PublicReq \cup PrivateReq

(* ------------------------------ decisions ------------------------------- *)
(* api.session(): order of the tests as in the code.                        *)
SessionCheck(target, vs, ns, cred) ==
    IF target = "garbage" THEN "parse"
    ELSE IF cred \in {"none", "empty"} THEN "noheader"
    ELSE IF target = "notyet" \/ (target = "next" /\ ns = "absent") \/ (target = "V" /\ vs = "quitLast") THEN "notyetseen"
    ELSE IF target = "never" \/ (target = "V" /\ vs = "deleted") THEN "nosuch"
    ELSE IF cred = "correct" /\ target = "V" THEN "ok"
    ELSE "badauth"         \* includes every credential for the live N: nobody but N's client has its secret

Resp(status, effect, discloses) == [status |-> status, effect |-> effect, discloses |-> discloses]
NotFound == Resp("404", "none", FALSE)

DecidePublic(r, vs, ns) ==
    LET sc == SessionCheck(r.target, vs, ns, r.cred) IN
    CASE r.method = "POST" /\ r.shape = "session" ->
            Resp("200", "create", FALSE)              \* public by design: new session, new secret
      [] r.method = "POST" /\ r.shape = "sid/message" ->
            \* (the rig's node is the leader: not-yet-seen is answered 500 there since the F21 repair, proxied elsewhere)
            IF sc = "ok" THEN Resp("200", "post", FALSE)
            ELSE IF sc = "notyetseen" THEN Resp("500", "none", FALSE)
            ELSE NotFound
      [] r.method = "GET" /\ r.shape = "sid/messages" ->
            IF sc = "ok" THEN Resp("200", "none", TRUE)
            ELSE IF sc = "notyetseen" THEN Resp("500", "none", FALSE)
            ELSE NotFound
      [] r.method = "DELETE" /\ r.shape \in {"sid", "session"} ->
            \* DELETE /robustirc/v1/session parses "session" as an id and fails
            IF r.shape = "sid" /\ sc = "ok" THEN Resp("200", "delete", FALSE)
            ELSE IF r.shape = "sid" /\ sc = "notyetseen" THEN Resp("500", "none", FALSE)
            ELSE NotFound
      [] OTHER -> NotFound

(* DispatchPrivateWithoutAuth with the harmless bodies the replay sends     *)
(* (empty body, no form values, no revision header).                        *)
DecidePrivateAuthed(r) ==
    CASE r.method = "GET" /\ r.path \in PrivateGet ->
            IF r.path = "/irclog" THEN Resp("400", "none", FALSE)   \* no ?sessionid
            ELSE IF r.path = "/snapshot" THEN Resp("200", "none", FALSE)   \* empty reply
            ELSE Resp("200", "none", TRUE)
      [] r.method = "GET" /\ r.path \in {"/debug/pprof/", "/debug/pprof/cmdline", "/debug/vars"} -> Resp("200", "none", TRUE)
      [] r.method = "POST" /\ r.path = "/raft/AppendEntries" -> Resp("400", "none", FALSE)
      [] r.method = "POST" /\ r.path = "/raft/Nope"          -> Resp("404", "none", FALSE)
      [] r.method = "POST" /\ r.path \in {"/join", "/part", "/config"} -> Resp("400", "none", FALSE)
      [] r.method = "POST" /\ r.path = "/kill" -> Resp("200", "none", FALSE)
      [] r.method = "POST" /\ r.path = "/quit" -> Resp("exit", "none", FALSE)   \* log.Fatalf
      [] OTHER -> NotFound

DecidePrivate(r) ==
    IF r.basic # "correct" THEN Resp("401", "none", FALSE)   \* before any dispatch
    ELSE DecidePrivateAuthed(r)

Decide(r, vs, ns) == IF r.disp = "public" THEN DecidePublic(r, vs, ns) ELSE DecidePrivate(r)

(* V's life cycle: which correctly authenticated requests move it.  kind =  *)
(* what the accepted POST carries: a plain line, the line that completes the *)
(* login (USER after NICK), or QUIT.                                         *)
Kinds == {"plain", "login", "quit"}
NextV(r, vs, resp, kind) ==
    IF r.disp = "public" /\ r.target = "V" /\ resp.effect = "delete" THEN "deleted"
    ELSE IF r.disp = "public" /\ r.target = "V" /\ resp.effect = "post" /\ kind = "quit" THEN "quitLast"
    ELSE IF r.disp = "public" /\ r.target = "V" /\ resp.effect = "post" /\ vs = "fresh" /\ kind = "login" THEN "loggedIn"
    ELSE vs

IsNext(r) == r.disp = "public" /\ r.target = "next"

(* ------------------------------ behaviour ------------------------------- *)
VARIABLES vstate,    \* life cycle of V
          nstate,    \* does the session with the next id exist yet
          inflight,  \* a request naming N that arrived while N was absent, not yet answered
          last       \* the last answered request with its answer
vars == <<vstate, nstate, inflight, last>>
None == [none |-> TRUE]

Init == vstate = "fresh" /\ nstate = "absent" /\ inflight = None /\ last = None

(* A request whose predecessor did not move V leads to a state that differs *)
(* from that predecessor only in `last`; its successors would be the same   *)
(* ones again, so only Init and the states right after a life-cycle change  *)
(* are expanded.  Every (victim state, request) pair is still generated.    *)
Expandable == inflight = None /\ (IF last = None THEN TRUE ELSE last.vs # vstate)

Request(r, kind) ==
    LET resp == Decide(r, vstate, nstate) IN
    /\ Expandable
    /\ IsNext(r) => vstate = "fresh"                  \* V is irrelevant for N: one representative
    /\ last' = [req |-> r, vs |-> vstate, ns |-> nstate, phase |-> "static", resp |-> resp]
    /\ vstate' = NextV(r, vstate, resp, kind)
    /\ UNCHANGED <<nstate, inflight>>

(* Something newer than the ended V is processed: from now on lookups of V  *)
(* answer "no such session".                                                *)
LaterEntry ==
    /\ Expandable /\ vstate = "quitLast"
    /\ vstate' = "deleted" /\ last' = None
    /\ UNCHANGED <<nstate, inflight>>

(* The dispatcher decides when the request ARRIVES (session() is evaluated  *)
(* once, at the top of the handler); nothing re-examines the session later. *)
Arrive(r) ==
    /\ Expandable /\ last = None /\ vstate = "fresh" /\ nstate = "absent"
    /\ IsNext(r)
    /\ inflight' = [req |-> r, resp |-> Decide(r, vstate, nstate)]
    /\ UNCHANGED <<vstate, nstate, last>>

(* N is created (POST .../session by its owner) and gets traffic.           *)
Appear ==
    /\ nstate = "absent" /\ (inflight # None \/ (last = None /\ vstate = "fresh"))
    /\ nstate' = "live"
    /\ UNCHANGED <<vstate, inflight, last>>

Complete ==
    /\ inflight # None
    /\ last' = [req |-> inflight.req, vs |-> vstate, ns |-> nstate, phase |-> "inflight", resp |-> inflight.resp]
    /\ inflight' = None
    /\ UNCHANGED <<vstate, nstate>>

Next ==
    \/ \E r \in Requests :
          \E kind \in (IF r.disp = "public" /\ r.method = "POST" /\ r.shape = "sid/message" /\ r.target = "V"
                        THEN Kinds ELSE {"plain"}) : Request(r, kind)
    \/ LaterEntry
    \/ \E r \in Requests : Arrive(r)
    \/ Appear
    \/ Complete

Spec == Init /\ [][Next]_vars

(* ------------------------------ properties ------------------------------ *)
(* State change, output or disclosure of messages on a session route needs  *)
(* the secret of exactly that (live) session.  POST .../session is public.  *)
EffectNeedsSecretOn(req, vs, resp) ==
    (req.disp = "public" /\ (resp.effect \in {"post", "delete"} \/ resp.discloses))
        => (req.cred = "correct" /\ req.target = "V" /\ vs \in {"fresh", "loggedIn"})

(* Everything behind the private dispatcher answers 401 unless basic auth   *)
(* is robustirc:<network password>; the session secret does not help.       *)
PrivateNeedsPasswordOn(req, resp) ==
    (req.disp = "private" /\ resp.status # "401") => req.basic = "correct"

(* The network password is no session secret.                               *)
PasswordIsNoSecretOn(req, resp) ==
    (req.disp = "public" /\ req.cred # "correct" /\ req.shape # "session") => resp.effect = "none" /\ ~resp.discloses

(* "is refused": a request on a session route without the correct secret of *)
(* a LIVE addressed session is never answered 2xx -- whatever state the     *)
(* session is in (fresh, ended, ended long ago, not there yet, appearing    *)
(* while the request is in flight).                                         *)
Is2xx(st) == st \in {"200", "201", "202", "204"}
RefusedIsNot2xxOn(req, vs, resp) ==
    (req.disp = "public" /\ req.shape # "session"
        /\ ~(req.cred = "correct" /\ req.target = "V" /\ vs \in {"fresh", "loggedIn"}))
    => ~Is2xx(resp.status)

EffectNeedsSecret    == last # None => EffectNeedsSecretOn(last.req, last.vs, last.resp)
PrivateNeedsPassword == last # None => PrivateNeedsPasswordOn(last.req, last.resp)
PasswordIsNoSecret   == last # None => PasswordIsNoSecretOn(last.req, last.resp)
RefusedIsNot2xx      == last # None => RefusedIsNot2xxOn(last.req, last.vs, last.resp)

TypeOK == vstate \in VStates /\ nstate \in NStates

(* ------------------------------- export --------------------------------- *)
Row(r, vs, ns, phase) ==
    [req |-> r, vs |-> vs, ns |-> ns, phase |-> phase,
     sessState |-> IF r.disp = "public" THEN SessStateOf(r.target, vs, ns) ELSE "n/a",
     \* an in-flight request is decided on arrival (N absent), whatever happens before the answer
     resp |-> Decide(r, vs, IF phase = "inflight" THEN "absent" ELSE ns)]
Table ==
    { Row(r, vs, "absent", "static") : r \in {q \in Requests : ~IsNext(q)}, vs \in VStates }
    \cup { Row(r, "fresh", ns, "static") : r \in {q \in Requests : IsNext(q)}, ns \in NStates }
    \cup { Row(r, "fresh", "live", "inflight") : r \in {q \in Requests : IsNext(q)} }

Export ==
    /\ TLCGet("distinct") > 0
    /\ ndJsonSerialize("ApiAuth_table.ndjson", SetToSeq(Table))
    /\ JsonSerialize("ApiAuth_literals.json", [known |-> SetToSeq(KnownLiterals),
                                               privateGet |-> SetToSeq(PrivateGet),
                                               privateGetPrefix |-> SetToSeq(PrivateGetPrefix),
                                               privatePost |-> SetToSeq(PrivatePost),
                                               privatePostPrefix |-> SetToSeq(PrivatePostPrefix),
                                               publicLiterals |-> SetToSeq(PublicLiterals),
                                               routeMethods |-> SetToSeq(RouteMethods),
                                               rows |-> Cardinality(Table)])
=============================================================================
