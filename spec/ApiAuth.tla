----------------------------- MODULE ApiAuth -----------------------------
(***************************************************************************)
(* C11 -- Session routes need the session secret; admin routes the network *)
(* password.                                                               *)
(*                                                                         *)
(* The module is the decision procedure of the two HTTP dispatchers of    *)
(* internal/api/api.go, written operator by operator like the code:       *)
(*                                                                         *)
(*   SessionCheck    = HTTP.session(): parse the id, require a             *)
(*                     non-empty X-Session-Auth, GetAuth(id) (ErrNoSuch-   *)
(*                     Session / ErrSessionNotYetSeen), compare.           *)
(*   DecidePublic    = DispatchPublic + sessionOrProxy + the three         *)
(*                     handlers' first decision (single node = leader).    *)
(*   DecidePrivate   = DispatchPrivate (basic auth gate) followed by       *)
(*                     DispatchPrivateWithoutAuth (method/path switch).    *)
(*                                                                         *)
(* One victim session V walks through its life cycle (fresh -> loggedIn -> *)
(* deleted) under correctly authenticated requests; every request of the   *)
(* finite request domain is possible in every state.  TLC enumerates       *)
(* (state x request) exhaustively, checks the two invariants on the        *)
(* decision, and exports the whole table (POSTCONDITION Export); the check *)
(* replays every row against the real dispatchers and validates the        *)
(* recorded responses back with ApiAuthTrace.tla.                          *)
(***************************************************************************)
EXTENDS Integers, Sequences, FiniteSets, TLC, Json, SequencesExt

Methods == {"GET", "POST", "DELETE", "PUT"}
Creds   == {"none", "empty", "wrong", "otherLive", "correct"}
Basics  == {"none", "wrongUser", "wrongPw", "correct"}
VStates == {"fresh", "loggedIn", "deleted"}

(* Whom a public request addresses: the victim V, an id that never was a    *)
(* session and is older than the last processed message, an id from the     *)
(* future, or something ParseUint rejects.                                  *)
Targets == {"V", "never", "notyet", "garbage"}

SessStateOf(target, vs) ==
    CASE target = "V"       -> vs
      [] target = "never"   -> "neverExisted"
      [] target = "notyet"  -> "notYetSeen"
      [] OTHER              -> "unparsable"

(* Path shapes below the public prefix /robustirc/v1/ (<sid> = target).     *)
PublicShapes == {"session", "sid", "sid/message", "sid/messages", "sid/other", "sid/x/message"}

(* ----- the route table; every literal of the code must be listed here --- *)
PrivateGet        == {"/", "/status", "/status/getmessage", "/status/sessions",
                      "/status/irclog", "/status/state", "/irclog", "/snapshot",
                      "/leader", "/config", "/metrics"}
(* net/http/pprof and expvar (/debug/vars), reachable only through the      *)
(* private dispatcher (fix F15; on the unfixed tree the default mux serves  *)
(* them without any check)                                                  *)
PrivateGetPrefix  == {"/debug/"}
PrivatePost       == {"/join", "/part", "/quit", "/config", "/kill"}
PrivatePostPrefix == {"/raft/"}
PublicPrefix      == "/robustirc/v1/"
PublicLiterals    == {PublicPrefix, "session", "/message", "/messages", "/"}
MuxLiterals       == {PublicPrefix, "/"}
(* literals that appear in path-like positions but are not routes          *)
NonRouteLiterals  == {}
KnownLiterals     == PrivateGet \cup PrivateGetPrefix \cup PrivatePost \cup PrivatePostPrefix \cup PublicLiterals
                     \cup MuxLiterals \cup NonRouteLiterals

(* (literal, enclosing `case http.MethodX`) of every routing decision        *)
RouteMethods ==
    { <<p, "http.MethodGet">> : p \in PrivateGet \cup PrivateGetPrefix }
    \cup { <<p, "http.MethodPost">> : p \in PrivatePost \cup PrivatePostPrefix }
    \cup { <<"session", "http.MethodPost">>, <<"/message", "http.MethodPost">>,
           <<"/messages", "http.MethodGet">>,
           \* strings.Index(sessionId, "/") == -1 in all three public branches
           <<"/", "http.MethodPost">>, <<"/", "http.MethodGet">>, <<"/", "http.MethodDelete">> }

PrivatePaths == PrivateGet \cup PrivatePost \cup {"/raft/AppendEntries", "/raft/Nope", "/nope",
                                                  "/debug/pprof/", "/debug/pprof/cmdline", "/debug/vars"}

(* ------------------------------ requests -------------------------------- *)
PublicReq ==
    { r \in [disp : {"public"}, method : Methods, shape : PublicShapes, target : Targets,
             cred : Creds, basic : {"none", "correct"}] :
        /\ (r.target # "V" => r.cred # "correct")      \* no such secret exists
        /\ (r.shape = "session" => r.target = "V") }   \* target is irrelevant there

PrivateReq ==
    { r \in [disp : {"private"}, method : {"GET", "POST", "DELETE"}, path : PrivatePaths,
             cred : {"none", "correct"}, basic : Basics] :
        r.cred = "correct" => r.basic = "none" }

Requests == PublicReq \cup PrivateReq

(* ------------------------------ decisions ------------------------------- *)
(* api.session(): order of the tests as in the code.                        *)
SessionCheck(target, vs, cred) ==
    IF target = "garbage" THEN "parse"
    ELSE IF cred \in {"none", "empty"} THEN "noheader"
    ELSE IF target = "notyet" THEN "notyetseen"
    ELSE IF target = "never" \/ vs = "deleted" THEN "nosuch"
    ELSE IF cred = "correct" THEN "ok"
    ELSE "badauth"

Resp(status, effect, discloses) == [status |-> status, effect |-> effect, discloses |-> discloses]
NotFound == Resp("404", "none", FALSE)

DecidePublic(r, vs) ==
    LET sc == SessionCheck(r.target, vs, r.cred) IN
    CASE r.method = "POST" /\ r.shape = "session" ->
            Resp("200", "create", FALSE)              \* public by design: new session, new secret
      [] r.method = "POST" /\ r.shape = "sid/message" ->
            IF sc = "ok" THEN Resp("200", "post", FALSE) ELSE NotFound
      [] r.method = "GET" /\ r.shape = "sid/messages" ->
            IF sc = "ok" THEN Resp("200", "none", TRUE)
            ELSE IF sc = "notyetseen" THEN Resp("500", "none", FALSE)
            ELSE NotFound
      [] r.method = "DELETE" /\ r.shape \in {"sid", "session"} ->
            \* DELETE /robustirc/v1/session parses "session" as an id and fails
            IF r.shape = "sid" /\ sc = "ok" THEN Resp("200", "delete", FALSE) ELSE NotFound
      [] OTHER -> NotFound

(* DispatchPrivateWithoutAuth with the harmless bodies the replay sends     *)
(* (empty body, no form values, no revision header).                        *)
DecidePrivateAuthed(r) ==
    CASE r.method = "GET" /\ r.path \in PrivateGet ->
            IF r.path = "/irclog" THEN Resp("400", "none", FALSE)   \* no ?sessionid
            ELSE IF r.path = "/snapshot" THEN Resp("200", "none", FALSE)   \* empty reply
            ELSE Resp("200", "none", TRUE)
      [] r.method = "GET" /\ r.path \in {"/debug/pprof/", "/debug/pprof/cmdline", "/debug/vars"} -> Resp("200", "none", TRUE)
      [] r.method = "POST" /\ r.path = "/raft/AppendEntries" -> Resp("400", "none", FALSE)
      [] r.method = "POST" /\ r.path = "/raft/Nope"          -> Resp("404", "none", FALSE)
      [] r.method = "POST" /\ r.path \in {"/join", "/part", "/config"} -> Resp("400", "none", FALSE)
      [] r.method = "POST" /\ r.path = "/kill" -> Resp("200", "none", FALSE)
      [] r.method = "POST" /\ r.path = "/quit" -> Resp("exit", "none", FALSE)   \* log.Fatalf
      [] OTHER -> NotFound

DecidePrivate(r) ==
    IF r.basic # "correct" THEN Resp("401", "none", FALSE)   \* before any dispatch
    ELSE DecidePrivateAuthed(r)

Decide(r, vs) == IF r.disp = "public" THEN DecidePublic(r, vs) ELSE DecidePrivate(r)

(* V's life cycle: which correctly authenticated requests move it.          *)
(* The replay posts "NICK/USER" for the fresh victim's accepted POST when   *)
(* it wants to log in; a plain accepted POST keeps the state.               *)
NextV(r, vs, resp, login) ==
    IF r.disp = "public" /\ r.target = "V" /\ resp.effect = "delete" THEN "deleted"
    ELSE IF r.disp = "public" /\ r.target = "V" /\ resp.effect = "post" /\ vs = "fresh" /\ login THEN "loggedIn"
    ELSE vs

(* ------------------------------ behaviour ------------------------------- *)
VARIABLES vstate, last
vars == <<vstate, last>>
None == [none |-> TRUE]

Init == vstate = "fresh" /\ last = None

(* A request whose predecessor did not move V leads to a state that differs *)
(* from that predecessor only in `last`; its successors would be the same   *)
(* ones again, so only Init and the states right after a life-cycle change  *)
(* are expanded.  Every (victim state, request) pair is still generated.    *)
Request(r, login) ==
    LET resp == Decide(r, vstate) IN
    /\ IF last = None THEN TRUE ELSE last.vs # vstate
    /\ last' = [req |-> r, vs |-> vstate, resp |-> resp]
    /\ vstate' = NextV(r, vstate, resp, login)

Next == \E r \in Requests :
          \E login \in (IF r.disp = "public" /\ r.method = "POST" /\ r.shape = "sid/message" /\ vstate = "fresh"
                         THEN BOOLEAN ELSE {FALSE}) : Request(r, login)

Spec == Init /\ [][Next]_vars

(* ------------------------------ properties ------------------------------ *)
(* State change, output or disclosure of messages on a session route needs  *)
(* the secret of exactly that (live) session.  POST .../session is public.  *)
EffectNeedsSecretOn(req, vs, resp) ==
    (req.disp = "public" /\ (resp.effect \in {"post", "delete"} \/ resp.discloses))
        => (req.cred = "correct" /\ req.target = "V" /\ vs \in {"fresh", "loggedIn"})

(* Everything behind the private dispatcher answers 401 unless basic auth   *)
(* is robustirc:<network password>; the session secret does not help.       *)
PrivateNeedsPasswordOn(req, resp) ==
    (req.disp = "private" /\ resp.status # "401") => req.basic = "correct"

(* The network password is no session secret.                               *)
PasswordIsNoSecretOn(req, resp) ==
    (req.disp = "public" /\ req.cred # "correct" /\ req.shape # "session") => resp.effect = "none" /\ ~resp.discloses

EffectNeedsSecret    == last # None => EffectNeedsSecretOn(last.req, last.vs, last.resp)
PrivateNeedsPassword == last # None => PrivateNeedsPasswordOn(last.req, last.resp)
PasswordIsNoSecret   == last # None => PasswordIsNoSecretOn(last.req, last.resp)

TypeOK == vstate \in VStates

(* ------------------------------- export --------------------------------- *)
Row(r, vs) == [req |-> r, vs |-> vs, sessState |-> IF r.disp = "public" THEN SessStateOf(r.target, vs) ELSE "n/a",
               resp |-> Decide(r, vs)]
Table == { Row(r, vs) : r \in Requests, vs \in VStates }

Export ==
    /\ TLCGet("distinct") > 0
    /\ ndJsonSerialize("ApiAuth_table.ndjson", SetToSeq(Table))
    /\ JsonSerialize("ApiAuth_literals.json", [known |-> SetToSeq(KnownLiterals),
                                               privateGet |-> SetToSeq(PrivateGet),
                                               privateGetPrefix |-> SetToSeq(PrivateGetPrefix),
                                               privatePost |-> SetToSeq(PrivatePost),
                                               privatePostPrefix |-> SetToSeq(PrivatePostPrefix),
                                               publicLiterals |-> SetToSeq(PublicLiterals),
                                               routeMethods |-> SetToSeq(RouteMethods),
                                               rows |-> Cardinality(Table)])
=============================================================================
