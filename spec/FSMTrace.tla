------------------------------ MODULE FSMTrace ------------------------------
(***************************************************************************)
(* Trace validation for FSM.tla (DESIGN 4.4).  trace.ndjson holds, for     *)
(* many schedules executed on the REAL FSM by harness/fsm, one record per  *)
(* step: the action, its arguments, and the projection of the node after   *)
(* the step (irclog keys, lastSnapshotState decoded to effect marks,       *)
(* output store presence, snapshot store listing decoded, live server      *)
(* effect marks, FSM.sessionExpirationDur).                                *)
(*                                                                         *)
(* Each record is matched by the corresponding action of FSM.tla, and the  *)
(* logged projection must equal the action's result.  When the real code   *)
(* did something the model does not predict, Resync adopts the recorded    *)
(* state (counted; reported as DRIFT by the check) so that the invariants  *)
(* of the cfg -- the property predicates -- are evaluated on EVERY         *)
(* recorded implementation state, matched or not.                          *)
(***************************************************************************)
EXTENDS FSM, TLCExt

TraceLog == ndJsonDeserialize("trace.ndjson")

VARIABLES l, resyncs

tvars == <<vars, l, resyncs>>

ToSet(s) == {s[i] : i \in 1..Len(s)}
Ent(j) == EM(j.kind, j.cls, j.ts, j.sess, j.cmid, j.exp, j.ms)
St(j) == [sess |-> ToSet(j.sess), marks |-> ToSet(j.marks),
          marker |-> [s \in ToSet(j.sess) |-> (CHOOSE p \in ToSet(j.marker) : p[1] = s)[2]],
          rev |-> j.rev, cexp |-> j.cexp, maxs |-> j.maxs]
LssOf(js) == [k \in {js[i].k : i \in 1..Len(js)} |-> St((CHOOSE x \in ToSet(js) : x.k = k).st)]
\* encodings: a list of [key, envelope, payload] triples
EncsOf(js) == [k \in {js[i][1] : i \in 1..Len(js)} |->
                  LET t == CHOOSE x \in ToSet(js) : x[1] = k IN EncR(t[2], t[3])]
SnapsOf(js) == [i \in 1..Len(js) |-> [ridx |-> js[i].ridx, li |-> js[i].li, base |-> St(js[i].base),
                                      retained |-> ToSet(js[i].retained),
                                      fmt |-> js[i].fmt, renc |-> EncsOf(js[i].renc)]]
PendOf(j) == IF j.none = 1 THEN None
             ELSE [first |-> j.first, last |-> j.last, li |-> j.li, base |-> St(j.base), ridx |-> j.ridx]

Ev == TraceLog[l]
HasPost(ev) == "post" \in DOMAIN ev

\* the recorded projection equals the (primed) model state
PostOK(ev) ==
    HasPost(ev) =>
        LET P == ev.post IN
        /\ applied' = P.applied
        /\ store' = ToSet(P.store)
        /\ outs' = ToSet(P.outs)
        /\ srv' = St(P.srv)
        /\ lss' = LssOf(P.lss)
        /\ exp' = P.exp
        /\ snaps' = SnapsOf(P.snaps)
        /\ pending' = PendOf(P.pending)
        /\ enc' = P.enc
        /\ renc' = EncsOf(P.renc)
        /\ ienc' = EncsOf(P.ienc)

Act(ev) ==
    CASE ev.ev = "Apply"        -> ApplyE(Ent(ev.e))
      [] ev.ev = "ApplyPanics"  -> ApplyPanicsE(Ent(ev.e))
      [] ev.ev = "SnapshotTake" -> IF ev.err = 1
                                   THEN store = {} /\ UNCHANGED vars   \* "first index of ircstore (0) is < 1"
                                   ELSE SnapshotTake
      [] ev.ev = "PersistOK"    -> PersistOK
      [] ev.ev = "PersistFail"  -> PersistFail
      [] ev.ev = "Restore"      -> Restore
      [] ev.ev = "Restart"      -> Restart
      [] ev.ev = "RestartEnc"   -> RestartWithEncoding(ev.enc)
      [] ev.ev = "Tick"         -> TickTo(ev.now)
      [] OTHER -> FALSE

Reset(ev) ==
    /\ log' = [i \in 1..Len(ev.prelude) |-> Ent(ev.prelude[i])]
    /\ mod' = {} /\ applied' = 0
    /\ store' = {} /\ outs' = {} /\ srv' = EMPTY /\ lss' = EmptyFn /\ exp' = 0
    /\ pending' = None /\ snaps' = << >> /\ up' = TRUE /\ hmax' = -1
    /\ now' = 0
    /\ enc' = ev.enc /\ ienc' = EmptyFn
    /\ renc' = [i \in 1..Len(ev.prelude) |-> Written(ev.enc, Ent(ev.prelude[i]))]
    /\ cnt' = [snap |-> 0, fail |-> 0, restart |-> 0, restore |-> 0, panic |-> 0, mig |-> 0]
    /\ hist' = << >>

\* adopt what the implementation did
Resync(ev) ==
    LET P == ev.post IN
    /\ PrintT(<<"RESYNC", l, ev.ev>>)
    /\ log' = IF ev.ev \in {"Apply", "ApplyPanics"} /\ ev.i = Len(log) + 1 THEN Append(log, Ent(ev.e)) ELSE log
    /\ mod' = IF ev.ev = "ApplyPanics" THEN mod \cup {ev.i} ELSE mod
    /\ up' = (ev.ev # "ApplyPanics")
    /\ now' = IF ev.ev = "Tick" THEN ev.now ELSE now
    /\ hmax' = IF ev.ev = "SnapshotTake" /\ ev.err = 0
               THEN LET h == now - (EffExp(srv.cexp) + Grace) IN IF h > hmax THEN h ELSE hmax
               ELSE hmax
    /\ cnt' = cnt /\ hist' = hist
    /\ IF HasPost(ev)
       THEN /\ applied' = P.applied /\ store' = ToSet(P.store) /\ outs' = ToSet(P.outs)
            /\ srv' = St(P.srv) /\ lss' = LssOf(P.lss) /\ exp' = P.exp
            /\ snaps' = SnapsOf(P.snaps) /\ pending' = PendOf(P.pending)
            /\ enc' = P.enc /\ renc' = EncsOf(P.renc) /\ ienc' = EncsOf(P.ienc)
       ELSE \* the process died inside the step (ApplyPanics): nothing was recorded
            /\ UNCHANGED <<applied, store, outs, srv, lss, exp, snaps, pending, enc, ienc>>
            /\ renc' = IF Len(log') > Len(log) THEN Append(renc, Marked(Written(enc, Ent(ev.e)))) ELSE renc

TraceInit ==
    /\ Init
    /\ l = 1 /\ resyncs = 0

TraceNext ==
    /\ l <= Len(TraceLog)
    /\ l' = l + 1
    /\ LET ev == TraceLog[l] IN
       IF ev.ev = "Reset"
       THEN Reset(ev) /\ resyncs' = resyncs
       ELSE \/ (Act(ev) /\ PostOK(ev) /\ resyncs' = resyncs)
            \/ (~ ENABLED (Act(ev) /\ PostOK(ev)) /\ Resync(ev) /\ resyncs' = resyncs + 1)

TraceSpec == TraceInit /\ [][TraceNext]_tvars

TraceView == <<view, l, resyncs>>

\* printed when the whole file has been consumed
TraceDone == (l = Len(TraceLog) + 1) => PrintT(<<"TRACE-DONE", Len(TraceLog), resyncs>>)
=============================================================================
