\* C08 exhaustive safety configuration (repaired wait loop).
\* Bounds: ids 1..3 (+ sentinel 0), contiguous Adds; one adder, one deleter
\* (oldest / non-existing any time, arbitrary while no GetNext is in flight),
\* two readers (GetNext(x) for every x in 0..max id ever added: existing,
\* deleted), one thread issuing Get / InterruptGetNext / cancel; all
\* interleavings of the lock-delimited steps.  No operation counters: every
\* thread loops for ever, the state space is finite.
SPECIFICATION Spec
CONSTANTS
  MaxId = 3
  Threads = {1, 2, 3, 4, 5}
  Adders = {1}
  Deleters = {2}
  Readers = {3, 4}
  Getters = {5}
  Interrupters = {5}
  Fixed = TRUE
  LockedInterrupt = TRUE
  Contig = TRUE
  KeepHist = 0
INVARIANTS
  TypeOK
  DbInv
  NoCrash
  NextCorrect
  EmptyOnlyCancelled
  GetExact
  QuiescentLive
  ParkedNoSucc
  ParkedNotCw
  EmptyMeansNone
CHECK_DEADLOCK FALSE
