\* Message-of-death model (C07): a registered session (prelude: CreateSession,
\* NICK, USER); <= 2 further entries over {line, PANIC from the registered session
\* (panics), PANIC from a second, unregistered session or from a session that does
\* not exist (451 / dropped: no panic), CreateSession}; snapshot before/after,
\* live restore, restart after the crash.  Edges are replayed (child processes).
SPECIFICATION Spec
CONSTANTS
    Alphabet <- AlphaMod
    TS = {0, 6}
    Nows = {64}
    Prelude <- PreludeReg
    DefaultExp = 60
    Grace = 1
    MaxLen = 5
    MaxGaps = 0
    MaxSnaps = 2
    MaxFails = 0
    MaxRestarts = 2
    MaxRestores = 1
    MaxPanics = 1
    FixF2 = TRUE
    FixF3 = TRUE
    InitEnc = "proto"
    MaxMigrations = 0
VIEW view
INVARIANTS
    TypeOK
    StateIsFullReplay
    RestoreEqualsReplay
    LssSound
    NextBaseFound
    FoldedXorRetained
    OutputIffRetained
    HorizonRespected
    ExpInForce
    ModOnlyPanicking
    ModSkippedEverywhere
    ModProgress
    EncUniform
    SnapshotsReadable
ACTION_CONSTRAINT EmitEdge
CHECK_DEADLOCK FALSE
