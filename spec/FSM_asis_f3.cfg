\* Behaviour of the PINNED tree for FSM.sessionExpirationDur (FixF3 = FALSE):
\* not re-established by Restore, overwritten while Snapshot() folds an old
\* config entry.  TLC is EXPECTED to report a counterexample to HorizonRespected;
\* the check replays it on the real code.
SPECIFICATION Spec
CONSTANTS
    Alphabet <- AlphaExp
    TS = {0, 30}
    Nows = {3, 64, 95, 160}
    Prelude <- PreludeSess
    DefaultExp = 60
    Grace = 1
    MaxLen = 4
    MaxGaps = 0
    MaxSnaps = 2
    MaxFails = 0
    MaxRestarts = 1
    MaxRestores = 0
    MaxPanics = 0
    FixF2 = TRUE
    FixF3 = FALSE
    InitEnc = "proto"
    MaxMigrations = 0
VIEW view
INVARIANTS
    StateIsFullReplay
    RestoreEqualsReplay
    HorizonRespected
CHECK_DEADLOCK FALSE
