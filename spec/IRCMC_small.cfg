\* exhaustive: every sequence of MaxN entries of the full alphabet after each prologue
SPECIFICATION Spec
CONSTANTS
  NetName = "robustirc.net"
  MaxN = 2
  Families = {"reg", "member", "mode", "talk", "oper", "services", "entry", "addr", "time"}
  Prologues = {1, 2, 3, 4}
INVARIANT NoFailure
VIEW View
CHECK_DEADLOCK FALSE
