\* exhaustive: every sequence of MaxN entries of the full alphabet after prologues 2-4 (prologue 1 is a prefix of 2)
SPECIFICATION Spec
CONSTANTS
  NetName = "robustirc.net"
  MaxN = 2
  Families = {"reg", "member", "mode", "talk", "oper", "services", "entry", "addr", "time"}
  Prologues = {2, 3, 4, 5, 6, 7}
INVARIANT NoFailure
VIEW View
CHECK_DEADLOCK FALSE
