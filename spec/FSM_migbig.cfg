\* Encoding migration, snapshot bookkeeping (C02), exhaustive (thorough tier): FSM_migbook.cfg
\* with <= 3 further entries after the CreateSession, timestamps {0, 3, 6} in any order, one
\* failed Persist.  Measured: 164,750 distinct states, depth 15, 20 s with 4 workers.
SPECIFICATION Spec
CONSTANTS
    Alphabet <- AlphaMigB
    TS = {0, 3, 6}
    Nows = {64, 70}
    Prelude <- PreludeSess
    DefaultExp = 60
    Grace = 1
    MaxLen = 4
    MaxGaps = 1
    MaxSnaps = 2
    MaxFails = 1
    MaxRestarts = 1
    MaxRestores = 1
    MaxPanics = 0
    FixF2 = TRUE
    FixF3 = TRUE
    InitEnc = "json"
    MaxMigrations = 1
VIEW view
INVARIANTS
    TypeOK
    StateIsFullReplay
    RestoreEqualsReplay
    LssSound
    NextBaseFound
    FoldedXorRetained
    OutputIffRetained
    HorizonRespected
    ExpInForce
    ModOnlyPanicking
    ModSkippedEverywhere
    ModProgress
    EncUniform
    SnapshotsReadable
CHECK_DEADLOCK FALSE
