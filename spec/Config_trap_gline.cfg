\* C16 trap: shortest behaviour in which a GLINE ban is folded into a snapshot
\* and the node is restarted with observer replicas (no body carries a ban).
SPECIFICATION Spec
CONSTANTS
  Users = {"u1", "u2"}
  Chans = {}
  Bodies = {"A"}
  HdrKinds = {"cur"}
  Vias = {"d", "b1:a1"}
  Creds = {"o1"}
  InjectRevs = {"same"}
  MaxSteps = 11
  MaxRej = 0
  MaxSnap = 1
  MaxRestart = 1
  MaxInject = 0
  MaxCfg = 1
  FixedF5 = FALSE
  RecordHist = FALSE
INVARIANTS TrapGlineFolded
CHECK_DEADLOCK FALSE
