\* exhaustive (quick): log of up to 3 entries, no crash, one spurious heartbeat timeout / deposed healthy leader
\* (stale leader pointers, proxy chains to a deposed leader)
SPECIFICATION Spec
CONSTANTS
    Nodes = {1, 2, 3}
    MaxLog = 3
    MaxCrash = 0
    MaxSpurious = 1
    MaxHops = 2
    FixedLeaderLag = TRUE
INVARIANTS TypeOK NeverGoneWhileAlive GoneOnlyIfDeleted NotYetSeenIsRetryable ServedOnlyByKnowing LookupSound EffectOnlyByLeader
CHECK_DEADLOCK FALSE
