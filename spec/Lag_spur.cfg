\* exhaustive (quick): no crash, two spurious events (a follower loses a healthy leader, a candidate deposes a healthy
\* leader: stale leader pointers, proxy chains that end at a deposed leader), one proxy hop
SPECIFICATION Spec
CONSTANTS
    Nodes = {1, 2, 3}
    MaxLog = 2
    MaxCrash = 0
    MaxSpurious = 2
    MaxHops = 1
    FixedLeaderLag = TRUE
INVARIANTS TypeOK NeverGoneWhileAlive GoneOnlyIfDeleted NotYetSeenIsRetryable ServedOnlyByKnowing LookupSound EffectOnlyByLeader
CHECK_DEADLOCK FALSE
