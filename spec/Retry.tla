------------------------------ MODULE Retry ------------------------------
(***************************************************************************)
(* C10 -- A retried POST (same client message id) is never applied twice.  *)
(*                                                                         *)
(* The guarantee is split over three places of the code and the module has *)
(* one operator/action for each:                                           *)
(*                                                                         *)
(*  Handler      internal/api/postmessage.go handlePostMessage behind      *)
(*               sessionOrProxy: unknown session -> 404; LastPostMessage(s) *)
(*               = ClientMessageId -> acknowledge WITHOUT proposing; else   *)
(*               propose to raft and wait for the FSM.                      *)
(*  ApplyEntry   statemachine.go applyRobustMessage: IRCFromClient sets the *)
(*               marker (UpdateLastClientMessageID) BEFORE the line is      *)
(*               processed, even if processing deletes the session (QUIT);  *)
(*               MessageOfDeath sets the marker and processes nothing; an   *)
(*               entry for an unknown session is dropped.                   *)
(*  Snapshot /   the marker is part of the serialised state                 *)
(*  Restart      (serialize.go), a restart restores the newest snapshot and *)
(*               replays the log tail; a second replica fed the same log or *)
(*               restored from the snapshot has the same markers.           *)
(*                                                                         *)
(* Scope (as in the property): the retry is handled after the first copy   *)
(* has been applied on the handling node; clients are sequential.          *)
(*                                                                         *)
(* `hist` is the behaviour as a sequence of JSON-able records; the check    *)
(* replays behaviours on the single-node rig (real raft, real handlers).   *)
(***************************************************************************)
EXTENDS Integers, Sequences, FiniteSets, TLC, Json

CONSTANTS CMIDs,       \* client message ids used by the primary client "a"
          MaxSteps,    \* actions per behaviour
          MaxOrig,     \* original (non-retry) requests by "a", deaths included
          MaxRetries,  \* repeats of one request
          MaxOther,    \* requests by the other session "b"
          MaxSnap, MaxRestart

Sessions    == {"a", "b"}
(* Role of the primary session "a" (b is always a registered client): the   *)
(* marker logic must not depend on it.  unreg = created, never sent NICK/   *)
(* USER (marker 0); client = logged in; oper = logged in + OPER; services = *)
(* authenticated server link (PASS services=..., SERVER ...) that speaks    *)
(* for pseudo-clients.                                                      *)
Roles       == {"unreg", "client", "oper", "services"}
(* Concrete lines the replay uses for a "msg"/"quit" request of each role   *)
(* (every kind is retried at least once per run; the model does not         *)
(* distinguish them: none of them may influence the marker logic).          *)
LineKinds(role) ==
    CASE role = "unreg"    -> {"ping", "nick", "user", "quit"}
      [] role = "client"   -> {"privmsg", "join", "ping", "nick", "oper", "quit"}   \* "oper": OPER, the role changes
      [] role = "oper"     -> {"privmsg", "kill", "mode", "quit"}
      \* "server": the prelude stopped after PASS, the request itself is the SERVER line
      [] role = "services" -> {"snick", "sprivmsg", "sjoin", "skill", "squit", "server"}
PreludeCmid == 9       \* marker left behind by the role's prelude (its last line has id 9)
OtherBase   == 20      \* "b" numbers its own messages 20, 21, ...
NoSnap      == [idx |-> -1]

VARIABLES log,      \* the raft log restricted to entries of a and b (after the prelude)
          live,     \* [exists, marker] of the node that handles the requests
          init0,    \* live state right after the prelude (basis of a replay from scratch)
          snap,     \* newest snapshot: [idx, st] or NoSnap
          cl,       \* last request of client "a": [has, c, t, tries]
          cnt,      \* [orig, other, snap, restart]
          hist
vars == <<log, live, init0, snap, cl, cnt, hist>>

(* ------------------------------ the FSM --------------------------------- *)
ApplyEntry(st, e) ==
    IF ~st.exists[e.s] THEN st          \* UpdateLastClientMessageID fails: entry dropped
    ELSE LET m == [st EXCEPT !.marker[e.s] = e.c] IN   \* marker first ...
         IF e.t = "quit"                                \* ... then the line is processed
         THEN [m EXCEPT !.exists[e.s] = FALSE, !.marker[e.s] = 0]  \* a deleted session reads as 0
         ELSE m                                         \* "msg"; "death": marker only

RECURSIVE Replay(_, _)
Replay(st, es) == IF es = <<>> THEN st ELSE Replay(ApplyEntry(st, Head(es)), Tail(es))

Restored == IF snap = NoSnap THEN Replay(init0, log)
            ELSE Replay(snap.st, SubSeq(log, snap.idx + 1, Len(log)))

(* ----------------------------- the handler ------------------------------ *)
Handler(st, s, c) ==
    IF ~st.exists[s] THEN "404"
    ELSE IF st.marker[s] = c THEN "dup"      \* canned reply, nothing proposed
    ELSE "propose"

Request(name, s, c, t) ==
    LET hr == Handler(live, s, c)
        e  == [t |-> t, s |-> s, c |-> c] IN
    /\ log'  = IF hr = "propose" THEN Append(log, e) ELSE log
    /\ live' = IF hr = "propose" THEN ApplyEntry(live, e) ELSE live
    /\ hist' = Append(hist, [a |-> name, s |-> s, c |-> c, t |-> t,
                             status |-> IF hr = "404" THEN 404 ELSE 200,
                             appended |-> (hr = "propose"),
                             saw |-> (live.exists[s] /\ live.marker[s] = c)])

(* ------------------------------- actions -------------------------------- *)
Init ==
    \E role \in Roles : LET fresh == (role = "unreg") IN
        /\ log = <<>>
        /\ live = [exists |-> [s \in Sessions |-> TRUE],
                   marker |-> [s \in Sessions |-> IF s = "a" /\ fresh THEN 0 ELSE PreludeCmid]]
        /\ init0 = live
        /\ snap = NoSnap
        /\ cl = [has |-> FALSE, c |-> 0, t |-> "msg", tries |-> 0]
        /\ cnt = [orig |-> 0, other |-> 0, snap |-> 0, restart |-> 0]
        /\ hist = << [a |-> "Init", role |-> role, fresh |-> fresh] >>

Room == Len(hist) <= MaxSteps

(* a new request of the primary client *)
Post(c, t) ==
    /\ Room /\ cnt.orig < MaxOrig
    /\ Request("Post", "a", c, t)
    /\ cl' = [has |-> TRUE, c |-> c, t |-> t, tries |-> 0]
    /\ cnt' = [cnt EXCEPT !.orig = @ + 1]
    /\ UNCHANGED <<init0, snap>>

(* the primary client's request crashed the FSM: its entry was rewritten as *)
(* MessageOfDeath and is skipped on replay (marker only).  It passed the    *)
(* handler, so the marker differed.                                         *)
Death(c) ==
    /\ Room /\ cnt.orig < MaxOrig
    /\ live.exists["a"] /\ live.marker["a"] # c
    /\ LET e == [t |-> "death", s |-> "a", c |-> c] IN
       /\ log' = Append(log, e)
       /\ live' = ApplyEntry(live, e)
       /\ hist' = Append(hist, [a |-> "Death", s |-> "a", c |-> c, t |-> "death",
                                status |-> 0, appended |-> TRUE, saw |-> FALSE])
    /\ cl' = [has |-> TRUE, c |-> c, t |-> "msg", tries |-> 0]
    /\ cnt' = [cnt EXCEPT !.orig = @ + 1]
    /\ UNCHANGED <<init0, snap>>

(* the bridge repeats its last request: same id, same line *)
Retry ==
    /\ Room /\ cl.has /\ cl.tries < MaxRetries
    /\ Request("Retry", "a", cl.c, cl.t)
    /\ cl' = [cl EXCEPT !.tries = @ + 1]
    /\ UNCHANGED <<init0, snap, cnt>>

(* traffic of another session, with its own numbering or -- to show that    *)
(* markers are per session -- with the id the primary client used last      *)
Other(c) ==
    /\ Room /\ cnt.other < MaxOther
    /\ c \in {OtherBase + cnt.other} \cup (IF cl.has THEN {cl.c} ELSE {})
    /\ Request("Other", "b", c, "msg")
    /\ cnt' = [cnt EXCEPT !.other = @ + 1]
    /\ UNCHANGED <<init0, snap, cl>>

Snapshot ==
    /\ Room /\ cnt.snap < MaxSnap
    /\ Len(log) > (IF snap = NoSnap THEN 0 ELSE snap.idx)
    /\ snap' = [idx |-> Len(log), st |-> live]        \* Marshal includes the markers
    /\ hist' = Append(hist, [a |-> "Snapshot"])
    /\ cnt' = [cnt EXCEPT !.snap = @ + 1]
    /\ UNCHANGED <<log, live, init0, cl>>

Restart ==
    /\ Room /\ cnt.restart < MaxRestart
    /\ live' = Restored
    /\ hist' = Append(hist, [a |-> "Restart"])
    /\ cnt' = [cnt EXCEPT !.restart = @ + 1]
    /\ UNCHANGED <<log, init0, snap, cl>>

Next ==
    \/ \E c \in CMIDs, t \in {"msg", "quit"} : Post(c, t)
    \/ \E c \in CMIDs : Death(c)
    \/ Retry
    \/ \E c \in CMIDs \cup {OtherBase + cnt.other} : Other(c)
    \/ Snapshot
    \/ Restart

Spec == Init /\ [][Next]_vars

(* ------------------------------ properties ------------------------------ *)
Last == hist[Len(hist)]

(* A request that finds its own id as the session's marker is acknowledged  *)
(* and proposes nothing.                                                    *)
NoDoubleApplyWhenRetrySeesFirst ==
    (Last.a \in {"Post", "Retry", "Other"} /\ Last.saw) => (~Last.appended /\ Last.status = 200)

(* ... and therefore, with markers that survive restarts, no session ever   *)
(* has two consecutive entries with the same id.                            *)
NoAdjacentDuplicate ==
    \A i, j \in 1..Len(log) :
        (i < j /\ log[i].s = log[j].s /\ log[i].c = log[j].c)
            => \E k \in (i+1)..(j-1) : log[k].s = log[i].s

(* Every repeat of an applied (or dead) request is suppressed: the log does *)
(* not grow while "a" only retries.                                         *)
RetryNeverAppends == (Last.a = "Retry" /\ Last.status = 200) => ~Last.appended

(* The handling node, a replica fed the same log and a replica restored     *)
(* from the snapshot agree on every marker.                                 *)
MarkersAgree ==
    /\ live = Replay(init0, log)
    /\ snap # NoSnap => live = Replay(snap.st, SubSeq(log, snap.idx + 1, Len(log)))

TypeOK ==
    /\ live.exists \in [Sessions -> BOOLEAN]
    /\ \A s \in Sessions : live.marker[s] \in CMIDs \cup {0, PreludeCmid} \cup (OtherBase..(OtherBase + MaxOther))

(* ------------------------------- export --------------------------------- *)
(* Complete behaviours (length bound reached) that contain a retry are       *)
(* printed for the replay.                                                  *)
ExportBehaviours ==
    (Len(hist) = MaxSteps + 1 /\ \E i \in 2..Len(hist) : hist[i].a = "Retry")
        => PrintT(<<"BEHAVIOUR", ToJson(hist)>>)

(* Features the replay set must cover; used as "trap" invariants to obtain  *)
(* a shortest witness from TLC when the enumeration bound is too small.     *)
HasRetryAt(i) == hist[i].a = "Retry"
Between(i, j, name) == \E k \in (i+1)..(j-1) : hist[k].a = name
Orig(i) == hist[i].a \in {"Post", "Death"}
(* index of the original request a retry at j belongs to *)
OrigOf(j) == CHOOSE i \in 1..(j-1) : Orig(i) /\ \A k \in (i+1)..(j-1) : ~Orig(k)

Feature(f) ==
    \E j \in 2..Len(hist) : HasRetryAt(j) /\
        LET i == OrigOf(j) IN
        CASE f = "retry1"        -> TRUE
          [] f = "retry3"        -> Cardinality({k \in (i+1)..j : HasRetryAt(k)}) >= 3
          [] f = "otherBetween"  -> Between(i, j, "Other")
          [] f = "otherSameCmid" -> \E k \in (i+1)..(j-1) : hist[k].a = "Other" /\ hist[k].c = hist[i].c
          [] f = "snapRestart"   -> \E k \in (i+1)..(j-1) : hist[k].a = "Snapshot" /\ Between(k, j, "Restart")
          [] f = "restartOnly"   -> Between(i, j, "Restart") /\ ~Between(i, j, "Snapshot")
          [] f = "death"         -> hist[i].a = "Death"
          [] f = "deathSnapRestart" -> hist[i].a = "Death" /\ \E k \in (i+1)..(j-1) : hist[k].a = "Snapshot" /\ Between(k, j, "Restart")
          [] f = "afterQuit"     -> hist[i].a = "Post" /\ hist[i].t = "quit" /\ hist[i].appended /\ hist[j].status = 404
          [] f = "cmid0fresh"    -> hist[1].fresh /\ hist[i].c = 0 /\ ~hist[i].appended
          [] OTHER               -> FALSE

CONSTANT TrapFeature
Trap == Feature(TrapFeature) => (PrintT(<<"BEHAVIOUR", ToJson(hist)>>) /\ FALSE)
=============================================================================
