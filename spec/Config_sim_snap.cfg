\* C16 behaviour generation, snapshot/restore focus: few sessions, several
\* accepted configs with different expirations, origins, captcha settings,
\* up to three snapshots and three restarts (with and without observer replicas).
SPECIFICATION Spec
CONSTANTS
  Users = {"u1", "u2"}
  Chans = {"c1"}
  Bodies = {"A", "Ab", "B", "Cn", "D", "E", "Z", "R", "Xdur"}
  HdrKinds = {"cur", "curHex", "stale"}
  Vias = {"d", "b1:a1"}
  Creds = {"o1"}
  InjectRevs = {"same", "plus3"}
  MaxSteps = 10
  MaxRej = 1
  MaxSnap = 3
  MaxRestart = 3
  MaxInject = 1
  MaxBattery = 2
  MaxCfg = 3
  FixedF5 = FALSE
  RecordHist = TRUE
INVARIANTS TypeOK ReplicasSameConfig OriginsOnlyLost ExpirationFollowsConfig GlineIsConfig ExportBehaviours
PROPERTIES ConfigRevisionStep RejectedChangesNothing
CHECK_DEADLOCK FALSE
