---------------------------- MODULE ClusterProps ----------------------------
(***************************************************************************)
(* The property predicates of C05, written over plain values so that the   *)
(* design specification (Cluster.tla, over its variables) and the trace    *)
(* specification (ClusterTrace.tla, over the history recorded from the     *)
(* real binaries) evaluate the very same operators.                        *)
(*                                                                         *)
(* An entry is a record with at least the fields c (client = session) and  *)
(* cmid (ClientMessageId); a committed sequence is a sequence of entries.  *)
(***************************************************************************)
EXTENDS Integers, Sequences, FiniteSets

IsPrefix(s, t) == Len(s) <= Len(t) /\ \A i \in 1..Len(s) : s[i] = t[i]
PrefixCompatible(s, t) == IsPrefix(s, t) \/ IsPrefix(t, s)

Occurrences(l, a) == {i \in 1..Len(l) : l[i].c = a.c /\ l[i].cmid = a.cmid}

\* an acknowledged post is in the committed sequence
AckedDurableP(l, ack) == \A a \in ack : Occurrences(l, a) # {}

\* ... exactly once (F7 breaks this one)
AckedExactlyOnceP(l, ack) == \A a \in ack : Cardinality(Occurrences(l, a)) <= 1

\* a sender's acknowledged posts appear in the order it posted them
AckedInOrderP(l, ack) ==
  \A j \in 1..Len(l) : [c |-> l[j].c, cmid |-> l[j].cmid] \in ack =>
     \A i \in 1..(j - 1) :
        (l[i].c = l[j].c /\ [c |-> l[i].c, cmid |-> l[i].cmid] \in ack) => l[i].cmid <= l[j].cmid

\* what a node that applied the sequence l delivers to session s: everything
\* the other members of the channel said
StreamOf(l, s) == SelectSeq(l, LAMBDA e : e.c # s)

\* per sender, the ClientMessageIds in a delivered stream strictly increase
\* (so nothing is delivered twice, and nothing out of the sender's order)
SenderOrderP(stream) ==
  \A j \in 1..Len(stream) : \A i \in 1..(j - 1) :
     stream[i].c = stream[j].c => stream[i].cmid < stream[j].cmid

\* every acknowledged post of another session is in the stream exactly once
CompleteP(stream, s, ack) ==
  \A a \in ack : a.c # s => Cardinality(Occurrences(stream, a)) = 1
=============================================================================
