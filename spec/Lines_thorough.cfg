\* C15 exhaustive, repaired pipeline, free strings up to 4 symbols (thorough tier).
SPECIFICATION Spec
CONSTANTS
  MaxLen = 10
  FixSanitise = TRUE
  MaxUser = 2
  FixUtf8 = TRUE
  MaxX = 4
INVARIANTS TypeOK OneLine NoInjection EntryClean
CHECK_DEADLOCK FALSE
