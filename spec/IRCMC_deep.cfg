\* exhaustive, thorough tier: every sequence of 3 entries of the state-changing alphabet after every prologue
SPECIFICATION Spec
CONSTANTS
  NetName = "robustirc.net"
  MaxN = 3
  Families = {"reg", "member", "mode", "oper", "services", "entry"}
  Prologues = {2, 3, 4, 5, 6, 7}
INVARIANT NoFailure
VIEW View
CHECK_DEADLOCK FALSE
