\* exhaustive, thorough tier: every sequence of 3 entries of the state-changing alphabet after prologues 2 and 3
SPECIFICATION Spec
CONSTANTS
  NetName = "robustirc.net"
  MaxN = 3
  Families = {"reg", "member", "mode", "oper", "services", "entry"}
  Prologues = {3, 5}
INVARIANT NoFailure
VIEW View
CHECK_DEADLOCK FALSE
