------------------------------- MODULE IRCMC -------------------------------
(***************************************************************************)
(* Bounded exploration of the IRC state machine IRC.tla.                    *)
(*   - exhaustive: every sequence of <= MaxN entries of the alphabet below  *)
(*     after one of the prologues; every property predicate of IRCProps is  *)
(*     evaluated on every transition (variable `bad' collects failures);    *)
(*   - simulation: long random walks; the walked entries (variable hist)    *)
(*     are printed as JSON programs and replayed on the real server.        *)
(***************************************************************************)
EXTENDS IRCProps, Json

CONSTANTS MaxN,        \* entries after the prologue
          Families,    \* which parts of the alphabet are enabled
          Prologues    \* subset of 1..NumPrologues used as initial states

VARIABLES st, n, bad, hist
vars == <<st, n, bad, hist>>
View == <<st, n, bad>>

DefCfgJ == [rev |-> 0, opers |-> <<>>, svc |-> <<>>, maxs |-> 0, maxc |-> 0, banned |-> EmptyFn,
            exp |-> 600, capcfg |-> FALSE, caplogin |-> FALSE]
CfgA == [rev |-> 1, opers |-> {<<"op", "pw">>}, svc |-> {"spw"}, maxs |-> 0, maxc |-> 0, banned |-> EmptyFn,
         exp |-> 600, capcfg |-> TRUE, caplogin |-> FALSE]
CfgB == [CfgA EXCEPT !.maxs = 4, !.maxc = 1]

(* an entry in the vocabulary of IRC.tla; `data' is the raw line the harness feeds to the real parser *)
Base == [t |-> "line", id |-> 0, sess |-> 0, ts |-> 0, cmid |-> 0, addr |-> "", data |-> "", ok |-> TRUE,
         ping |-> FALSE, cmd |-> "", haspfx |-> FALSE, pfx |-> NoPfx, p |-> <<>>, cfg |-> DefaultCfg,
         cfgok |-> TRUE, rev |-> 0, capok |-> FALSE, hrid |-> 0, hord |-> <<1, 2, 3>>, sup |-> TRUE,
         conf |-> TRUE, cfgname |-> ""]
RECURSIVE Raw(_)
Raw(p) == IF Len(p) = 0 THEN "" ELSE IF Len(p) = 1 THEN " :" \o p[1] ELSE " " \o p[1] \o Raw(Tail(p))
Line(id, ts, sess, cmd, p) ==
  [Base EXCEPT !.id = id, !.ts = ts, !.sess = sess, !.cmid = id, !.cmd = cmd, !.p = p, !.data = cmd \o Raw(p)]
SLine(id, ts, sess, pfxname, cmd, p) ==
  [Base EXCEPT !.id = id, !.ts = ts, !.sess = sess, !.cmid = id, !.cmd = cmd, !.p = p,
               !.haspfx = TRUE, !.pfx = Pfx(pfxname, "", ""), !.data = ":" \o pfxname \o " " \o cmd \o Raw(p),
               !.hrid = IF cmd = "NICK" THEN 1 ELSE 0]
Create(id, ts) == [Base EXCEPT !.t = "create", !.id = id, !.ts = ts, !.data = "auth-secret-" \o ToString(id)]
Delete(id, ts, sess) == [Base EXCEPT !.t = "delete", !.id = id, !.ts = ts, !.sess = sess, !.data = "bye"]
Mod(id, ts, sess) == [Base EXCEPT !.t = "mod", !.id = id, !.ts = ts, !.sess = sess, !.cmid = id, !.data = "PANIC"]
Config(id, ts, name, cfg) == [Base EXCEPT !.t = "config", !.id = id, !.ts = ts, !.cfg = cfg, !.rev = cfg.rev, !.cfgname = name]

RECURSIVE Run(_, _)
Run(s, es) == IF Len(es) = 0 THEN s ELSE Run(Step(s, es[1]).st, Tail(es))

(* prologues: ids 1.. are used in order; timestamps 1000+id *)
Pro1 == <<Config(1, 1001, "A", CfgA), Create(2, 1002), Create(3, 1003), Create(4, 1004),
          Line(5, 1005, 2, "NICK", <<"alice">>), Line(6, 1006, 2, "USER", <<"ua", "0", "*", "A">>),
          Line(7, 1007, 3, "NICK", <<"bob">>), Line(8, 1008, 3, "USER", <<"ub", "0", "*", "B">>),
          Line(9, 1009, 2, "JOIN", <<"#a">>)>>
Pro2 == Pro1 \o <<Line(10, 1010, 3, "JOIN", <<"#a">>), Line(11, 1011, 4, "NICK", <<"carol">>),
                  Line(12, 1012, 4, "USER", <<"uc", "0", "*", "C">>)>>
Pro3 == Pro2 \o <<Create(13, 1013), Line(14, 1014, 13, "PASS", <<"services=spw">>),
                  Line(15, 1015, 13, "SERVER", <<"services.example", "1", "S">>),
                  [Line(16, 1016, 13, "NICK", <<"NickServ", "1", "1", "ns", "h", "s", "0", "+o", "NS">>) EXCEPT !.hrid = 1]>>
Pro4 == <<Config(1, 1001, "B", CfgB), Create(2, 1002), Create(3, 1003), Create(4, 1004),
          Line(5, 1005, 2, "NICK", <<"alice">>), Line(6, 1006, 2, "USER", <<"ua", "0", "*", "A">>),
          Line(7, 1007, 3, "NICK", <<"bob">>), Line(8, 1008, 3, "USER", <<"ub", "0", "*", "B">>),
          Line(9, 1009, 2, "OPER", <<"op", "pw">>)>>
(* a nick-only (not logged in) session, an away user, a channel created with upper-case letters, *)
(* an invite-only channel with an operator of the network outside it, holding a pending invitation *)
Pro5 == <<Config(1, 1001, "A", CfgA), Create(2, 1002), Create(3, 1003), Create(4, 1004),
          Line(5, 1005, 2, "NICK", <<"alice">>), Line(6, 1006, 2, "USER", <<"ua", "0", "*", "A">>),
          Line(7, 1007, 3, "NICK", <<"bob">>), Line(8, 1008, 3, "USER", <<"ub", "0", "*", "B">>),
          Line(9, 1009, 4, "NICK", <<"carol">>),
          Line(10, 1010, 2, "JOIN", <<"#A">>), Line(11, 1011, 3, "JOIN", <<"#a">>),
          Line(12, 1012, 2, "MODE", <<"#A", "+i">>), Line(13, 1013, 3, "AWAY", <<"gone">>),
          Create(14, 1014), Line(15, 1015, 14, "NICK", <<"dave">>), Line(16, 1016, 14, "USER", <<"ud", "0", "*", "D">>),
          Line(17, 1017, 14, "OPER", <<"op", "pw">>), Line(18, 1018, 2, "INVITE", <<"dave", "#a">>)>>
(* bans (two masks equal under IRC case mapping, one resolved to an address), a key, captcha protection, *)
(* and a services link whose pseudo-client has brackets in its nickname                                 *)
Pro6 == <<Config(1, 1001, "A", CfgA), Create(2, 1002), Create(3, 1003), Create(4, 1004),
          [Line(5, 1005, 2, "NICK", <<"alice">>) EXCEPT !.addr = "a1"], Line(6, 1006, 2, "USER", <<"ua", "0", "*", "A">>),
          [Line(7, 1007, 3, "NICK", <<"bob">>) EXCEPT !.addr = "a2"], Line(8, 1008, 3, "USER", <<"ub", "0", "*", "B">>),
          Line(9, 1009, 2, "JOIN", <<"#a">>),
          Line(10, 1010, 2, "MODE", <<"#a", "+b", "bob!*@*">>), Line(11, 1011, 2, "MODE", <<"#a", "+b", "BOB!*@*">>),
          Line(12, 1012, 2, "MODE", <<"#a", "+b", "*!*@robust/0x3">>), Line(13, 1013, 2, "MODE", <<"#a", "+k", "k1">>),
          (* the channel is captcha-protected as well, and the banned user holds an invitation: an invitation *)
          (* stands in for the captcha only - bans and the key still apply                                    *)
          Line(14, 1014, 2, "MODE", <<"#a", "+x">>), Line(15, 1015, 2, "INVITE", <<"bob", "#a">>),
          Line(16, 1016, 4, "PASS", <<"services=spw">>), Line(17, 1017, 4, "SERVER", <<"services.example", "1", "S">>),
          [Line(18, 1018, 4, "NICK", <<"B[ot]", "1", "1", "bo", "h", "s", "0", "+o", "B">>) EXCEPT !.hrid = 5],
          SLine(19, 1019, 4, "B[ot]", "JOIN", <<"#a">>),
          (* ... and so does a user no ban matches: the key still applies to her *)
          Create(20, 1020), Line(21, 1021, 20, "NICK", <<"carol">>), Line(22, 1022, 20, "USER", <<"uc", "0", "*", "C">>),
          Line(23, 1023, 2, "INVITE", <<"carol", "#a">>)>>
(* a GLINE-banned address: an operator banned the address of a user; every line that now arrives from that *)
(* address closes its session (ProcessMessage records the new address before anything else), whatever the   *)
(* command; plus a nickname made of the scandinavian characters only (no bracket)                          *)
Pro7 == <<Config(1, 1001, "A", CfgA), Create(2, 1002), Create(3, 1003), Create(4, 1004), Create(5, 1005),
          [Line(6, 1006, 2, "NICK", <<"alice">>) EXCEPT !.addr = "a2"], Line(7, 1007, 2, "USER", <<"ua", "0", "*", "A">>),
          Line(8, 1008, 3, "NICK", <<"bob">>), Line(9, 1009, 3, "USER", <<"ub", "0", "*", "B">>),
          Line(10, 1010, 4, "NICK", <<"fr\\ed">>), Line(11, 1011, 4, "USER", <<"uf", "0", "*", "F">>),
          [Line(12, 1012, 5, "NICK", <<"dave">>) EXCEPT !.addr = "a1"], Line(13, 1013, 5, "USER", <<"ud", "0", "*", "D">>),
          Line(14, 1014, 2, "OPER", <<"op", "pw">>),
          Line(15, 1015, 2, "JOIN", <<"#a">>), Line(16, 1016, 3, "JOIN", <<"#a">>), Line(17, 1017, 4, "JOIN", <<"#a">>),
          Line(18, 1018, 2, "GLINE", <<"dave", "spam">>)>>
Prologue == <<Pro1, Pro2, Pro3, Pro4, Pro5, Pro6, Pro7>>

NickArgs == {"alice", "Alice", "bob", "dave", "1bad", "FR|ED"}
(* index of a pseudo-client spelling in the harness's table (harness/irc: vNickTable) *)
NickIdx == ("NickServ" :> 1) @@ ("ChanServ" :> 2) @@ ("Bot" :> 3) @@ ("bot" :> 4) @@ ("B[ot]" :> 5) @@ ("b{ot}" :> 6)
           @@ ("OperServ" :> 7) @@ ("Global" :> 8) @@ ("b[ot]" :> 14) @@ ("B[OT]" :> 15)
ChanArgs == {"#a", "#A", "#b"}
Clients(s) == {x \in DOMAIN s.ss : s.ss[x].rid = 0 /\ ~s.ss[x].sv}
LinksOf(s) == {x \in DOMAIN s.ss : s.ss[x].rid = 0 /\ s.ss[x].sv}

ClientLines(fam) ==
  (IF "reg" \in fam THEN {<<"NICK", <<x>>>> : x \in NickArgs} \cup {<<"USER", <<"ux", "0", "*", "X">>>>, <<"QUIT", <<"bye">>>>} ELSE {})
  \cup (IF "member" \in fam
        THEN {<<"JOIN", <<c>>>> : c \in ChanArgs} \cup {<<"JOIN", <<"#a", "k1">>>>, <<"JOIN", <<"#a,#b">>>>}
             \cup {<<"PART", <<c>>>> : c \in {"#a", "#A"}}
             \cup {<<"KICK", <<"#a", x, "out">>>> : x \in {"alice", "BOB", "carol"}}
             \cup {<<"INVITE", <<x, "#a">>>> : x \in {"bob", "carol", "dave"}}
        ELSE {})
  \cup (IF "mode" \in fam
        THEN {<<"MODE", <<"#a", m>>>> : m \in {"+i", "-i", "-t", "+t", "-n", "+x", "+b"}}
             \cup {<<"MODE", <<"#a", "+k", "k1">>>>, <<"MODE", <<"#a", "-k", "k1">>>>, <<"MODE", <<"#a">>>>}
             \cup {<<"MODE", <<"#a", m, x>>>> : m \in {"+o", "-o"}, x \in {"alice", "bob"}}
             \cup {<<"MODE", <<"#a", m, b>>>> : m \in {"+b", "-b"}, b \in {"bob!*@*", "*!*@robust/0x3"}}
             \cup {<<"MODE", <<"alice", "+i">>>>, <<"MODE", <<"bob", "+G">>>>, <<"MODE", <<"#a", "-b", "BOB!*@*">>>>}
             (* compound strings: a ban-list query or an unknown letter mixed with real changes *)
             \cup {<<"MODE", <<"#a", m>>>> : m \in {"+b-t", "+b+i", "-t+b", "+z-t", "+ti", "-k+b"}}
        ELSE {})
  \cup (IF "talk" \in fam
        THEN {<<"PRIVMSG", <<"#a", "hi">>>>, <<"NOTICE", <<"#A", "hi">>>>, <<"PRIVMSG", <<"bob", "hi">>>>,
              <<"PRIVMSG", <<"Alice", "hi">>>>, <<"PRIVMSG", <<"$*", "all">>>>, <<"AWAY", <<"gone">>>>,
              <<"TOPIC", <<"#a", "new">>>>, <<"TOPIC", <<"#a", "">>>>, <<"TOPIC", <<"#a">>>>, <<"NS", <<"help">>>>,
              <<"WHOIS", <<"bob">>>>, <<"WHOIS", <<"ALICE">>>>, <<"WHO", <<"#a">>>>, <<"LIST", <<>>>>, <<"LIST", <<"#A">>>>, <<"NAMES", <<"#a">>>>,
              <<"MODE", <<"#a", "+s">>>>}
        ELSE {})
  \cup (IF "oper" \in fam
        THEN {<<"OPER", <<"op", "pw">>>>, <<"OPER", <<"op", "no">>>>, <<"KILL", <<"bob", "r">>>>, <<"KILL", <<"alice", "r">>>>,
              <<"GLINE", <<"bob", "spam">>>>, <<"PASS", <<"oper=op", "pw">>>>}
        ELSE {})
ServiceLines(fam) ==
  IF "services" \in fam
  THEN {<<"NickServ", "JOIN", <<"#a">>>>, <<"NickServ", "PART", <<"#a">>>>, <<"NickServ", "KICK", <<"#a", "bob", "x">>>>,
        <<"NickServ", "MODE", <<"#a", "+o", "bob">>>>, <<"NickServ", "MODE", <<"#a", "+i">>>>,
        <<"NickServ", "KILL", <<"bob", "x">>>>, <<"NickServ", "SVSNICK", <<"bob", "zed", "1">>>>,
        (* another spelling of the target's own nickname, and a nickname another session owns (refused) *)
        <<"NickServ", "SVSNICK", <<"bob", "BOB", "1">>>>, <<"NickServ", "SVSNICK", <<"bob", "alice", "1">>>>,
        <<"NickServ", "SVSJOIN", <<"bob", "#b">>>>, <<"NickServ", "SVSPART", <<"bob", "#a">>>>,
        <<"NickServ", "PRIVMSG", <<"#a", "hello">>>>, <<"NickServ", "PRIVMSG", <<"alice", "hello">>>>,
        <<"NickServ", "INVITE", <<"carol", "#a">>>>, <<"NickServ", "SVSHOLD", <<"dave", "5", "held">>>>,
        <<"NickServ", "SVSMODE", <<"alice", "+r">>>>, <<"NickServ", "TOPIC", <<"#a", "NickServ", "5", "svc topic">>>>,
        <<"NickServ", "QUIT", <<"gone">>>>,
        <<"B[ot]", "QUIT", <<"gone">>>>, <<"b{OT}", "KILL", <<"bob", "x">>>>, <<"B[ot]", "PART", <<"#a">>>>,
        (* introductions (no prefix): another spelling of an existing pseudo-client, and a new one *)
        <<"", "NICK", <<"b[ot]", "1", "1", "bo", "h", "s", "0", "+o", "B2">>>>,
        <<"", "NICK", <<"Global", "1", "1", "gl", "h", "s", "0", "+o", "G">>>>}
  ELSE {}

Alphabet(s, k) ==
  LET id == 100 + k   ts == 1100 + k
      addrs == IF "addr" \in Families THEN {"", "a1"} ELSE {""}
  IN
  {[Line(id, ts, s.ss[x].id, l[1], l[2]) EXCEPT !.addr = ad] : x \in Clients(s), l \in ClientLines(Families), ad \in addrs}
  \cup {IF l[1] = "" THEN [Line(id, ts, s.ss[x].id, l[2], l[3]) EXCEPT !.hrid = NickIdx[l[3][1]]]
        ELSE SLine(id, ts, s.ss[x].id, l[1], l[2], l[3]) :
          x \in LinksOf(s),
          l \in ServiceLines(Families)}
  \cup (IF "entry" \in Families
        THEN {Create(id, ts)} \cup {Delete(id, ts, s.ss[x].id) : x \in Clients(s)} \cup {Mod(id, ts, s.ss[x].id) : x \in Clients(s)}
             \cup {Config(id, ts, "B", [CfgB EXCEPT !.rev = s.cfg.rev + 1])}
        ELSE {})
  \cup (IF "time" \in Families
        THEN {[Line(id, ts + 700, s.ss[x].id, "JOIN", <<"#a">>) EXCEPT !.ts = ts + 700] : x \in Clients(s)}
        ELSE {})

(* failures relevant in the model: everything except the verdicts computed from real executions *)
MCRec == [panic |-> FALSE, det |-> "", snap |-> "", lines |-> "", view |-> "", rids |-> "", lkload |-> "", lookup |-> <<>>, e |-> [conf |-> TRUE, id |-> 0]]
MCFailures(S, e, r) ==
  IF r.panic THEN {<<"C06", "NoPanic">>}
  ELSE PropFailures(S, e, r.st, r.out \o r.tail, [MCRec EXCEPT !.e = [conf |-> TRUE, id |-> e.id]])
       \cup FS("C17", "LookupSoundModel",
               \A id \in 0..(e.id + 2) : Lookup(r.st, id) = "nosuch" => (Sid(id, 0) \notin DOMAIN r.st.ss /\ id < e.id))

Init == /\ \E k \in Prologues : st = Run(InitState, Prologue[k]) /\ hist = Prologue[k]
        /\ n = 0 /\ bad = {}
Next == /\ n < MaxN
        /\ \E e \in Alphabet(st, n + 1) :
           \E r \in {Step(st, e)} :
             /\ st' = r.st
             /\ n' = n + 1
             /\ bad' = MCFailures(st, e, r)
             /\ hist' = Append(hist, e)
Spec == Init /\ [][Next]_vars

(* simulation: ONE random successor per step (RandomElement), so a walk costs one Step per entry; *)
(* the finished walk is printed once as a JSON program                                         *)
SimNext ==
  \/ /\ n < MaxN
     /\ \E e \in {RandomElement(Alphabet(st, n + 1))} :     \* bound once (a LET would be re-evaluated)
          \E r \in {Step(st, e)} :
             /\ st' = r.st /\ n' = n + 1 /\ bad' = MCFailures(st, e, r) /\ hist' = Append(hist, e)
  \/ /\ n = MaxN
     /\ PrintT(<<"PROGRAM", ToJson(hist)>>)
     /\ n' = MaxN + 1 /\ UNCHANGED <<st, bad, hist>>
SimSpec == Init /\ [][SimNext]_vars

NoFailure == bad = {}

(* transition cover: with ACTION_CONSTRAINT EmitEdge TLC prints every generated transition as   *)
(* (prologue number, entries after the prologue); the check replays each on the real server.     *)
Slim(e) == IF e.t = "config" THEN e
           ELSE [t |-> e.t, id |-> e.id, sess |-> e.sess, ts |-> e.ts, cmid |-> e.cmid, addr |-> e.addr,
                 data |-> e.data, capok |-> e.capok, sup |-> TRUE, conf |-> TRUE]
ProIdx(h, k) == CHOOSE j \in Prologues : Len(Prologue[j]) = Len(h) - k /\ SubSeq(h, 1, Len(Prologue[j])) = Prologue[j]
EmitEdge ==
  LET j == ProIdx(hist', n') IN
  PrintT(<<"EDGE", ToJson([pro |-> j, es |-> [i \in 1..n' |-> Slim(hist'[Len(Prologue[j]) + i])]])>>)
EmitPrologues == \A j \in Prologues : PrintT(<<"PROLOGUE", j, ToJson(Prologue[j])>>)
ASSUME EmitPrologues
(* the service-bag replies (SERVER burst) are appended for the recipient predicates *)

=============================================================================
