\* simulation: random walks of MaxN entries, printed as programs for replay on the real server
SPECIFICATION SimSpec
CONSTANTS
  NetName = "robustirc.net"
  MaxN = 25
  Families = {"reg", "member", "mode", "talk", "oper", "services", "entry", "addr", "time"}
  Prologues = {1, 2, 3, 4, 5, 6, 7}
INVARIANT NoFailure
CHECK_DEADLOCK FALSE
