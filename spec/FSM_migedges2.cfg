\* Encoding migration, edge cover replayed on the real FSM (thorough tier of C07): as
\* FSM_mig.cfg without the failed Persist, compaction time 64 only (48,725 states, 86,157 transitions).
\* EmitEdge prints the history of every generated transition.
SPECIFICATION Spec
CONSTANTS
    Alphabet <- AlphaMig
    TS = {0, 6}
    Nows = {64}
    Prelude <- PreludeReg
    DefaultExp = 60
    Grace = 1
    MaxLen = 6
    MaxGaps = 0
    MaxSnaps = 2
    MaxFails = 0
    MaxRestarts = 1
    MaxRestores = 1
    MaxPanics = 2
    FixF2 = TRUE
    FixF3 = TRUE
    InitEnc = "json"
    MaxMigrations = 1
VIEW view
INVARIANTS
    TypeOK
    StateIsFullReplay
    RestoreEqualsReplay
    LssSound
    NextBaseFound
    FoldedXorRetained
    OutputIffRetained
    HorizonRespected
    ExpInForce
    ModOnlyPanicking
    ModSkippedEverywhere
    ModProgress
    EncUniform
    SnapshotsReadable
ACTION_CONSTRAINT EmitEdge
CHECK_DEADLOCK FALSE
