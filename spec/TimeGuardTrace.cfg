SPECIFICATION Spec
INVARIANTS
    TInputsAreMeasurements
    TSound
    TRefusalNamesOffenders
    TDisabledNeverRefuses
    TNonAnsweringIgnored
POSTCONDITION AllConsumed
CHECK_DEADLOCK FALSE
