\* Expiration model (C02, F3), exhaustive: config entries that set SessionExpiration
\* to 10 s / 900 s, an invalid config, timestamps {0, 30}, <= 3 entries after the
\* CreateSession.  Cutoffs: exp 1: now-2, default: now-61, exp 90: now-91.
\* Measured: 125,661 distinct states.
SPECIFICATION Spec
CONSTANTS
    Alphabet <- AlphaExp
    TS = {0, 30}
    Nows = {64, 95}
    Prelude <- PreludeSess
    DefaultExp = 60
    Grace = 1
    MaxLen = 4
    MaxGaps = 0
    MaxSnaps = 2
    MaxFails = 0
    MaxRestarts = 1
    MaxRestores = 0
    MaxPanics = 0
    FixF2 = TRUE
    FixF3 = TRUE
    InitEnc = "proto"
    MaxMigrations = 0
VIEW view
INVARIANTS
    TypeOK
    StateIsFullReplay
    RestoreEqualsReplay
    LssSound
    NextBaseFound
    FoldedXorRetained
    OutputIffRetained
    HorizonRespected
    ExpInForce
    ModOnlyPanicking
    ModSkippedEverywhere
    ModProgress
    EncUniform
    SnapshotsReadable
CHECK_DEADLOCK FALSE
