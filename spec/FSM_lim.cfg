\* Session-limit model, exhaustive (thorough tier): two sessions' lines, limits 1 and 2,
\* a raft-internal gap (210,926 distinct states).
SPECIFICATION Spec
CONSTANTS
    Alphabet <- AlphaLim
    TS = {0, 4}
    Nows = {64}
    Prelude <- PreludeSess
    DefaultExp = 60
    Grace = 1
    MaxLen = 4
    MaxGaps = 1
    MaxSnaps = 2
    MaxFails = 0
    MaxRestarts = 1
    MaxRestores = 1
    MaxPanics = 0
    FixF2 = TRUE
    FixF3 = TRUE
    InitEnc = "proto"
    MaxMigrations = 0
VIEW view
INVARIANTS
    TypeOK
    StateIsFullReplay
    RestoreEqualsReplay
    LssSound
    NextBaseFound
    FoldedXorRetained
    OutputIffRetained
    HorizonRespected
    ExpInForce
CHECK_DEADLOCK FALSE
