\* Encoding migration, snapshot bookkeeping (C02), edge cover replayed on the real FSM:
\* one session (CreateSession is the prelude) in a JSON life, <= 2 further entries over
\* {line, raft-internal} x timestamps {0, 6}, <= 1 raft-internal gap (ConvertToProto
\* re-encodes those on another branch), two snapshots (so: JSON container before the
\* migration, protobuf container after it, and the protobuf snapshot starting from the base
\* the JSON snapshot left), live restore, a plain restart, one RestartWithEncoding("proto").
\* Compaction times 64 / 70: cutoff 3 (ts 0 old, ts 6 young) / 9 (everything old).
\* Measured: 8,093 distinct states, 18,621 transitions (8,435 maximal behaviours contain the migration).
SPECIFICATION Spec
CONSTANTS
    Alphabet <- AlphaMigB
    TS = {0, 6}
    Nows = {64, 70}
    Prelude <- PreludeSess
    DefaultExp = 60
    Grace = 1
    MaxLen = 3
    MaxGaps = 1
    MaxSnaps = 2
    MaxFails = 0
    MaxRestarts = 1
    MaxRestores = 1
    MaxPanics = 0
    FixF2 = TRUE
    FixF3 = TRUE
    InitEnc = "json"
    MaxMigrations = 1
VIEW view
INVARIANTS
    TypeOK
    StateIsFullReplay
    RestoreEqualsReplay
    LssSound
    NextBaseFound
    FoldedXorRetained
    OutputIffRetained
    HorizonRespected
    ExpInForce
    ModOnlyPanicking
    ModSkippedEverywhere
    ModProgress
    EncUniform
    SnapshotsReadable
ACTION_CONSTRAINT EmitEdge
CHECK_DEADLOCK FALSE
