\* C15, the tree as read (no repair): TLC is EXPECTED to violate OneLine (documentation of F13/F13b/F13c).
SPECIFICATION Spec
CONSTANTS
  MaxLen = 10
  FixSanitise = FALSE
  MaxUser = 0
  FixUtf8 = FALSE
  MaxX = 3
INVARIANTS TypeOK OneLine
CHECK_DEADLOCK FALSE
