\* C16 exhaustive (thorough): every behaviour of up to MaxSteps actions over three
\* valid bodies + the re-post + one invalid body, five header spellings, two
\* sessions, one bridge claim, injection, snapshot and restart.
SPECIFICATION Spec
CONSTANTS
  Users = {"u1", "u2"}
  Chans = {"c1"}
  Bodies = {"A", "Ab", "B", "Cn", "R", "Xtype"}
  HdrKinds = {"cur", "curHex", "stale", "future", "garbage"}
  Vias = {"d", "b1:a1"}
  Creds = {"o1"}
  InjectRevs = {"plus3"}
  MaxSteps = 6
  MaxRej = 1
  MaxSnap = 1
  MaxRestart = 1
  MaxInject = 1
  MaxBattery = 1
  MaxCfg = 2
  FixedF5 = FALSE
  RecordHist = FALSE
INVARIANTS TypeOK ReplicasSameConfig OriginsOnlyLost ExpirationFollowsConfig GlineIsConfig
PROPERTIES ConfigRevisionStep RejectedChangesNothing
CHECK_DEADLOCK FALSE
POSTCONDITION ExportTable
