\* C16 scenario: as Config_scen_gline_post.cfg, but the GLINE comes after the second post.
SPECIFICATION SpecPostThenGline
CONSTANTS
  Users = {"u1", "u2"}
  Chans = {}
  Bodies = {"A", "Ae", "Ab", "R"}
  HdrKinds = {"cur"}
  Vias = {"d", "b1:a1"}
  Creds = {"o1"}
  InjectRevs = {"same"}
  MaxSteps = 11
  MaxRej = 0
  MaxSnap = 1
  MaxRestart = 1
  MaxInject = 0
  MaxBattery = 1
  MaxCfg = 2
  FixedF5 = FALSE
  RecordHist = TRUE
INVARIANTS ReplicasSameConfig ExpirationFollowsConfig GlineIsConfig ExportBehaviours
CHECK_DEADLOCK FALSE
