\* C16: with F5 open (FixedF5 = FALSE) TLC must find a state where the restored
\* lineage lost WhitelistedOrigins (candidate only; the replay decides).
SPECIFICATION Spec
CONSTANTS
  Users = {"u1", "u2"}
  Chans = {"c1"}
  Bodies = {"A", "C", "R", "Xtype"}
  HdrKinds = {"cur", "stale", "garbage"}
  Vias = {"d", "b1:a1"}
  Creds = {"o1"}
  InjectRevs = {"plus3"}
  MaxSteps = 5
  MaxRej = 1
  MaxSnap = 1
  MaxRestart = 1
  MaxInject = 1
  MaxBattery = 0
  MaxCfg = 2
  FixedF5 = FALSE
  RecordHist = FALSE
INVARIANTS ReplicasSameOrigins

CHECK_DEADLOCK FALSE
