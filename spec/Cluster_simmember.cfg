\* Simulation with membership changes, as the code behaves (F7 = TRUE): two initial
\* members, the third node joins late (after compacting snapshots: TrailingLogs = 0),
\* members are removed and join again; produces the fault schedules (history variable,
\* EmitSchedule) with join / part / retire steps replayed on real binaries.
\* AckedExactlyOnce/AckedInOrder are left out here on purpose (see Cluster_f7.cfg).
SPECIFICATION Spec
CONSTANTS
  Nodes = {1, 2, 3}
  Clients = {1, 2, 3}
  MaxCmid = 4
  MaxKills = 2
  MaxSnaps = 2
  MaxLeaderChanges = 1
  MaxPauses = 1
  MaxFails = 1
  F7 = TRUE
  InitSize = 2
  MaxJoins = 2
  MaxParts = 1
  Trailing = 0
INVARIANTS
  TypeOK
  LeaderComplete
  CommittedOnMajority
  AckedDurable
  AppliedPrefixAgreement
  StreamsAgree
  EqualAtQuiescence
CONSTRAINT EmitSchedule
CHECK_DEADLOCK FALSE
