\* Encoding migration, edge cover replayed on the real FSM (quick tier of C07): as
\* FSM_mig.cfg with <= 2 further entries, one snapshot, one crash in either life.
\* EmitEdge prints the history of every generated transition (1,830 states, 3,378 transitions).
SPECIFICATION Spec
CONSTANTS
    Alphabet <- AlphaMig
    TS = {0, 6}
    Nows = {64}
    Prelude <- PreludeReg
    DefaultExp = 60
    Grace = 1
    MaxLen = 5
    MaxGaps = 0
    MaxSnaps = 1
    MaxFails = 0
    MaxRestarts = 1
    MaxRestores = 1
    MaxPanics = 1
    FixF2 = TRUE
    FixF3 = TRUE
    InitEnc = "json"
    MaxMigrations = 1
VIEW view
INVARIANTS
    TypeOK
    StateIsFullReplay
    RestoreEqualsReplay
    LssSound
    NextBaseFound
    FoldedXorRetained
    OutputIffRetained
    HorizonRespected
    ExpInForce
    ModOnlyPanicking
    ModSkippedEverywhere
    ModProgress
    EncUniform
    SnapshotsReadable
ACTION_CONSTRAINT EmitEdge
CHECK_DEADLOCK FALSE
