\* C08 liveness under weak fairness of the readers' own steps only (FairSpec),
\* no state constraint, no symmetry.  Live: no reader stays in flight for ever
\* while a successor of its position persists; CancelReturns: cancelled + woken
\* leads to a return.  Bounds: ids 1..2, one adder, one deleter, two readers,
\* one interrupter/canceller.
SPECIFICATION FairSpec
CONSTANTS
  MaxId = 2
  Threads = {1, 2, 3, 4, 5}
  Adders = {1}
  Deleters = {2}
  Readers = {3, 4}
  Getters = {}
  Interrupters = {5}
  Fixed = TRUE
  LockedInterrupt = TRUE
  Contig = TRUE
  KeepHist = 0
PROPERTIES
  Live
  CancelReturns
CHECK_DEADLOCK FALSE
