\* transition cover, depth 2: every transition of the depth-2 graph is printed and replayed on the real server
SPECIFICATION Spec
CONSTANTS
  NetName = "robustirc.net"
  MaxN = 2
  Families = {"reg", "member", "mode", "talk", "oper", "services", "entry", "addr", "time"}
  Prologues = {1, 2, 3, 4, 5, 6, 7}
INVARIANT NoFailure
ACTION_CONSTRAINT EmitEdge
VIEW View
CHECK_DEADLOCK FALSE
