------------------------------- MODULE Expiry -------------------------------
(* Session expiry of robustirc as the real program does it (C17).            *)
(*                                                                           *)
(*   robustirc.go main():  every expireSessionsInterval (10 s) on EVERY      *)
(*       node a timer fires; only if node.State() == raft.Leader the node    *)
(*       calls ircServer.ExpireSessions() and proposes, one after the other  *)
(*       (api.ApplyMessageWait: propose, wait until applied), one            *)
(*       DeleteSession entry per session found                               *)
(*   internal/ircserver ExpireSessions():  exactly the sessions with         *)
(*       Id.Reply = 0 whose time.Since(LastActivity) > Config.SessionExpiration *)
(*   UpdateLastClientMessageID():  every applied line of a session (PING     *)
(*       included) sets LastActivity to the ENTRY's timestamp, which the     *)
(*       proposing node took when it accepted the line                       *)
(*   statemachine.go:  a Config entry replaces the configuration when it is  *)
(*       applied; a DeleteSession entry is processed as QUIT (a services     *)
(*       link takes its pseudo-clients with it) and the session is removed   *)
(*   statemachine.go FSM.Restore (raft InstallSnapshot on a follower that    *)
(*       fell behind, at RUN TIME):  a NEW IRCServer is built, published     *)
(*       (setIRCServer / fsm.ReplaceState) and loaded from the snapshot; the *)
(*       old object is orphaned with the contents it had; the process and    *)
(*       its timer go on.  The loop therefore asks for the server at every   *)
(*       sweep: currentIRCServer().ExpireSessions()                          *)
(*                                                                           *)
(* Raft is abstracted to one FIFO of committed entries (pend) applied to one *)
(* replicated state; an entry is applied at most MaxLag after its proposal.  *)
(* Time is discrete.  One action per step of the timer loop / per entry.     *)
EXTENDS Integers, Sequences, FiniteSets, TLC, ExpiryProps

CONSTANTS
    Nodes,      \* raft nodes
    Clients,    \* client sessions (Id.Reply = 0)
    Links,      \* services-link sessions (Id.Reply = 0, a client of their own behind them)
    Pseudo,     \* services pseudo-clients (Id.Reply # 0), introduced by a link
    Owner,      \* [Pseudo -> Links]
    Interval,   \* expireSessionsInterval
    Exps,       \* values of SessionExpiration a Config entry may carry
    InitExp,
    MaxTime, MaxLag, MaxChanges, MaxPend, MaxConfigs,
    MaxRestores, \* run-time restores (0: none, the instances of before the action was added)
    StaleRef,    \* FALSE: the code (the sweep looks the server up).  TRUE: the variant that documents why - the
                 \* loop keeps the server it saw when the process started (`server := currentIRCServer()` hoisted)
    None

Sessions == Clients \cup Links \cup Pseudo
Posting  == Clients \cup Links            \* sessions that post lines themselves
Reply(s) == IF s \in Pseudo THEN 1 ELSE 0
Window   == MaxLag + 1 + CHOOSE e \in Exps : \A f \in Exps : f <= e

VARIABLES
    now,        \* the clock
    leader,     \* the raft leader (None during an election)
    armed,      \* [Nodes -> time]: when node n's expireSessionsTimer was armed last
    todo,       \* [Nodes -> Seq(Sessions)]: rest of the slice ExpireSessions returned to n's loop
    pend,       \* committed entries not yet applied (FIFO)
    \* ---- the replicated state (ircserver.IRCServer)
    alive,      \* i.sessions
    la,         \* Session.LastActivity
    exp,        \* i.Config.SessionExpiration
    nicks,      \* i.nicks: name -> session (names are called after their first owners)
    members,    \* the nick set of the one channel
    \* ---- history, for the properties only
    posts,      \* [Posting -> times at which the session's recent lines were proposed]
    swept,      \* [Nodes -> what n's sweep in progress found: records [s, reply, la, T, exp, prot]]
    changes, configs,
    badDelivery,\* a line was addressed to a session that had ended
    \* ---- run-time restore
    restores,   \* how many there were
    orphan,     \* [Nodes -> the server object n's process started with, once a restore has orphaned it: its
                \*  contents as they were then; None while it is still the one in use (recorded under StaleRef only)]
    missed      \* [Nodes -> sessions n's last sweep should have found and did not] (history)

vars == <<now, leader, armed, todo, pend, alive, la, exp, nicks, members, posts, swept, changes, configs, badDelivery,
          restores, orphan, missed>>
rvars == <<restores, orphan, missed>>
state == <<alive, la, exp, nicks, members, badDelivery>>

Perms(W) == {f \in [1..Cardinality(W) -> W] : \A i, j \in 1..Cardinality(W) : f[i] = f[j] => i = j}

Init ==
    /\ now = 0
    /\ leader \in Nodes
    /\ armed \in [Nodes -> {0, -1}]                  \* the nodes' timers are not in phase
    /\ todo = [n \in Nodes |-> <<>>]
    /\ pend = <<>>
    /\ alive = Sessions
    /\ la = [s \in Sessions |-> 0]
    /\ exp = InitExp
    /\ nicks = [x \in Sessions |-> x]
    /\ members = Sessions
    /\ posts = [s \in Posting |-> {0}]
    /\ swept = [n \in Nodes |-> {}]
    /\ changes = 0 /\ configs = 0
    /\ badDelivery = FALSE
    /\ restores = 0
    /\ orphan = [n \in Nodes |-> None]
    /\ missed = [n \in Nodes |-> {}]

(* ------------------------------------------------------------------ time *)
Advance ==
    /\ now < MaxTime
    /\ \A i \in 1..Len(pend) : now + 1 - pend[i].ts <= MaxLag
    /\ \A n \in Nodes : todo[n] = <<>> => now - armed[n] < Interval     \* a due timer fires before time moves on
    /\ now' = now + 1
    /\ posts' = [s \in Posting |-> {p \in posts[s] : p >= now + 1 - Window}]
    /\ UNCHANGED <<leader, armed, todo, pend, state, swept, changes, configs, rvars>>

(* ------------------------------------------------- the timer loop of main() *)
\* the part of a server object ExpireSessions reads
Current == [alive |-> alive, la |-> la, exp |-> exp]
\* the object node n's loop scans: the one in use now (the applied prefix) - or, StaleRef, the one of process start
Scanned(n) == IF StaleRef /\ orphan[n] # None THEN orphan[n] ELSE Current
Idle(V) == {s \in V.alive : Sweepable(Reply(s)) /\ TooIdle(V.la[s], now, V.exp)}
SweepSet(n) == Idle(Scanned(n))

\* what is TRUE of the session at this tick (not: what the scanned object says)
\* prot: the session's recent lines that should have protected it from this tick (none, if all is well)
SweepRec(s) == [s |-> s, reply |-> Reply(s), la |-> la[s], T |-> now, exp |-> exp,
                prot |-> IF s \in Posting THEN {p \in posts[s] : ProtectedBy(p, now, exp, MaxLag)} ELSE {}]

\* case <-expireSessionsTimer: re-arm; if node.State() != raft.Leader { continue }; msgs := ExpireSessions()
Tick(n) ==
    /\ now - armed[n] >= Interval
    /\ todo[n] = <<>>
    /\ armed' = [armed EXCEPT ![n] = now]
    /\ IF n = leader
          THEN \E order \in Perms(SweepSet(n)) :    \* map iteration order
                  /\ todo' = [todo EXCEPT ![n] = order]
                  /\ swept' = [swept EXCEPT ![n] = {SweepRec(s) : s \in SweepSet(n)}]
                  /\ missed' = [missed EXCEPT ![n] = Idle(Current) \ SweepSet(n)]
          ELSE UNCHANGED <<todo, swept, missed>>
    /\ UNCHANGED <<now, leader, pend, state, posts, changes, configs, restores, orphan>>

\* api.ApplyMessageWait(msg, 10*time.Second) for the next message of the slice: proposed
\* only once the previous one has been applied; fails on a node that is not the leader
Propose(n) ==
    /\ todo[n] # <<>>
    /\ ~ \E i \in 1..Len(pend) : pend[i].k = "delete" /\ pend[i].sweep /\ pend[i].by = n
    /\ IF n = leader                              \* (raft queues proposals: never refused for load)
          THEN pend' = Append(pend, [k |-> "delete", s |-> Head(todo[n]), ts |-> now, sweep |-> TRUE, by |-> n,
                                   rec |-> CHOOSE r \in swept[n] : r.s = Head(todo[n])])
          ELSE UNCHANGED pend                       \* "Apply(): node is not the leader"
    /\ todo' = [todo EXCEPT ![n] = Tail(todo[n])]
    /\ swept' = IF Len(todo[n]) = 1 THEN [swept EXCEPT ![n] = {}] ELSE swept
    /\ UNCHANGED <<now, leader, armed, state, posts, changes, configs, rvars>>

(* ------------------------------------------------------------ the clients *)
\* the model bounds the requests in flight (the sweep's own proposals are never refused)
Room == Cardinality({i \in 1..Len(pend) : ~ (pend[i].k = "delete" /\ pend[i].sweep)}) < MaxPend

\* POST .../message: accepted for a session the leader knows; the timestamp is taken now
Post(s, cmd, x) ==
    /\ s \in alive /\ leader # None /\ Room
    /\ pend' = Append(pend, [k |-> "line", s |-> s, ts |-> now, cmd |-> cmd, x |-> x])
    /\ posts' = [posts EXCEPT ![s] = @ \cup {now}]
    /\ UNCHANGED <<now, leader, armed, todo, state, swept, changes, configs, rvars>>

\* DELETE /robustirc/v1/<session>
ClientDelete(s) ==
    /\ s \in alive /\ leader # None /\ Room
    /\ pend' = Append(pend, [k |-> "delete", s |-> s, ts |-> now, sweep |-> FALSE, by |-> leader, rec |-> None])
    /\ UNCHANGED <<now, leader, armed, todo, state, posts, swept, changes, configs, rvars>>

\* POST /config
SetConfig(e) ==
    /\ leader # None /\ Room /\ configs < MaxConfigs
    /\ pend' = Append(pend, [k |-> "config", ts |-> now, e |-> e])
    /\ configs' = configs + 1
    /\ UNCHANGED <<now, leader, armed, todo, state, posts, swept, changes, rvars>>

(* ------------------------------------------------- FSM.Apply of one entry *)
EndSessions(S) ==
    /\ alive' = alive \ S
    /\ members' = members \ S
    /\ nicks' = [x \in Sessions |-> IF nicks[x] \in S THEN None ELSE nicks[x]]

ApplyLine(e) ==
    IF e.s \notin alive
       THEN UNCHANGED state
       ELSE /\ la' = [la EXCEPT ![e.s] = e.ts]          \* UpdateLastClientMessageID, PING included
            /\ exp' = exp /\ alive' = alive /\ members' = members
            /\ nicks' = IF e.cmd = "NICK" /\ nicks[e.x] = None
                           THEN [y \in Sessions |-> IF y = e.x THEN e.s ELSE IF nicks[y] = e.s THEN None ELSE nicks[y]]
                           ELSE nicks                    \* 433 otherwise
            /\ badDelivery' = (badDelivery \/ (e.cmd = "PRIVMSG" /\ ~ ((members \ {e.s}) \subseteq alive)))

ApplyDelete(e) ==
    IF e.s \notin alive
       THEN UNCHANGED state
       ELSE /\ EndSessions({e.s} \cup (IF e.s \in Links THEN {p \in Pseudo : Owner[p] = e.s} ELSE {}))
            /\ UNCHANGED <<la, exp, badDelivery>>

Apply ==
    /\ pend # <<>>
    /\ pend' = Tail(pend)
    /\ LET e == Head(pend) IN
         CASE e.k = "line"   -> ApplyLine(e)
           [] e.k = "delete" -> ApplyDelete(e)
           [] e.k = "config" -> exp' = e.e /\ UNCHANGED <<alive, la, nicks, members, badDelivery>>
    /\ UNCHANGED <<now, leader, armed, todo, posts, swept, changes, configs, rvars>>

(* ----------------------------------------------------- FSM.Restore at run time *)
\* raft sends InstallSnapshot to a follower whose next entry is no longer in the leader's log.  The
\* follower's FSM.Restore replaces the server OBJECT; the new one is loaded with the snapshot and the
\* entries behind it, i.e. its contents are the applied prefix - the replicated state of this model,
\* which is why nothing of `state` changes.  The object the process started with stays as it was at
\* this moment; nothing applies entries to it any more.  armed[n] and todo[n] are untouched: the
\* timer loop runs on (it may even be in the middle of a slice it got while n was the leader).
Restore(n) ==
    /\ restores < MaxRestores
    /\ n # leader
    /\ restores' = restores + 1
    /\ orphan' = IF StaleRef /\ orphan[n] = None THEN [orphan EXCEPT ![n] = Current] ELSE orphan
    /\ UNCHANGED <<now, leader, armed, todo, pend, state, posts, swept, changes, configs, missed>>

(* ------------------------------------------------------------------- raft *)
LeaderChange ==
    /\ changes < MaxChanges
    /\ \E m \in (Nodes \cup {None}) \ {leader} : leader' = m
    /\ changes' = changes + 1
    /\ UNCHANGED <<now, armed, todo, pend, state, posts, swept, configs, rvars>>

Elect ==
    /\ leader = None
    /\ \E m \in Nodes : leader' = m
    /\ UNCHANGED <<now, armed, todo, pend, state, posts, swept, changes, configs, rvars>>

Next ==
    \/ Advance
    \/ \E n \in Nodes : Tick(n) \/ Propose(n) \/ Restore(n)
    \/ \E s \in Links : Post(s, "PING", None)
    \/ \E s \in Clients : Post(s, "PRIVMSG", None) \/ ClientDelete(s)
    \/ \E s \in Clients, x \in Clients : Post(s, "NICK", x)
    \/ \E e \in Exps \ {exp} : SetConfig(e)
    \/ Apply
    \/ LeaderChange
    \/ Elect

Spec == Init /\ [][Next]_vars

FairSpec == Spec /\ WF_vars(Advance) /\ WF_vars(Apply) /\ WF_vars(Elect)
                 /\ \A n \in Nodes : WF_vars(Tick(n)) /\ WF_vars(Propose(n))

(* ------------------------------------------------------------- properties *)
SweepEntries == {pend[i] : i \in {j \in 1..Len(pend) : pend[j].k = "delete" /\ pend[j].sweep}}
SweepRecs == UNION {swept[n] : n \in Nodes} \cup {e.rec : e \in SweepEntries}

\* a session is only ever proposed by a sweep that found it idle for longer than the
\* expiration in force at that tick - and never a pseudo-client
OnlyIdleExpire == \A r \in SweepRecs : SweepRecOK(r)

\* a session that posts more often than the expiration is never swept
ActiveNeverExpires == \A r \in SweepRecs : r.prot = {}

\* a sweep finds EVERY session that is idle for longer than the expiration in force (in the state the
\* node's FSM has applied - here the replicated state)
SweepsAllIdle == \A n \in Nodes : missed[n] = {}

\* after a session has ended: not in the channel, its nickname free, nothing addressed to it
ExpiredSessionGone ==
    /\ members \subseteq alive
    /\ \A x \in Sessions : nicks[x] # None => nicks[x] \in alive
    /\ ~ badDelivery

\* only the leader's timer produces proposals
FollowersNeverPropose ==
    [][\A n \in Nodes : Len(todo'[n]) > Len(todo[n]) => n = leader]_vars

NickUnique == \A x, y \in Sessions : nicks[x] # None /\ nicks[x] = nicks[y] => x = y

\* an idle session is eventually swept once the leader stays (fair timers, fair raft); stated
\* within the horizon of the model: the leader's next tick must still fit
IdleTooLong(s) == s \in alive /\ Sweepable(Reply(s)) /\ TooIdle(la[s], now, exp)
IdleEventuallyExpires ==
    \A s \in Posting : \A L \in Nodes :
        []((IdleTooLong(s) /\ now + Interval <= MaxTime /\ [](leader = L)) => <>(~ IdleTooLong(s)))

TypeOK ==
    /\ now \in 0..MaxTime /\ leader \in Nodes \cup {None}
    /\ alive \subseteq Sessions /\ exp \in Exps \cup {InitExp}
    /\ Len(pend) <= MaxPend + Cardinality(Nodes)
    /\ restores \in 0..MaxRestores
    /\ \A n \in Nodes : orphan[n] = None \/ StaleRef
=============================================================================
