\* must FAIL (root module TimeGuardMC): shows that conservative refusals exist
\* in the model (the guard is sound, not complete), i.e. the invariants of the
\* other configurations are not vacuous.
SPECIFICATION Spec
CONSTANTS
    ET = 4
    Deltas <- GridDeltas
    Delays <- GridDelays
    Starts = {0}
    MaxPeers = 1
INVARIANTS
    NeverConservative
CHECK_DEADLOCK FALSE
