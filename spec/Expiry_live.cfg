\* liveness: an idle session is eventually swept once the leader stays (weak fairness of the
\* timers, of the proposals and of raft); no symmetry (liveness)
SPECIFICATION FairSpec
CONSTANTS
    n1 = n1  n2 = n2  n3 = n3  c1 = c1  c2 = c2  k1 = k1  p1 = p1
    Nodes = {n1, n2}
    Clients = {c1}
    Links = {}
    Pseudo = {}
    Owner <- MCNoOwner
    Interval = 2
    Exps = {1, 2}
    InitExp = 1
    MaxTime = 4
    MaxLag = 1
    MaxChanges = 1
    MaxPend = 1
    MaxConfigs = 1
    MaxRestores = 0
    StaleRef = FALSE
    None = None
INVARIANTS TypeOK
PROPERTIES IdleEventuallyExpires
CHECK_DEADLOCK FALSE
