SPECIFICATION TSpec
CONSTANTS
  CMIDs = {0, 1, 2}
  MaxSteps = 1000000
  MaxOrig = 1000000
  MaxRetries = 1000000
  MaxOther = 1000
  MaxSnap = 1000000
  MaxRestart = 1000000
  TrapFeature = "none"
INVARIANTS ObsNoDoubleApply ObsNoAdjacentDuplicate ObsMarkersSurvive ObsDeathSetsMarker ObsReplicasAgree
POSTCONDITION Accept
CHECK_DEADLOCK FALSE
