\* membership (c): 3 nodes, all members, 2 parts and 1 (re)join, 1 kill, 1 pause, 1 compacting snapshot, 1 client x 2 posts
\* Exhaustive, idealised duplicate test (F7 = FALSE): every invariant must hold.
\* Nodes are model values and symmetric; the history variable is outside the VIEW.
SPECIFICATION Spec
CONSTANTS
  Nodes = {n1, n2, n3}
  Clients = {1}
  MaxCmid = 2
  MaxKills = 1
  MaxSnaps = 1
  MaxLeaderChanges = 0
  MaxPauses = 1
  MaxFails = 0
  F7 = FALSE
  InitSize = 3
  MaxJoins = 1
  MaxParts = 2
  Trailing = 0
VIEW view
SYMMETRY NodeSymmetry
INVARIANTS
  TypeOK
  LeaderComplete
  CommittedOnMajority
  AckedDurable
  AppliedPrefixAgreement
  StreamsAgree
  AckedExactlyOnce
  AckedInOrder
  EqualAtQuiescence
PROPERTIES
  LogGrows
  AckOnlyAfterApply
  SingleServerChanges
  RestoredStateIsPrefix
CHECK_DEADLOCK FALSE
