\* C04 liveness (repaired getMessages): a client that stays connected receives
\* everything, under weak fairness of the reader, of Recv and of every node's Add.
\* No VIEW (liveness); small constants.
CONSTANTS
  Nodes = {1, 2}
  MaxBatches = 2
  MaxReplies = 2
  MaxReconnects = 2
  Fixed = TRUE
  Hist = FALSE
SPECIFICATION LiveSpec
INVARIANTS
  DeliveredIsPrefix
PROPERTIES
  Complete
