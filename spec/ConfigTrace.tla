---------------------------- MODULE ConfigTrace ----------------------------
(***************************************************************************)
(* Trace validation for C16. Every action of a TLC-generated behaviour that *)
(* was replayed on the single-node rig (real DispatchPrivate/DispatchPublic, *)
(* real raft, real FSM, child processes for restarts and for the two        *)
(* observer replicas) is one ND-JSON record                                 *)
(*   {ev:"Step", a, <args>, res, pre, post, taddr, reps}                    *)
(* where pre/post are the projection of the REAL live node before/after     *)
(* (GET /config body and revision header, FSM.sessionExpiration(), the      *)
(* sessions, what DispatchPublic answered to Origin probes) and reps the    *)
(* projections + behaviour batteries of the real replicas.                  *)
(*                                                                         *)
(* The T_* invariants are the property predicates of C16; they are          *)
(* evaluated on `ev`, which holds observations only.  In parallel the       *)
(* design spec (Config.tla) executes the same action; where its prediction  *)
(* differs from the observation a DRIFT is counted.                         *)
(***************************************************************************)
EXTENDS Config

CONSTANT KnownF5   \* TRUE: WhitelistedOrigins after Marshal/Unmarshal are judged by the check's
                   \* Python predicate (known finding F5), not here

VARIABLES l, drift, ev
tvars == <<vars, l, drift, ev>>

Trace == ndJsonDeserialize("Config_trace.ndjson")

ToSet(t) == {t[i] : i \in DOMAIN t}
OCfg(j) == [ops |-> ToSet(j.ops), svc |-> ToSet(j.svc), maxS |-> j.maxS, maxC |-> j.maxC, exp |-> j.exp,
            capUrl |-> j.capUrl, capKey |-> j.capKey, capLogin |-> j.capLogin,
            bridges |-> ToSet(j.bridges), origins |-> ToSet(j.origins), banned |-> ToSet(j.banned)]

ModelInit ==
    /\ live = ApplyEntry(S0, Prelude) /\ full = ApplyEntry(S0, Prelude) /\ base = S0 /\ fold = S0 /\ lastE = Prelude
    /\ fsmExp = 30 /\ home = [u \in Users |-> "d"] /\ last = None /\ hist = <<>> /\ n = 0 /\ cnt = Cnt0

ModelReset ==
    /\ live' = ApplyEntry(S0, Prelude) /\ full' = ApplyEntry(S0, Prelude) /\ base' = S0 /\ fold' = S0 /\ lastE' = Prelude
    /\ fsmExp' = 30 /\ home' = [u \in Users |-> "d"] /\ last' = None /\ hist' = <<>> /\ n' = 0 /\ cnt' = Cnt0

TInit == ModelInit /\ l = 0 /\ drift = 0 /\ ev = None /\ TLCSet(1, 0)

ModelAction(e) ==
    \/ e.a = "PostConfig" /\ PostConfigV(e.hdr, e.hv, e.body)
    \/ e.a = "Inject"     /\ InjectV(e.rev, e.body)
    \/ e.a = "Create"     /\ CreateV(e.s)
    \/ e.a = "Delete"     /\ DeleteV(e.s)
    \/ e.a = "Msg"        /\ Msg(e.s, e.cmd, e.arg, e.via)
    \/ e.a = "Snapshot"   /\ SnapshotV(e.mode, e.via)
    \/ e.a = "Restart"    /\ RestartV(e.observe)
    \/ e.a = "Battery"    /\ BatteryV

SessMatches(e) ==
    \A u \in Users :
        LET o == e.post.sess[u]
            m == live'.sess[u] IN
        /\ o.st = m.st
        /\ m.st \in LiveSt => (o.oper = m.oper /\ o.addr = m.addr /\ ToSet(o.chans) = m.chans)

Matches(e) ==
    /\ e.a # "Inject" => e.res = last'.res     \* an injected entry has no answer
    /\ e.post.rev = live'.rev
    /\ OCfg(e.post.cfg) = live'.cfg
    /\ e.post.exp = fsmExp'
    /\ SessMatches(e)
    /\ \A k \in DOMAIN e.reps :
         LET r == e.reps[k]
             S == IF r.mode = "replay_log" THEN full ELSE IF r.mode = "live" THEN live' ELSE Restored IN
         r.rev = S.rev /\ OCfg(r.cfg) = S.cfg /\ r.exp = S.cfg.exp

Step ==
    /\ l < Len(Trace)
    /\ l' = l + 1
    /\ LET e == Trace[l + 1] IN
       IF e.ev = "Reset"
       THEN ModelReset /\ ev' = None /\ UNCHANGED drift
       ELSE /\ ModelAction(e)
            /\ ev' = e
            /\ IF Matches(e) THEN UNCHANGED drift
               ELSE /\ drift' = drift + 1
                    /\ TLCSet(1, TLCGet(1) + 1)
                    /\ PrintT(<<"DRIFT", l + 1, e.p, e.i, e.a, "model", last'.res, live'.rev, fsmExp', live'.cfg>>)

TSpec == TInit /\ [][Step]_tvars

(* ------------- property predicates, on observations only --------------- *)
IsStep == ev # None

(* accepted only if it parses and names the revision in force; raises the  *)
(* revision by exactly one and installs exactly the posted configuration   *)
T_ConfigRevisionStep ==
    (IsStep /\ ev.a = "PostConfig" /\ ev.res = "ok") =>
        /\ ev.post.rev = ev.pre.rev + 1
        /\ ev.hv = ev.pre.rev
        /\ HandlerValid(ev.body)
        /\ OCfg(ev.post.cfg) = IF ev.body = "R" THEN OCfg(ev.pre.cfg) ELSE Proj(ev.body)

(* a rejected or unparsable update changes nothing *)
T_RejectedChangesNothing ==
    (IsStep /\ ((ev.a = "PostConfig" /\ ev.res # "ok") \/ (ev.a = "Inject" /\ ~FsmValid(ev.body)))) =>
        /\ ev.post.rev = ev.pre.rev
        /\ OCfg(ev.post.cfg) = OCfg(ev.pre.cfg)
        /\ ev.post.raw = ev.pre.raw
        /\ ev.post.exp = ev.pre.exp
        /\ ev.post.cors = ev.pre.cors
        /\ ev.post.sess = ev.pre.sess

(* equal applied index => equal config projection: the restarted node and  *)
(* both observer replicas against the node before it was shut down          *)
T_ReplicasSameConfig ==
    (IsStep /\ ev.a = "Restart") =>
        /\ SameConfig(OCfg(ev.post.cfg), OCfg(ev.pre.cfg), ~KnownF5) /\ ev.post.rev = ev.pre.rev
        /\ \A k \in DOMAIN ev.reps :
             SameConfig(OCfg(ev.reps[k].cfg), OCfg(ev.pre.cfg), ~KnownF5) /\ ev.reps[k].rev = ev.pre.rev

(* a ban added by GLINE is in GET /config at once, under the same revision; *)
(* (its survival in snapshot and replicas is part of T_ReplicasSameConfig)  *)
T_GlineIsConfig ==
    (IsStep /\ ev.a = "Msg" /\ ev.cmd = "gline" /\ ev.res = "ok") =>
        (ev.taddr \in ToSet(ev.post.cfg.banned) /\ ev.post.rev = ev.pre.rev
         /\ ToSet(ev.post.mbanned) = ToSet(ev.post.cfg.banned))

(* "expiration ... from that log position on": the FSM's compaction horizon *)
(* is the SessionExpiration of the configuration in force on that node      *)
T_ExpirationFollowsConfig ==
    IsStep => (ev.post.exp = ev.post.cfg.exp /\ \A k \in DOMAIN ev.reps : ev.reps[k].exp = ev.reps[k].cfg.exp)

Tri(b) == IF b THEN "yes" ELSE "no"
Addrs == {"l", "a1", "a2"}

(* BansAreExactlyConfig: who is treated as banned (IRCServer.Banned after   *)
(* every step; a message from each address in the batteries) is exactly the  *)
(* [Banned] table of the configuration in force on that node                 *)
T_BansAreExactlyConfig ==
    IsStep =>
      /\ ToSet(ev.post.bannedFn) = ToSet(ev.post.cfg.banned)
      /\ \A k \in DOMAIN ev.reps :
           LET r == ev.reps[k] IN
           /\ ToSet(r.bannedFn) = ToSet(r.cfg.banned)
           /\ \A x \in Addrs : r.beh.banned[x] \in {"na", Tri(x \in ToSet(r.cfg.banned))}

(* ReplicasAgreeOnBans: the node before it was shut down, the replica that   *)
(* replayed the log in a fresh process and the one restored from the         *)
(* snapshot agree on who is banned                                           *)
T_ReplicasAgreeOnBans ==
    (IsStep /\ ev.a = "Restart") =>
      \A k \in DOMAIN ev.reps :
        /\ ToSet(ev.reps[k].bannedFn) = ToSet(ev.pre.bannedFn)
        /\ \A j \in DOMAIN ev.reps : \A x \in Addrs :
              LET p == ev.reps[k].beh.banned[x]
                  q == ev.reps[j].beh.banned[x] IN
              p = "na" \/ q = "na" \/ p = q

(* AcceptedPostReplacesBans: an accepted update replaces the bans in force   *)
(* (listed or GLINE'd) by those it lists -- none, when it has no or an empty  *)
(* [Banned] table; only the re-post of GET /config carries them over          *)
T_AcceptedPostReplacesBans ==
    (IsStep /\ ev.a = "PostConfig" /\ ev.res = "ok") =>
      LET want == IF ev.body = "R" THEN ToSet(ev.pre.cfg.banned) ELSE Proj(ev.body).banned IN
      ToSet(ev.post.bannedFn) = want /\ ToSet(ev.post.cfg.banned) = want

(* behaviour that depends on the configuration follows the configuration in *)
(* force: on the live node (real HTTP requests) and on the replicas (battery)*)
T_BehaviourUsesConfig ==
    IsStep =>
      LET c == OCfg(ev.pre.cfg) IN
      /\ (ev.a = "Msg" /\ ev.cmd = "oper" /\ ev.res \in {"ok", "no"}) => (ev.res = "ok" <=> ev.arg \in c.ops)
      /\ (ev.a = "Msg" /\ ev.cmd = "login" /\ ev.res \in {"in", "stuck"}) => (ev.res = "stuck" <=> c.capLogin)
      /\ (ev.a = "Msg" /\ ev.res = "banned") => EffAddr(ev.via, c) \in c.banned
      /\ (ev.a = "Msg" /\ ev.pre.sess[ev.s].st \in LiveSt /\ ev.pre.sess[ev.s].addr # EffAddr(ev.via, c)
              /\ EffAddr(ev.via, c) \in c.banned) => ev.res = "banned"
      /\ (ev.a = "Msg" /\ ev.res # "banned" /\ ev.post.sess[ev.s].st \in LiveSt) => ev.post.sess[ev.s].addr = EffAddr(ev.via, c)
      /\ (ev.a = "Create" /\ ev.res \in {"ok", "limit"}) => (ev.res = "limit" <=> (c.maxS > 0 /\ ev.pre.nS >= c.maxS))
      /\ ToSet(ev.post.cors) = ToSet(ev.post.cfg.origins)
      /\ \A k \in DOMAIN ev.reps :
           LET r == ev.reps[k]
               b == r.beh
               d == OCfg(r.cfg) IN
           /\ ToSet(r.orig) = d.origins
           /\ b.create \in {"na", IF d.maxS > 0 /\ r.nS >= d.maxS THEN "limit" ELSE "ok"}
           /\ b.login \in {"na", IF d.capLogin THEN "stuck" ELSE "in"}
           /\ \A o \in {"o1", "o2", "ox"} : b.oper[o] \in {"na", Tri(o \in d.ops)}
           /\ \A s \in {"s1", "s2"} : b.svc[s] \in {"na", Tri(s \in d.svc)}
           /\ b.capx \in {"na", Tri(d.capUrl # "" /\ d.capKey # "")}
           /\ b.joins \in {-1, IF d.maxC = 0 THEN 4 ELSE IF d.maxC - r.nC > 4 THEN 4 ELSE IF d.maxC - r.nC < 0 THEN 0 ELSE d.maxC - r.nC}

Accept ==
    /\ TLCGet("distinct") = Len(Trace) + 1
    /\ PrintT(<<"TRACE-ACCEPTED", Len(Trace), "drift", TLCGet(1)>>)
=============================================================================
