\* C04 exhaustive: repaired getMessages (Fixed = TRUE).
\* 2 nodes, 3 batches of 1..3 replies with every recipient pattern (14^3 batch
\* sequences), every lag, 2 connections (3 and 4 in GetMessages_thorough.cfg), disconnect at every point.
CONSTANTS
  Nodes = {1, 2}
  MaxBatches = 3
  MaxReplies = 3
  MaxReconnects = 2
  Fixed = TRUE
  Hist = FALSE
SPECIFICATION Spec
VIEW View
INVARIANTS
  TypeOK
  DeliveredIsPrefix
  ClastOK
  InFlightOK
