\* Trace validation, monitor only: property predicates on every recorded step (sorted-map view).
SPECIFICATION TSpec
CONSTANTS
  MaxId = 15
  Threads = {1, 2, 3, 4, 5}
  Adders = {1, 2, 3, 4, 5}
  Deleters = {1, 2, 3, 4, 5}
  Readers = {1, 2, 3, 4, 5}
  Getters = {1, 2, 3, 4, 5}
  Interrupters = {1, 2, 3, 4, 5}
  Fixed = TRUE
  LockedInterrupt = TRUE
  Contig = FALSE
  KeepHist = 1
  Conform = FALSE
INVARIANT TraceDesignInv
POSTCONDITION Accepted
CHECK_DEADLOCK FALSE
