\* C04 cover graph (quick tier): small enough to dump the whole state graph and
\* replay EVERY transition on the real api.getMessages (edge cover).
\* 2 nodes, 2 batches of 1..2 replies, 2 connections.
CONSTANTS
  Nodes = {1, 2}
  MaxBatches = 2
  MaxReplies = 2
  MaxReconnects = 2
  Fixed = TRUE
  Hist = FALSE
SPECIFICATION Spec
VIEW View
INVARIANTS
  TypeOK
  DeliveredIsPrefix
  ClastOK
  InFlightOK
