\* C10 exhaustive: every behaviour of up to MaxSteps actions of the primary
\* client "a" (ids 0..2, at most 2 originals incl. a message of death, up to 3
\* repeats each), another session "b", one snapshot and two restarts.
SPECIFICATION Spec
CONSTANTS
  CMIDs = {0, 1, 2}
  MaxSteps = 5
  MaxOrig = 2
  MaxRetries = 3
  MaxOther = 2
  MaxSnap = 1
  MaxRestart = 2
  TrapFeature = "none"
INVARIANTS TypeOK NoDoubleApplyWhenRetrySeesFirst NoAdjacentDuplicate RetryNeverAppends MarkersAgree ExportBehaviours
CHECK_DEADLOCK FALSE
