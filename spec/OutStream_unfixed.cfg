\* C08 model of the PINNED tree (Fixed = FALSE): the wait loop dereferences nil
\* when `current` was deleted (Crash) and waits for ever behind a dangling NextID.
\* Not a verdict: CandidateOut prints one shortest behaviour per defective state;
\* the check replays them on the real code, which decides.
SPECIFICATION Spec
CONSTANTS
  MaxId = 2
  Threads = {1, 2, 3, 5}
  Adders = {1}
  Deleters = {2}
  Readers = {3}
  Getters = {}
  Interrupters = {5}
  Fixed = FALSE
  LockedInterrupt = TRUE
  Contig = TRUE
  KeepHist = 1
VIEW NoHistView
INVARIANTS
  CandidateOut
CHECK_DEADLOCK FALSE
