\* As the code behaves (F7 = TRUE): TLC is EXPECTED to find a behaviour in which
\* an acknowledged post occurs twice in the committed sequence. The
\* counterexample is the candidate schedule replayed on the real binaries.
SPECIFICATION Spec
CONSTANTS
  Nodes = {n1, n2, n3}
  Clients = {1}
  MaxCmid = 1
  MaxKills = 1
  MaxSnaps = 0
  MaxLeaderChanges = 0
  MaxPauses = 0
  MaxFails = 0
  F7 = TRUE
  InitSize = 3
  MaxJoins = 0
  MaxParts = 0
  Trailing = 99
VIEW view
SYMMETRY NodeSymmetry
INVARIANTS
  TypeOK
  AckedDurable
  AppliedPrefixAgreement
  StreamsAgree
  AckedExactlyOnce
CHECK_DEADLOCK FALSE
