\* Trace validation: bounds are irrelevant (the trace drives), FixF2/FixF3 =
\* TRUE is the repaired behaviour the real code is compared with.  Only the
\* property predicates are invariants here: they are evaluated on every
\* recorded implementation state.  Implementation-level divergence shows up
\* as RESYNC lines (DRIFT).
SPECIFICATION TraceSpec
CONSTANTS
    Alphabet <- AlphaAll
    TS = {0}
    Nows = {0}
    Prelude <- PreludeNone
    DefaultExp = 60
    Grace = 1
    MaxLen = 1000
    MaxGaps = 1000
    MaxSnaps = 1000
    MaxFails = 1000
    MaxRestarts = 1000
    MaxRestores = 1000
    MaxPanics = 1000
    FixF2 = TRUE
    FixF3 = TRUE
    InitEnc = "proto"
    MaxMigrations = 1000
VIEW TraceView
INVARIANTS
    StateIsFullReplay
    RestoreEqualsReplay
    FoldedXorRetained
    OutputOnlyRetained
    HorizonRespected
    ModOnlyPanicking
    ModSkippedEverywhere
    TraceDone
CHECK_DEADLOCK FALSE
