\* model -> code replay, part 2 (root module TimeGuardMC): every call with 1..3
\* peers over the tiny grid is printed (DumpFinished).
SPECIFICATION Spec
CONSTANTS
    ET = 4
    Deltas <- TinyDeltas
    Delays <- TinyDelays
    Starts = {0}
    MaxPeers = 3
CONSTRAINT DumpFinished
INVARIANTS
    TypeOK
    Sound
    RefusalNamesOffenders
    DisabledNeverRefuses
    NonAnsweringIgnored
CHECK_DEADLOCK FALSE
