\* Simulation, as the code behaves (F7 = TRUE), larger constants; produces the
\* fault schedules (history variable, EmitSchedule) replayed on real binaries.
\* AckedExactlyOnce/AckedInOrder are left out here on purpose (see Cluster_f7.cfg).
SPECIFICATION Spec
CONSTANTS
  Nodes = {1, 2, 3}
  Clients = {1, 2, 3}
  MaxCmid = 4
  MaxKills = 3
  MaxSnaps = 2
  MaxLeaderChanges = 1
  MaxPauses = 2
  MaxFails = 2
  F7 = TRUE
  InitSize = 3
  MaxJoins = 0
  MaxParts = 0
  Trailing = 99
INVARIANTS
  TypeOK
  LeaderComplete
  AckedDurable
  AppliedPrefixAgreement
  StreamsAgree
  EqualAtQuiescence
CONSTRAINT EmitSchedule
CHECK_DEADLOCK FALSE
