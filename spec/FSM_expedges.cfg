\* Expiration model, edge cover replayed on the real FSM: <= 2 entries after the
\* CreateSession over {line, config 900 s, config 10 s}.
SPECIFICATION Spec
CONSTANTS
    Alphabet <- AlphaExpS
    TS = {0, 30}
    Nows = {95}
    Prelude <- PreludeSess
    DefaultExp = 60
    Grace = 1
    MaxLen = 3
    MaxGaps = 0
    MaxSnaps = 2
    MaxFails = 0
    MaxRestarts = 1
    MaxRestores = 1
    MaxPanics = 0
    FixF2 = TRUE
    FixF3 = TRUE
VIEW view
INVARIANTS
    TypeOK
    StateIsFullReplay
    RestoreEqualsReplay
    LssSound
    NextBaseFound
    FoldedXorRetained
    OutputIffRetained
    HorizonRespected
    ExpInForce
    ModOnlyPanicking
    ModSkippedEverywhere
    ModProgress
ACTION_CONSTRAINT EmitEdge
CHECK_DEADLOCK FALSE
