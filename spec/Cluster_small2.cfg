\* quick tier (b): 3 nodes, 2 clients x 1 post, 1 kill, 1 forced leader change
\* Exhaustive, idealised duplicate test (F7 = FALSE): every invariant must hold.
\* Nodes are model values and symmetric; the history variable is outside the VIEW.
SPECIFICATION Spec
CONSTANTS
  Nodes = {n1, n2, n3}
  Clients = {1, 2}
  MaxCmid = 1
  MaxKills = 1
  MaxSnaps = 0
  MaxLeaderChanges = 1
  MaxPauses = 0
  MaxFails = 0
  F7 = FALSE
  InitSize = 3
  MaxJoins = 0
  MaxParts = 0
  Trailing = 99
VIEW view
SYMMETRY NodeSymmetry
INVARIANTS
  TypeOK
  LeaderComplete
  AckedDurable
  AppliedPrefixAgreement
  StreamsAgree
  AckedExactlyOnce
  AckedInOrder
  EqualAtQuiescence
PROPERTIES
  LogGrows
  AckOnlyAfterApply
CHECK_DEADLOCK FALSE
