\* C19 (root module TimeGuardMC): calls that measure 1..3 peers on the tiny grid
\* (quick tier; TimeGuard_p3.cfg is the larger one), two start times.
SPECIFICATION Spec
CONSTANTS
    ET = 4
    Deltas <- TinyDeltas
    Delays <- TinyDelays
    Starts = {0, 7}
    MaxPeers = 3
INVARIANTS
    TypeOK
    Sound
    RefusalNamesOffenders
    DisabledNeverRefuses
    NonAnsweringIgnored
    ActionsAreDecision
CHECK_DEADLOCK FALSE
