------------------------------- MODULE Lag -------------------------------
(* C17, lag stage: what the HTTP API of a node that LAGS tells a client      *)
(* about its session.                                                        *)
(*                                                                           *)
(* One committed log of CreateSession / client line / client QUIT line /     *)
(* DeleteSession / other entries (raft's own entries, Config).  Session ids  *)
(* are the indexes of their CreateSession entries (robust.IdFromRaftIndex).  *)
(* Every node stores a prefix of the log (have) and its FSM has applied a    *)
(* prefix of that (applied); sessions and lastProcessed of a node are        *)
(* FUNCTIONS of the applied prefix, computed like statemachine.go            *)
(* applyRobustMessage does:                                                  *)
(*    CreateSession            sessions += id             lastProcessed kept *)
(*    IRCFromClient (known s)  (QUIT: sessions -= s)      lastProcessed := s *)
(*    DeleteSession (known s)  sessions -= s              lastProcessed := i *)
(*    anything else / unknown session                     nothing            *)
(* so lastProcessed is NOT monotonic (a line of an old session moves it      *)
(* back to that session's id) - ircserver.go getSessionLocked compares       *)
(* `lastProcessed.Id > id.Id`.                                               *)
(*                                                                           *)
(* The three routes branch like internal/api:                                *)
(*    POST message / DELETE  api.go sessionOrProxy, then postmessage.go /    *)
(*                           deletesession.go                                *)
(*    GET messages           getmessages.go handleGetMessages + partitioned  *)
(*    POST session           createsession.go (only to populate the log)     *)
(* Proxying to the leader is an action of its own (the request moves to the  *)
(* node the proxying node BELIEVES to be the leader, which may be dead or    *)
(* deposed).                                                                 *)
(*                                                                           *)
(* Raft is abstracted to what the branches consult: State() (leader /        *)
(* follower / candidate), Leader() (known or ""), and who can commit (cur =  *)
(* the leader of the newest term; commits need a majority that stores the    *)
(* whole log; only a candidate that stores the whole log is elected).        *)
(*                                                                           *)
(* FixedLeaderLag: a node in state Leader whose FSM has not yet applied a    *)
(* CreateSession entry (elected a moment ago; the backlog is still queued    *)
(* for its FSM) finds ErrSessionNotYetSeen; the code as pinned answers 404   *)
(* "Session not yet seen" then (sessionOrProxy: `!= raft.Leader` is false,   *)
(* so the generic 404 branch is taken).  TRUE models the repaired behaviour  *)
(* (500, retryable); FALSE the code as pinned - Lag_asis.cfg shows that      *)
(* NeverGoneWhileAlive is violated then.                                     *)
EXTENDS Integers, Sequences, FiniteSets, TLC

CONSTANTS
    Nodes,          \* set of node numbers (1..3)
    MaxLog,         \* bound on the length of the committed log
    MaxCrash,       \* bound on the number of crashes
    MaxSpurious,    \* bound on heartbeat timeouts while the leader is fine (machine load)
    MaxHops,        \* a request is proxied at most this often (the real chain has no bound; each hop is an HTTP request)
    FixedLeaderLag  \* see above

None == 0

VARIABLES
    log,        \* the committed log: sequence of [k, s]
    have,       \* node -> length of the prefix of log in its raft log (persistent)
    applied,    \* node -> length of the prefix its FSM has applied (volatile: a restart rebuilds the state)
    alive,      \* node -> BOOLEAN
    role,       \* node -> "leader" | "follower" | "candidate"       (raftNode.State())
    leaderOf,   \* node -> node or None                              (raftNode.Leader())
    cur,        \* the node that won the newest election (it alone can commit), None before/after
    req,        \* the request in flight, or NoReq
    ans,        \* the answer to the last request, or NoAns
    crashes, spurious

vars == <<log, have, applied, alive, role, leaderOf, cur, req, ans, crashes, spurious>>
net  == <<have, alive, role, leaderOf, cur, crashes, spurious>>

Kinds  == {"create", "line", "quit", "delete", "other"}
Routes == {"create", "post", "delete", "get"}
NoReq == [route |-> "none"]
NoAns == [route |-> "none"]

(* ------------------------------------------------------------------ *)
(* the replicated state as a function of the applied prefix           *)
(* ------------------------------------------------------------------ *)
RECURSIVE SessAt(_, _), LPAt(_, _)
\* sessions alive after the first k entries of lg
SessAt(lg, k) ==
    IF k = 0 THEN {} ELSE
    LET p == SessAt(lg, k - 1)  e == lg[k] IN
    CASE e.k = "create"              -> p \cup {k}
      [] e.k \in {"quit", "delete"}  -> p \ {e.s}
      [] OTHER                       -> p

\* IRCServer.lastProcessed (as an index) after the first k entries of lg
LPAt(lg, k) ==
    IF k = 0 THEN 0 ELSE
    LET p == LPAt(lg, k - 1)  e == lg[k]  live == SessAt(lg, k - 1) IN
    CASE e.k \in {"line", "quit"} /\ e.s \in live -> e.s   \* SetLastProcessed(robust.Id{Id: msg.Session.Id})
      [] e.k = "delete" /\ e.s \in live           -> k     \* SetLastProcessed(robust.Id{Id: msg.Id.Id})
      [] OTHER                                    -> p

\* ircserver.go getSessionLocked
Lookup(lg, a, id) ==
    IF id \in SessAt(lg, a) THEN "found"
    ELSE IF LPAt(lg, a) > id THEN "nosuch"      \* ErrNoSuchSession
    ELSE "notyet"                               \* ErrSessionNotYetSeen

CreatedIn(lg, k)  == {i \in 1..k : lg[i].k = "create"}
AliveIn(lg, k)    == SessAt(lg, k)
DeletedIn(lg, k)  == CreatedIn(lg, k) \ SessAt(lg, k)

(* ------------------------------------------------------------------ *)
(* the API branches: first decision of the node that handles a request *)
(* ------------------------------------------------------------------ *)
\* what the node does with a request, given raftNode.State(), whether raftNode.Leader() # "" and the lookup:
\*   "404" "500"      answered by this node
\*   "canned"         POST with the ClientMessageId the node has applied last for the session: 200, nothing proposed
\*   "proxy"          maybeProxyToLeader with a leader address
\*   "apply"          this node proposes the entry (it is in state Leader)
\*   "stream"         GET: 200, the long poll starts
Decide(route, rl, knowsLeader, lk, dup, fixed) ==
    CASE route \in {"post", "delete"} ->
           IF lk = "notyet" THEN
                IF rl # "leader" THEN (IF knowsLeader THEN "proxy" ELSE "500")       \* sessionOrProxy, first branch
                ELSE IF fixed THEN "500" ELSE "404"                                    \* a leader that lags
           ELSE IF lk = "nosuch" THEN "404"
           ELSE IF route = "post" /\ dup THEN "canned"                                \* LastPostMessage(session) == ClientMessageId
           ELSE IF rl # "leader" THEN (IF knowsLeader THEN "proxy" ELSE "500")        \* handlePostMessage / handleDeleteSession
           ELSE "apply"
      [] route = "get" ->
           IF lk = "notyet" THEN "500"
           ELSE IF lk = "nosuch" THEN "404"
           ELSE IF rl = "leader" \/ (rl = "follower" /\ knowsLeader) THEN "stream"    \* partitioned(): LastContact recent
           ELSE "500"
      [] route = "create" ->
           IF rl # "leader" THEN (IF knowsLeader THEN "proxy" ELSE "500") ELSE "apply"

(* ------------------------------------------------------------------ *)
Majority(S) == Cardinality(S) * 2 > Cardinality(Nodes)
Up == {n \in Nodes : alive[n]}
\* followers of n that store the whole log (they acknowledge the next entry at once)
AckersOf(n) == {f \in Nodes \ {n} : alive[f] /\ role[f] = "follower" /\ leaderOf[f] = n /\ have[f] = Len(log)}

TypeOK ==
    /\ log \in Seq([k : Kinds, s : 0..MaxLog]) /\ Len(log) <= MaxLog
    /\ have \in [Nodes -> 0..MaxLog] /\ applied \in [Nodes -> 0..MaxLog]
    /\ \A n \in Nodes : applied[n] <= have[n] /\ have[n] <= Len(log)
    /\ alive \in [Nodes -> BOOLEAN]
    /\ role \in [Nodes -> {"leader", "follower", "candidate"}]
    /\ leaderOf \in [Nodes -> Nodes \cup {None}]
    /\ cur \in Nodes \cup {None}

Init ==
    /\ log = <<>>
    /\ have = [n \in Nodes |-> 0] /\ applied = [n \in Nodes |-> 0]
    /\ alive = [n \in Nodes |-> TRUE]
    /\ role = [n \in Nodes |-> IF n = 1 THEN "leader" ELSE "follower"]
    /\ leaderOf = [n \in Nodes |-> 1]
    /\ cur = 1
    /\ req = NoReq /\ ans = NoAns
    /\ crashes = 0 /\ spurious = 0

(* ------------------------------------------------------------------ raft, abstracted *)
\* The actions of this section are written without regard to the client; Next takes them only in states where
\* the last answer has been read (Quiet), so that an answer is not carried through every later interleaving, and
\* FairSpec is fair to the actions themselves, so that a client that keeps asking cannot starve raft.
Quiet == ans = NoAns

\* a follower receives the next entry from the leader it follows
Replicate(n) ==
    /\ alive[n] /\ role[n] = "follower" /\ leaderOf[n] # None /\ leaderOf[n] = cur
    /\ alive[cur] /\ role[cur] = "leader"
    /\ have[n] < Len(log)
    /\ have' = [have EXCEPT ![n] = @ + 1]
    /\ UNCHANGED <<log, applied, alive, role, leaderOf, cur, req, ans, crashes, spurious>>

\* FSM.Apply of the next entry the node stores (runFSM goroutine; independent of the raft role)
Apply(n) ==
    /\ alive[n] /\ applied[n] < have[n]
    /\ applied' = [applied EXCEPT ![n] = @ + 1]
    /\ UNCHANGED <<log, net, req, ans>>

\* heartbeat timeout: the follower forgets its leader (runFollower: setLeader(""))
LeaderFine(l) == alive[l] /\ role[l] = "leader" /\ l = cur
\* ... because the leader is gone or deposed
LoseStaleLeader(n) ==
    /\ alive[n] /\ role[n] = "follower" /\ leaderOf[n] # None /\ ~ LeaderFine(leaderOf[n])
    /\ leaderOf' = [leaderOf EXCEPT ![n] = None]
    /\ UNCHANGED <<log, have, applied, alive, role, cur, req, ans, crashes, spurious>>
\* ... although the leader is fine (machine load)
LoseLeaderSpuriously(n) ==
    /\ alive[n] /\ role[n] = "follower" /\ leaderOf[n] # None /\ LeaderFine(leaderOf[n])
    /\ spurious < MaxSpurious /\ spurious' = spurious + 1
    /\ leaderOf' = [leaderOf EXCEPT ![n] = None]
    /\ UNCHANGED <<log, have, applied, alive, role, cur, req, ans, crashes>>

\* ... and becomes a candidate (it stays one until somebody wins)
BecomeCandidate(n) ==
    /\ alive[n] /\ role[n] = "follower" /\ leaderOf[n] = None
    /\ role' = [role EXCEPT ![n] = "candidate"]
    /\ UNCHANGED <<log, have, applied, alive, leaderOf, cur, req, ans, crashes, spurious>>

\* a candidate that stores every committed entry wins when a majority is up
CanWin(n) == alive[n] /\ role[n] = "candidate" /\ have[n] = Len(log) /\ Majority(Up)
Elect(n) ==
    /\ CanWin(n) /\ ~ (cur # None /\ LeaderFine(cur))
    /\ role' = [role EXCEPT ![n] = "leader"]
    /\ leaderOf' = [leaderOf EXCEPT ![n] = n]
    /\ cur' = n
    /\ UNCHANGED <<log, have, applied, alive, req, ans, crashes, spurious>>
\* deposing a leader that is fine needs a newer term than its followers have seen: bounded like the spurious timeouts
Depose(n) ==
    /\ CanWin(n) /\ cur # None /\ LeaderFine(cur)
    /\ spurious < MaxSpurious /\ spurious' = spurious + 1
    /\ role' = [role EXCEPT ![n] = "leader"]
    /\ leaderOf' = [leaderOf EXCEPT ![n] = n]
    /\ cur' = n
    /\ UNCHANGED <<log, have, applied, alive, req, ans, crashes>>

\* a node hears from the leader of the newest term
LearnLeader(n) ==
    /\ alive[n] /\ cur # None /\ n # cur /\ alive[cur] /\ role[cur] = "leader"
    /\ leaderOf[n] # cur \/ role[n] # "follower"
    /\ role' = [role EXCEPT ![n] = "follower"]
    /\ leaderOf' = [leaderOf EXCEPT ![n] = cur]
    /\ UNCHANGED <<log, have, applied, alive, cur, req, ans, crashes, spurious>>

\* a leader that was deposed or lost its majority steps down (LeaderLeaseTimeout)
StepDown(n) ==
    /\ alive[n] /\ role[n] = "leader"
    /\ n # cur \/ ~ Majority(Up)
    /\ role' = [role EXCEPT ![n] = "follower"]
    /\ leaderOf' = [leaderOf EXCEPT ![n] = None]
    /\ UNCHANGED <<log, have, applied, alive, cur, req, ans, crashes, spurious>>

Crash(n) ==
    /\ alive[n] /\ crashes < MaxCrash
    /\ crashes' = crashes + 1
    /\ alive' = [alive EXCEPT ![n] = FALSE]
    /\ UNCHANGED <<log, have, applied, role, leaderOf, cur, req, ans, spurious>>

\* the raft log is persistent, the replicated state is rebuilt from nothing (no snapshot here)
Restart(n) ==
    /\ ~ alive[n]
    /\ alive' = [alive EXCEPT ![n] = TRUE]
    /\ role' = [role EXCEPT ![n] = "follower"]
    /\ leaderOf' = [leaderOf EXCEPT ![n] = None]
    /\ applied' = [applied EXCEPT ![n] = 0]
    /\ UNCHANGED <<log, have, cur, req, ans, crashes, spurious>>

(* ------------------------------------------------------------------ the API *)
Ids == 1..(MaxLog + 1)

\* a client sends a request for id to node n; var (POST only): "dup" repeats the ClientMessageId the session
\* used last, "quit" is a QUIT line, "new" any other line
ClientSend(rt, id, n, var) ==
    /\ Quiet
    /\ req = NoReq /\ alive[n]
    /\ req' = [route |-> rt, id |-> id, at |-> n, origin |-> n, hops |-> 0, var |-> var]
    /\ UNCHANGED <<log, applied, net, ans>>
CreateRequest(n) == ClientSend("create", 0, n, "new")
SessionRequest(n, rt, id, var) == (var # "new" => rt = "post") /\ ClientSend(rt, id, n, var)

\* the answer with everything the property predicates need, taken at the moment of the answer
Answer(n, code, effect, lk) ==
    [route |-> req.route, id |-> req.id, code |-> code, by |-> n, origin |-> req.origin,
     proxied |-> req.hops > 0, effect |-> effect, lk |-> lk, roleBy |-> role[n],
     aliveC   |-> req.id \in AliveIn(log, Len(log)),
     deletedC |-> req.id \in DeletedIn(log, Len(log)),
     neverC   |-> req.id >= 1 /\ req.id <= applied[n] /\ log[req.id].k # "create"]

Reply(n, code, lk) ==
    /\ ans' = Answer(n, code, FALSE, lk)
    /\ req' = NoReq
    /\ UNCHANGED <<log, applied, net>>

\* the node the request is at, what it finds and what it decides
Pending == Quiet /\ req # NoReq
HN  == req.at
HLk == IF req.route = "create" THEN "found" ELSE Lookup(log, applied[HN], req.id)
HD  == Decide(req.route, role[HN], leaderOf[HN] # None, HLk, req.var = "dup", FixedLeaderLag)
Serving == Pending /\ alive[HN]

\* connection refused: 502 from the proxying node, nothing at all for a direct request
Unreachable ==
    /\ Pending /\ ~ alive[HN]
    /\ ans' = [Answer(req.origin, IF req.hops > 0 THEN 502 ELSE 0, FALSE, "none") EXCEPT !.roleBy = "none"]
    /\ req' = NoReq
    /\ UNCHANGED <<log, applied, net>>
Answer404    == Serving /\ HD = "404"    /\ Reply(HN, 404, HLk)
Answer500    == Serving /\ HD = "500"    /\ Reply(HN, 500, HLk)
AnswerCanned == Serving /\ HD = "canned" /\ Reply(HN, 200, HLk)
AnswerStream == Serving /\ HD = "stream" /\ Reply(HN, 200, HLk)
\* maybeProxyToLeader: the request moves to the node this one believes to be the leader
Proxy ==
    /\ Serving /\ HD = "proxy" /\ req.hops < MaxHops
    /\ req' = [req EXCEPT !.at = leaderOf[HN], !.hops = @ + 1]
    /\ UNCHANGED <<log, applied, net, ans>>
ProxyGivesUp == Serving /\ HD = "proxy" /\ req.hops >= MaxHops /\ Reply(HN, 500, HLk)
\* applyMessageWait: raft.Apply, wait for the commit and for the own FSM
CanCommit(n) == n = cur /\ Majority({n} \cup AckersOf(n)) /\ Len(log) < MaxLog
LeaderApplies ==
    /\ Serving /\ HD = "apply" /\ CanCommit(HN)
    /\ applied[HN] = Len(log)        \* otherwise the future is not ready yet: the request waits for Apply(HN)
    /\ LET n == HN
           e == CASE req.route = "create" -> [k |-> "create", s |-> 0]
                  [] req.route = "delete" -> [k |-> "delete", s |-> req.id]
                  [] OTHER                -> [k |-> IF req.var = "quit" THEN "quit" ELSE "line", s |-> req.id]
           acks == AckersOf(n)
       IN /\ log' = Append(log, e)
          /\ have' = [m \in Nodes |-> IF m = n \/ m \in acks THEN have[m] + 1 ELSE have[m]]
          /\ applied' = [applied EXCEPT ![n] = @ + 1]
          /\ ans' = Answer(n, 200, TRUE, HLk)
          /\ req' = NoReq
          /\ UNCHANGED <<alive, role, leaderOf, cur, crashes, spurious>>
\* "Apply(): leadership lost / timed out"; nothing committed
LeaderApplyFails == Serving /\ HD = "apply" /\ ~ CanCommit(HN) /\ Reply(HN, 500, HLk)

Handle == Unreachable \/ Answer404 \/ Answer500 \/ AnswerCanned \/ AnswerStream \/ Proxy \/ ProxyGivesUp
          \/ LeaderApplies \/ LeaderApplyFails

Consume ==
    /\ ans # NoAns
    /\ ans' = NoAns
    /\ UNCHANGED <<log, applied, net, req>>

ReplicateStep    == Quiet /\ \E n \in Nodes : Replicate(n)
ApplyStep        == Quiet /\ \E n \in Nodes : Apply(n)
LoseStaleStep    == Quiet /\ \E n \in Nodes : LoseStaleLeader(n)
LoseSpuriousStep == Quiet /\ \E n \in Nodes : LoseLeaderSpuriously(n)
CandidateStep    == Quiet /\ \E n \in Nodes : BecomeCandidate(n)
ElectStep        == Quiet /\ \E n \in Nodes : Elect(n)
DeposeStep       == Quiet /\ \E n \in Nodes : Depose(n)
LearnStep        == Quiet /\ \E n \in Nodes : LearnLeader(n)
StepDownStep     == Quiet /\ \E n \in Nodes : StepDown(n)
CrashStep        == Quiet /\ \E n \in Nodes : Crash(n)
RestartStep      == Quiet /\ \E n \in Nodes : Restart(n)
CreateStep       == \E n \in Nodes : CreateRequest(n)
AskStep          == \E n \in Nodes, id \in Ids, rt \in {"post", "delete", "get"}, var \in {"new", "dup", "quit"} : SessionRequest(n, rt, id, var)

Next ==
    \/ Consume
    \/ ReplicateStep \/ ApplyStep \/ LoseStaleStep \/ LoseSpuriousStep \/ CandidateStep \/ ElectStep \/ DeposeStep
    \/ LearnStep \/ StepDownStep \/ CrashStep \/ RestartStep
    \/ CreateStep \/ AskStep
    \/ Unreachable \/ Answer404 \/ Answer500 \/ AnswerCanned \/ AnswerStream \/ Proxy \/ ProxyGivesUp
    \/ LeaderApplies \/ LeaderApplyFails

Spec == Init /\ [][Next]_vars

\* liveness: everything except faults, client requests and spurious timeouts is weakly fair
FairSpec ==
    /\ Spec
    /\ \A n \in Nodes :
         /\ WF_vars(Replicate(n)) /\ WF_vars(Apply(n)) /\ WF_vars(BecomeCandidate(n)) /\ WF_vars(Elect(n))
         /\ WF_vars(LearnLeader(n)) /\ WF_vars(StepDown(n)) /\ WF_vars(Restart(n)) /\ WF_vars(LoseStaleLeader(n))
    /\ WF_vars(Handle) /\ WF_vars(Consume)

(* ------------------------------------------------------------------ properties *)
Answered == ans # NoAns /\ ans.route \in {"post", "delete", "get"}

\* no node in any role answers 404 for a session that is alive in the committed log
NeverGoneWhileAlive == Answered /\ ans.code = 404 => ~ ans.aliveC
\* 404 only for a session that was deleted, or an id that can never have been one given what the node has applied
GoneOnlyIfDeleted   == Answered /\ ans.code = 404 => ans.deletedC \/ ans.neverC
\* a node that has not yet applied the session answers 5xx (or proxies): never 404, never 2xx by itself
NotYetSeenIsRetryable == Answered /\ ans.lk = "notyet" => ans.code \in {500, 502}
\* a 2xx comes from a node that knows the session
ServedOnlyByKnowing == Answered /\ ans.code = 200 => ans.lk = "found"
\* the lookup itself (IRC engine's LookupSound, here for every node and every lag)
LookupSound == \A n \in Nodes, id \in Ids :
    Lookup(log, applied[n], id) = "nosuch" => id \notin AliveIn(log, Len(log))
\* only the leader of the newest term acknowledges an effect
EffectOnlyByLeader == Answered /\ ans.effect => ans.roleBy = "leader" /\ ans.code = 200

\* catching up: once the faults are used up every node ends up having applied the whole log
CaughtUp == \A n \in Nodes : alive[n] /\ applied[n] = Len(log)
EventuallyCaughtUp == <>[]CaughtUp
=============================================================================
