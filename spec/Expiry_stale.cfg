\* NOT the code: the variant in which the timer loop keeps the server object it saw when the process started
\* (StaleRef = TRUE; `server := currentIRCServer()` in front of the loop).  After a run-time restore the sweep
\* scans the orphaned object: each of OnlyIdleExpire, ActiveNeverExpires, SweepsAllIdle must be VIOLATED here
\* (checks/c17_expiry.py runs this cfg once per invariant and expects the counterexample).  It documents why
\* the look-up per sweep matters; Expiry_restore.cfg is the same instance with the code's behaviour.
SPECIFICATION Spec
CONSTANTS
    n1 = n1  n2 = n2  n3 = n3  c1 = c1  c2 = c2  k1 = k1  p1 = p1
    Nodes = {n1, n2}
    Clients = {c1}
    Links = {}
    Pseudo = {}
    Owner <- MCNoOwner
    Interval = 2
    Exps = {1, 2}
    InitExp = 2
    MaxTime = 4
    MaxLag = 1
    MaxChanges = 1
    MaxPend = 1
    MaxConfigs = 2
    MaxRestores = 1
    StaleRef = TRUE
    None = None
\* (no symmetry: the restore breaks the symmetry of the nodes)
INVARIANTS OnlyIdleExpire ActiveNeverExpires SweepsAllIdle
CHECK_DEADLOCK FALSE
