\* C08 model of a tree whose InterruptGetNext broadcasts WITHOUT taking messagesMu
\* (LockedInterrupt = FALSE, sync.Cond permits it): a cancel + Interrupt landing
\* between the reader's last context check and its registration as a waiter is
\* lost, the reader parks cancelled and "woken".  Not a verdict: CandidateOut
\* prints one shortest behaviour per defective state; the check replays them on
\* the real code (where the schedule is feasible only if the code really
\* broadcasts lock-free), which decides.
SPECIFICATION Spec
CONSTANTS
  MaxId = 2
  Threads = {1, 2, 3, 5}
  Adders = {1}
  Deleters = {2}
  Readers = {3}
  Getters = {}
  Interrupters = {5}
  Fixed = TRUE
  LockedInterrupt = FALSE
  Contig = TRUE
  KeepHist = 1
VIEW NoHistView
INVARIANTS
  CandidateOut
CHECK_DEADLOCK FALSE
