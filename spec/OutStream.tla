------------------------------ MODULE OutStream ------------------------------
(***************************************************************************)
(* C08 -- internal/outputstream/outputstream.go under concurrency.         *)
(*                                                                         *)
(* One action per critical section of messagesMu (the lock is free at      *)
(* every action boundary, so no lock variable is needed):                  *)
(*   Add, Delete, Get, Interrupt : Lock/RLock .. Unlock/RUnlock            *)
(*   GetNext R1  : RLock .. RUnlock (four-case table + range search)       *)
(*   GetNext W   : Lock (W0) or re-acquisition after Wait (W1) .. one loop *)
(*                 iteration .. Unlock (return) or entry of Wait           *)
(*   GetNext Wreg: inside newMessage.Wait(): register as waiter + release  *)
(*                 the lock (park = W2)                                    *)
(* DESIGN.md names W0/W1/W2: here  pc = "W" /\ self \notin waiting  is W0  *)
(* (blocked at Lock) or W1 (woken, re-acquiring), and                      *)
(* pc = "W" /\ self \in waiting  is W2 (parked in newMessage.Wait()).      *)
(* Between W and Wreg the reader still holds messagesMu (holder = self)    *)
(* and is not yet a waiter: everything that takes messagesMu is excluded,  *)
(* but lock-free events are not: Cancel (the caller's context cancel       *)
(* function never takes a lock) and, sync.Cond permitting Broadcast        *)
(* without c.L, InterruptGetNext if the code broadcasts without taking     *)
(* messagesMu (LockedInterrupt = FALSE; the harness reads this from the    *)
(* code under test at run time).  A Broadcast landing there is lost.       *)
(*                                                                         *)
(* Fixed = FALSE models the pinned tree: in the wait loop                  *)
(*   current, _ = os.getUnlocked(id of current) ; current.NextID           *)
(* dereferences nil when `current` was deleted (label Crash, finding F10). *)
(* A second defect of the pinned tree found with this model: a reader      *)
(* waiting behind the sentinel 0 (or any batch that outlives its           *)
(* successor) whose NextID target is compacted away before the reader      *)
(* looks waits for ever although newer batches exist (F10b).               *)
(* Fixed = TRUE models proposed_fixes/F10-getnext-deleted-current.diff:    *)
(* when `current` vanished or its NextID dangles, range-search the         *)
(* smallest id > lastseen.Id, return it if present, otherwise continue     *)
(* behind the last batch.                                                  *)
(*                                                                         *)
(* Program scope (property text): Adds in increasing id order; Delete of   *)
(* the oldest live batch or of a non-existing id at any time; Delete of    *)
(* any other batch only while no GetNext call is in flight; GetNext(x) for *)
(* positions 0..max id ever added (existing, deleted, never existing).     *)
(***************************************************************************)
EXTENDS Integers, Sequences, FiniteSets, TLC, Json

CONSTANTS
  MaxId,          \* ids are 1..MaxId, 0 is the sentinel batch
  Threads,        \* goroutines
  Adders, Deleters, Readers, Getters, Interrupters,   \* roles, subsets of Threads
  Fixed,          \* TRUE: repaired wait loop, FALSE: pinned tree (Crash reachable)
  Contig,         \* TRUE: Add uses maxAdded+1 only; FALSE: any larger id (gaps)
  LockedInterrupt,\* TRUE: InterruptGetNext takes messagesMu (pinned tree), FALSE: lock-free Broadcast
  KeepHist        \* 0 no history, 1 operations, 2 operations + projected post state

NoNext == -1      \* math.MaxUint64 in NextID; also "no successor"

Max(S) == CHOOSE m \in S : \A j \in S : j <= m
Min(S) == CHOOSE m \in S : \A j \in S : m <= j
MinSucc(S, p) == LET G == {i \in S : i > p} IN IF G = {} THEN NoNext ELSE Min(G)
Drop(f, k) == [i \in DOMAIN f \ {k} |-> f[i]]

(* getUnlocked(id): cache first, then LevelDB; a miss in the cache that hits *)
(* the database fills the cache.  d = db, c = cache.                        *)
Has(d, c, id)  == id \in DOMAIN c \/ id \in DOMAIN d
Nxt(d, c, id)  == IF id \in DOMAIN c THEN c[id] ELSE d[id]
Fill(d, c, id) == IF id \in DOMAIN c \/ id \notin DOMAIN d THEN c ELSE (id :> d[id]) @@ c

(* GetNext, first critical section (RLock..RUnlock).                        *)
(* Result: ret = id of the batch returned (NoNext: none, go on to wait      *)
(* behind batch `cur`), cache = cache after the lookups.                    *)
R1(d, c, p) ==
  LET okx   == Has(d, c, p)
      c1    == Fill(d, c, p)
      nx    == IF okx THEN Nxt(d, c, p) ELSE NoNext
      oknx  == okx /\ nx # NoNext /\ Has(d, c1, nx)
      c2    == IF okx /\ nx # NoNext THEN Fill(d, c1, nx) ELSE c1
      srch  == ~okx \/ (nx # NoNext /\ ~oknx)     \* x missing, or NextID dangling
      m     == MinSucc(DOMAIN d, p)               \* iterator over [x+1, inf)
  IN  IF oknx THEN [ret |-> nx, cur |-> 0, cache |-> c2]
      ELSE IF srch
           THEN IF m # NoNext THEN [ret |-> m, cur |-> 0, cache |-> c2]
                ELSE [ret |-> NoNext, cur |-> Max(DOMAIN d), cache |-> c2]  \* i.Last()
           ELSE [ret |-> NoNext, cur |-> p, cache |-> c2]

(* GetNext, one iteration of the wait loop under the write lock.            *)
(* k = "crash" | "ret" (batch id) | "empty" (ctx done) | "park" (Wait).     *)
(* Pinned tree (Fixed = FALSE): re-read `current` by id (nil dereference if *)
(* it is gone), look up current.NextID, otherwise wait -- also when NextID  *)
(* points to a deleted batch.  Repaired (Fixed = TRUE): when `current` is   *)
(* gone or its NextID dangles, range-search the smallest id > lastseen.Id   *)
(* and return it; if there is none continue behind the last batch.          *)
WStep(d, c, p, cu, canc) ==
  LET okc  == Has(d, c, cu)
      c1   == IF okc THEN Fill(d, c, cu) ELSE c
      nx   == IF okc THEN Nxt(d, c, cu) ELSE NoNext
      oknx == okc /\ nx # NoNext /\ Has(d, c1, nx)
      c2   == IF okc /\ nx # NoNext THEN Fill(d, c1, nx) ELSE c1
      srch == Fixed /\ (~okc \/ (nx # NoNext /\ ~oknx))
      m    == MinSucc(DOMAIN d, p)               \* iterator over [x+1, inf)
      cu2  == IF srch THEN Max(DOMAIN d) ELSE cu  \* i.Last()
  IN  IF ~okc /\ ~Fixed THEN [k |-> "crash", id |-> 0, cur |-> cu, cache |-> c]
      ELSE IF oknx THEN [k |-> "ret", id |-> nx, cur |-> 0, cache |-> c2]
      ELSE IF srch /\ m # NoNext THEN [k |-> "ret", id |-> m, cur |-> 0, cache |-> c2]
      ELSE IF canc THEN [k |-> "empty", id |-> 0, cur |-> 0, cache |-> c2]
      ELSE [k |-> "park", id |-> 0, cur |-> cu2, cache |-> c2]

NoRet == [t |-> 0, k |-> "none", id |-> 0, seen |-> {}, c |-> FALSE]

(* --algorithm OutStream
variables
  db = (0 :> NoNext),     \* LevelDB keyspace: id -> NextID (messages are a function of id)
  tail = 0,               \* lastseen.Messages[0].Id.Id (lastseen.NextID = MaxUint64 outside Add)
  cache = << >>,          \* messagesCache: id -> NextID at the time it was decoded
  waiting = {},           \* goroutines parked in newMessage.Wait()
  holder = 0,             \* reader that entered Wait() and still holds messagesMu, 0 if none
  cancelled = [t \in Threads |-> FALSE],   \* ctx of t's current (or next) GetNext call
  x   = [t \in Threads |-> 0],             \* GetNext argument lastseen.Id while in flight
  cur = [t \in Threads |-> 0],             \* id of local `current` in the wait loop
  \* ---- ghost / observation variables (the sorted-map view of the property)
  live = {},              \* ids added and not deleted
  maxAdded = 0,
  seen = [t \in Threads |-> {}],   \* minimal successors of x[t] observed during t's call
  cw   = [t \in Threads |-> FALSE],\* a Broadcast happened while t was in flight and cancelled
  lastret = NoRet,        \* value returned by the last step (if it returned one)
  hist = << >>;

define
  InFlight(t) == pc[t] \in {"W", "Wreg"}
  Parked(t)   == pc[t] = "W" /\ t \in waiting
  Runnable(t) == (pc[t] = "W" /\ t \notin waiting) \/ pc[t] = "Wreg"
  AnyInFlight == \E t \in Threads : InFlight(t)

  AddChoices == {i \in (maxAdded + 1)..MaxId : Contig => i = maxAdded + 1}
  DelChoices == {i \in 1..MaxId : i \notin live \/ i = Min(live) \/ ~AnyInFlight}

  SeenUpd(lv) == [t \in Threads |-> IF InFlight(t) THEN seen[t] \cup {MinSucc(lv, x[t])}
                                                 ELSE seen[t]]
  CwUpd == [t \in Threads |-> cw[t] \/ (InFlight(t) /\ cancelled[t])]

  Pairs(f) == {<<i, f[i]>> : i \in DOMAIN f}
  Proj(d, tl, c, w, h) == [db |-> Pairs(d), tail |-> tl, cache |-> Pairs(c), waiting |-> w, holder |-> h]
end define;

macro Log(a, arg, pos)
begin
  hist := IF KeepHist = 0 THEN hist
          ELSE IF KeepHist = 1 THEN Append(hist, [t |-> self, a |-> a, arg |-> arg])
          ELSE Append(hist, [t |-> self, a |-> a, arg |-> arg, pos |-> pos, ret |-> lastret,
                             post |-> Proj(db, tail, cache, waiting, holder)]);
end macro;

process Thread \in Threads
begin
Start:
  while TRUE do
    either
      \* ---------------------------------------------------------------- Add
      await self \in Adders /\ holder = 0;
      with id \in AddChoices do
        \* batch.Put(lastseen with NextID = id); batch.Put(new tail); db.Write
        db := (id :> NoNext) @@ (tail :> id) @@ db;
        cache := Drop(cache, tail);
        tail := id;
        waiting := {};                      \* newMessage.Broadcast()
        live := live \cup {id};
        maxAdded := id;
        seen := SeenUpd(live);
        cw := CwUpd;
        lastret := NoRet;
        Log("Add", id, "idle");
      end with;
    or
      \* ------------------------------------------------------------- Delete
      await self \in Deleters /\ holder = 0;
      with id \in DelChoices do
        if id = tail then
          \* i.Last(); i.Prev(): lastseen := previous batch, NextID := MaxUint64, Put
          with last = Max(DOMAIN db), prev = Max(DOMAIN db \ {Max(DOMAIN db)}) do
            tail := prev;
            db := Drop([db EXCEPT ![prev] = NoNext], id);
          end with;
        else
          db := Drop(db, id);
        end if;
        cache := Drop(cache, id);
        live := live \ {id};
        seen := SeenUpd(live);
        lastret := NoRet;
        Log("Delete", id, "idle");
      end with;
    or
      \* ---------------------------------------------------------------- Get
      await self \in Getters /\ holder = 0;
      with id \in 0..MaxId do
        lastret := [t |-> self, k |-> IF Has(db, cache, id) THEN "got" ELSE "miss", id |-> id,
                    seen |-> {}, c |-> id \in live];
        cache := Fill(db, cache, id);
        Log("Get", id, "idle");
      end with;
    or
      \* ---------------------------------------------------- InterruptGetNext
      await self \in Interrupters /\ (LockedInterrupt => holder = 0);
      waiting := {};
      cw := CwUpd;
      lastret := NoRet;
      Log("Interrupt", 0, "idle");
    or
      \* ------------------------------------------- cancel(ctx of reader r)
      await self \in Interrupters;
      with r \in Readers do
        cancelled[r] := TRUE;               \* idempotent
        lastret := NoRet;
        Log("Cancel", r, "idle");
      end with;
    or
      \* ------------------------------------- GetNext(x): R1 = RLock..RUnlock
      await self \in Readers /\ holder = 0;
      with p \in 0..maxAdded, r = R1(db, cache, p) do
        cache := r.cache;
        if r.ret # NoNext then
          lastret := [t |-> self, k |-> "next", id |-> r.ret, seen |-> {MinSucc(live, p)},
                      c |-> cancelled[self]];
          cancelled[self] := FALSE;         \* the next call gets a fresh context
          Log("GetNext", p, "idle");
        else
          x[self] := p;
          cur[self] := r.cur;
          seen[self] := {MinSucc(live, p)};
          cw[self] := FALSE;
          lastret := NoRet;
          Log("GetNext", p, "lock");
          goto W;
        end if;
      end with;
    end either;
  end while;

W:  \* messagesMu.Lock() / return from Wait(): one iteration of the wait loop
  await self \notin waiting /\ holder = 0;
  with w = WStep(db, cache, x[self], cur[self], cancelled[self]) do
    if w.k = "crash" then
      lastret := NoRet;
      Log("W", 0, "crash");
      goto Crash;
    elsif w.k = "park" then
      cache := w.cache;
      cur[self] := w.cur;
      holder := self;                       \* entering newMessage.Wait(), lock still held
      lastret := NoRet;
      Log("W", 0, "waitentry");
      goto Wreg;
    else
      cache := w.cache;
      lastret := [t |-> self, k |-> IF w.k = "ret" THEN "next" ELSE "empty", id |-> w.id,
                  seen |-> seen[self], c |-> cancelled[self]];
      x[self] := 0;
      cur[self] := 0;
      seen[self] := {};
      cw[self] := FALSE;
      cancelled[self] := FALSE;
      Log("W", 0, "idle");
      goto Start;
    end if;
  end with;

Wreg:  \* inside newMessage.Wait(): register as waiter, release messagesMu, park
  waiting := waiting \cup {self};
  holder := 0;
  lastret := NoRet;
  Log("Wreg", 0, "parked");
  goto W;

Crash:  \* nil pointer dereference with messagesMu held: the process dies
  await FALSE;
end process;
end algorithm; *)
\* BEGIN TRANSLATION
VARIABLES pc, db, tail, cache, waiting, holder, cancelled, x, cur, live, 
          maxAdded, seen, cw, lastret, hist

(* define statement *)
InFlight(t) == pc[t] \in {"W", "Wreg"}
Parked(t)   == pc[t] = "W" /\ t \in waiting
Runnable(t) == (pc[t] = "W" /\ t \notin waiting) \/ pc[t] = "Wreg"
AnyInFlight == \E t \in Threads : InFlight(t)

AddChoices == {i \in (maxAdded + 1)..MaxId : Contig => i = maxAdded + 1}
DelChoices == {i \in 1..MaxId : i \notin live \/ i = Min(live) \/ ~AnyInFlight}

SeenUpd(lv) == [t \in Threads |-> IF InFlight(t) THEN seen[t] \cup {MinSucc(lv, x[t])}
                                               ELSE seen[t]]
CwUpd == [t \in Threads |-> cw[t] \/ (InFlight(t) /\ cancelled[t])]

Pairs(f) == {<<i, f[i]>> : i \in DOMAIN f}
Proj(d, tl, c, w, h) == [db |-> Pairs(d), tail |-> tl, cache |-> Pairs(c), waiting |-> w, holder |-> h]


vars == << pc, db, tail, cache, waiting, holder, cancelled, x, cur, live, 
           maxAdded, seen, cw, lastret, hist >>

ProcSet == (Threads)

Init == (* Global variables *)
        /\ db = (0 :> NoNext)
        /\ tail = 0
        /\ cache = << >>
        /\ waiting = {}
        /\ holder = 0
        /\ cancelled = [t \in Threads |-> FALSE]
        /\ x = [t \in Threads |-> 0]
        /\ cur = [t \in Threads |-> 0]
        /\ live = {}
        /\ maxAdded = 0
        /\ seen = [t \in Threads |-> {}]
        /\ cw = [t \in Threads |-> FALSE]
        /\ lastret = NoRet
        /\ hist = << >>
        /\ pc = [self \in ProcSet |-> "Start"]

Start(self) == /\ pc[self] = "Start"
               /\ \/ /\ self \in Adders /\ holder = 0
                     /\ \E id \in AddChoices:
                          /\ db' = (id :> NoNext) @@ (tail :> id) @@ db
                          /\ cache' = Drop(cache, tail)
                          /\ tail' = id
                          /\ waiting' = {}
                          /\ live' = (live \cup {id})
                          /\ maxAdded' = id
                          /\ seen' = SeenUpd(live')
                          /\ cw' = CwUpd
                          /\ lastret' = NoRet
                          /\ hist' = (IF KeepHist = 0 THEN hist
                                      ELSE IF KeepHist = 1 THEN Append(hist, [t |-> self, a |-> "Add", arg |-> id])
                                      ELSE Append(hist, [t |-> self, a |-> "Add", arg |-> id, pos |-> "idle", ret |-> lastret',
                                                         post |-> Proj(db', tail', cache', waiting', holder)]))
                     /\ pc' = [pc EXCEPT ![self] = "Start"]
                     /\ UNCHANGED <<cancelled, x, cur>>
                  \/ /\ self \in Deleters /\ holder = 0
                     /\ \E id \in DelChoices:
                          /\ IF id = tail
                                THEN /\ LET last == Max(DOMAIN db) IN
                                          LET prev == Max(DOMAIN db \ {Max(DOMAIN db)}) IN
                                            /\ tail' = prev
                                            /\ db' = Drop([db EXCEPT ![prev] = NoNext], id)
                                ELSE /\ db' = Drop(db, id)
                                     /\ tail' = tail
                          /\ cache' = Drop(cache, id)
                          /\ live' = live \ {id}
                          /\ seen' = SeenUpd(live')
                          /\ lastret' = NoRet
                          /\ hist' = (IF KeepHist = 0 THEN hist
                                      ELSE IF KeepHist = 1 THEN Append(hist, [t |-> self, a |-> "Delete", arg |-> id])
                                      ELSE Append(hist, [t |-> self, a |-> "Delete", arg |-> id, pos |-> "idle", ret |-> lastret',
                                                         post |-> Proj(db', tail', cache', waiting, holder)]))
                     /\ pc' = [pc EXCEPT ![self] = "Start"]
                     /\ UNCHANGED <<waiting, cancelled, x, cur, maxAdded, cw>>
                  \/ /\ self \in Getters /\ holder = 0
                     /\ \E id \in 0..MaxId:
                          /\ lastret' = [t |-> self, k |-> IF Has(db, cache, id) THEN "got" ELSE "miss", id |-> id,
                                         seen |-> {}, c |-> id \in live]
                          /\ cache' = Fill(db, cache, id)
                          /\ hist' = (IF KeepHist = 0 THEN hist
                                      ELSE IF KeepHist = 1 THEN Append(hist, [t |-> self, a |-> "Get", arg |-> id])
                                      ELSE Append(hist, [t |-> self, a |-> "Get", arg |-> id, pos |-> "idle", ret |-> lastret',
                                                         post |-> Proj(db, tail, cache', waiting, holder)]))
                     /\ pc' = [pc EXCEPT ![self] = "Start"]
                     /\ UNCHANGED <<db, tail, waiting, cancelled, x, cur, live, maxAdded, seen, cw>>
                  \/ /\ self \in Interrupters /\ (LockedInterrupt => holder = 0)
                     /\ waiting' = {}
                     /\ cw' = CwUpd
                     /\ lastret' = NoRet
                     /\ hist' = (IF KeepHist = 0 THEN hist
                                 ELSE IF KeepHist = 1 THEN Append(hist, [t |-> self, a |-> "Interrupt", arg |-> 0])
                                 ELSE Append(hist, [t |-> self, a |-> "Interrupt", arg |-> 0, pos |-> "idle", ret |-> lastret',
                                                    post |-> Proj(db, tail, cache, waiting', holder)]))
                     /\ pc' = [pc EXCEPT ![self] = "Start"]
                     /\ UNCHANGED <<db, tail, cache, cancelled, x, cur, live, maxAdded, seen>>
                  \/ /\ self \in Interrupters
                     /\ \E r \in Readers:
                          /\ cancelled' = [cancelled EXCEPT ![r] = TRUE]
                          /\ lastret' = NoRet
                          /\ hist' = (IF KeepHist = 0 THEN hist
                                      ELSE IF KeepHist = 1 THEN Append(hist, [t |-> self, a |-> "Cancel", arg |-> r])
                                      ELSE Append(hist, [t |-> self, a |-> "Cancel", arg |-> r, pos |-> "idle", ret |-> lastret',
                                                         post |-> Proj(db, tail, cache, waiting, holder)]))
                     /\ pc' = [pc EXCEPT ![self] = "Start"]
                     /\ UNCHANGED <<db, tail, cache, waiting, x, cur, live, maxAdded, seen, cw>>
                  \/ /\ self \in Readers /\ holder = 0
                     /\ \E p \in 0..maxAdded:
                          LET r == R1(db, cache, p) IN
                            /\ cache' = r.cache
                            /\ IF r.ret # NoNext
                                  THEN /\ lastret' = [t |-> self, k |-> "next", id |-> r.ret, seen |-> {MinSucc(live, p)},
                                                      c |-> cancelled[self]]
                                       /\ cancelled' = [cancelled EXCEPT ![self] = FALSE]
                                       /\ hist' = (IF KeepHist = 0 THEN hist
                                                   ELSE IF KeepHist = 1 THEN Append(hist, [t |-> self, a |-> "GetNext", arg |-> p])
                                                   ELSE Append(hist, [t |-> self, a |-> "GetNext", arg |-> p, pos |-> "idle", ret |-> lastret',
                                                                      post |-> Proj(db, tail, cache', waiting, holder)]))
                                       /\ pc' = [pc EXCEPT ![self] = "Start"]
                                       /\ UNCHANGED << x, cur, seen, cw >>
                                  ELSE /\ x' = [x EXCEPT ![self] = p]
                                       /\ cur' = [cur EXCEPT ![self] = r.cur]
                                       /\ seen' = [seen EXCEPT ![self] = {MinSucc(live, p)}]
                                       /\ cw' = [cw EXCEPT ![self] = FALSE]
                                       /\ lastret' = NoRet
                                       /\ hist' = (IF KeepHist = 0 THEN hist
                                                   ELSE IF KeepHist = 1 THEN Append(hist, [t |-> self, a |-> "GetNext", arg |-> p])
                                                   ELSE Append(hist, [t |-> self, a |-> "GetNext", arg |-> p, pos |-> "lock", ret |-> lastret',
                                                                      post |-> Proj(db, tail, cache', waiting, holder)]))
                                       /\ pc' = [pc EXCEPT ![self] = "W"]
                                       /\ UNCHANGED cancelled
                     /\ UNCHANGED <<db, tail, waiting, live, maxAdded>>
               /\ UNCHANGED holder

W(self) == /\ pc[self] = "W"
           /\ self \notin waiting /\ holder = 0
           /\ LET w == WStep(db, cache, x[self], cur[self], cancelled[self]) IN
                IF w.k = "crash"
                   THEN /\ lastret' = NoRet
                        /\ hist' = (IF KeepHist = 0 THEN hist
                                    ELSE IF KeepHist = 1 THEN Append(hist, [t |-> self, a |-> "W", arg |-> 0])
                                    ELSE Append(hist, [t |-> self, a |-> "W", arg |-> 0, pos |-> "crash", ret |-> lastret',
                                                       post |-> Proj(db, tail, cache, waiting, holder)]))
                        /\ pc' = [pc EXCEPT ![self] = "Crash"]
                        /\ UNCHANGED << cache, holder, cancelled, x, cur, seen, 
                                        cw >>
                   ELSE /\ IF w.k = "park"
                              THEN /\ cache' = w.cache
                                   /\ cur' = [cur EXCEPT ![self] = w.cur]
                                   /\ holder' = self
                                   /\ lastret' = NoRet
                                   /\ hist' = (IF KeepHist = 0 THEN hist
                                               ELSE IF KeepHist = 1 THEN Append(hist, [t |-> self, a |-> "W", arg |-> 0])
                                               ELSE Append(hist, [t |-> self, a |-> "W", arg |-> 0, pos |-> "waitentry", ret |-> lastret',
                                                                  post |-> Proj(db, tail, cache', waiting, holder')]))
                                   /\ pc' = [pc EXCEPT ![self] = "Wreg"]
                                   /\ UNCHANGED << cancelled, x, seen, cw >>
                              ELSE /\ cache' = w.cache
                                   /\ lastret' = [t |-> self, k |-> IF w.k = "ret" THEN "next" ELSE "empty", id |-> w.id,
                                                  seen |-> seen[self], c |-> cancelled[self]]
                                   /\ x' = [x EXCEPT ![self] = 0]
                                   /\ cur' = [cur EXCEPT ![self] = 0]
                                   /\ seen' = [seen EXCEPT ![self] = {}]
                                   /\ cw' = [cw EXCEPT ![self] = FALSE]
                                   /\ cancelled' = [cancelled EXCEPT ![self] = FALSE]
                                   /\ hist' = (IF KeepHist = 0 THEN hist
                                               ELSE IF KeepHist = 1 THEN Append(hist, [t |-> self, a |-> "W", arg |-> 0])
                                               ELSE Append(hist, [t |-> self, a |-> "W", arg |-> 0, pos |-> "idle", ret |-> lastret',
                                                                  post |-> Proj(db, tail, cache', waiting, holder)]))
                                   /\ pc' = [pc EXCEPT ![self] = "Start"]
                                   /\ UNCHANGED holder
           /\ UNCHANGED << db, tail, waiting, live, maxAdded >>

Wreg(self) == /\ pc[self] = "Wreg"
              /\ waiting' = (waiting \cup {self})
              /\ holder' = 0
              /\ lastret' = NoRet
              /\ hist' = (IF KeepHist = 0 THEN hist
                          ELSE IF KeepHist = 1 THEN Append(hist, [t |-> self, a |-> "Wreg", arg |-> 0])
                          ELSE Append(hist, [t |-> self, a |-> "Wreg", arg |-> 0, pos |-> "parked", ret |-> lastret',
                                             post |-> Proj(db, tail, cache, waiting', holder')]))
              /\ pc' = [pc EXCEPT ![self] = "W"]
              /\ UNCHANGED << db, tail, cache, cancelled, x, cur, live, 
                              maxAdded, seen, cw >>

Crash(self) == /\ pc[self] = "Crash"
               /\ FALSE
               /\ pc' = [pc EXCEPT ![self] = "Done"]
               /\ UNCHANGED << db, tail, cache, waiting, holder, cancelled, x, 
                               cur, live, maxAdded, seen, cw, lastret, hist >>

Thread(self) == Start(self) \/ W(self) \/ Wreg(self) \/ Crash(self)

(* Allow infinite stuttering to prevent deadlock on termination. *)
Terminating == /\ \A self \in ProcSet: pc[self] = "Done"
               /\ UNCHANGED vars

Next == (\E self \in Threads: Thread(self))
           \/ Terminating

Spec == Init /\ [][Next]_vars

Termination == <>(\A self \in ProcSet: pc[self] = "Done")

\* END TRANSLATION

-----------------------------------------------------------------------------
(* Design invariants (implementation level).                                *)
TypeOK ==
  /\ DOMAIN db \subseteq 0..MaxId
  /\ \A i \in DOMAIN db : db[i] \in (1..MaxId) \cup {NoNext}
  /\ tail \in 0..MaxId
  /\ DOMAIN cache \subseteq 0..MaxId
  /\ waiting \subseteq Threads
  /\ holder \in Threads \cup {0}
  /\ live \subseteq 1..MaxId

DbInv ==
  /\ DOMAIN db = live \cup {0}
  /\ tail = Max(DOMAIN db)
  /\ db[tail] = NoNext
  /\ \A i \in DOMAIN db : db[i] # NoNext => db[i] > i
  /\ DOMAIN cache \subseteq DOMAIN db
     \* a cached entry is current, or it is the tail's stale pointer to a deleted ex-tail
  /\ \A i \in DOMAIN cache : cache[i] = db[i] \/ (i = tail /\ cache[i] \notin DOMAIN db)
  /\ \A t \in waiting : pc[t] = "W"
  /\ \A t \in Threads : pc[t] \in {"W", "Wreg"} => t \in Readers
  /\ \A t \in Threads : pc[t] = "Wreg" <=> holder = t

(* Property predicates (also evaluated on the real code by OutStreamTrace). *)
NoCrash == \A t \in Threads : pc[t] # "Crash"

\* the batch returned by GetNext(x) was the smallest id > x at some instant of the call
NextCorrect == lastret.k = "next" => (lastret.id # NoNext /\ lastret.id \in lastret.seen)

\* GetNext returns empty only if its context was cancelled, and only if at some
\* instant of the call there was no successor
EmptyOnlyCancelled == lastret.k = "empty" => lastret.c
EmptyMeansNone     == lastret.k = "empty" => NoNext \in lastret.seen

\* Get(id) finds the batch iff it is live (0 is the sentinel batch)
GetExact == /\ lastret.k = "got"  => (lastret.c \/ lastret.id = 0)
            /\ lastret.k = "miss" => ~lastret.c /\ lastret.id # 0

\* safety form of liveness: when no reader can take a step, no parked reader has a
\* successor, and none is parked although cancelled and woken since
Quiescent == \A t \in Threads : ~Runnable(t)
QuiescentLive ==
  Quiescent => \A t \in waiting : MinSucc(live, x[t]) = NoNext /\ ~cw[t]

\* holds at every state: a parked (not woken) reader has no successor ("returns as
\* soon as one is added"), and was not woken since its context was cancelled
ParkedNoSucc == \A t \in waiting : MinSucc(live, x[t]) = NoNext
ParkedNotCw  == \A t \in waiting : ~cw[t]

(* Liveness under weak fairness of the readers' own steps (nobody else has  *)
(* to be fair).  Live: a reader cannot stay in flight for ever while from    *)
(* some point on a successor of its position always exists.  CancelReturns:  *)
(* cancelled and woken (Broadcast after the cancel) leads to a return.       *)
\* (strong fairness for W: it is disabled while another reader sits between W and Wreg)
FairSpec == Spec /\ \A t \in Readers : SF_vars(W(t)) /\ WF_vars(Wreg(t))
Live == \A t \in Readers :
          []<>(~InFlight(t) \/ MinSucc(live, x[t]) = NoNext)
CancelReturns == \A t \in Readers :
          (InFlight(t) /\ cancelled[t] /\ cw[t]) ~> ~InFlight(t)

(* Views / helpers for behaviour extraction.                                 *)
NoHistView == <<db, tail, cache, waiting, holder, cancelled, x, cur, live, maxAdded, seen, cw, lastret, pc>>

\* simulation (KeepHist = 2): print the behaviour when it reaches the depth bound
BehaviourOut ==
  TLCGet("level") < TLCGet("config").depth \/ PrintT(<<"BEHAVIOUR", ToJson(hist)>>)

\* edge cover (KeepHist = 2, VIEW NoHistView, ACTION_CONSTRAINT EdgeOut): TLC
\* evaluates an action constraint once per transition of the state graph; hist'
\* is a shortest behaviour to the source state followed by this transition, so
\* one behaviour per transition is printed.  Always TRUE.
EdgeOut == PrintT(<<"EDGE", ToJson(hist')>>)

\* defect models (Fixed = FALSE and/or LockedInterrupt = FALSE; KeepHist = 1, VIEW
\* NoHistView): print one shortest behaviour per state in which the step just taken
\* crashed a reader or parked it although a successor exists or although it is
\* cancelled and was woken since.  Always TRUE: exploration continues.
CandidateOut ==
  LET h == hist[Len(hist)] IN
  (Len(hist) = 0 \/ h.a \notin {"W", "Wreg"}
     \/ ~(pc[h.t] = "Crash"
           \/ (h.t \in waiting /\ (MinSucc(live, x[h.t]) # NoNext \/ cw[h.t]))))
  \/ PrintT(<<"CANDIDATE", ToJson(hist)>>)
=============================================================================
