\* Simulation over the full alphabet (two sessions, deletes, configs 10 s / 900 s /
\* unset, MaxSessions 1 / 2 with refused CreateSessions, invalid config, PANIC, raft-internal entries), logs up to 14 entries.
\* The node starts as a JSON node and is restarted as a protobuf node at most once (RestartWithEncoding).
\* Used with -simulate file=...; the check reads the history variable of each trace.
SPECIFICATION Spec
CONSTANTS
    Alphabet <- AlphaAll
    TS = {0, 3, 6, 30}
    Nows = {3, 61, 64, 70, 95, 160}
    Prelude <- PreludeSess
    DefaultExp = 60
    Grace = 1
    MaxLen = 14
    MaxGaps = 3
    MaxSnaps = 5
    MaxFails = 2
    MaxRestarts = 3
    MaxRestores = 2
    MaxPanics = 0
    FixF2 = TRUE
    FixF3 = TRUE
    InitEnc = "json"
    MaxMigrations = 1
VIEW view
INVARIANTS
    TypeOK
    StateIsFullReplay
    RestoreEqualsReplay
    LssSound
    NextBaseFound
    FoldedXorRetained
    OutputIffRetained
    HorizonRespected
    ExpInForce
    ModOnlyPanicking
    ModSkippedEverywhere
    ModProgress
    EncUniform
    SnapshotsReadable
CHECK_DEADLOCK FALSE
