\* exhaustive as far as the time limit allows, thorough tier: every sequence of 3 entries of the FULL alphabet after prologues 3 and 5
SPECIFICATION Spec
CONSTANTS
  NetName = "robustirc.net"
  MaxN = 3
  Families = {"reg", "member", "mode", "talk", "oper", "services", "entry", "addr", "time"}
  Prologues = {3, 7}
INVARIANT NoFailure
VIEW View
CHECK_DEADLOCK FALSE
