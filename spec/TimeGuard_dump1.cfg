\* model -> code replay, part 1 (root module TimeGuardMC): every single-peer
\* call of the full grid is printed (DumpFinished).
SPECIFICATION Spec
CONSTANTS
    ET = 4
    Deltas <- GridDeltas
    Delays <- GridDelays
    Starts = {0}
    MaxPeers = 1
CONSTRAINT DumpFinished
INVARIANTS
    TypeOK
    Sound
    RefusalNamesOffenders
    DisabledNeverRefuses
    NonAnsweringIgnored
CHECK_DEADLOCK FALSE
