\* C09 exhaustive configuration of the quick tier (root module RaftStoreMC):
\* complete reachable graph (no depth bound) of the reference map for 3 index
\* ranks {1,3,5} (+ gap ranks 0,2,4,6 as DeleteRange bounds), 1 stable key,
\* 1 byte value, 1 uint64 value, 4 StoreLog choices + 1 batch + 1 StoreLogProto
\* shape, 22 DeleteRange bound pairs, both encodings, Close/Kill/Open/ConvertToProto in every state.
\* EdgePrint prints every generated transition: checks/c09.py turns them into an
\* edge-covering tour that is executed on the real LevelDBStore.
\* Above = {}: no index rank sorts after the "stablestore-" keys in this graph; checks/c09.py
\* derives the variants Above = {1,3,5}, {5}, {3,5} of the tiny config at run time (thorough tier)
\* and executes every tour/behaviour under concretisations below, above and across that boundary.
SPECIFICATION Spec
CONSTANTS
    Idx <- TinyIdx
    Bounds <- TinyBounds
    Keys = {1}
    BVals = {2}
    UVals = {3}
    EntryChoices <- TinyEntries
    SeqChoices <- TinySeqs
    ProtoChoices <- TinyProtos
    RangeChoices <- TinyRanges
    EncChoices <- Encs
    Above = {}
    KeepHist = FALSE
    MaxOps = 0
VIEW SV
INVARIANTS TypeOK ObsConsistent ConvDiscipline
PROPERTIES StableNeverShadowsLog RestartKeepsEverything DeleteExact
ACTION_CONSTRAINT EdgePrint
