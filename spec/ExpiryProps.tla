---------------------------- MODULE ExpiryProps ----------------------------
(* The predicates of the session-expiry part of C17, as pure operators.  They *)
(* are used twice: by Expiry.tla (the design specification, on its own       *)
(* states) and by ExpiryTrace.tla (on what real robustirc processes did).    *)
(*                                                                           *)
(* Code they restate (internal/ircserver/ircserver.go, ExpireSessions):      *)
(*     if id.Reply != 0 { continue }                       -- Sweepable      *)
(*     if time.Since(s.LastActivity) <= timeout { continue } -- TooIdle      *)
EXTENDS Integers

\* a session whose last applied entry carries timestamp la is found by a sweep that
\* runs at time t under the configured expiration e
TooIdle(la, t, e) == t - la > e

\* services pseudo-clients (robust.Id.Reply # 0) are never proposed
Sweepable(reply) == reply = 0

\* OnlyIdleExpire, for one proposal of one sweep: r = [reply, la, T, exp] as the
\* sweeping node saw them at its tick T
SweepRecOK(r) == Sweepable(r.reply) /\ TooIdle(r.la, r.T, r.exp)

\* ActiveNeverExpires: a line of the session proposed at p that was certainly applied
\* before the tick T (lag: how long an entry may take from proposal to application)
\* and is not older than the expiration protects the session from that tick
ProtectedBy(p, T, e, lag) == p + lag < T /\ T - p <= e

Max2(a, b) == IF a >= b THEN a ELSE b
Min2(a, b) == IF a <= b THEN a ELSE b
=============================================================================
