\* exhaustive (thorough): log of up to 4 entries (lastProcessed moves BACK: create, create, delete, line of the
\* older session), no faults beyond the lag of the FSMs
SPECIFICATION Spec
CONSTANTS
    Nodes = {1, 2, 3}
    MaxLog = 4
    MaxCrash = 0
    MaxSpurious = 0
    MaxHops = 2
    FixedLeaderLag = TRUE
INVARIANTS TypeOK NeverGoneWhileAlive GoneOnlyIfDeleted NotYetSeenIsRetryable ServedOnlyByKnowing LookupSound EffectOnlyByLeader
CHECK_DEADLOCK FALSE
