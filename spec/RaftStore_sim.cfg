\* C09 simulation configuration (root module RaftStoreSim, -simulate -depth 41):
\* 5 index ranks {1,2,4,6,7} (1,2 and 6,7 adjacent), bounds 0..8, 3 keys, 3+3
\* values, all (term,type,payload,ext,time) shapes, batches of 2 and 3; one
\* pseudo-random argument tuple per operation kind and step.  Run with -deadlock.
\* Every behaviour of MaxOps operations is printed (SimPrint) and replayed on
\* the real store.
\* Above = {}: no index rank sorts after the "stablestore-" keys in this graph; checks/c09.py
\* derives the variants Above = {1,3,5}, {5}, {3,5} of the tiny config at run time (thorough tier)
\* and executes every tour/behaviour under concretisations below, above and across that boundary.
SPECIFICATION SimSpec
CONSTANTS
    Idx <- SimIdx
    Bounds <- SimBounds
    Keys = {1, 3, 5}
    BVals = {1, 3, 5}
    UVals = {1, 2, 5}
    EntryChoices <- NoChoice
    SeqChoices <- NoChoice
    ProtoChoices <- NoChoice
    RangeChoices <- NoChoice
    EncChoices <- Encs
    Above = {}
    KeepHist = TRUE
    MaxOps = 40
INVARIANTS TypeOK ObsConsistent ConvDiscipline SimPrint
PROPERTIES StableNeverShadowsLog RestartKeepsEverything DeleteExact
CONSTRAINT SimBound
