\* C04 simulation: larger constants than the exhaustive run; behaviours are
\* printed (Dump) and replayed on the real api.getMessages.
CONSTANTS
  Nodes = {1, 2}
  MaxBatches = 4
  MaxReplies = 3
  MaxReconnects = 5
  Fixed = TRUE
  Hist = TRUE
  D = 60
  NewBatches <- SimNewBatches
SPECIFICATION SimSpec
INVARIANTS
  DeliveredIsPrefix
  Dump
