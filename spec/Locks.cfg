\* Root module: the generated LocksOps.tla (sample: spec/LocksOps_sample.tla),
\* which INSTANCEs Locks with the extracted constants.
INIT Init
NEXT Next
INVARIANTS
  Inv
  LocksWellFormed
