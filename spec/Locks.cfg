\* Root module: the generated LocksOps.tla (or spec/LocksOps_sample.tla).
CONSTANTS
  Ops <- OpsDef
  LockNames <- LockNamesDef
  MultiThreads <- MultiThreadsDef
  SerialPairs <- SerialPairsDef
  NSlots <- NSlotsDef
  OnlyOps <- OnlyOpsDef
  Report <- ReportDef
INIT Init
NEXT Next
INVARIANTS
  Inv
  LocksWellFormed
