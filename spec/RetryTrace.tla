--------------------------- MODULE RetryTrace ---------------------------
(***************************************************************************)
(* Trace validation for C10: the observations recorded while behaviours of *)
(* Retry.tla were replayed on the single-node rig (real raft, real         *)
(* DispatchPublic/handlePostMessage, real FSM, child-process replicas) are *)
(* checked to be behaviours of the operators of Retry.tla, and the         *)
(* property predicates are evaluated on every OBSERVED step (the variables *)
(* `before`, `live`, `ev` hold what the real node reported, never what the *)
(* model expected).                                                        *)
(*                                                                         *)
(* One ND-JSON line per step, many replays concatenated, {"ev":"Reset"}    *)
(* between them.  Where the observation differs from the model the step is *)
(* counted as drift (printed) and the observation is adopted (Resync).     *)
(***************************************************************************)
EXTENDS Retry

VARIABLES l, before, ev, drift, olog
tvars == <<vars, l, before, ev, drift, olog>>

Trace == ndJsonDeserialize("Retry_trace.ndjson")

ObsState(e) == [exists |-> [s \in Sessions |-> e.exists[s]],
                marker |-> [s \in Sessions |-> e.markers[s]]]
Blank == [exists |-> [s \in Sessions |-> FALSE], marker |-> [s \in Sessions |-> 0]]
Idle  == [ev |-> "Reset"]

TInit ==
    /\ l = 0 /\ drift = 0 /\ ev = Idle /\ before = Blank /\ olog = <<>>
    /\ log = <<>> /\ live = Blank /\ init0 = Blank /\ snap = NoSnap
    /\ cl = [has |-> FALSE, c |-> 0, t |-> "msg", tries |-> 0]
    /\ cnt = [orig |-> 0, other |-> 0, snap |-> 0, restart |-> 0]
    /\ hist = <<>>
    /\ TLCSet(1, 0)

(* what the model expects for event e in the current (observed) state *)
Expected(e) ==
    CASE e.ev \in {"Post", "Retry", "Other"} ->
            LET hr == Handler(live, e.s, e.c)
                en == [t |-> e.t, s |-> e.s, c |-> e.c] IN
            [st |-> IF hr = "propose" THEN ApplyEntry(live, en) ELSE live,
             status |-> IF hr = "404" THEN 404 ELSE 200,
             appended |-> (hr = "propose")]
      [] e.ev = "Death" ->
            [st |-> ApplyEntry(live, [t |-> "death", s |-> "a", c |-> e.c]), status |-> 0, appended |-> TRUE]
      [] e.ev = "Restart"  -> [st |-> Restored, status |-> 0, appended |-> FALSE]
      [] OTHER             -> [st |-> live, status |-> 0, appended |-> FALSE]   \* Snapshot, Replica

Step ==
    /\ l < Len(Trace)
    /\ l' = l + 1
    /\ LET e == Trace[l + 1] IN
       /\ ev' = e
       /\ UNCHANGED <<cl, cnt, hist>>
       /\ IF e.ev = "Reset"
          THEN /\ live' = Blank /\ before' = Blank /\ log' = <<>> /\ olog' = <<>>
               /\ init0' = Blank /\ snap' = NoSnap /\ UNCHANGED drift
          ELSE IF e.ev = "Init"
          THEN LET m == [exists |-> [s \in Sessions |-> TRUE],
                         marker |-> [s \in Sessions |-> IF s = "a" /\ e.fresh THEN 0 ELSE PreludeCmid]] IN
               /\ live' = ObsState(e) /\ before' = ObsState(e) /\ init0' = ObsState(e)
               /\ log' = <<>> /\ olog' = <<>> /\ snap' = NoSnap
               /\ IF m = ObsState(e) THEN UNCHANGED drift
                  ELSE drift' = drift + 1 /\ TLCSet(1, TLCGet(1) + 1) /\ PrintT(<<"DRIFT", l + 1, e, m>>)
          ELSE LET x   == Expected(e)
                   obs == ObsState(e)
                   ok  == /\ x.st = obs
                          \* a session that is gone is refused with 404, or with 500 while the node cannot tell yet
                          \* whether it ever existed (its own QUIT was the last entry processed; F21 repair)
                          /\ (e.ev \in {"Post", "Retry", "Other"} =>
                                 /\ (x.status = e.status \/ (x.status = 404 /\ e.status = 500))
                                 /\ x.appended = e.appended)
                          /\ (e.ev = "Death" => e.appended) IN
               /\ before' = live
               /\ live' = IF e.ev = "Replica" THEN live ELSE obs      \* always the OBSERVED state
               /\ init0' = init0
               /\ snap' = IF e.ev = "Snapshot" THEN [idx |-> Len(log), st |-> live] ELSE snap
               /\ log' = IF e.ev \in {"Post", "Retry", "Other"} /\ e.appended
                         THEN Append(log, [t |-> e.t, s |-> e.s, c |-> e.c])
                         ELSE IF e.ev = "Death" THEN Append(log, [t |-> "death", s |-> "a", c |-> e.c])
                         ELSE log
               /\ olog' = log'
               /\ IF ok THEN UNCHANGED drift
                  ELSE drift' = drift + 1 /\ TLCSet(1, TLCGet(1) + 1) /\ PrintT(<<"DRIFT", l + 1, e, x>>)

TSpec == TInit /\ [][Step]_tvars

(* --------------- the property, on observed values only ------------------ *)
IsReq == ev.ev \in {"Post", "Retry", "Other"}

(* retry with cmid = marker on the handling node => 200, no entry, no output *)
ObsNoDoubleApply ==
    (IsReq /\ before.exists[ev.s] /\ before.marker[ev.s] = ev.c)
        => (ev.status = 200 /\ ~ev.appended /\ ev.out = 0)

(* no session ever gets two consecutive entries with the same id *)
ObsNoAdjacentDuplicate ==
    \A i, j \in 1..Len(olog) :
        (i < j /\ olog[i].s = olog[j].s /\ olog[i].c = olog[j].c)
            => \E k \in (i+1)..(j-1) : olog[k].s = olog[i].s

(* the marker survives snapshot/restore and restart *)
ObsMarkersSurvive == ev.ev = "Restart" => live = before

(* a message skipped as message of death still sets the marker *)
ObsDeathSetsMarker == (ev.ev = "Death" /\ before.exists["a"]) => live.marker["a"] = ev.c

(* replicas (same log / restored from the snapshot) agree with the live node *)
ObsReplicasAgree == ev.ev = "Replica" => ObsState(ev) = live

Accept ==
    /\ TLCGet("distinct") = Len(Trace) + 1
    /\ PrintT(<<"TRACE-ACCEPTED", Len(Trace), "drift", TLCGet(1)>>)
=============================================================================
