----------------------------- MODULE TimeGuard -----------------------------
(***************************************************************************)
(* C19 -- the start-up time check of robustirc                             *)
(* (internal/timesafeguard/timesafeguard.go).                              *)
(*                                                                         *)
(* One behaviour of this specification is one call of                      *)
(* SynchronizedWithNetwork / SynchronizedWithMasterAndNetwork:             *)
(*                                                                         *)
(*   collectTime        one getServerTime per peer.  A peer that answers   *)
(*                      yields timeResult{Start, End, Result}; a peer that *)
(*                      does not answer leaves the zero timeResult in its  *)
(*                      slot (collectTime: `if err != nil {...; return}`). *)
(*   synchronizedWithNetwork                                               *)
(*                      drops zero results, timeInSync over the rest,      *)
(*                      names the offenders, honours -disable_timesafeguard*)
(*                                                                         *)
(* Time is an integer (any unit).  For a peer that answered, with          *)
(*   delta  the TRUE clock offset (peer clock - local clock),              *)
(*   d1     the delay until the peer read its clock  (>= 0),               *)
(*   d2     the delay until the answer was decoded   (>= 0):               *)
(*   Result = Start + d1 + delta      End = Start + d1 + d2                *)
(* delta, d1, d2 are ghost fields of the measurement: the code only sees   *)
(* Start, End, Result.                                                     *)
(*                                                                         *)
(* The integers of this module are unbounded: it specifies the intended    *)
(* arithmetic (no wrap-around of time.Duration).                           *)
(*                                                                         *)
(* The module is kept free of TLC-only modules so that TLAPS               *)
(* (TimeGuard_proof.tla) reasons about the very same definitions that TLC  *)
(* enumerates.                                                             *)
(***************************************************************************)
EXTENDS Integers, Sequences, FiniteSets

CONSTANTS
    ET,        \* election timeout (2 s in the code), in the model's time unit
    Deltas,    \* set of true clock offsets explored by TLC
    Delays,    \* set of one-way delays explored by TLC (naturals)
    Starts,    \* set of local start times explored by TLC
    MaxPeers   \* a call measures 1..MaxPeers peers

VARIABLES
    pc,        \* "collect" | "done"
    flag,      \* TRUE iff -disable_timesafeguard
    n,         \* number of peers measured by this call
    meas,      \* sequence of measurements collected so far (slot order)
    verdict,   \* "none" | "join" | "refuse"
    named      \* set of slots named as conflicting (error text / log line)

vars == <<pc, flag, n, meas, verdict, named>>

Abs(x) == IF x < 0 THEN 0 - x ELSE x

(***************************************************************************)
(* getServerTime                                                           *)
(***************************************************************************)
Measurement(start, delta, d1, d2) ==
    [zero   |-> FALSE,
     start  |-> start,
     result |-> start + d1 + delta,
     end    |-> start + d1 + d2,
     delta  |-> delta, d1 |-> d1, d2 |-> d2]

\* the zero timeResult left in the slot of a peer that did not answer
NoAnswer ==
    [zero |-> TRUE, start |-> 0, result |-> 0, end |-> 0,
     delta |-> 0, d1 |-> 0, d2 |-> 0]

(***************************************************************************)
(* timeResult.worstCaseDrift, timeInSync                                   *)
(***************************************************************************)
WorstCaseDrift(m) == Abs(m.result - m.start) + (m.end - m.start)

TooFar(m) == WorstCaseDrift(m) >= ET

\* slots that survive the `Result.IsZero()` filter of synchronizedWithNetwork
NonZero(ms) == {i \in 1..Len(ms) : ~ms[i].zero}

TimeInSync(ms, idx) == \A i \in idx : ~TooFar(ms[i])

Offenders(ms) == {i \in NonZero(ms) : TooFar(ms[i])}

(***************************************************************************)
(* synchronizedWithNetwork as a function of its inputs                     *)
(***************************************************************************)
Decision(ms, disabled) ==
    IF TimeInSync(ms, NonZero(ms))
    THEN [verdict |-> "join", named |-> {}]
    ELSE IF disabled
         THEN [verdict |-> "join",   named |-> Offenders(ms)]  \* only logged
         ELSE [verdict |-> "refuse", named |-> Offenders(ms)]

(***************************************************************************)
(* Behaviours                                                              *)
(***************************************************************************)
Init ==
    /\ pc = "collect"
    /\ flag \in BOOLEAN
    /\ n \in 1..MaxPeers
    /\ meas = <<>>
    /\ verdict = "none"
    /\ named = {}

\* a peer answers: one getServerTime that returned err == nil
CollectAnswer ==
    /\ pc = "collect"
    /\ Len(meas) < n
    /\ \E s \in Starts, delta \in Deltas, d1 \in Delays, d2 \in Delays :
          meas' = Append(meas, Measurement(s, delta, d1, d2))
    /\ UNCHANGED <<pc, flag, n, verdict, named>>

\* a peer does not answer: its slot keeps the zero value
CollectNoAnswer ==
    /\ pc = "collect"
    /\ Len(meas) < n
    /\ meas' = Append(meas, NoAnswer)
    /\ UNCHANGED <<pc, flag, n, verdict, named>>

\* synchronizedWithNetwork, first return: `if timeInSync(nonZeroResults) { return nil }`
DecideInSync ==
    /\ pc = "collect"
    /\ Len(meas) = n
    /\ TimeInSync(meas, NonZero(meas))
    /\ verdict' = "join"
    /\ named' = {}
    /\ pc' = "done"
    /\ UNCHANGED <<flag, n, meas>>

\* second return: out of sync, but *DisableTimesafeguard: log and return nil
DecideDisabled ==
    /\ pc = "collect"
    /\ Len(meas) = n
    /\ ~TimeInSync(meas, NonZero(meas))
    /\ flag
    /\ verdict' = "join"
    /\ named' = Offenders(meas)
    /\ pc' = "done"
    /\ UNCHANGED <<flag, n, meas>>

\* third return: the error naming the conflicting remote times
DecideRefuse ==
    /\ pc = "collect"
    /\ Len(meas) = n
    /\ ~TimeInSync(meas, NonZero(meas))
    /\ ~flag
    /\ verdict' = "refuse"
    /\ named' = Offenders(meas)
    /\ pc' = "done"
    /\ UNCHANGED <<flag, n, meas>>

Next == CollectAnswer \/ CollectNoAnswer \/ DecideInSync \/ DecideDisabled \/ DecideRefuse

Spec == Init /\ [][Next]_vars

(***************************************************************************)
(* Types                                                                   *)
(***************************************************************************)
TypeOK ==
    /\ pc \in {"collect", "done"}
    /\ flag \in BOOLEAN
    /\ n \in 1..MaxPeers
    /\ Len(meas) <= n
    /\ verdict \in {"none", "join", "refuse"}
    /\ named \subseteq 1..Len(meas)
    /\ (pc = "done") = (verdict # "none")

(***************************************************************************)
(* The property (C19), as predicates over a finished call.                 *)
(* They are written over (ms, disabled, verdict, named) so that the trace  *)
(* specification can evaluate the same formulas on decisions recorded from *)
(* the real code.                                                          *)
(***************************************************************************)

\* joined with the safeguard active => every peer that answered is truly
\* closer than the election timeout
PSound(ms, disabled, v, nm) ==
    (v = "join" /\ ~disabled) =>
        \A i \in NonZero(ms) : Abs(ms[i].delta) < ET

\* a refusal names exactly the answering peers whose measured drift is too
\* large, and there is at least one
PRefusalNamesOffenders(ms, disabled, v, nm) ==
    (v = "refuse") => (nm = Offenders(ms) /\ nm # {})

\* -disable_timesafeguard => never refuses
PDisabledNeverRefuses(ms, disabled, v, nm) ==
    disabled => v # "refuse"

\* removing the slots of the peers that did not answer changes neither the
\* verdict nor the measurements that are named
Answered(ms) == SelectSeq(ms, LAMBDA m : ~m.zero)
NamedMeas(ms, nm) == {ms[i] : i \in nm}

PNonAnsweringIgnored(ms, disabled, v, nm) ==
    LET d == Decision(Answered(ms), disabled) IN
    /\ v = d.verdict
    /\ NamedMeas(ms, nm) = NamedMeas(Answered(ms), d.named)
    /\ \A i \in nm : ~ms[i].zero

Finished == pc = "done"

Sound                 == Finished => PSound(meas, flag, verdict, named)
RefusalNamesOffenders == Finished => PRefusalNamesOffenders(meas, flag, verdict, named)
DisabledNeverRefuses  == Finished => PDisabledNeverRefuses(meas, flag, verdict, named)
NonAnsweringIgnored   == Finished => PNonAnsweringIgnored(meas, flag, verdict, named)

\* the three returns agree with the function `Decision` (keeps the actions and
\* the operator used by the trace specification in step)
ActionsAreDecision ==
    Finished => (verdict = Decision(meas, flag).verdict /\ named = Decision(meas, flag).named)

(***************************************************************************)
(* Non-properties, kept as documentation and checked to FAIL by the        *)
(* vacuity configuration: the guard is conservative, i.e. it may refuse a  *)
(* node whose clock is fine when the round trip was long.                  *)
(***************************************************************************)
NeverConservative ==
    (Finished /\ verdict = "refuse") =>
        \E i \in NonZero(meas) : Abs(meas[i].delta) >= ET

=============================================================================
