\* the code as pinned: a node in state Leader whose FSM lags answers 404 "Session not yet seen";
\* NeverGoneWhileAlive is EXPECTED to be violated (the stage reproduces it on real binaries, scenario "newleader")
SPECIFICATION Spec
CONSTANTS
    Nodes = {1, 2, 3}
    MaxLog = 3
    MaxCrash = 1
    MaxSpurious = 0
    MaxHops = 2
    FixedLeaderLag = FALSE
INVARIANTS TypeOK NeverGoneWhileAlive
CHECK_DEADLOCK FALSE
